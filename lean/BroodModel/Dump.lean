/-
  BroodModel.Dump — canonical one-line rendering of a `World` (DESIGN §5.3) and its parser.

  The harness renders the real world (hook dump + all-optional query) in exactly this format; the
  driver renders the model state with `World.dump` and parses the real line back into a `World`
  (handles := ordinal of the archetype) so that `Inv` can be evaluated on the implementation.
-/
import BroodModel.Inv

namespace Brood

/-- Per-position component kinds (`s` small, `z` zero-sized, `l` over-aligned, `h` heap) and
resource kinds.  Zero-sized values carry no identity and print as `z`. -/
structure Kinds where
  comps : List Char
  res : List Char
deriving Repr, Inhabited

def resTy (p : Nat) : Nat := 100 + p

def Kinds.kindOf (k : Kinds) (ty : Nat) : Char :=
  if ty ≥ 100 then k.res.getD (ty - 100) 's' else k.comps.getD ty 's'

def valStr (k : Kinds) (v : Val) : String :=
  if k.kindOf v.ty == 'z' then "z" else toString v.id

def dropStr (k : Kinds) (v : Val) : String := s!"{v.ty}:{valStr k v}"

def dropsStr (k : Kinds) (vs : List Val) : String :=
  String.intercalate "," (sortStrings (vs.map (dropStr k)))

def handleMask (w : World) (h : Nat) : String :=
  match w.maskOf h with
  | some m => m.toStr
  | none => "?"

def slotStr (w : World) (s : Slot) : String :=
  match s.loc with
  | none => s!"{s.gen}:-"
  | some l => s!"{s.gen}:{handleMask w l.arch}@{l.row}"

def archStr (k : Kinds) (a : Arch) : String :=
  let ids := String.intercalate "," (a.ids.map (fun i => s!"{i.index}.{i.gen}"))
  let cols := a.cols.map (fun c => String.intercalate "," (c.map (valStr k)))
  a.mask.toStr ++ "[" ++ String.intercalate "|" (ids :: cols) ++ "]"

def World.dump (k : Kinds) (w : World) : String :=
  s!"len={w.len}" ++
  " slots=" ++ String.intercalate "," (w.alloc.slots.map (slotStr w)) ++
  " free=" ++ String.intercalate "," (w.alloc.free.map toString) ++
  " archs=" ++ String.intercalate ";" (sortStrings (w.archs.map (archStr k))) ++
  " typeids=" ++ String.intercalate "," (sortStrings (w.typeIds.map (fun p => handleMask w p.2))) ++
  " foreign=" ++ String.intercalate "," (sortStrings (w.foreign.map (fun p => handleMask w p.2))) ++
  " res=" ++ String.intercalate "," (w.res.map (valStr k))

/-! ### Parsing a dump line back into a `World` -/

def splitNE (s : String) (sep : String) : List String :=
  if s.isEmpty then [] else s.splitOn sep

def parseMask (s : String) : Option Mask :=
  s.toList.mapM (fun c => if c == '1' then some true else if c == '0' then some false else none)

def parseVal (ty : Nat) (s : String) : Option Val :=
  if s == "z" then some ⟨ty, 0⟩ else s.toNat?.map (fun id => ⟨ty, id⟩)

def parseIdentDot (s : String) : Option Ident :=
  match s.splitOn "." with
  | [a, b] => do some ⟨← a.toNat?, ← b.toNat?⟩
  | _ => none

/-- `mask[ids|col|col…]` with handle `h`. -/
def parseArch (h : Nat) (s : String) : Option Arch :=
  match s.splitOn "[" with
  | [m, rest] =>
    if !rest.endsWith "]" then none else
    let body := (rest.dropEnd 1).toString
    match body.splitOn "|" with
    | [] => none
    | idsS :: colsS => do
      let mask ← parseMask m
      let ids ← (splitNE idsS ",").mapM parseIdentDot
      let tys := mask.comps
      if colsS.length ≠ tys.length then none else
      let cols ← (List.zip colsS tys).mapM (fun (cs, ty) => (splitNE cs ",").mapM (parseVal ty))
      some ⟨h, mask, ids, cols⟩
  | _ => none

def unresolved : Nat := 1000000000

def handleOfMaskStr (archs : List Arch) (s : String) : Nat :=
  match parseMask s with
  | none => unresolved
  | some m =>
    match archs.find? (fun a => a.mask == m) with
    | some a => a.handle
    | none => unresolved

def parseSlot (archs : List Arch) (s : String) : Option Slot :=
  match s.splitOn ":" with
  | [g, l] => do
    let gen ← g.toNat?
    if l == "-" then some ⟨gen, none⟩ else
    match l.splitOn "@" with
    | [m, r] => do some ⟨gen, some ⟨handleOfMaskStr archs m, ← r.toNat?⟩⟩
    | _ => none
  | _ => none

def field (fields : List String) (name : String) : Option String :=
  fields.findSome? (fun f =>
    if f.startsWith (name ++ "=") then some (f.drop (name.length + 1)).toString else none)

/-- Parse a dump line.  Archetype `k` (in the line's order) gets handle `k`; a lookup entry or
location that did not resolve (`?`) gets the handle `unresolved`. -/
def parseDump (n : Nat) (line : String) : Option World := do
  let fields := line.splitOn " "
  let len ← (← field fields "len").toNat?
  let archStrs := splitNE (← field fields "archs") ";"
  let archs ← (List.zip (List.range archStrs.length) archStrs).mapM (fun (h, s) => parseArch h s)
  let slots ← (splitNE (← field fields "slots") ",").mapM (parseSlot archs)
  let free ← (splitNE (← field fields "free") ",").mapM String.toNat?
  let lk := fun (s : String) =>
    let h := handleOfMaskStr archs s
    ((parseMask s).getD [], h)
  let typeIds := (splitNE (← field fields "typeids") ",").map lk
  let foreign := (splitNE (← field fields "foreign") ",").map lk
  let resS := splitNE (← field fields "res") ","
  let res ← (List.zip (List.range resS.length) resS).mapM (fun (p, s) => parseVal (resTy p) s)
  some { n := n, archs := archs, typeIds := typeIds, foreign := foreign,
         alloc := ⟨slots, free⟩, len := len, res := res, next := archs.length }

end Brood
