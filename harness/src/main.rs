pub use hcore::{alloc_audit, comps, family, gen_queries, gen_reg10, gen_reg4, gen_reg8, rng, sched_types};
mod core;
mod gen_sched;
mod gen_ctor;
mod ctor;
mod fault;
mod sched;
mod raw_ops;
mod serde_ops;

use crate::core::*;

#[global_allocator]
static GLOBAL: alloc_audit::Audit = alloc_audit::Audit;
use crate::family::Family;
use std::io::BufRead;

fn arg<T: std::str::FromStr>(args: &[String], name: &str, default: T) -> T {
    args.iter()
        .position(|a| a == name)
        .and_then(|i| args.get(i + 1))
        .and_then(|v| v.parse().ok())
        .unwrap_or(default)
}

fn stats_json<F: Family>(it: &Interp<F>) -> String {
    let mut h: Vec<String> = it.op_hist.iter().map(|(k, v)| format!("\"{}\":{}", k, v)).collect();
    h.sort();
    let mut s: Vec<String> = it.stats.iter().map(|(k, v)| format!("\"{}\":{}", k, v)).collect();
    s.sort();
    format!("{{\"ops\":{},\"op_hist\":{{{}}},\"branches\":{{{}}}}}", it.ops_run, h.join(","), s.join(","))
}

fn run_core<F: Family>(args: &[String]) {
    let seed: u64 = arg(args, "--seed", 1);
    let cases: u64 = arg(args, "--cases", 10);
    let ops: usize = arg(args, "--ops", 40);
    let profile: String = arg(args, "--profile", "multi".to_string());
    let out = Box::new(std::io::BufWriter::new(std::io::stdout()));
    let mut it = Interp::<F>::new(out);
    let cfg = GenCfg { ops, profile };
    let first: u64 = arg(args, "--first", 0);
    for c in first..cases {
        let name = format!("{}-{}-{}", F::NAME, seed, c);
        run_case::<F>(&mut it, &name, seed.wrapping_mul(1_000_003).wrapping_add(c), &cfg);
    }
    it.flush();
    eprintln!("STATS {}", stats_json(&it));
}

/// Re-execute the `op` lines of a trace / replay file on the real code.
fn run_replay<F: Family>(path: &str) {
    let out = Box::new(std::io::BufWriter::new(std::io::stdout()));
    let mut it = Interp::<F>::new(out);
    let f = std::fs::File::open(path).expect("open replay");
    let mut started = false;
    for line in std::io::BufReader::new(f).lines() {
        let line = line.unwrap();
        let toks: Vec<&str> = line.split_whitespace().collect();
        if toks.is_empty() {
            continue;
        }
        match toks[0] {
            "case" => {
                if started {
                    it.end_case();
                }
                it.start_case(&toks[1..].join(" "));
                started = true;
            }
            "op" => {
                if !started {
                    it.start_case("replay");
                    started = true;
                }
                match Op::parse(&toks) {
                    Some((w, op)) => {
                        it.exec(w, &op);
                    }
                    None => {
                        it.line(&line);
                        it.line("r bad-op");
                    }
                }
            }
            _ => {}
        }
    }
    if started {
        it.end_case();
    }
    it.flush();
}

fn family_of_file(path: &str) -> String {
    let f = std::fs::File::open(path).expect("open replay");
    for line in std::io::BufReader::new(f).lines() {
        let line = line.unwrap();
        if let Some(rest) = line.strip_prefix("registry ") {
            let n: usize = rest.split_whitespace().next().unwrap().parse().unwrap();
            return if n == 10 { "reg10".into() } else if n == 8 { "reg8".into() } else { "reg4".into() };
        }
    }
    "reg4".into()
}

fn main() {
    // panics are expected in several runs (constructors, injected faults): keep stderr quiet
    if std::env::var("HARNESS_PANIC_MSG").is_err() {
        std::panic::set_hook(Box::new(|_| {}));
    }
    let args: Vec<String> = std::env::args().collect();
    let cmd = args.get(1).map(|s| s.as_str()).unwrap_or("");
    let fam: String = arg(&args, "--family", "reg4".to_string());
    match cmd {
        "core" => match fam.as_str() {
            "reg10" => run_core::<gen_reg10::Reg10>(&args),
            "reg8" => run_core::<gen_reg8::Reg8>(&args),
            _ => run_core::<gen_reg4::Reg4>(&args),
        },
        "ctor" => ctor::run(),
        "faultpoint" => fault::child(&args),
        "fault" => fault::run(arg(&args, "--seed", 1), arg(&args, "--cases", 4), arg(&args, "--maxk", 6)),
        "replay" => {
            let path = args.get(2).expect("replay <file>");
            match family_of_file(path).as_str() {
                "reg10" => run_replay::<gen_reg10::Reg10>(path),
                "reg8" => run_replay::<gen_reg8::Reg8>(path),
                _ => run_replay::<gen_reg4::Reg4>(path),
            }
        }
        _ => {
            eprintln!("usage: brood-harness core|replay …");
            std::process::exit(2);
        }
    }
}
