#!/bin/sh
# usage: tools/regress_subset.sh   — the seeded changes that were missed at some point, plus round 3
cd /verif
exec tools/regress_seeded.sh C01-1 C03-1 C03-2 C06-1 C06-2 C11-2 C12-1 C12-2 C16-1 C01-4 C11-3 C11-4 C14-4 C15-3 C17-4 \
  C01-5 C02-5 C03-5 C04-5 C05-5 C06-5 C07-5 C08-5 C09-5 C10-5 C11-5 C12-5 C13-5 C14-5 C15-5 C16-5 C17-5 C18-5
