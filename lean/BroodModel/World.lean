/-
  BroodModel.World — layer L1: archetype tables, lookup tables and every `World` operation,
  mirroring src/world/{mod,entry,impl_clone,impl_eq}.rs, src/archetypes/mod.rs,
  src/archetype/{mod,impl_clone}.rs and the column walks of src/registry/sealed/storage.rs.

  No bytes, pointers or capacities: a column is the list of its values, the shared `length` is
  `ids.length`, a handle stands for the address of an archetype's identifier buffer.
-/
import BroodModel.Alloc

namespace Brood

/-- One archetype table.  `cols` has one column per set bit of `mask`, in registry order. -/
structure Arch where
  handle : Nat
  mask : Mask
  ids : List Ident
  cols : List (List Val)
deriving DecidableEq, Repr, Inhabited

structure World where
  /-- registry length `N` -/
  n : Nat
  /-- `raw_archetypes` (the model keeps creation order; the code iterates in hash order). -/
  archs : List Arch
  /-- `type_id_lookup`: TypeId of a canonical entity type (= its mask) → archetype. -/
  typeIds : List (Mask × Nat)
  /-- `foreign_identifier_lookup`: identifier bytes (= mask) → archetype.  A multimap, because
  `Archetypes::clone` inserts every key twice. -/
  foreign : List (Mask × Nat)
  alloc : Alloc
  len : Nat
  res : List Val
  /-- next fresh handle -/
  next : Nat
deriving DecidableEq, Repr, Inhabited

/-- Identity of a cloned / deserialized copy: base identity plus `epoch · 2^20`. -/
def epochBase : Nat := 1048576

def Val.base (v : Val) : Nat := v.id % epochBase

def cloneVal (e : Nat) (v : Val) : Val := ⟨v.ty, v.id % epochBase + e * epochBase⟩

/-- `PartialEq` of the harness's component types: same type, same base identity. -/
def Val.eqv (a b : Val) : Bool := a.ty == b.ty && a.base == b.base

def lookupH (l : List (Mask × Nat)) (m : Mask) : Option Nat :=
  match l.find? (fun p => p.1 == m) with
  | some p => some p.2
  | none => none

namespace Arch

def new (h : Nat) (m : Mask) : Arch := ⟨h, m, [], List.replicate m.count []⟩

/-- All values stored in the archetype, column by column (the order `clear_components` and
`free_components` drop them in). -/
def values (a : Arch) : List Val := a.cols.flatten

/-- The values of row `r`, in column order; `lenMismatch` if some column is too short. -/
def rowVals (a : Arch) (r : Nat) : Out (List Val) :=
  let rec go : List (List Val) → Out (List Val)
    | [] => .ok []
    | c :: cs =>
      match c[r]? with
      | none => .ub .lenMismatch
      | some v =>
        match go cs with
        | .ok vs => .ok (v :: vs)
        | .ub w => .ub w
  go a.cols

/-- Append a row (`push_components` + `entity_identifiers.push`).  The values must be exactly one
per column, of the column's component type. -/
def pushRow (a : Arch) (vals : List Val) (id : Ident) : Out Arch :=
  if vals.map (·.ty) ≠ a.mask.comps then .ub .typeConfusion
  else if vals.length ≠ a.cols.length then .ub .colCount
  else .ok { a with ids := a.ids ++ [id], cols := List.zipWith (fun c v => c ++ [v]) a.cols vals }

/-- `remove_component_row` / `pop_component_row` + `entity_identifiers.swap_remove`:
returns the archetype without row `r`, the row's values in column order, and the identifier that
was removed. -/
def takeRow (a : Arch) (r : Nat) : Out (Arch × List Val × Ident) :=
  match a.ids[r]? with
  | none => .ub .oobRow
  | some id =>
    if a.cols.any (fun c => c.length ≠ a.ids.length) then .ub .lenMismatch
    else
      match a.rowVals r with
      | .ub w => .ub w
      | .ok vs =>
        .ok ({ a with ids := swapRemove a.ids r, cols := a.cols.map (fun c => swapRemove c r) },
             vs, id)

def cleared (a : Arch) : Arch := { a with ids := [], cols := a.cols.map (fun _ => []) }

end Arch

namespace World

def init (n : Nat) (res : List Val) : World :=
  { n := n, archs := [], typeIds := [], foreign := [], alloc := Alloc.empty, len := 0, res := res,
    next := 0 }

def findArch (w : World) (h : Nat) : Option Arch := w.archs.find? (fun a => a.handle == h)

def setArch (w : World) (a' : Arch) : World :=
  { w with archs := w.archs.map (fun a => if a.handle == a'.handle then a' else a) }

/-- `get_unchecked_mut` / `unreachable_unchecked`: the table must exist. -/
def getArch (w : World) (h : Nat) : Out Arch := Out.ofOption .noArchetype (w.findArch h)

def maskOf (w : World) (h : Nat) : Option Mask := (w.findArch h).map (·.mask)

/-- `Archetypes::get_mut_or_insert_new_for_entity`: by entity type, then by bytes (recording the
entity type), else a new table (recorded under both keys). -/
def archForEntity (w : World) (m : Mask) : Out (World × Nat) :=
  match lookupH w.typeIds m with
  | some h =>
    match w.findArch h with
    | some _ => .ok (w, h)
    | none => .ub .noArchetype
  | none =>
    match lookupH w.foreign m with
    | some h =>
      match w.findArch h with
      | some _ => .ok ({ w with typeIds := w.typeIds ++ [(m, h)] }, h)
      | none => .ub .noArchetype
    | none =>
      .ok ({ w with archs := w.archs ++ [Arch.new w.next m],
                    foreign := w.foreign ++ [(m, w.next)],
                    typeIds := w.typeIds ++ [(m, w.next)],
                    next := w.next + 1 }, w.next)

/-- `Archetypes::get_mut_or_insert_new`: by bytes, else a new table (no type-id entry). -/
def archForMask (w : World) (m : Mask) : Out (World × Nat) :=
  match lookupH w.foreign m with
  | some h =>
    match w.findArch h with
    | some _ => .ok (w, h)
    | none => .ub .noArchetype
  | none =>
    .ok ({ w with archs := w.archs ++ [Arch.new w.next m],
                  foreign := w.foreign ++ [(m, w.next)],
                  next := w.next + 1 }, w.next)

/-- `Registry::canonical`: the written components re-ordered to registry order. -/
def canonVals (n : Nat) (shape : List Nat) (vals : List Val) : List Val :=
  (List.range n).filterMap (fun c => (List.zip shape vals).lookup c)

/-- What the type system enforces on a written entity: distinct registry components, one value
per component, each of the component's type. -/
def shapeOk (n : Nat) (shape : List Nat) (vals : List Val) : Bool :=
  shape.Nodup && shape.all (· < n) && vals.map (·.ty) == shape

/-- `World::insert`. -/
def insert (w : World) (shape : List Nat) (vals : List Val) : Out (World × Ident) :=
  match w.archForEntity (Mask.ofShape w.n shape) with
  | .ub e => .ub e
  | .ok (w1, h) =>
    match w1.getArch h with
    | .ub e => .ub e
    | .ok a =>
      match w1.alloc.allocate ⟨h, a.ids.length⟩ with
      | .ub e => .ub e
      | .ok (al, id) =>
        match a.pushRow (canonVals w.n shape vals) id with
        | .ub e => .ub e
        | .ok a' => .ok ({ (w1.setArch a') with alloc := al, len := w1.len + 1 }, id)

/-- Append `rows` (each in written order) to archetype `a`, allocating identifiers. -/
def pushRows (n : Nat) (shape : List Nat) (a : Arch) (ids : List Ident) :
    List (List Val) → Out Arch
  | [] => .ok a
  | r :: rs =>
    match ids with
    | [] => .ub .lenMismatch
    | id :: ids' =>
      match a.pushRow (canonVals n shape r) id with
      | .ub e => .ub e
      | .ok a' => pushRows n shape a' ids' rs

/-- `World::extend` with a batch of `rows.length` entities of the written `shape`. -/
def extend (w : World) (shape : List Nat) (rows : List (List Val)) : Out (World × List Ident) :=
  match w.archForEntity (Mask.ofShape w.n shape) with
  | .ub e => .ub e
  | .ok (w1, h) =>
    match w1.getArch h with
    | .ub e => .ub e
    | .ok a =>
      match w1.alloc.allocateBatch h a.ids.length rows.length with
      | .ub e => .ub e
      | .ok (al, ids) =>
        match pushRows w.n shape a ids rows with
        | .ub e => .ub e
        | .ok a' => .ok ({ (w1.setArch a') with alloc := al, len := w1.len + rows.length }, ids)

/-- `Archetype::remove_row_unchecked` / `pop_row_unchecked` against the allocator: take row `r`
out of archetype `h`, fixing the location of the row that was moved into its place. -/
def takeRowAt (w : World) (h r : Nat) : Out (World × List Val × Ident) :=
  match w.getArch h with
  | .ub e => .ub e
  | .ok a =>
    match a.takeRow r with
    | .ub e => .ub e
    | .ok (a', vs, id) =>
      let fix : Out Alloc :=
        if r < a.ids.length - 1 then
          match a.ids.getLast? with
          | some last => w.alloc.setRow last r
          | none => .ub .oobRow
        else .ok w.alloc
      match fix with
      | .ub e => .ub e
      | .ok al => .ok ({ (w.setArch a') with alloc := al }, vs, id)

/-- `World::remove`: a stale or unknown identifier is a no-op.  Returns the dropped values. -/
def remove (w : World) (id : Ident) : Out (World × List Val) :=
  match w.alloc.get id with
  | none => .ok (w, [])
  | some loc =>
    match w.takeRowAt loc.arch loc.row with
    | .ub e => .ub e
    | .ok (w1, vs, _) =>
      match w1.alloc.release id with
      | .ub e => .ub e
      | .ok al => .ok ({ w1 with alloc := al, len := w1.len - 1 }, vs)

def freeAll (a : Alloc) : List Ident → Out Alloc
  | [] => .ok a
  | id :: ids =>
    match a.release id with
    | .ub e => .ub e
    | .ok a' => freeAll a' ids

/-- The archetypes in the order the table iterator visits them: sorted by the position of their
mask in `order` (the masks as observed on the real table, in table order); tables `order` does not
name come last, in creation order.  By construction a permutation of the tables. -/
def visitOrder (w : World) (order : List Mask) : List Arch :=
  w.archs.mergeSort (fun a b => decide (order.idxOf a.mask ≤ order.idxOf b.mask))

/-- The column loop of `World::clear`: every archetype is emptied and every stored identifier
freed, archetype by archetype in table order, row by row. -/
def clearRaw (w : World) (order : List Mask) : Out (World × List Val) :=
  let visit := w.visitOrder order
  match freeAll w.alloc (visit.flatMap (·.ids)) with
  | .ub e => .ub e
  | .ok al =>
    .ok ({ w with archs := w.archs.map Arch.cleared, alloc := al, len := 0 },
         visit.flatMap Arch.values)

/-- `Allocator::sort_free_from`: the free queue from position `n` on is sorted (ascending), the
first `n` entries keep their order. -/
def sortFreeFrom (a : Alloc) (n : Nat) : Alloc :=
  { a with free := a.free.take n ++ (a.free.drop n).mergeSort (fun x y => decide (x ≤ y)) }

/-- `World::clear`: the column loop, then the slots it freed are put in ascending order, so that
the identifiers issued afterwards do not depend on the order the table iterator visits the
archetypes in. -/
def clear (w : World) (order : List Mask) : Out (World × List Val) :=
  match w.clearRaw order with
  | .ub e => .ub e
  | .ok (w', drops) => .ok ({ w' with alloc := sortFreeFrom w'.alloc w.alloc.free.length }, drops)

def setBit (m : Mask) (c : Nat) (b : Bool) : Mask := m.set c b

/-- Insert `v` as the `k`-th element. -/
def insertAt {α} (l : List α) (k : Nat) (v : α) : List α := l.take k ++ v :: l.drop k

/-- `Entry::add`.  Result: `none` if the identifier is not live, else the dropped values. -/
def entryAdd (w : World) (id : Ident) (c : Nat) (v : Val) : Out (World × Option (List Val)) :=
  match w.alloc.get id with
  | none => .ok (w, none)
  | some loc =>
    match w.getArch loc.arch with
    | .ub e => .ub e
    | .ok a =>
      if a.mask.has c then
        -- `set_component_unchecked`: overwrite in place, the old value is dropped.
        let k := colIndex a.mask c
        match a.cols[k]? with
        | none => .ub .colCount
        | some col =>
          match col[loc.row]? with
          | none => .ub .oobRow
          | some old =>
            if old.ty ≠ c ∨ v.ty ≠ c then .ub .typeConfusion
            else
              .ok (w.setArch { a with cols := a.cols.set k (col.set loc.row v) }, some [old])
      else
        match w.takeRowAt loc.arch loc.row with
        | .ub e => .ub e
        | .ok (w1, vs, eid) =>
          let m' := setBit a.mask c true
          match w1.archForMask m' with
          | .ub e => .ub e
          | .ok (w2, h') =>
            match w2.getArch h' with
            | .ub e => .ub e
            | .ok t =>
              match t.pushRow (insertAt vs (colIndex m' c) v) eid with
              | .ub e => .ub e
              | .ok t' =>
                match w2.alloc.setLoc eid ⟨h', t.ids.length⟩ with
                | .ub e => .ub e
                | .ok al => .ok ({ (w2.setArch t') with alloc := al }, some [])

/-- `Entry::remove`.  Result: `none` if the identifier is not live, else the dropped values. -/
def entryRemove (w : World) (id : Ident) (c : Nat) : Out (World × Option (List Val)) :=
  match w.alloc.get id with
  | none => .ok (w, none)
  | some loc =>
    match w.getArch loc.arch with
    | .ub e => .ub e
    | .ok a =>
      if a.mask.has c then
        match w.takeRowAt loc.arch loc.row with
        | .ub e => .ub e
        | .ok (w1, vs, eid) =>
          let m' := setBit a.mask c false
          let k := colIndex a.mask c
          match w1.archForMask m' with
          | .ub e => .ub e
          | .ok (w2, h') =>
            match w2.getArch h' with
            | .ub e => .ub e
            | .ok t =>
              match t.pushRow (vs.eraseIdx k) eid with
              | .ub e => .ub e
              | .ok t' =>
                match w2.alloc.setLoc eid ⟨h', t.ids.length⟩ with
                | .ub e => .ub e
                | .ok al =>
                  .ok ({ (w2.setArch t') with alloc := al }, some (vs.drop k |>.take 1))
      else .ok (w, some [])

/-- Mutation through `entry(id).query(Views!(&mut C))`: `*c = v`.  `none` if the identifier is not
live or the entity lacks the component. -/
def write (w : World) (id : Ident) (c : Nat) (v : Val) : Out (World × Option (List Val)) :=
  match w.alloc.get id with
  | none => .ok (w, none)
  | some loc =>
    match w.findArch loc.arch with
    | none => .ok (w, none)       -- `archetypes.get_mut(..)?` : a checked lookup
    | some a =>
      if a.mask.has c then
        let k := colIndex a.mask c
        match a.cols[k]? with
        | none => .ub .colCount
        | some col =>
          match col[loc.row]? with
          | none => .ub .oobRow
          | some old =>
            if old.ty ≠ c ∨ v.ty ≠ c then .ub .typeConfusion
            else .ok (w.setArch { a with cols := a.cols.set k (col.set loc.row v) }, some [old])
      else .ok (w, none)

/-- `World::reserve`: finds or creates the table; nothing else is observable. -/
def reserve (w : World) (shape : List Nat) : Out World :=
  match w.archForEntity (Mask.ofShape w.n shape) with
  | .ub e => .ub e
  | .ok (w1, _) => .ok w1

/-- `World::shrink_to_fit`: empty tables are erased together with every lookup entry naming them. -/
def shrinkToFit (w : World) : World :=
  let dead := (w.archs.filter (fun a => a.ids.isEmpty)).map (·.handle)
  { w with archs := w.archs.filter (fun a => !a.ids.isEmpty),
           typeIds := w.typeIds.filter (fun p => !dead.contains p.2),
           foreign := w.foreign.filter (fun p => !dead.contains p.2) }

def contains (w : World) (id : Ident) : Bool := w.alloc.isActive id

def hasEntry (w : World) (id : Ident) : Bool := (w.alloc.get id).isSome

def isEmpty (w : World) : Bool := w.len == 0

/-- All values owned by the world (columns, then resources): what `drop(world)` drops. -/
def values (w : World) : List Val := w.archs.flatMap Arch.values ++ w.res

/-! ### clone / clone_from -/

def mapH (pairs : List (Nat × Nat)) (h : Nat) : Option Nat := pairs.lookup h

def remapLookup (pairs : List (Nat × Nat)) : List (Mask × Nat) → Out (List (Mask × Nat))
  | [] => .ok []
  | (m, h) :: rest =>
    match mapH pairs h with
    | none => .ub .mapMiss
    | some h' =>
      match remapLookup pairs rest with
      | .ub e => .ub e
      | .ok rest' => .ok ((m, h') :: rest')

def Arch.cloneWith (e h' : Nat) (a : Arch) : Arch :=
  { a with handle := h', cols := a.cols.map (fun c => c.map (cloneVal e)) }

/-- `World::clone`: fresh tables (handles `next, next+1, …`), remapped lookups and locations. -/
def clone (w : World) (e next : Nat) : Out World :=
  let hs := (List.range w.archs.length).map (next + ·)
  let pairs := (w.archs.map (·.handle)).zip hs
  let archs' := List.zipWith (fun a h' => Arch.cloneWith e h' a) w.archs hs
  match remapLookup pairs w.typeIds with
  | .ub e => .ub e
  | .ok tys =>
    match w.alloc.remap (mapH pairs) with
    | .ub e => .ub e
    | .ok al =>
      .ok { n := w.n, archs := archs', typeIds := tys,
            foreign := archs'.flatMap (fun a => [(a.mask, a.handle), (a.mask, a.handle)]),
            alloc := al, len := w.len, res := w.res.map (cloneVal e),
            next := next + w.archs.length }

/-- State threaded through the per-source-archetype loop of `Archetypes::clone_from`. -/
structure CF where
  d : World
  pairs : List (Nat × Nat)
  drops : List Val

/-- The destination table with the source table's identifier bytes, found the way
`Archetypes::clone_from` finds it. -/
def cfHit (d : World) (m : Mask) : Option Arch :=
  match lookupH d.foreign m with
  | some h => d.findArch h
  | none => none

/-- One iteration of the per-source-archetype loop of `Archetypes::clone_from`. -/
def cloneFromStep (e : Nat) (st : CF) (sa : Arch) : CF :=
  match cfHit st.d sa.mask with
  | some da =>
    -- `archetype.clone_from(source_archetype)`: identifiers and columns overwritten in place
    ⟨st.d.setArch { da with ids := sa.ids, cols := sa.cols.map (fun c => c.map (cloneVal e)) },
     st.pairs ++ [(sa.handle, da.handle)], st.drops ++ da.values⟩
  | none =>
    ⟨{ st.d with archs := st.d.archs ++ [Arch.cloneWith e st.d.next sa],
                 foreign := st.d.foreign ++ [(sa.mask, st.d.next)],
                 next := st.d.next + 1 },
     st.pairs ++ [(sa.handle, st.d.next)], st.drops⟩

def cloneFromArchs (e : Nat) (st : CF) (l : List Arch) : CF := l.foldl (cloneFromStep e) st

/-- `type_id_lookup.insert(key, value)`: replace the value of an existing key, else add. -/
def upsert (l : List (Mask × Nat)) (m : Mask) (h : Nat) : List (Mask × Nat) :=
  if l.any (fun p => p.1 == m) then l.map (fun p => if p.1 == m then (m, h) else p)
  else l ++ [(m, h)]

/-- `World::clone_from(dst, src)`.  Returns the new destination and the dropped values. -/
def cloneFrom (d s : World) (e : Nat) : Out (World × List Val) :=
  let st := cloneFromArchs e ⟨d, [], []⟩ s.archs
  let written := st.pairs.map (·.2)
  -- tables of the destination that the source lacks are cleared, not removed
  let stale := st.d.archs.filter (fun a => !written.contains a.handle)
  let archs' := st.d.archs.map (fun a => if written.contains a.handle then a else a.cleared)
  match remapLookup st.pairs s.typeIds with
  | .ub e => .ub e
  | .ok tys =>
    match s.alloc.remap (mapH st.pairs) with
    | .ub e => .ub e
    | .ok al =>
      .ok ({ st.d with archs := archs',
                       typeIds := tys.foldl (fun acc p => upsert acc p.1 p.2) st.d.typeIds,
                       alloc := al, len := s.len, res := s.res.map (cloneVal e) },
           st.drops ++ stale.flatMap Arch.values ++ d.res)

/-! ### equality (`world/impl_eq.rs`, `archetypes/impl_eq.rs`, `Archetype::component_eq`,
`Slot`/`Location` `PartialEq`) -/

def colsEqv (x y : List (List Val)) : Bool :=
  x.length == y.length &&
  (List.zipWith (fun a b => a.length == b.length && (List.zipWith Val.eqv a b).all id) x y).all id

def archEqv (x y : Arch) : Bool :=
  x.ids.length == y.ids.length && x.ids == y.ids && colsEqv x.cols y.cols

/-- `Location::eq` dereferences both identifier pointers: a handle that does not resolve is UB. -/
def slotEqv (a b : World) (s t : Slot) : Out Bool :=
  if s.gen ≠ t.gen then .ok false
  else
    match s.loc, t.loc with
    | none, none => .ok true
    | some l, some r =>
      match a.maskOf l.arch, b.maskOf r.arch with
      | some ma, some mb => .ok (ma == mb && l.row == r.row)
      | _, _ => .ub .noArchetype
    | _, _ => .ok false

def slotsEqv (a b : World) : List Slot → List Slot → Out Bool
  | [], [] => .ok true
  | s :: ss, t :: ts =>
    match slotEqv a b s t with
    | .ub e => .ub e
    | .ok false => .ok false
    | .ok true => slotsEqv a b ss ts
  | _, _ => .ok false

/-- `Archetypes::eq`, one table: the table of `b` with the same identifier bytes exists and
compares equal. -/
def matchIn (b : World) (x : Arch) : Bool :=
  match lookupH b.foreign x.mask with
  | some h =>
    match b.findArch h with
    | some y => archEqv x y
    | none => false
  | none => false

/-- `World::eq`. -/
def eqWorld (a b : World) : Out Bool :=
  if a.len ≠ b.len then .ok false
  else if a.archs.length ≠ b.archs.length then .ok false
  else if !(a.archs.all (matchIn b)) then .ok false
  else
    match slotsEqv a b a.alloc.slots b.alloc.slots with
    | .ub e => .ub e
    | .ok false => .ok false
    | .ok true =>
      .ok (a.alloc.free == b.alloc.free &&
           a.res.length == b.res.length && (List.zipWith Val.eqv a.res b.res).all id)

end World
end Brood
