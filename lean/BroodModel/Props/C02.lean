/-
  C02 — Identifiers are never confused: unique, stable while live, dead once removed.

  Stated over *every* history of allocator operations (the only code that creates, resolves and
  retires identifiers: `entity::Allocator`).  A history is a list of `AOp`s; `release`/`move` of an
  identifier that is not live is a no-op, exactly as `World::remove` / `World::entry` behave.
  The correspondence check ties `Alloc` to src/entity/allocator/mod.rs through the slot/free-list
  dump after every operation and through `probe` ops on every identifier ever issued.

  Overflow: generations are `Nat` in `Alloc`; the code's `u64` generations with `wrapping_add(1)`
  are the subject of the last section (`arunW`): the machine allocator is the image of the `Nat`
  one under reduction modulo 2^64 for every history (`C02_machine_simulation`), coincides with it
  along every history that issues fewer than 2^64 identifiers (`C02_machine_partial` — the C02
  statements for the machine allocator, *partial*: bounded by that count), and beyond it the full
  statement is false of the code (`C02_machine_wrap_witness`).
-/
import BroodModel.Lemmas.Alloc
import BroodModel.Lemmas.AllocPres
import BroodModel.Lemmas.Entity
import BroodModel.Lemmas.CloneFromDrops
import BroodModel.Lemmas.Wrap
import BroodModel.Generated.Tables
import BroodModel.Churn
import BroodModel.Lemmas.NoUB

namespace Brood
open Alloc

/-- Allocator-level operations of a history. -/
inductive AOp
  | alloc (loc : Loc)                    -- insert
  | batch (h start n : Nat)              -- extend with n rows
  | release (id : Ident)                 -- remove / clear (per identifier)
  | move (id : Ident) (loc : Loc)        -- row moved: swap-remove fix-up, Entry::add/remove

structure AState where
  a : Alloc
  /-- ghost: every identifier returned so far, newest first -/
  issued : List Ident
  /-- ghost: identifiers that were live when released -/
  retired : List Ident

def AState.init : AState := ⟨Alloc.empty, [], []⟩

/-- One step; returns the identifiers handed to the caller by this step. -/
def astep (s : AState) : AOp → Out (AState × List Ident)
  | .alloc loc =>
    match s.a.allocate loc with
    | .ok (a', id) => .ok (⟨a', id :: s.issued, s.retired⟩, [id])
    | .ub w => .ub w
  | .batch h start n =>
    match s.a.allocateBatch h start n with
    | .ok (a', ids) => .ok (⟨a', ids.reverse ++ s.issued, s.retired⟩, ids)
    | .ub w => .ub w
  | .release id =>
    match s.a.get id with
    | none => .ok (s, [])
    | some _ =>
      match s.a.release id with
      | .ok a' => .ok (⟨a', s.issued, id :: s.retired⟩, [])
      | .ub w => .ub w
  | .move id loc =>
    match s.a.get id with
    | none => .ok (s, [])
    | some _ =>
      match s.a.setLoc id loc with
      | .ok a' => .ok (⟨a', s.issued, s.retired⟩, [])
      | .ub w => .ub w

def arun (s : AState) : List AOp → Out AState
  | [] => .ok s
  | op :: ops =>
    match astep s op with
    | .ok (s', _) => arun s' ops
    | .ub w => .ub w

/-- What is maintained along every history. -/
structure AGood (s : AState) : Prop where
  inv : AInv s.a
  ghost : Ghost s.a s.issued
  nodup : s.issued.Nodup
  dead : ∀ id ∈ s.retired, Dead s.a id

theorem AGood.init : AGood AState.init :=
  ⟨AInv.empty, Ghost.nil _, List.nodup_nil, by simp [AState.init]⟩

/-- One step preserves `AGood`, never reaches an unchecked access, and returns only fresh,
pairwise distinct identifiers. -/
theorem astep_good {s : AState} (g : AGood s) (op : AOp) :
    ∃ s' out, astep s op = .ok (s', out) ∧ AGood s' ∧ (∀ id ∈ out, id ∉ s.issued) ∧ out.Nodup := by
  cases op with
  | alloc loc =>
    obtain ⟨a', id, e⟩ := allocate_ok g.inv loc
    refine ⟨⟨a', id :: s.issued, s.retired⟩, [id], by simp [astep, e], ?_, ?_, by simp⟩
    · exact ⟨allocate_inv g.inv e, allocate_ghost g.ghost e,
        List.nodup_cons.mpr ⟨allocate_fresh g.ghost e, g.nodup⟩,
        fun x hx => allocate_dead (g.dead x hx) e⟩
    · intro x hx; simp at hx; subst hx; exact allocate_fresh g.ghost e
  | batch h start n =>
    obtain ⟨a', ids, e⟩ := allocateBatch_ok g.inv h start n
    obtain ⟨fr, nd, gh⟩ := allocateBatch_fresh g.ghost e
    refine ⟨⟨a', ids.reverse ++ s.issued, s.retired⟩, ids, by simp [astep, e], ?_, fr, nd⟩
    refine ⟨(allocateBatch_inv g.inv e).1, gh, ?_, ?_⟩
    · rw [List.nodup_append]
      refine ⟨nodup_reverse'.mpr nd, g.nodup, ?_⟩
      intro x hx y hy hxy
      subst hxy
      exact fr x (List.mem_reverse.mp hx) hy
    · intro x hx
      exact allocateBatch_dead (g.dead x hx) e
  | release id =>
    cases hg : s.a.get id with
    | none => exact ⟨s, [], by simp [astep, hg], g, by simp, by simp⟩
    | some l =>
      have hl : Live s.a id := ⟨l, hg⟩
      obtain ⟨a', e⟩ := release_ok hl
      refine ⟨⟨a', s.issued, id :: s.retired⟩, [], by simp [astep, hg, e], ?_, by simp, by simp⟩
      refine ⟨release_inv g.inv hl e, release_ghost g.ghost e, g.nodup, ?_⟩
      intro x hx
      simp at hx
      rcases hx with rfl | hx
      · exact release_makes_dead hl e
      · exact release_dead_other (g.dead x hx) e
  | move id loc =>
    cases hg : s.a.get id with
    | none => exact ⟨s, [], by simp [astep, hg], g, by simp, by simp⟩
    | some l =>
      have hl : Live s.a id := ⟨l, hg⟩
      obtain ⟨t, ht, _, _⟩ := get_eq_some.mp hg
      have e : s.a.setLoc id loc = .ok ⟨s.a.slots.set id.index ⟨t.gen, some loc⟩, s.a.free⟩ := by
        simp [setLoc, ht]
      refine ⟨⟨⟨s.a.slots.set id.index ⟨t.gen, some loc⟩, s.a.free⟩, s.issued, s.retired⟩, [],
        by simp [astep, hg, e], ?_, by simp, by simp⟩
      exact ⟨setLoc_inv g.inv hl e, setLoc_ghost g.ghost e, g.nodup,
        fun x hx => setLoc_dead_other (g.dead x hx) hl e⟩

/-- Every history from the empty allocator runs without undefined behaviour and ends `AGood`. -/
theorem arun_good {s : AState} (g : AGood s) (ops : List AOp) :
    ∃ s', arun s ops = .ok s' ∧ AGood s' := by
  induction ops generalizing s with
  | nil => exact ⟨s, rfl, g⟩
  | cons op ops ih =>
    obtain ⟨s1, out, e, g1, _, _⟩ := astep_good g op
    obtain ⟨s2, e2, g2⟩ := ih g1
    exact ⟨s2, by simp [arun, e, e2], g2⟩

/-- **C02 (uniqueness).** After any history, the identifiers issued over the allocator's whole
lifetime are pairwise distinct — each identifier returned by insert/extend differs from every
identifier returned before it. -/
theorem C02_unique (ops : List AOp) :
    ∃ s, arun AState.init ops = .ok s ∧ s.issued.Nodup := by
  obtain ⟨s, e, g⟩ := arun_good AGood.init ops
  exact ⟨s, e, g.nodup⟩

/-- **C02 (freshness, step form).** In any reachable state, the identifiers a step returns were
never issued before and are pairwise distinct (batches larger, equal and smaller than the free
list included: `n` is arbitrary). -/
theorem C02_fresh (ops : List AOp) (op : AOp) :
    ∃ s s' out, arun AState.init ops = .ok s ∧ astep s op = .ok (s', out) ∧
      (∀ id ∈ out, id ∉ s.issued) ∧ out.Nodup := by
  obtain ⟨s, e, g⟩ := arun_good AGood.init ops
  obtain ⟨s', out, e', _, fr, nd⟩ := astep_good g op
  exact ⟨s, s', out, e, e', fr, nd⟩

/-- **C02 (dead once removed).** An identifier that was live when it was released never resolves
again, whatever happens afterwards — including reuse of its slot: for *every* retired identifier,
not only the most recent one. -/
theorem C02_dead_forever (ops : List AOp) :
    ∃ s, arun AState.init ops = .ok s ∧
      ∀ id ∈ s.retired, s.a.get id = none ∧ s.a.isActive id = false := by
  obtain ⟨s, e, g⟩ := arun_good AGood.init ops
  refine ⟨s, e, fun id hid => ?_⟩
  have hn := (g.dead id hid).not_live
  refine ⟨hn, ?_⟩
  cases h : s.a.isActive id with
  | false => rfl
  | true => have := isActive_iff_get.mp h; simp [hn] at this

/-- An operation *targets* an identifier if it releases it. -/
def AOp.releases (id : Ident) : AOp → Bool
  | .release id' => id' == id
  | _ => false

/-- **C02 (stable while live).** A live identifier keeps resolving through any continuation that
does not release it — allocations reusing other slots, releases and moves of other entities, and
moves of the entity itself (it then resolves to the new location). -/
theorem C02_stable {s : AState} (g : AGood s) {id : Ident} (hl : Live s.a id) (ops : List AOp)
    (hno : ∀ op ∈ ops, op.releases id = false) :
    ∃ s', arun s ops = .ok s' ∧ Live s'.a id := by
  induction ops generalizing s with
  | nil => exact ⟨s, rfl, hl⟩
  | cons op ops ih =>
    obtain ⟨s1, out, e, g1, _, _⟩ := astep_good g op
    have hl1 : Live s1.a id := by
      obtain ⟨l, hl⟩ := hl
      cases op with
      | alloc loc =>
        simp only [astep] at e
        cases h1 : s.a.allocate loc with
        | ub w => simp [h1] at e
        | ok p =>
          obtain ⟨a', nid⟩ := p
          simp [h1] at e
          obtain ⟨rfl, _⟩ := e
          exact ⟨l, allocate_frame g.inv h1 hl⟩
      | batch h start n =>
        simp only [astep] at e
        cases h1 : s.a.allocateBatch h start n with
        | ub w => simp [h1] at e
        | ok p =>
          obtain ⟨a', ids⟩ := p
          simp [h1] at e
          obtain ⟨rfl, _⟩ := e
          exact ⟨l, allocateBatch_frame g.inv h1 hl⟩
      | release id' =>
        have hne : id ≠ id' := by
          have := hno (.release id') (by simp)
          simp [AOp.releases] at this
          exact fun e => this e.symm
        simp only [astep] at e
        cases hg : s.a.get id' with
        | none => simp [hg] at e; obtain ⟨rfl, _⟩ := e; exact ⟨l, hl⟩
        | some l' =>
          simp [hg] at e
          cases h1 : s.a.release id' with
          | ub w => simp [h1] at e
          | ok a' =>
            simp [h1] at e
            obtain ⟨rfl, _⟩ := e
            exact ⟨l, release_frame ⟨l', hg⟩ h1 hne hl⟩
      | move id' loc =>
        simp only [astep] at e
        cases hg : s.a.get id' with
        | none => simp [hg] at e; obtain ⟨rfl, _⟩ := e; exact ⟨l, hl⟩
        | some l' =>
          simp [hg] at e
          cases h1 : s.a.setLoc id' loc with
          | ub w => simp [h1] at e
          | ok a' =>
            simp [h1] at e
            obtain ⟨rfl, _⟩ := e
            by_cases hne : id = id'
            · subst hne; exact ⟨loc, setLoc_get ⟨l', hg⟩ h1⟩
            · exact ⟨l, setLoc_frame ⟨l', hg⟩ h1 hne hl⟩
    obtain ⟨s2, e2, hl2⟩ := ih g1 hl1 (fun op hop => hno op (by simp [hop]))
    exact ⟨s2, by simp [arun, e, e2], hl2⟩

/-- No history reaches an unchecked slot access (`get_unchecked_mut`, `unwrap_unchecked`). -/
theorem C02_no_ub (ops : List AOp) : ∀ w, arun AState.init ops ≠ .ub w := by
  obtain ⟨s, e, _⟩ := arun_good AGood.init ops
  intro w h; rw [e] at h; cases h

/-! Non-vacuity: a concrete history with reuse through a batch smaller than the free list. -/
example :
    (arun AState.init
      [.batch 0 0 3, .release ⟨0, 0⟩, .release ⟨1, 0⟩, .release ⟨2, 0⟩, .batch 0 0 1,
       .alloc ⟨0, 1⟩, .release ⟨0, 0⟩]).isOk = true := by decide

def exampleState : Option AState :=
  match arun AState.init
    [.batch 0 0 3, .release ⟨0, 0⟩, .release ⟨1, 0⟩, .release ⟨2, 0⟩, .batch 0 0 1, .alloc ⟨0, 1⟩] with
  | .ok s => some s
  | .ub _ => none

example : exampleState.map (fun s => (s.issued, s.retired.length, s.a.free)) =
    some ([⟨1, 1⟩, ⟨0, 1⟩, ⟨2, 0⟩, ⟨1, 0⟩, ⟨0, 0⟩], 3, [2]) := by decide

end Brood

namespace Brood
open Alloc

/-! ### lifted to worlds: every world history is an allocator history

`step_apres` / `run_apres` (Lemmas/AllocPres): every world operation — insert, extend, remove
(with its swap-remove fix-up), clear, Entry::add / Entry::remove (row moves), writes, reserve,
shrink_to_fit — acts on the allocator only through `allocate`, `release` and `setLoc` applied to
live identifiers.  Hence the allocator-level facts above hold along every world history. -/

/-- **Dead once removed, forever**: after `remove` of a live identifier, no later history ever
makes it live again (`contains`, `entry`, queries by identifier all reject it). -/
theorem C02_world_dead_forever {w w1 w2 : World} {id : Ident} {drops : List Val} (hi : Inv w)
    (hl : (w.alloc.get id).isSome) (e : w.remove id = .ok (w1, drops)) (ops : List Op)
    (h : run w1 ops = .ok w2) :
    w2.alloc.get id = none ∧ w2.entity id = none ∧ w2.contains id = false := by
  have hd := remove_makes_dead hi hl e
  have hd2 : Dead w2.alloc id := run_apres (apres_dead id) ops (remove_inv hi e) hd h
  have hg := hd2.not_live
  refine ⟨hg, entity_none_of_dead hg, ?_⟩
  unfold World.contains
  cases hc : w2.alloc.isActive id with
  | false => rfl
  | true => rw [isActive_iff_get.mp hc |> Option.isSome_iff_exists.mp |>.choose_spec] at hg; cases hg

/-- **An identifier is never issued twice**: whatever `insert` returned at some point of a world's
history is never returned again by a later `insert`, however many removals, shape changes and
clears lie in between. -/
theorem C02_world_never_reissued {w w1 w2 w3 : World} {shape shape' : List Nat} {vals vals' : List Val}
    {id id' : Ident} (hi : Inv w) (e1 : w.insert shape vals = .ok (w1, id)) (ops : List Op)
    (h : run w1 ops = .ok w2) (e2 : w2.insert shape' vals' = .ok (w3, id')) : id' ≠ id := by
  obtain ⟨loc, ha⟩ := insert_alloc hi e1
  have hg1 : Ghost w1.alloc [id] := allocate_ghost (Ghost.nil _) ha
  have hi1 := insert_inv hi e1
  have hg2 : Ghost w2.alloc [id] := run_apres (apres_ghost [id]) ops hi1 hg1 h
  obtain ⟨loc', ha'⟩ := insert_alloc (run_inv hi1 ops h) e2
  have := allocate_fresh hg2 ha'
  intro e'; exact this (by simp [e'])

/-- **Not confused across copies**: an identifier that is dead in a world is dead in its clone
and in any world that `clone_from`s it (a copy never resurrects an identifier), and stays dead
there under every later history. -/
theorem C02_world_dead_in_copies {w c c' : World} (hi : Inv w) {x : Ident} (d : Dead w.alloc x)
    {e next : Nat} (h : w.clone e next = .ok c) (ops : List Op) (hr : run c ops = .ok c') :
    c.entity x = none ∧ c'.entity x = none := by
  have hd := clone_keeps_dead hi h d
  obtain ⟨c0, h0, hi0, _⟩ := clone_spec hi e next
  rw [h] at h0; cases h0
  have hd' : Dead c'.alloc x := run_apres (apres_dead x) ops hi0 hd hr
  exact ⟨entity_none_of_dead hd.not_live, entity_none_of_dead hd'.not_live⟩

theorem C02_world_dead_after_clone_from {d s fin : World} {drops : List Val} {e : Nat} {x : Ident}
    (hd : Dead s.alloc x) (h : World.cloneFrom d s e = .ok (fin, drops)) : fin.entity x = none :=
  entity_none_of_dead (cloneFrom_keeps_dead h hd).not_live

/-- **Stable while live**: operations aimed at other identifiers never change what a live
identifier resolves to (the frame halves of the C01 per-operation theorems, collected). -/
theorem C02_world_stable {w w' : World} (hi : Inv w) {id x : Ident} (hne : x ≠ id) :
    (∀ drops, w.remove id = .ok (w', drops) → w'.entity x = w.entity x) ∧
    (∀ c v res, c < w.n → v.ty = c → w.entryAdd id c v = .ok (w', res) → w'.entity x = w.entity x) ∧
    (∀ c res, w.entryRemove id c = .ok (w', res) → w'.entity x = w.entity x) ∧
    (∀ c v res, v.ty = c → w.write id c v = .ok (w', res) → w'.entity x = w.entity x) :=
  ⟨fun _ e => (remove_entity hi e).2.1 x hne,
   fun _ _ _ hc hv e => (entryAdd_entity hi hc hv e).2.1 x hne,
   fun _ _ e => (entryRemove_entity hi e).2.1 x hne,
   fun _ _ _ hv e => (write_entity hi hv e).2.1 x hne⟩

end Brood

namespace Brood
open Alloc

/-! ### the machine allocator: `u64` generations, `wrapping_add(1)` (src/entity/allocator/slot.rs:56)

`astepW m` / `arunW m` are `astep` / `arun` with the generation counter of `m` values
(`Lemmas/Wrap`: `allocateW`, `allocateBatchW`); the code is `m = 2^64`. -/

def astepW (m : Nat) (s : AState) : AOp → Out (AState × List Ident)
  | .alloc loc =>
    match allocateW m s.a loc with
    | .ok (a', id) => .ok (⟨a', id :: s.issued, s.retired⟩, [id])
    | .ub w => .ub w
  | .batch h start n =>
    match allocateBatchW m s.a h start n with
    | .ok (a', ids) => .ok (⟨a', ids.reverse ++ s.issued, s.retired⟩, ids)
    | .ub w => .ub w
  | op => astep s op

def arunW (m : Nat) (s : AState) : List AOp → Out AState
  | [] => .ok s
  | op :: ops =>
    match astepW m s op with
    | .ok (s', _) => arunW m s' ops
    | .ub w => .ub w

/-- Identifiers an operation issues. -/
def AOp.cost : AOp → Nat
  | .alloc _ => 1
  | .batch _ _ n => n
  | _ => 0

def cost : List AOp → Nat
  | [] => 0
  | op :: ops => op.cost + cost ops

theorem astep_genLe {s s' : AState} {out : List Ident} {k : Nat} (hb : GenLe s.a k) (op : AOp)
    (e : astep s op = .ok (s', out)) : GenLe s'.a (k + op.cost) := by
  cases op with
  | alloc loc =>
    simp only [astep] at e
    cases h1 : s.a.allocate loc with
    | ub w => simp [h1] at e
    | ok p =>
      obtain ⟨a', id⟩ := p
      simp [h1] at e
      obtain ⟨rfl, _⟩ := e
      exact (allocate_genLe hb h1).1
  | batch h start n =>
    simp only [astep] at e
    cases h1 : s.a.allocateBatch h start n with
    | ub w => simp [h1] at e
    | ok p =>
      obtain ⟨a', ids⟩ := p
      simp [h1] at e
      obtain ⟨rfl, _⟩ := e
      exact allocateBatch_genLe n hb h1
  | release id =>
    simp only [astep] at e
    cases hg : s.a.get id with
    | none => simp [hg] at e; obtain ⟨rfl, _⟩ := e; simpa [AOp.cost] using hb
    | some l =>
      simp [hg] at e
      cases h1 : s.a.release id with
      | ub w => simp [h1] at e
      | ok a' =>
        simp [h1] at e
        obtain ⟨rfl, _⟩ := e
        simpa [AOp.cost] using release_genLe hb h1
  | move id loc =>
    simp only [astep] at e
    cases hg : s.a.get id with
    | none => simp [hg] at e; obtain ⟨rfl, _⟩ := e; simpa [AOp.cost] using hb
    | some l =>
      simp [hg] at e
      cases h1 : s.a.setLoc id loc with
      | ub w => simp [h1] at e
      | ok a' =>
        simp [h1] at e
        obtain ⟨rfl, _⟩ := e
        simpa [AOp.cost] using setLoc_genLe hb h1

theorem astepW_eq_astep (m : Nat) {s : AState} {k : Nat} (hb : GenLe s.a k) (op : AOp)
    (hk : k + op.cost < m) : astepW m s op = astep s op := by
  cases op with
  | alloc loc => simp only [astepW, astep, allocateW_eq m hb (by simpa [AOp.cost] using hk)]
  | batch h start n =>
    simp only [astepW, astep, allocateBatchW_eq m n hb (by simpa [AOp.cost] using hk)]
  | release id => rfl
  | move id loc => rfl

/-- Along a history that issues fewer than `m` identifiers in total, the machine allocator and the
`Nat` allocator take exactly the same steps. -/
theorem arunW_eq_arun (m : Nat) : ∀ (ops : List AOp) (s : AState) (k : Nat),
    GenLe s.a k → k + cost ops < m → arunW m s ops = arun s ops
  | [], s, k, _, _ => rfl
  | op :: ops, s, k, hb, hk => by
    simp only [cost] at hk
    simp only [arunW, arun, astepW_eq_astep m hb op (by omega)]
    cases h1 : astep s op with
    | ub w => rfl
    | ok p =>
      obtain ⟨s', out⟩ := p
      exact arunW_eq_arun m ops s' (k + op.cost) (astep_genLe hb op h1) (by omega)

/-- For a generation counter of `m` values: every history that issues fewer than `m` identifiers
never reaches an unchecked access, issues pairwise distinct identifiers, and no retired identifier —
not only the most recent — resolves again. -/
theorem C02_machine_partial_m (m : Nat) (ops : List AOp) (h : cost ops < m) :
    ∃ s, arunW m AState.init ops = .ok s ∧ s.issued.Nodup ∧
      ∀ id ∈ s.retired, s.a.get id = none ∧ s.a.isActive id = false := by
  rw [arunW_eq_arun m ops AState.init 0 GenLe.empty (by omega)]
  obtain ⟨s, e, g⟩ := arun_good AGood.init ops
  obtain ⟨s', e', hd⟩ := C02_dead_forever ops
  rw [e] at e'; cases e'
  exact ⟨s, e, g.nodup, hd⟩

/-- **The counter the code has** (regenerated from src/entity/allocator/slot.rs and
src/entity/identifier/mod.rs on every run): 64 bits in the slot, 64 bits in the identifier (no
narrowing between the two), starts at 0, bumped by `wrapping_add(1)`.  A narrower counter — a `u16`
generation "to save memory" — still compiles and passes every test, and makes C02 false after
65 536 reuses of one slot; this obligation then fails, and the `churn` scenario of the
correspondence exhibits the reissued identifier. -/
theorem C02_machine_counter : Generated.genCounter = (64, 64, 0, 1) := by decide

/-- **C02 for the machine allocator — partial** (bounded by the number of identifiers issued; the
unbounded statement is false of the code, see `C02_machine_wrap_witness`).  For every history that
issues fewer than 2^(bits of the code's counter) = 2^64 identifiers, the allocator with the code's
generation counter never reaches an unchecked access, issues pairwise distinct identifiers, and
no retired identifier resolves again. -/
theorem C02_machine_partial (ops : List AOp) (h : cost ops < 2 ^ 64) :
    ∃ s, arunW (2 ^ Generated.genCounter.1) AState.init ops = .ok s ∧ s.issued.Nodup ∧
      ∀ id ∈ s.retired, s.a.get id = none ∧ s.a.isActive id = false := by
  have hc : Generated.genCounter.1 = 64 := by rw [C02_machine_counter]
  rw [hc]
  exact C02_machine_partial_m (2 ^ 64) ops h

/-- **Simulation, every history**: whatever the `Nat` allocator does in one step, the machine
allocator does on the state with all generations reduced modulo `m`, and hands out the reduced
identifiers.  (Statement for the three primitives every world operation goes through —
`step_apres`.) -/
theorem C02_machine_simulation (m : Nat) {a a' : Alloc} :
    (∀ loc id, a.allocate loc = .ok (a', id) → allocateW m (a.wrap m) loc = .ok (a'.wrap m, id.wrap m)) ∧
    (∀ h start n ids, a.allocateBatch h start n = .ok (a', ids) →
      allocateBatchW m (a.wrap m) h start n = .ok (a'.wrap m, ids.map (Ident.wrap m))) ∧
    (∀ id, a.release id = .ok a' → (a.wrap m).release (id.wrap m) = .ok (a'.wrap m)) ∧
    (∀ id loc, a.setLoc id loc = .ok a' → (a.wrap m).setLoc (id.wrap m) loc = .ok (a'.wrap m)) ∧
    (∀ id l, a.get id = some l → (a.wrap m).get (id.wrap m) = some l) :=
  ⟨fun _ _ e => allocateW_sim m e, fun _ _ n _ e => allocateBatchW_sim m n e,
   fun _ e => release_sim m e, fun _ _ e => setLoc_sim m e, fun _ _ e => get_sim m e⟩

/-- **The unbounded statement is false of `wrapping_add`**: a free slot that has been through all
`m` values of the counter is handed out with the generation of its first identifier; the stale
first identifier then resolves to the new entity.  (With `m = 2^64` no run gets there; C02's
"never resolves again" holds of the code only up to that count.) -/
theorem C02_machine_wrap_witness (m : Nat) (hm : 0 < m) (loc : Loc) :
    ∃ a', allocateW m ⟨[⟨m - 1, none⟩], [0]⟩ loc = .ok (a', ⟨0, 0⟩) ∧ a'.get ⟨0, 0⟩ = some loc :=
  wrap_reissues m hm 0 [] [⟨m - 1, none⟩] ⟨m - 1, none⟩ rfl rfl loc

/-! The witness state is reachable, shown on a counter of 3 values: the fourth identifier of slot 0
is the first one again (a *test* of the mechanism on a small counter, not a claim about 2^64). -/
example :
    (match arunW 3 AState.init
        [.alloc ⟨0, 0⟩, .release ⟨0, 0⟩, .alloc ⟨0, 0⟩, .release ⟨0, 1⟩, .alloc ⟨0, 0⟩,
         .release ⟨0, 2⟩, .alloc ⟨0, 0⟩] with
     | .ok s => some (s.issued, s.a.get ⟨0, 0⟩)
     | .ub _ => none) =
    some ([⟨0, 0⟩, ⟨0, 2⟩, ⟨0, 1⟩, ⟨0, 0⟩], some ⟨0, 0⟩) := by decide

/-! Non-vacuity of `C02_machine_partial`: a history with reuse below the bound. -/
example : cost [AOp.batch 0 0 3, .release ⟨0, 0⟩, .alloc ⟨0, 1⟩] < 2 ^ 64 := by decide

end Brood

namespace Brood
open Alloc

/-! ### `churn`: the scenario the correspondence runs to drive a generation counter up -/

/-- **What the model answers to `churn`**: from any world with `Inv` and a live entity `id`, after
any positive number of remove / insert rounds the invariant holds, the identifier handed out last is
live, and it differs from `id` and from every identifier `x` that was dead before — which stay
dead.  (So an implementation that hands `id` out again after 65 536 rounds disagrees with the model
*and* with this theorem; the `Nat` model never wraps.) -/
theorem C02_churn_never_returns : ∀ (n : Nat) {w w' : World} {id last x : Ident}, Inv w →
    (w.alloc.get id).isSome → (x = id ∨ Dead w.alloc x) → w.churn (n + 1) id = .ok (w', last) →
    Inv w' ∧ Dead w'.alloc x ∧ last ≠ x ∧ (w'.alloc.get last).isSome
  | n, w, w', id, last, x, hi, hl, hx, h => by
    simp only [World.churn] at h
    cases h1 : w.remove id with
    | ub e => simp [h1] at h
    | ok p1 =>
      obtain ⟨w1, drops⟩ := p1
      simp only [h1] at h
      have hi1 : Inv w1 := remove_inv hi h1
      have hdx : Dead w1.alloc x := by
        rcases hx with rfl | hd
        · exact remove_makes_dead hi hl h1
        · exact step_apres (apres_dead x) hi hd (op := .remove id) (by simp [step, h1, fstOut])
      cases h2 : w1.insert [] [] with
      | ub e => simp [h2] at h
      | ok p2 =>
        obtain ⟨w2, id2⟩ := p2
        simp only [h2] at h
        have hi2 : Inv w2 := insert_inv hi1 h2
        obtain ⟨loc, ha⟩ := insert_alloc hi1 h2
        have hdx2 : Dead w2.alloc x := allocate_dead hdx ha
        have hlive2 : w2.alloc.get id2 = some loc := allocate_get ha
        have hne : id2 ≠ x := by
          intro e; subst e
          rw [hdx2.not_live] at hlive2; cases hlive2
        cases n with
        | zero =>
          simp only [World.churn] at h
          cases h
          exact ⟨hi2, hdx2, hne, by simp [hlive2]⟩
        | succ m =>
          exact C02_churn_never_returns m hi2 (by simp [hlive2]) (Or.inr hdx2) h

/-- No `churn` from a world with `Inv` reaches an unchecked access. -/
theorem C02_churn_no_ub : ∀ (n : Nat) {w : World} {id : Ident}, Inv w →
    ∃ w' last, w.churn n id = .ok (w', last) ∧ Inv w'
  | 0, w, id, hi => ⟨w, id, rfl, hi⟩
  | n + 1, w, id, hi => by
    simp only [World.churn]
    obtain ⟨w1, drops, h1⟩ := remove_no_ub hi id
    have hi1 := remove_inv hi h1
    obtain ⟨w2, id2, h2⟩ := insert_ok hi1 (shape := []) (vals := []) (by simp [World.shapeOk])
    simp only [h1, h2]
    exact C02_churn_no_ub n (insert_inv hi1 h2)

end Brood

namespace Brood
open Alloc

/-! ### the wrap witness is reachable, for every counter size -/

/-- `k` rounds of release + allocate on the machine allocator, starting from the live identifier
`id`. -/
def cycleW (m : Nat) (loc : Loc) : Nat → Alloc → Ident → Out (Alloc × Ident)
  | 0, a, id => .ok (a, id)
  | k + 1, a, id =>
    match a.release id with
    | .ub e => .ub e
    | .ok a1 =>
      match allocateW m a1 loc with
      | .ub e => .ub e
      | .ok (a2, id2) => cycleW m loc k a2 id2

theorem cycleW_spec (m : Nat) (loc : Loc) : ∀ (k g : Nat),
    cycleW m loc k ⟨[⟨g, some loc⟩], []⟩ ⟨0, g⟩ =
      .ok (⟨[⟨if k = 0 then g else (g + k) % m, some loc⟩], []⟩, ⟨0, if k = 0 then g else (g + k) % m⟩)
  | 0, g => by simp [cycleW]
  | k + 1, g => by
    have ih := cycleW_spec m loc k ((g + 1) % m)
    simp only [cycleW, release, allocateW]
    simp only [List.getElem?_cons_zero, List.set_cons_zero, List.nil_append]
    rw [ih]
    by_cases hk : k = 0
    · subst hk; simp
    · simp [hk, Nat.mod_add_mod, Nat.add_assoc, Nat.add_comm 1 k]

/-- **Reachability of the wrap, every counter size `m > 0`**: the allocator's first identifier
`⟨0, 0⟩`, released and its slot reused `m` times, is handed out again — on the machine allocator
uniqueness fails after exactly `m` reuses of one slot (and not before: `C02_machine_partial_m`). -/
theorem C02_machine_wrap_reachable (m : Nat) (hm : 0 < m) (loc : Loc) :
    ∃ a', cycleW m loc m ⟨[⟨0, some loc⟩], []⟩ ⟨0, 0⟩ = .ok (a', ⟨0, 0⟩) := by
  have hm0 : m ≠ 0 := by omega
  refine ⟨⟨[⟨0, some loc⟩], []⟩, ?_⟩
  rw [cycleW_spec m loc m 0]
  simp [hm0]

end Brood

#print axioms Brood.C02_unique
#print axioms Brood.C02_fresh
#print axioms Brood.C02_dead_forever
#print axioms Brood.C02_stable
#print axioms Brood.C02_no_ub
#print axioms Brood.C02_world_dead_forever
#print axioms Brood.C02_world_never_reissued
#print axioms Brood.C02_world_stable
#print axioms Brood.C02_world_dead_in_copies
#print axioms Brood.C02_world_dead_after_clone_from
#print axioms Brood.arunW_eq_arun
#print axioms Brood.C02_machine_partial
#print axioms Brood.C02_machine_simulation
#print axioms Brood.C02_machine_wrap_witness
#print axioms Brood.C02_machine_partial_m
#print axioms Brood.C02_machine_counter
#print axioms Brood.C02_churn_never_returns
#print axioms Brood.C02_churn_no_ub
#print axioms Brood.C02_machine_wrap_reachable
