/-
  `par_query` against `query`: whatever order the archetype table is traversed in and however
  rayon splits each archetype's rows, the rows handed out are a permutation of the sequential
  query's rows (each matching entity exactly once).
-/
import BroodModel.Lemmas.QueryL
import BroodModel.Par

set_option linter.unusedSimpArgs false
set_option linter.unusedVariables false

namespace Brood

/-- The rows of one archetype as a parallel iteration hands them out: the sequential rows cut by
an arbitrary split tree, every leaf folded, the partial results concatenated. -/
def parArchRows (t : Split) (a : Arch) (vs : List View) : Out (List (List Cell)) :=
  match archRows a vs a.ids.length with
  | .ok rows => .ok (t.collect rows)
  | .ub e => .ub e

/-- `World::par_query` over the archetypes in the order `visit`, each split by `trees`. -/
def parQueryArchs (vs : List View) (f : Filter) (trees : Arch → Split) : List Arch → Out (List (List Cell))
  | [] => .ok []
  | a :: as =>
    match parQueryArchs vs f trees as with
    | .ub e => .ub e
    | .ok rest =>
      if viewsFilter a.mask vs && f.eval a.mask then
        match parArchRows (trees a) a vs with
        | .ub e => .ub e
        | .ok rows => .ok (rows ++ rest)
      else .ok rest

theorem collect_eq {α} (t : Split) (xs : List α) : t.collect xs = xs := by
  induction t generalizing xs with
  | leaf => simp [Split.collect, Split.pieces]
  | node i l r ihl ihr =>
    have hl := ihl (xs.take i)
    have hr := ihr (xs.drop i)
    simp only [Split.collect, Split.pieces, List.flatten_append] at *
    rw [hl, hr, List.take_append_drop]

/-- The split trees do not change what is handed out. -/
theorem parQueryArchs_eq_query (vs : List View) (f : Filter) (trees : Arch → Split) (l : List Arch) :
    parQueryArchs vs f trees l = queryArchs vs f l := by
  induction l with
  | nil => rfl
  | cons a as ih =>
    simp only [parQueryArchs, queryArchs, ih, parArchRows]
    cases queryArchs vs f as with
    | ub e => rfl
    | ok rest =>
      simp only
      split
      · cases archRows a vs a.ids.length with
        | ub e => rfl
        | ok rows => simp [collect_eq]
      · rfl

/-- **Parallel queries visit exactly what sequential queries visit, once each**: for every order
in which the archetype table is traversed and every split of every archetype's rows. -/
theorem par_query_perm {w : World} (hi : Inv w) (vs : List View) (f : Filter) (trees : Arch → Split)
    {visit : List Arch} (hp : visit.Perm w.archs) :
    ∃ rows, parQueryArchs vs f trees visit = .ok rows ∧
      rows.Perm (Spec.query w.n ⟨w.ents, w.res, []⟩ vs f) := by
  rw [parQueryArchs_eq_query]
  have hok : ∀ a ∈ visit, ArchOk w a := fun a ha => hi.archOk (hp.mem_iff.mp ha)
  refine ⟨_, queryArchs_eq vs f visit hok, ?_⟩
  unfold Spec.query World.ents
  exact ((hp.flatMap_right Arch.ents).filter _).map _

end Brood
