/-
  BroodModel.Churn — the `churn` operation of the correspondence (C02): `n` rounds of
  `World::remove` of an entity followed by `World::insert` of a component-less one.  It drives one
  slot's generation counter up by `n` when no other slot is free (and rotates through the free ring
  otherwise).  Executed by the driver; `Props/C02.lean` proves what the model answers.
-/
import BroodModel.World

namespace Brood
namespace World

def churn : Nat → World → Ident → Out (World × Ident)
  | 0, w, id => .ok (w, id)
  | n + 1, w, id =>
    match w.remove id with
    | .ub e => .ub e
    | .ok (w1, _) =>
      match w1.insert [] [] with
      | .ub e => .ub e
      | .ok (w2, id2) => churn n w2 id2

end World
end Brood
