/-
  C15 — Resources are addressed by type and untouched by entity operations.

  `res` is the resource list of the L1 world (position = type).  Frame theorems: every entity
  operation, whatever its arguments and outcome, leaves `res` untouched; `clone` / `clone_from`
  copy the source's resources value for value.  Lookup: a view list in any order (distinct
  positions) returns exactly the requested resources in the requested order.  The correspondence
  check compares `res` after every op with the real world (get / get_mut / view_resources in every
  generated order and kind, also after clone, clone_from and serde round trips).
  Resources inside schedules: `C15_phase_resource_safe` — of the tasks the stage runner lets run
  at the same time (static stage members not yet run + add-ons), no two hold claims on one resource
  with one of them mutable; `C15_task_leaves_unclaimed_resources` — under the footprint semantics
  a task changes no resource it does not claim mutably.
-/
import BroodModel.World
import BroodModel.Lemmas.RoundTrip
import BroodModel.Props.C08
import BroodModel.Lemmas.SchedSem

namespace Brood
open World

theorem archForEntity_res {w w1 : World} {m : Mask} {h : Nat}
    (e : w.archForEntity m = .ok (w1, h)) : w1.res = w.res := by
  unfold archForEntity at e
  try dsimp only at e
  repeat' (split at e)
  all_goals (first
    | (simp at e; done)
    | (simp at e; obtain ⟨rfl, _⟩ := e; rfl)
    | (simp at e; obtain ⟨rfl, _⟩ := e; simp [World.setArch])
    | (simp at e; subst e; rfl))

theorem archForMask_res {w w1 : World} {m : Mask} {h : Nat}
    (e : w.archForMask m = .ok (w1, h)) : w1.res = w.res := by
  unfold archForMask at e
  try dsimp only at e
  repeat' (split at e)
  all_goals (first
    | (simp at e; done)
    | (simp at e; obtain ⟨rfl, _⟩ := e; rfl)
    | (simp at e; obtain ⟨rfl, _⟩ := e; simp [World.setArch])
    | (simp at e; subst e; rfl))

theorem takeRowAt_res {w w1 : World} {h r : Nat} {vs : List Val} {id : Ident}
    (e : w.takeRowAt h r = .ok (w1, vs, id)) : w1.res = w.res := by
  unfold takeRowAt at e
  try dsimp only at e
  repeat' (split at e)
  all_goals (first
    | (simp at e; done)
    | (simp at e; obtain ⟨rfl, _⟩ := e; rfl)
    | (simp at e; obtain ⟨rfl, _⟩ := e; simp [World.setArch])
    | (simp at e; subst e; rfl))

/-- `insert` never touches a resource. -/
theorem C15_insert_frame {w w' : World} {shape : List Nat} {vals : List Val} {id : Ident}
    (e : w.insert shape vals = .ok (w', id)) : w'.res = w.res := by
  unfold World.insert at e
  cases h1 : w.archForEntity (Mask.ofShape w.n shape) with
  | ub x => simp [h1] at e
  | ok p =>
    obtain ⟨w1, h⟩ := p
    have hr := archForEntity_res h1
    simp only [h1] at e
    try dsimp only at e
    repeat' (split at e)
    all_goals (first
      | (simp at e; done)
      | (simp at e; obtain ⟨rfl, _⟩ := e; rfl)
      | (simp at e; obtain ⟨rfl, _⟩ := e; simp [World.setArch])
      | (simp at e; subst e; rfl))
    all_goals (first | exact hr | (simp [World.setArch]; exact hr))

/-- `extend` never touches a resource. -/
theorem C15_extend_frame {w w' : World} {shape : List Nat} {rows : List (List Val)} {ids : List Ident}
    (e : w.extend shape rows = .ok (w', ids)) : w'.res = w.res := by
  unfold World.extend at e
  cases h1 : w.archForEntity (Mask.ofShape w.n shape) with
  | ub x => simp [h1] at e
  | ok p =>
    obtain ⟨w1, h⟩ := p
    have hr := archForEntity_res h1
    simp only [h1] at e
    try dsimp only at e
    repeat' (split at e)
    all_goals (first
      | (simp at e; done)
      | (simp at e; obtain ⟨rfl, _⟩ := e; rfl)
      | (simp at e; obtain ⟨rfl, _⟩ := e; simp [World.setArch])
      | (simp at e; subst e; rfl))
    all_goals (first | exact hr | (simp [World.setArch]; exact hr))

/-- `remove` never touches a resource. -/
theorem C15_remove_frame {w w' : World} {id : Ident} {drops : List Val}
    (e : w.remove id = .ok (w', drops)) : w'.res = w.res := by
  unfold World.remove at e
  cases hg : w.alloc.get id with
  | none => simp [hg] at e; obtain ⟨rfl, _⟩ := e; rfl
  | some loc =>
    simp only [hg] at e
    cases h1 : w.takeRowAt loc.arch loc.row with
    | ub x => simp [h1] at e
    | ok p =>
      obtain ⟨w1, vs, eid⟩ := p
      have hr := takeRowAt_res h1
      simp only [h1] at e
      try dsimp only at e
      repeat' (split at e)
      all_goals (first
        | (simp at e; done)
        | (simp at e; obtain ⟨rfl, _⟩ := e; rfl)
        | (simp at e; obtain ⟨rfl, _⟩ := e; simp [World.setArch])
        | (simp at e; subst e; rfl))
      all_goals (first | exact hr | (simp; exact hr))

/-- `clear` never touches a resource. -/
theorem C15_clear_frame {w w' : World} {order : List Mask} {drops : List Val}
    (e : w.clear order = .ok (w', drops)) : w'.res = w.res := by
  obtain ⟨w0, e0, rfl⟩ := clear_eq e
  show w0.res = w.res
  unfold World.clearRaw at e0
  try dsimp only at e0
  repeat' (split at e0)
  all_goals (first
    | (simp at e0; done)
    | (simp at e0; obtain ⟨rfl, _⟩ := e0; rfl))

/-- `reserve` and `shrink_to_fit` never touch a resource. -/
theorem C15_reserve_frame {w w' : World} {shape : List Nat} (e : w.reserve shape = .ok w') :
    w'.res = w.res := by
  unfold World.reserve at e
  cases h1 : w.archForEntity (Mask.ofShape w.n shape) with
  | ub x => simp [h1] at e
  | ok p =>
    obtain ⟨w1, h⟩ := p
    simp [h1] at e
    subst e
    exact archForEntity_res h1

theorem C15_shrink_frame (w : World) : w.shrinkToFit.res = w.res := rfl

/-- Writing a component through an entry never touches a resource. -/
theorem C15_write_frame {w w' : World} {id : Ident} {c : Nat} {v : Val} {r : Option (List Val)}
    (e : w.write id c v = .ok (w', r)) : w'.res = w.res := by
  unfold World.write at e
  try dsimp only at e
  repeat' (split at e)
  all_goals (first
    | (simp at e; done)
    | (simp at e; obtain ⟨rfl, _⟩ := e; rfl)
    | (simp at e; obtain ⟨rfl, _⟩ := e; simp [World.setArch])
    | (simp at e; subst e; rfl))

/-- `Entry::add` never touches a resource (overwrite in place, or the row moved to another table). -/
theorem C15_entry_add_frame {w w' : World} {id : Ident} {c : Nat} {v : Val} {r : Option (List Val)}
    (e : w.entryAdd id c v = .ok (w', r)) : w'.res = w.res := by
  unfold World.entryAdd at e
  cases hg : w.alloc.get id with
  | none => simp [hg] at e; obtain ⟨rfl, _⟩ := e; rfl
  | some loc =>
    simp only [hg] at e
    cases hga : w.getArch loc.arch with
    | ub x => simp [hga] at e
    | ok a =>
      simp only [hga] at e
      by_cases hc : a.mask.has c
      · simp only [hc, if_true] at e
        repeat' (split at e)
        all_goals (first
          | (simp at e; done)
          | (simp at e; obtain ⟨rfl, _⟩ := e; rfl))
      · simp only [hc, Bool.false_eq_true, if_false] at e
        cases ht : w.takeRowAt loc.arch loc.row with
        | ub x => simp [ht] at e
        | ok p =>
          obtain ⟨w1, vs, eid⟩ := p
          simp only [ht] at e
          cases hm : w1.archForMask (setBit a.mask c true) with
          | ub x => simp [hm] at e
          | ok q =>
            obtain ⟨w2, h'⟩ := q
            simp only [hm] at e
            repeat' (split at e)
            all_goals (first
              | (simp at e; done)
              | (simp at e; obtain ⟨rfl, _⟩ := e
                 show w2.res = w.res
                 rw [archForMask_res hm, takeRowAt_res ht]))

/-- `Entry::remove` never touches a resource. -/
theorem C15_entry_remove_frame {w w' : World} {id : Ident} {c : Nat} {r : Option (List Val)}
    (e : w.entryRemove id c = .ok (w', r)) : w'.res = w.res := by
  unfold World.entryRemove at e
  cases hg : w.alloc.get id with
  | none => simp [hg] at e; obtain ⟨rfl, _⟩ := e; rfl
  | some loc =>
    simp only [hg] at e
    cases hga : w.getArch loc.arch with
    | ub x => simp [hga] at e
    | ok a =>
      simp only [hga] at e
      by_cases hc : a.mask.has c
      · simp only [hc, if_true] at e
        cases ht : w.takeRowAt loc.arch loc.row with
        | ub x => simp [ht] at e
        | ok p =>
          obtain ⟨w1, vs, eid⟩ := p
          simp only [ht] at e
          cases hm : w1.archForMask (setBit a.mask c false) with
          | ub x => simp [hm] at e
          | ok q =>
            obtain ⟨w2, h'⟩ := q
            simp only [hm] at e
            repeat' (split at e)
            all_goals (first
              | (simp at e; done)
              | (simp at e; obtain ⟨rfl, _⟩ := e
                 show w2.res = w.res
                 rw [archForMask_res hm, takeRowAt_res ht]))
      · simp [hc] at e; obtain ⟨rfl, _⟩ := e; rfl

/-- A serde round trip reproduces every resource (same type, same base identity), in order. -/
theorem C15_roundtrip_res {w : World} (hi : Inv w) (hres : Serde.ResOk w) (k : Kinds) (hr : Bool) (e next : Nat) :
    ∃ w', Serde.deserialize k hr w.n w.res.length e next (Serde.serialize hr w) = .ok w' ∧
      w'.res = w.res.map (Serde.retag k e) := by
  obtain ⟨al, _, hde⟩ := Serde.roundtrip_ok hi hres k hr e next
  exact ⟨_, hde, rfl⟩

/-- `clone` copies the resources value for value (fresh identities, same base identities). -/
theorem C15_clone_res {w c : World} {e next : Nat} (h : w.clone e next = .ok c) :
    c.res = w.res.map (cloneVal e) ∧ c.res.length = w.res.length := by
  unfold World.clone at h
  dsimp only at h
  repeat' (split at h)
  all_goals (first | (simp at h; done) | (simp at h; subst h; simp))

/-- `clone_from` replaces the destination's resources by copies of the source's, whatever the
destination held. -/
theorem C15_cloneFrom_res {d s d' : World} {e : Nat} {drops : List Val}
    (h : World.cloneFrom d s e = .ok (d', drops)) : d'.res = s.res.map (cloneVal e) := by
  unfold World.cloneFrom at h
  dsimp only at h
  repeat' (split at h)
  all_goals (first | (simp at h; done) | (simp at h; obtain ⟨rfl, _⟩ := h; rfl))

/-- A copy has the same base identity and type: `PartialEq` sees it as equal. -/
theorem cloneVal_eqv (e : Nat) (v : Val) : Val.eqv v (cloneVal e v) = true := by
  simp [Val.eqv, cloneVal, Val.base, epochBase, Nat.add_mul_mod_self_right]

/-- **Lookup by position, in any requested order**: viewing the resources at distinct positions
`ps` returns exactly `res[p]` for each requested `p`, in the requested order. -/
theorem C15_view (res : List Val) (ps : List Nat) (h : ∀ p ∈ ps, p < res.length) :
    ps.filterMap (fun p => res[p]?) = ps.map (fun p => res.getD p default) ∧
    (ps.filterMap (fun p => res[p]?)).length = ps.length := by
  induction ps with
  | nil => simp
  | cons p ps ih =>
    have hp : p < res.length := h p (by simp)
    obtain ⟨ih1, ih2⟩ := ih (fun q hq => h q (by simp [hq]))
    simp [List.filterMap_cons, List.getElem?_eq_getElem hp, ih1, ih2, List.getD_eq_getElem?_getD]

open Static Generated in
/-- **Resources inside schedules.**  Among the tasks that may run at the same time (the tasks of a
stage that have not run yet and the next-stage tasks started early), no two claim the same resource
with one of the claims mutable — for every schedule, set of archetypes and has-run pattern. -/
theorem C15_phase_resource_safe {n nres : Nat} {masks : List Mask} (hm : masks.Nodup)
    (ts : List Task) (hwf : ∀ t ∈ ts, t.WF) (stage : List Task)
    (hs : stage ∈ stages verifierTable mergerTable ts) (next : List Task) (hasRun : List Bool) :
    ((((List.zip stage hasRun).filter (fun p => !p.2)).map (·.1)) ++
        accepted next (runStage claimTryMerge n nres masks stage hasRun next).2).Pairwise
      (fun a b => ∀ p : Nat,
        ((b.resVec nres).getD p .none).conflicts ((a.resVec nres).getD p .none) = false) := by
  refine (C08_phase_conflict_free hm ts hwf stage hs next hasRun).imp ?_
  intro a b h p
  exact vecOk_getD h.1 (by rw [resVec_length, resVec_length]) p

open Static Generated in
/-- Under the footprint semantics a task changes only resources it claims mutably. -/
theorem C15_task_leaves_unclaimed_resources (n nres : Nat) (masks : List Mask)
    (g : Task → (SCell → Nat) → SCell → Nat) (t : Task) (s : SCell → Nat) (p : Nat)
    (h : (t.resVec nres).getD p .none ≠ .mutable) :
    apTask n nres masks g t s (.res p) = s (.res p) := by
  have h' : (Task.resVec nres t)[p]?.getD Cl.none ≠ Cl.mutable := by simpa [List.getD] using h
  unfold apTask
  simp [Task.claimSCell, h']

end Brood

#print axioms Brood.C15_insert_frame
#print axioms Brood.C15_extend_frame
#print axioms Brood.C15_remove_frame
#print axioms Brood.C15_clear_frame
#print axioms Brood.C15_reserve_frame
#print axioms Brood.C15_shrink_frame
#print axioms Brood.C15_write_frame
#print axioms Brood.C15_entry_add_frame
#print axioms Brood.C15_entry_remove_frame
#print axioms Brood.C15_roundtrip_res
#print axioms Brood.C15_clone_res
#print axioms Brood.C15_cloneFrom_res
#print axioms Brood.cloneVal_eqv
#print axioms Brood.C15_view
#print axioms Brood.C15_phase_resource_safe
#print axioms Brood.C15_task_leaves_unclaimed_resources
