/-
  `World::shrink_to_fit` preserves the invariant: empty tables are erased together with every
  lookup entry naming them; nothing else refers to them.
-/
import BroodModel.Lemmas.World

set_option linter.unusedSimpArgs false
set_option linter.unusedVariables false

namespace Brood
open Alloc

theorem find_filter_of_pos {α} {l : List α} {p q : α → Bool} {a : α}
    (h : l.find? p = some a) (hq : q a = true) : (l.filter q).find? p = some a := by
  induction l with
  | nil => simp at h
  | cons b bs ih =>
    simp only [List.find?_cons] at h
    cases hpb : p b with
    | true =>
      simp only [hpb] at h
      cases h
      simp [List.filter_cons, hq, hpb]
    | false =>
      simp only [hpb] at h
      cases hqb : q b with
      | true => simp [List.filter_cons, hqb, List.find?_cons, hpb, ih h]
      | false => simp [List.filter_cons, hqb, ih h]

theorem sum_filter_nonempty (l : List Arch) :
    ((l.filter (fun a => !a.ids.isEmpty)).map (·.ids.length)).sum = (l.map (·.ids.length)).sum := by
  induction l with
  | nil => rfl
  | cons a as ih =>
    cases h : a.ids.isEmpty with
    | true =>
      have : a.ids.length = 0 := by simpa using h
      simp [List.filter_cons, h, ih, this]
    | false => simp [List.filter_cons, h, ih]

/-- **`shrink_to_fit` preserves the invariant.** -/
theorem shrink_inv {w : World} (hi : Inv w) : Inv w.shrinkToFit := by
  -- names
  have hdead : ∀ hd, hd ∈ (w.archs.filter (fun a => a.ids.isEmpty)).map (·.handle) →
      ∀ a, w.findArch hd = some a → a.ids.isEmpty = true := by
    intro hd hmem a hfa
    obtain ⟨y, hy, rfl⟩ := List.mem_map.mp hmem
    obtain ⟨hym, hye⟩ := List.mem_filter.mp hy
    have := findArch_of_mem hi.handles_nodup hym
    rw [this] at hfa; cases hfa; exact hye
  have hsurv : ∀ hd a, w.findArch hd = some a → a.ids.isEmpty = false →
      w.shrinkToFit.findArch hd = some a := by
    intro hd a hfa hne
    unfold World.findArch World.shrinkToFit
    simp only
    exact find_filter_of_pos hfa (by simp [hne])
  have hnotdead : ∀ a, a ∈ w.archs → a.ids.isEmpty = false →
      a.handle ∉ (w.archs.filter (fun a => a.ids.isEmpty)).map (·.handle) := by
    intro a ha hne hmem
    have := hdead _ hmem a (findArch_of_mem hi.handles_nodup ha)
    rw [hne] at this; cases this
  have hlook : ∀ p : Mask × Nat, lookupOk w p = true →
      p.2 ∉ (w.archs.filter (fun a => a.ids.isEmpty)).map (·.handle) → lookupOk w.shrinkToFit p = true := by
    intro p hp hnd
    unfold lookupOk at hp ⊢
    cases hf : w.findArch p.2 with
    | none => simp [hf] at hp
    | some a =>
      have hne : a.ids.isEmpty = false := by
        cases he : a.ids.isEmpty with
        | false => rfl
        | true =>
          exfalso; apply hnd
          obtain ⟨ham, hah⟩ := findArch_some hf
          exact List.mem_map.mpr ⟨a, List.mem_filter.mpr ⟨ham, he⟩, hah⟩
      rw [hsurv _ _ hf hne]; simpa [hf] using hp
  refine
    { free_nodup := hi.free_nodup, free_inactive := hi.free_inactive, slots := ?_, archs := ?_,
      masks_nodup := ?_, handles_nodup := ?_, typeIds := ?_, typeIds_nodup := ?_, foreign := ?_,
      len := ?_ }
  · intro i hlt
    apply slotOk_iff.mpr
    intro s hs
    obtain ⟨h1, h2⟩ := (slotOk_iff.mp (hi.slots i hlt)) s hs
    refine ⟨h1, fun l hl => ?_⟩
    obtain ⟨a, hfa, hrow, hfree⟩ := h2 l hl
    have hne : a.ids.isEmpty = false := by
      cases he : a.ids.isEmpty with
      | false => rfl
      | true =>
        have : a.ids = [] := by simpa using he
        rw [this] at hrow; simp at hrow
    exact ⟨a, hsurv _ _ hfa hne, hrow, hfree⟩
  · intro x hx
    obtain ⟨hxm, hxne⟩ := List.mem_filter.mp (hx : x ∈ w.archs.filter (fun a => !a.ids.isEmpty))
    have hne : x.ids.isEmpty = false := by simpa using hxne
    have ok := hi.archOk hxm
    apply archOk_iff.mpr
    exact
      { mask_len := ok.mask_len, handle_lt := ok.handle_lt, cols_len := ok.cols_len,
        cols_all_len := ok.cols_all_len, cols_ok := ok.cols_ok, rows := ok.rows,
        foreign := by
          show (x.mask, x.handle) ∈ w.foreign.filter _
          apply List.mem_filter.mpr
          refine ⟨ok.foreign, ?_⟩
          have := hnotdead x hxm hne
          simpa using this }
  · exact List.Nodup.sublist (List.Sublist.map _ (List.filter_sublist)) hi.masks_nodup
  · exact List.Nodup.sublist (List.Sublist.map _ (List.filter_sublist)) hi.handles_nodup
  · intro p hp
    obtain ⟨hpm, hpd⟩ := List.mem_filter.mp (hp : p ∈ w.typeIds.filter _)
    exact hlook p (hi.typeIds p hpm) (by simpa using hpd)
  · exact List.Nodup.sublist (List.Sublist.map _ (List.filter_sublist)) hi.typeIds_nodup
  · intro p hp
    obtain ⟨hpm, hpd⟩ := List.mem_filter.mp (hp : p ∈ w.foreign.filter _)
    exact hlook p (hi.foreign p hpm) (by simpa using hpd)
  · show w.len = ((w.archs.filter (fun a => !a.ids.isEmpty)).map (·.ids.length)).sum
    rw [sum_filter_nonempty]; exact hi.len

end Brood
