/-
  C09 — Parallel queries visit exactly what sequential queries visit, once each.

  Proved for *every* split tree (every pool size and split pattern): the leaves of a split tree
  partition the sequence in order, so collecting the leaves yields exactly the sequential items,
  each once; the `None` filler splits consistently with the column producers, so zipped leaves
  reproduce the sequential zip.  PARTIAL: rayon's `bridge`, `MultiZip`, the splitter heuristics and
  hashbrown's parallel bucket iterator are assumed to implement this plumbing contract (each item
  to exactly one leaf); the correspondence run compares `par_query` on pools of 1, 2, 3, 8 and 16
  threads (three consumption modes) with the model's and the L0 spec's sequential answer, and checks
  address-disjointness of all mutable items handed out in one parallel iteration.
  At the level of worlds (`Lemmas/ParL`, `Lemmas/ParAddr`): the rows handed out are a permutation
  of `query`'s rows (`C09_par_query_is_query`); over all of them the mutable addresses
  (archetype, row, component) are pairwise distinct (`C09_mut_access_disjoint`); and updates that
  touch only their own row end in the same state in the parallel order as in the sequential order
  (`C09_independent_updates_eq_sequential`).
-/
import BroodModel.Lemmas.ParAddr

namespace Brood

/-- The leaves of any split tree concatenate to the original sequence: every item is visited,
exactly once, nothing else. -/
theorem C09_pieces_flatten {α} (t : Split) (xs : List α) : t.collect xs = xs := by
  induction t generalizing xs with
  | leaf => simp [Split.collect, Split.pieces]
  | node i l r ihl ihr =>
    have hl := ihl (xs.take i)
    have hr := ihr (xs.drop i)
    simp only [Split.collect, Split.pieces, List.flatten_append] at *
    rw [hl, hr, List.take_append_drop]

/-- The number of items handed out equals the sequential count, whatever the tree. -/
theorem C09_count {α} (t : Split) (xs : List α) : ((t.pieces xs).map List.length).sum = xs.length := by
  have := congrArg List.length (C09_pieces_flatten t xs)
  simpa [Split.collect, List.length_flatten] using this

/-- Splitting the `None` filler at `i` leaves `count` items in total and both halves are fillers. -/
theorem C09_repeat_none_split (count i : Nat) :
    (repeatNoneSplit count i).1 + (repeatNoneSplit count i).2 = count ∧
    (repeatNone count).take i = repeatNone (repeatNoneSplit count i).1 ∧
    (repeatNone count).drop i = repeatNone (repeatNoneSplit count i).2 := by
  refine ⟨by simp [repeatNoneSplit]; omega, ?_, ?_⟩
  · simp [repeatNone, repeatNoneSplit, List.take_replicate]
  · simp [repeatNone, repeatNoneSplit, List.drop_replicate]

/-- Two producers of equal length split by the same tree have leaves of equal lengths. -/
theorem pieces_lengths {α β} (t : Split) (xs : List α) (ys : List β) (h : xs.length = ys.length) :
    (t.pieces xs).map List.length = (t.pieces ys).map List.length := by
  induction t generalizing xs ys with
  | leaf => simp [Split.pieces, h]
  | node i l r ihl ihr =>
    simp only [Split.pieces, List.map_append]
    rw [ihl (xs.take i) (ys.take i) (by simp [h]), ihr (xs.drop i) (ys.drop i) (by simp [h])]

/-- **Zipping leaf by leaf equals the sequential zip**: a column (or the `None` filler) split
together with the other columns reproduces exactly the sequential rows — no row dropped at a split
point, none duplicated. -/
theorem C09_zip_pieces {α β} (t : Split) (xs : List α) (ys : List β) (h : xs.length = ys.length) :
    zipPieces t xs ys = List.zip xs ys := by
  induction t generalizing xs ys with
  | leaf => simp [zipPieces, Split.pieces]
  | node i l r ihl ihr =>
    have hl := ihl (xs.take i) (ys.take i) (by simp [h])
    have hr := ihr (xs.drop i) (ys.drop i) (by simp [h])
    have hlen : (l.pieces (xs.take i)).length = (l.pieces (ys.take i)).length := by
      have := congrArg List.length (pieces_lengths l (xs.take i) (ys.take i) (by simp [h]))
      simpa using this
    simp only [zipPieces, Split.pieces] at *
    rw [List.zipWith_append hlen, List.flatten_append, hl, hr]
    rw [← List.zip_append (by simp [h])]
    simp [List.take_append_drop]

/-- **At the level of worlds**: `par_query` over the archetype table traversed in any order, every
archetype's rows split by any tree, hands out a permutation of the rows the sequential `query`
returns — which (C03) are exactly one row per matching live entity, with that entity's values. -/
theorem C09_par_query_is_query {w : World} (hi : Inv w) (vs : List View) (f : Filter)
    (trees : Arch → Split) {visit : List Arch} (hp : visit.Perm w.archs) :
    ∃ rows, parQueryArchs vs f trees visit = .ok rows ∧
      rows.Perm (Spec.query w.n ⟨w.ents, w.res, []⟩ vs f) ∧
      ∃ seq, w.query vs f = .ok seq ∧ rows.Perm seq := by
  obtain ⟨rows, h1, h2⟩ := par_query_perm hi vs f trees hp
  exact ⟨rows, h1, h2, _, query_eq_spec hi vs f, h2⟩

/-- **No two results handed out during one parallel iteration give mutable access to the same
component value.**  `parAddrRows` lists, per result row, the (archetype, row, component) addresses
the row's `&mut` / `Option<&mut>` views point at; for every traversal order and every split
trees, all of them are pairwise distinct — provided the views name no component twice mutably,
which the type system enforces (C14, `views2 … same`). -/
theorem C09_mut_access_disjoint {w : World} (hi : Inv w) (vs : List View)
    (hv : (vs.filterMap View.mutComp).Nodup) (f : Filter) (trees : Arch → Split)
    {visit : List Arch} (hp : visit.Perm w.archs) :
    (parAddrRows vs f trees visit).flatten.Nodup :=
  par_mut_addrs_nodup hi vs hv f trees hp

/-- **The outcome of a parallel system that updates each entity independently equals that of its
sequential counterpart**: for every update `g` that touches only its own row (`apRow`), running it
over the rows in the order a parallel iteration hands them out ends in the state of running it in
the sequential query's order. -/
theorem C09_independent_updates_eq_sequential {w : World} (hi : Inv w) (vs : List View) (f : Filter)
    (trees : Arch → Split) {visit : List Arch} (hp : visit.Perm w.archs)
    (g : Mask × Nat → (Addr → Nat) → Addr → Nat) (s : Addr → Nat) :
    runSeq (apRow g) (parRowKeys vs f trees visit) s = runSeq (apRow g) (seqRowKeys vs f w.archs) s :=
  par_row_updates_eq_seq hi vs f trees hp g s

/-- Non-vacuity: two mutable views of different components over a two-row archetype give four
distinct addresses; the split tree does not matter. -/
example :
    parAddrRows [.mut 0, .omut 1] .none (fun _ => .node 1 .leaf .leaf)
      [⟨0, [true, true], [⟨0, 0⟩, ⟨1, 0⟩], [[⟨0, 1⟩, ⟨0, 2⟩], [⟨1, 3⟩, ⟨1, 4⟩]]⟩] =
    [[([true, true], 0, 0), ([true, true], 0, 1)], [([true, true], 1, 0), ([true, true], 1, 1)]] := by
  decide

example : (Split.node 2 (.node 1 .leaf .leaf) .leaf).pieces [10, 20, 30] = [[10], [20], [30]] := by decide

end Brood

#print axioms Brood.C09_pieces_flatten
#print axioms Brood.C09_count
#print axioms Brood.C09_repeat_none_split
#print axioms Brood.C09_zip_pieces
#print axioms Brood.C09_par_query_is_query
#print axioms Brood.C09_mut_access_disjoint
#print axioms Brood.C09_independent_updates_eq_sequential
