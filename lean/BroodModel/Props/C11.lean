import BroodModel.Serde
namespace Brood
open Serde
/-- The serialization of the empty world deserializes (both encodings). -/
theorem C11_empty_roundtrip (k : Kinds) (hr : Bool) (n e next : Nat) :
    (deserialize k hr n 0 e next (serialize hr (World.init n []))).toOption.isSome = true := by
  cases hr <;> simp [serialize, World.init, serAlloc, Alloc.empty, deserialize, expectTup, elem, hasElem,
    deArchs, deAllocParts, deAllocFields, deU64, deFreeSeq, deFree, fromParts, fillSlot,
    deserialize.go, assertEnded, Except.toOption, pure, Except.pure]
end Brood
#print axioms Brood.C11_empty_roundtrip
