/-
  The map view of a world: `World.entity w id` is the component values stored for identifier `id`
  (in registry order), or `none` if `id` is not live.  This file proves how every operation changes
  that map — the refinement to the reference a user has in mind (C01) — under the invariant.
-/
import BroodModel.Lemmas.NoUB
import BroodModel.Spec

set_option linter.unusedSimpArgs false
set_option linter.unusedVariables false

namespace Brood
open Alloc

/-- Row `r` of a table: one value per column, in column (= registry) order. -/
def Arch.row (a : Arch) (r : Nat) : List Val := a.cols.filterMap (fun c => c[r]?)

/-- The entity stored under `id`: follow the allocator's location into the table. -/
def World.entity (w : World) (id : Ident) : Option (List Val) :=
  match w.alloc.get id with
  | none => none
  | some l =>
    match w.findArch l.arch with
    | none => none
    | some a => some (a.row l.row)

theorem entity_of_liveAt {w : World} {id : Ident} {a : Arch} {r : Nat} (la : LiveAt w id a r) :
    w.entity id = some (a.row r) := by
  unfold World.entity
  simp [la.get, la.find]

theorem entity_none_of_dead {w : World} {id : Ident} (h : w.alloc.get id = none) : w.entity id = none := by
  unfold World.entity; simp [h]

theorem entity_isSome_iff {w : World} (hi : Inv w) {id : Ident} :
    (w.entity id).isSome ↔ (w.alloc.get id).isSome := by
  cases hg : w.alloc.get id with
  | none => simp [entity_none_of_dead hg]
  | some l =>
    obtain ⟨a, la, _⟩ := hi.liveAt hg
    simp [entity_of_liveAt la]

/-- Under the invariant the map view is exactly "what the tables store". -/
theorem entity_eq_some_iff {w : World} (hi : Inv w) {id : Ident} {vs : List Val} :
    w.entity id = some vs ↔ ∃ a ∈ w.archs, ∃ r, a.ids[r]? = some id ∧ a.row r = vs := by
  constructor
  · intro h
    cases hg : w.alloc.get id with
    | none => rw [entity_none_of_dead hg] at h; cases h
    | some l =>
      obtain ⟨a, la, _⟩ := hi.liveAt hg
      rw [entity_of_liveAt la] at h
      exact ⟨a, la.mem, l.row, la.row, by simpa using h⟩
  · rintro ⟨a, ha, r, hr, rfl⟩
    have hg := hi.row_live ha hr
    have la : LiveAt w id a r := ⟨hg, findArch_of_mem hi.handles_nodup ha, ha, hr, hi.archOk ha⟩
    exact entity_of_liveAt la

/-! ### the allocator under an `AllocSpec` step -/

theorem AllocSpec.get_new {a a' : Alloc} {loc : Loc} {id : Ident} (sp : AllocSpec a a' loc id) :
    a'.get id = some loc := by
  unfold Alloc.get
  rw [sp.slots id.index]; simp

theorem AllocSpec.get_old_none {a a' : Alloc} {loc : Loc} {id : Ident} (sp : AllocSpec a a' loc id)
    {id' : Ident} (hx : id'.index = id.index) : a.get id' = none := by
  unfold Alloc.get
  cases hs : a.slots[id'.index]? with
  | none => rfl
  | some s =>
    rw [hx] at hs
    have := sp.was_inactive s hs
    simp [this]

theorem AllocSpec.get_other {a a' : Alloc} {loc : Loc} {id : Ident} (sp : AllocSpec a a' loc id)
    {id' : Ident} (hne : id' ≠ id) : a'.get id' = a.get id' := by
  by_cases hx : id'.index = id.index
  · rw [sp.get_old_none hx]
    unfold Alloc.get
    rw [sp.slots id'.index]
    simp only [hx, if_true]
    have : id.gen ≠ id'.gen := by
      intro hg; apply hne
      cases id; cases id'; simp_all
    simp [this]
  · unfold Alloc.get
    rw [sp.slots id'.index]
    simp [hx]

/-! ### appending a row -/

theorem filterMap_zipWith_append_lt (cols : List (List Val)) (cv : List Val) (r n : Nat)
    (hlen : ∀ c ∈ cols, c.length = n) (hr : r < n) (hcv : cv.length = cols.length) :
    (List.zipWith (fun c v => c ++ [v]) cols cv).filterMap (fun c => c[r]?) =
      cols.filterMap (fun c => c[r]?) := by
  induction cols generalizing cv with
  | nil => simp
  | cons c cs ih =>
    cases cv with
    | nil => simp at hcv
    | cons v vs =>
      have hc : c.length = n := hlen c (by simp)
      have : (c ++ [v])[r]? = c[r]? := List.getElem?_append_left (by omega)
      simp only [List.zipWith_cons_cons, List.filterMap_cons, this]
      rw [ih vs (fun x hx => hlen x (by simp [hx])) (by simpa using hcv)]

theorem filterMap_zipWith_append_eq (cols : List (List Val)) (cv : List Val) (n : Nat)
    (hlen : ∀ c ∈ cols, c.length = n) (hcv : cv.length = cols.length) :
    (List.zipWith (fun c v => c ++ [v]) cols cv).filterMap (fun c => c[n]?) = cv := by
  induction cols generalizing cv with
  | nil => cases cv with
    | nil => rfl
    | cons v vs => simp at hcv
  | cons c cs ih =>
    cases cv with
    | nil => simp at hcv
    | cons v vs =>
      have hc : c.length = n := hlen c (by simp)
      have : (c ++ [v])[n]? = some v := by
        rw [List.getElem?_append_right (by omega)]; simp [hc]
      simp only [List.zipWith_cons_cons, List.filterMap_cons, this]
      rw [ih vs (fun x hx => hlen x (by simp [hx])) (by simpa using hcv)]

/-- The table after `pushRow`, in closed form. -/
theorem pushRow_eq {a a' : Arch} {cv : List Val} {id : Ident} (hp : a.pushRow cv id = .ok a') :
    a' = { a with ids := a.ids ++ [id], cols := List.zipWith (fun c v => c ++ [v]) a.cols cv } ∧
      cv.length = a.cols.length := by
  unfold Arch.pushRow at hp
  split at hp; · simp at hp
  split at hp; · simp at hp
  rename_i _ hl
  simp at hp hl
  exact ⟨hp.symm, hl⟩

/-- **One appended row changes the map at the new identifier only.** -/
theorem pushRow_entity {w : World} (hi : Inv w) {a a' : Arch} {hd : Nat} (hfa : w.findArch hd = some a)
    {al : Alloc} {nid : Ident} {cv : List Val}
    (sp : AllocSpec w.alloc al ⟨hd, a.ids.length⟩ nid) (hp : a.pushRow cv nid = .ok a') :
    w.entity nid = none ∧
    ({ (w.setArch a') with alloc := al, len := w.len + 1 } : World).entity nid = some cv ∧
    ∀ id', id' ≠ nid →
      ({ (w.setArch a') with alloc := al, len := w.len + 1 } : World).entity id' = w.entity id' := by
  obtain ⟨ham, hah⟩ := findArch_some hfa
  subst hah
  have ok := hi.archOk ham
  obtain ⟨rfl, hcvlen⟩ := pushRow_eq hp
  have hfind_same := findArch_setArch_same w
    { a with ids := a.ids ++ [nid], cols := List.zipWith (fun c v => c ++ [v]) a.cols cv } hfa
  refine ⟨entity_none_of_dead (sp.get_old_none rfl), ?_, ?_⟩
  · unfold World.entity
    show (match al.get nid with | none => none | some l => _) = _
    rw [sp.get_new]
    simp only
    show (match (w.setArch _).findArch a.handle with | none => none | some b => some (b.row a.ids.length)) = _
    rw [hfind_same]
    simp only [Arch.row]
    rw [filterMap_zipWith_append_eq a.cols cv a.ids.length ok.cols_all_len hcvlen]
  · intro id' hne
    unfold World.entity
    show (match al.get id' with | none => none | some l => _) = _
    rw [sp.get_other hne]
    cases hg : w.alloc.get id' with
    | none => rfl
    | some l =>
      obtain ⟨b, lb, hh⟩ := hi.liveAt hg
      simp only
      show (match (w.setArch _).findArch l.arch with | none => none | some x => some (x.row l.row)) = _
      rw [← hh, lb.find]
      by_cases hba : b.handle = a.handle
      · have hb : b = a := by
          have h1 := lb.find; rw [hba, hfa] at h1; cases h1; rfl
        subst hb
        rw [hfind_same]
        have hr : l.row < b.ids.length := (List.getElem?_eq_some_iff.mp lb.row).1
        simp only [Arch.row]
        rw [filterMap_zipWith_append_lt b.cols cv l.row b.ids.length ok.cols_all_len hr hcvlen]
      · have := findArch_setArch_ne w
          { a with ids := a.ids ++ [nid], cols := List.zipWith (fun c v => c ++ [v]) a.cols cv } hba
        rw [this, lb.find]

/-! ### finding / creating a table does not change the map -/

theorem archFor_entity {w w1 : World} {m : Mask} {hd : Nat} (hi : Inv w) (af : ArchFor w w1 m hd)
    (id : Ident) : w1.entity id = w.entity id := by
  unfold World.entity
  rw [af.alloc]
  cases hg : w.alloc.get id with
  | none => rfl
  | some l =>
    obtain ⟨b, lb, hh⟩ := hi.liveAt hg
    simp only
    rw [← hh, lb.find, af.old _ _ lb.find]

/-! ### `insert` -/

/-- **`insert` adds exactly one entity** — the returned identifier was not live, now maps to the
written values in registry order, every other identifier is untouched, and `len` grows by one. -/
theorem insert_entity {w w' : World} {shape : List Nat} {vals : List Val} {nid : Ident} (hi : Inv w)
    (e : w.insert shape vals = .ok (w', nid)) :
    w.entity nid = none ∧ w'.entity nid = some (World.canonVals w.n shape vals) ∧
    (∀ id', id' ≠ nid → w'.entity id' = w.entity id') ∧ w'.len = w.len + 1 := by
  unfold World.insert at e
  cases h1 : w.archForEntity (Mask.ofShape w.n shape) with
  | ub x => simp [h1] at e
  | ok p =>
    obtain ⟨w1, hd⟩ := p
    have af := archForEntity_inv hi (by simp [Mask.ofShape]) h1
    simp only [h1] at e
    cases h2 : w1.getArch hd with
    | ub x => simp [h2] at e
    | ok a =>
      have hfa := getArch_ok h2
      simp only [h2] at e
      cases h3 : w1.alloc.allocate ⟨hd, a.ids.length⟩ with
      | ub x => simp [h3] at e
      | ok q =>
        obtain ⟨al, nid'⟩ := q
        simp only [h3] at e
        cases h4 : a.pushRow (World.canonVals w.n shape vals) nid' with
        | ub x => simp [h4] at e
        | ok a' =>
          simp only [h4, Out.ok.injEq, Prod.mk.injEq] at e
          obtain ⟨rfl, rfl⟩ := e
          obtain ⟨p1, p2, p3⟩ := pushRow_entity af.inv hfa (allocate_spec af.inv.ainv h3) h4
          refine ⟨by rw [← archFor_entity hi af]; exact p1, p2, ?_, ?_⟩
          · intro id' hne
            rw [p3 id' hne, archFor_entity hi af]
          · show w1.len + 1 = w.len + 1
            rw [af.len]

/-! ### `extend` -/

theorem pushRows_entity {n : Nat} {shape : List Nat} (rows : List (List Val)) :
    ∀ {w : World} (hi : Inv w) {a a' : Arch} {hd : Nat} (hfa : w.findArch hd = some a)
      {al : Alloc} {ids : List Ident}
      (hal : w.alloc.allocateBatch hd a.ids.length rows.length = .ok (al, ids))
      (hp : World.pushRows n shape a ids rows = .ok a'),
      ids.length = rows.length ∧ ids.Nodup ∧ (∀ id ∈ ids, w.entity id = none) ∧
      (∀ (k : Nat) (id : Ident) (r : List Val), ids[k]? = some id → rows[k]? = some r →
        ({ (w.setArch a') with alloc := al, len := w.len + rows.length } : World).entity id =
          some (World.canonVals n shape r)) ∧
      (∀ id', id' ∉ ids →
        ({ (w.setArch a') with alloc := al, len := w.len + rows.length } : World).entity id' =
          w.entity id') := by
  induction rows with
  | nil =>
    intro w hi a a' hd hfa al ids hal hp
    simp [Alloc.allocateBatch] at hal
    obtain ⟨rfl, rfl⟩ := hal
    simp [World.pushRows] at hp
    subst hp
    have hself : w.setArch a = w := by
      have := replaceH_self hi.handles_nodup (findArch_some hfa).1
      cases w; simp only [World.setArch] at *; simp [replaceH] at this; simp [this]
    refine ⟨rfl, List.nodup_nil, by simp, by simp, ?_⟩
    intro id' _
    have : ({ (w.setArch a) with alloc := w.alloc, len := w.len + ([] : List (List Val)).length } : World) = w := by
      rw [hself]; cases w; simp
    rw [this]
  | cons r rows ih =>
    intro w hi a a' hd hfa al ids hal hp
    simp only [List.length_cons] at hal
    unfold Alloc.allocateBatch at hal
    cases h1 : w.alloc.allocate ⟨hd, a.ids.length⟩ with
    | ub x => simp [h1] at hal
    | ok p =>
      obtain ⟨al1, id0⟩ := p
      simp only [h1] at hal
      cases h2 : al1.allocateBatch hd (a.ids.length + 1) rows.length with
      | ub x => simp [h2] at hal
      | ok q =>
        obtain ⟨al2, ids'⟩ := q
        simp only [h2, Out.ok.injEq, Prod.mk.injEq] at hal
        obtain ⟨rfl, rfl⟩ := hal
        simp only [World.pushRows] at hp
        cases h3 : a.pushRow (World.canonVals n shape r) id0 with
        | ub x => simp [h3] at hp
        | ok a1 =>
          simp only [h3] at hp
          obtain ⟨hh1, hl1⟩ := pushRow_handle h3
          have hi1 := pushRow_inv hi hfa h1 h3
          obtain ⟨p1, p2, p3⟩ := pushRow_entity hi hfa (allocate_spec hi.ainv h1) h3
          have hd_eq : hd = a.handle := (findArch_some hfa).2.symm
          have hfa1 : ({ (w.setArch a1) with alloc := al1, len := w.len + 1 } : World).findArch hd = some a1 := by
            have : (w.setArch a1).findArch a1.handle = some a1 :=
              findArch_setArch_same w a1 (by rw [hh1, ← hd_eq]; exact hfa)
            rw [hh1, ← hd_eq] at this
            exact this
          have hal' : ({ (w.setArch a1) with alloc := al1, len := w.len + 1 } : World).alloc.allocateBatch hd
              a1.ids.length rows.length = .ok (al2, ids') := by
            rw [hl1]; exact h2
          obtain ⟨hh2, _⟩ := pushRows_inv rows hi1 hfa1 hal' hp
          obtain ⟨q1, q2, q3, q4, q5⟩ := ih hi1 hfa1 hal' hp
          have harchs : replaceH (replaceH w.archs a1) a' = replaceH w.archs a' :=
            replaceH_replaceH w.archs (by rw [hh2])
          have hlen : (w.len + 1) + rows.length = w.len + (r :: rows).length := by
            simp only [List.length_cons]; omega
          have hW : ({ (({ (w.setArch a1) with alloc := al1, len := w.len + 1 } : World).setArch a') with
                alloc := al2, len := (w.len + 1) + rows.length } : World) =
              { (w.setArch a') with alloc := al2, len := w.len + (r :: rows).length } := by
            show (⟨w.n, replaceH (replaceH w.archs a1) a', w.typeIds, w.foreign, al2, w.len + 1 + rows.length,
                w.res, w.next⟩ : World) =
              ⟨w.n, replaceH w.archs a', w.typeIds, w.foreign, al2, w.len + (r :: rows).length, w.res, w.next⟩
            rw [harchs, hlen]
          rw [hW] at q4 q5
          have hid0 : id0 ∉ ids' := by
            intro hmem
            have := q3 id0 hmem
            rw [p2] at this; cases this
          refine ⟨by simp [q1], List.nodup_cons.mpr ⟨hid0, q2⟩, ?_, ?_, ?_⟩
          · intro id hid
            rcases List.mem_cons.mp hid with rfl | hid
            · exact p1
            · have hne : id ≠ id0 := fun e => hid0 (e ▸ hid)
              rw [← p3 id hne]; exact q3 id hid
          · intro k id rr hk hr
            cases k with
            | zero =>
              simp at hk hr
              subst hk; subst hr
              rw [q5 id0 hid0]; exact p2
            | succ k =>
              simp at hk hr
              exact q4 k id rr hk hr
          · intro id' hnot
            have hne : id' ≠ id0 := fun e => hnot (by simp [e])
            have hnot' : id' ∉ ids' := fun hm => hnot (by simp [hm])
            rw [q5 id' hnot', p3 id' hne]

/-- **`extend` adds exactly one entity per batch row, in batch order.** -/
theorem extend_entity {w w' : World} {shape : List Nat} {rows : List (List Val)} {ids : List Ident}
    (hi : Inv w) (e : w.extend shape rows = .ok (w', ids)) :
    ids.length = rows.length ∧ ids.Nodup ∧ (∀ id ∈ ids, w.entity id = none) ∧
    (∀ (k : Nat) (id : Ident) (r : List Val), ids[k]? = some id → rows[k]? = some r →
      w'.entity id = some (World.canonVals w.n shape r)) ∧
    (∀ id', id' ∉ ids → w'.entity id' = w.entity id') ∧ w'.len = w.len + rows.length := by
  unfold World.extend at e
  cases h1 : w.archForEntity (Mask.ofShape w.n shape) with
  | ub x => simp [h1] at e
  | ok p =>
    obtain ⟨w1, hd⟩ := p
    have af := archForEntity_inv hi (by simp [Mask.ofShape]) h1
    simp only [h1] at e
    cases h2 : w1.getArch hd with
    | ub x => simp [h2] at e
    | ok a =>
      have hfa := getArch_ok h2
      simp only [h2] at e
      cases h3 : w1.alloc.allocateBatch hd a.ids.length rows.length with
      | ub x => simp [h3] at e
      | ok q =>
        obtain ⟨al, nids⟩ := q
        simp only [h3] at e
        cases h4 : World.pushRows w.n shape a nids rows with
        | ub x => simp [h4] at e
        | ok a' =>
          simp only [h4, Out.ok.injEq, Prod.mk.injEq] at e
          obtain ⟨rfl, rfl⟩ := e
          obtain ⟨q1, q2, q3, q4, q5⟩ := pushRows_entity rows af.inv hfa h3 h4
          refine ⟨q1, q2, ?_, q4, ?_, ?_⟩
          · intro id hid; rw [← archFor_entity hi af]; exact q3 id hid
          · intro id' hnot; rw [q5 id' hnot, archFor_entity hi af]
          · show w1.len + rows.length = w.len + rows.length
            rw [af.len]

/-! ### `remove` -/

theorem filterMap_none {α β} (l : List α) : l.filterMap (fun _ => (none : Option β)) = [] := by
  induction l with
  | nil => rfl
  | cons x xs ih => simp [ih]

theorem filterMap_congr' {α β} {f g : α → Option β} {l : List α} (h : ∀ x ∈ l, f x = g x) :
    l.filterMap f = l.filterMap g := by
  induction l with
  | nil => rfl
  | cons x xs ih =>
    simp only [List.filterMap_cons, h x (by simp)]
    rw [ih (fun y hy => h y (by simp [hy]))]

/-- Rows of a table after a swap-remove: the last row took the place of row `r`. -/
theorem removedArch_row {w : World} {a : Arch} (ok : ArchOk w a) {r : Nat} (hr : r < a.ids.length)
    (j : Nat) :
    (removedArch a r).row j =
      if j + 1 < a.ids.length then (if j = r then a.row (a.ids.length - 1) else a.row j) else [] := by
  unfold Arch.row removedArch
  simp only [List.filterMap_map]
  have hc : ∀ c ∈ a.cols, ((fun c : List Val => c[j]?) ∘ fun c => swapRemove c r) c =
      (if j + 1 < a.ids.length then (if j = r then c[a.ids.length - 1]? else c[j]?) else none) := by
    intro c hc
    have hl := ok.cols_all_len c hc
    simp only [Function.comp]
    rw [swapRemove_getElem? c r j (by omega), hl]
  rw [filterMap_congr' hc]
  by_cases h1 : j + 1 < a.ids.length
  · by_cases h2 : j = r
    · subst h2; simp only [h1, if_true]
    · simp only [h1, h2, if_true, if_false]
  · simp only [h1, if_false]
    exact filterMap_none _

/-- **`remove` deletes exactly one entity** (or nothing, for an identifier that is not live): the
returned values are that entity's values, every other identifier is untouched. -/
theorem remove_entity {w w' : World} {id : Ident} {drops : List Val} (hi : Inv w)
    (e : w.remove id = .ok (w', drops)) :
    w'.entity id = none ∧ (∀ id', id' ≠ id → w'.entity id' = w.entity id') ∧
    drops = (w.entity id).getD [] ∧
    w'.len + (if (w.entity id).isSome then 1 else 0) = w.len := by
  cases hg : w.alloc.get id with
  | none =>
    simp [World.remove, hg] at e
    obtain ⟨rfl, rfl⟩ := e
    simp [entity_none_of_dead hg]
  | some loc =>
    obtain ⟨a, la, hh⟩ := hi.liveAt hg
    have hr : loc.row < a.ids.length := (List.getElem?_eq_some_iff.mp la.row).1
    have hne0 : a.ids.length - 1 < a.ids.length := by omega
    have hlast : a.ids[a.ids.length - 1]? = some a.ids[a.ids.length - 1] := List.getElem?_eq_getElem hne0
    generalize hlastdef : a.ids[a.ids.length - 1] = last at hlast
    rw [remove_eq hi la hlast] at e
    simp only [Out.ok.injEq, Prod.mk.injEq] at e
    obtain ⟨rfl, rfl⟩ := e
    have hslot_id : w.alloc.slots[id.index]? = some ⟨id.gen, some ⟨a.handle, loc.row⟩⟩ := la.ok.rows _ id la.row
    have hslot_last : w.alloc.slots[last.index]? = some ⟨last.gen, some ⟨a.handle, a.ids.length - 1⟩⟩ :=
      la.ok.rows _ last hlast
    have hid_lt : id.index < w.alloc.slots.length := (List.getElem?_eq_some_iff.mp hslot_id).1
    have hlast_lt : last.index < w.alloc.slots.length := (List.getElem?_eq_some_iff.mp hslot_last).1
    have hfind_same : (w.setArch (removedArch a loc.row)).findArch a.handle = some (removedArch a loc.row) :=
      findArch_setArch_same w (removedArch a loc.row) la.find
    have hlen_pos : 1 ≤ w.len := by
      have hs := hi.len
      have : a.ids.length ≤ (w.archs.map (·.ids.length)).sum := ids_length_le_sum la.mem
      omega
    refine ⟨?_, ?_, ?_, ?_⟩
    · apply entity_none_of_dead
      show (removeAlloc w.alloc id last a.handle loc.row a.ids.length).get id = none
      unfold removeAlloc Alloc.get
      simp only
      rw [List.getElem?_set_self (by split <;> simp [hid_lt])]
      simp
    · intro id' hne
      unfold World.entity
      show (match (removeAlloc w.alloc id last a.handle loc.row a.ids.length).get id' with
        | none => none | some l => _) = _
      by_cases hx : id'.index = id.index
      · -- same slot, other generation: dead before and after
        have h1 : (removeAlloc w.alloc id last a.handle loc.row a.ids.length).get id' = none := by
          unfold removeAlloc Alloc.get
          simp only
          rw [hx, List.getElem?_set_self (by split <;> simp [hid_lt])]
          simp
        have h2 : w.alloc.get id' = none := by
          unfold Alloc.get
          rw [hx, hslot_id]
          have : id.gen ≠ id'.gen := by
            intro hgen; apply hne; cases id; cases id'; simp_all
          simp [this]
        rw [h1, h2]
      · by_cases hmid : loc.row < a.ids.length - 1
        · by_cases hxl : id'.index = last.index
          · -- the slot of the row that was moved
            have hslot' : (removeAlloc w.alloc id last a.handle loc.row a.ids.length).slots[id'.index]? =
                some ⟨last.gen, some ⟨a.handle, loc.row⟩⟩ := by
              unfold removeAlloc
              simp only [hmid, if_true]
              rw [List.getElem?_set_ne (Ne.symm hx), hxl, List.getElem?_set_self hlast_lt]
            by_cases hgl : last.gen = id'.gen
            · have hil : id' = last := by cases id'; cases last; simp_all
              subst hil
              have h1 : (removeAlloc w.alloc id id' a.handle loc.row a.ids.length).get id' =
                  some ⟨a.handle, loc.row⟩ := by
                unfold Alloc.get; rw [hslot']; simp
              have h2 : w.alloc.get id' = some ⟨a.handle, a.ids.length - 1⟩ := by
                unfold Alloc.get; rw [hslot_last]; simp
              rw [h1, h2]
              simp only
              show (match (w.setArch (removedArch a loc.row)).findArch a.handle with
                | none => none | some x => some (x.row loc.row)) = _
              rw [hfind_same, la.find]
              simp only
              rw [removedArch_row la.ok hr]
              have : loc.row + 1 < a.ids.length := by omega
              simp [this]
            · have h1 : (removeAlloc w.alloc id last a.handle loc.row a.ids.length).get id' = none := by
                unfold Alloc.get; rw [hslot']; simp [hgl]
              have h2 : w.alloc.get id' = none := by
                unfold Alloc.get; rw [hxl, hslot_last]; simp [hgl]
              rw [h1, h2]
          · have hget : (removeAlloc w.alloc id last a.handle loc.row a.ids.length).get id' = w.alloc.get id' := by
              unfold removeAlloc Alloc.get
              simp only [hmid, if_true]
              rw [List.getElem?_set_ne (Ne.symm hx), List.getElem?_set_ne (Ne.symm hxl)]
            rw [hget]
            cases hg' : w.alloc.get id' with
            | none => rfl
            | some l =>
              obtain ⟨b, lb, hhb⟩ := hi.liveAt hg'
              simp only
              show (match (w.setArch (removedArch a loc.row)).findArch l.arch with
                | none => none | some x => some (x.row l.row)) = _
              rw [← hhb, lb.find]
              by_cases hba : b.handle = a.handle
              · have hb : b = a := by
                  have h1 := lb.find; rw [hba, la.find] at h1; cases h1; rfl
                subst hb
                rw [hfind_same]
                simp only
                rw [removedArch_row la.ok hr]
                have hne_r : l.row ≠ loc.row := by
                  intro er
                  have h1 := lb.row; rw [er, la.row] at h1
                  exact hne (by cases h1; rfl)
                have hne_last : l.row ≠ b.ids.length - 1 := by
                  intro er
                  have h1 := lb.row; rw [er, hlast] at h1
                  cases h1; exact hxl rfl
                have hlr : l.row < b.ids.length := (List.getElem?_eq_some_iff.mp lb.row).1
                have : l.row + 1 < b.ids.length := by omega
                simp [this, hne_r]
              · have := findArch_setArch_ne w (removedArch a loc.row) hba
                rw [this, lb.find]
        · -- the removed row was the last one: nothing moved
          have hget : (removeAlloc w.alloc id last a.handle loc.row a.ids.length).get id' = w.alloc.get id' := by
            unfold removeAlloc Alloc.get
            simp only [hmid, if_false]
            rw [List.getElem?_set_ne (Ne.symm hx)]
          rw [hget]
          cases hg' : w.alloc.get id' with
          | none => rfl
          | some l =>
            obtain ⟨b, lb, hhb⟩ := hi.liveAt hg'
            simp only
            show (match (w.setArch (removedArch a loc.row)).findArch l.arch with
              | none => none | some x => some (x.row l.row)) = _
            rw [← hhb, lb.find]
            by_cases hba : b.handle = a.handle
            · have hb : b = a := by
                have h1 := lb.find; rw [hba, la.find] at h1; cases h1; rfl
              subst hb
              rw [hfind_same]
              simp only
              rw [removedArch_row la.ok hr]
              have hne_r : l.row ≠ loc.row := by
                intro er
                have h1 := lb.row; rw [er, la.row] at h1
                exact hne (by cases h1; rfl)
              have hlr : l.row < b.ids.length := (List.getElem?_eq_some_iff.mp lb.row).1
              have : l.row + 1 < b.ids.length := by omega
              simp [this, hne_r]
            · have := findArch_setArch_ne w (removedArch a loc.row) hba
              rw [this, lb.find]
    · rw [entity_of_liveAt la]; rfl
    · rw [entity_of_liveAt la]
      show w.len - 1 + (if (some (a.row loc.row)).isSome then 1 else 0) = w.len
      simp; omega

/-! ### moving a row to another table (`Entry::add` of a new component, `Entry::remove`) -/

/-- **Moving a live entity's row changes the map at that identifier only**, where it now holds
the pushed row `cv`. -/
theorem moveRow_entity {w : World} (hi : Inv w) {id : Ident} {a : Arch} {r : Nat} (la : LiveAt w id a r)
    {last : Ident} (hlast : a.ids[a.ids.length - 1]? = some last)
    {m' : Mask} (hm : m'.length = w.n) {w2 : World} {h' : Nat}
    (hfm : ({ (w.setArch (removedArch a r)) with alloc := fixAlloc w.alloc last a.handle r a.ids.length } : World).archForMask m'
        = .ok (w2, h'))
    {t t' : Arch} (hft : w2.findArch h' = some t) {cv : List Val} (hp : t.pushRow cv id = .ok t')
    {al : Alloc} (hset : w2.alloc.setLoc id ⟨h', t.ids.length⟩ = .ok al) :
    ({ (w2.setArch t') with alloc := al } : World).entity id = some cv ∧
    (∀ id', id' ≠ id → ({ (w2.setArch t') with alloc := al } : World).entity id' = w.entity id') ∧
    ({ (w2.setArch t') with alloc := al } : World).len = w.len := by
  have hr : r < a.ids.length := (List.getElem?_eq_some_iff.mp la.row).1
  -- the world after `remove id` satisfies the invariant
  have hrem := remove_eq hi la hlast
  have hir : Inv ({ (w.setArch (removedArch a r)) with
      alloc := removeAlloc w.alloc id last a.handle r a.ids.length, len := w.len - 1 } : World) :=
    remove_inv hi hrem
  -- the table lookup does not depend on the allocator
  obtain ⟨hfm', hal2, hlen2⟩ := archForMask_frame (removeAlloc w.alloc id last a.handle r a.ids.length) (w.len - 1) hfm
  have af := archForMask_inv hir (by simpa [World.setArch] using hm) hfm'
  have hft' : ({ w2 with alloc := removeAlloc w.alloc id last a.handle r a.ids.length, len := w.len - 1 } : World).findArch h'
      = some t := hft
  -- slot of `id` before and after
  have hslot_id : w.alloc.slots[id.index]? = some ⟨id.gen, some ⟨a.handle, r⟩⟩ := la.ok.rows r id la.row
  have hslot_last : w.alloc.slots[last.index]? = some ⟨last.gen, some ⟨a.handle, a.ids.length - 1⟩⟩ :=
    la.ok.rows _ last hlast
  have hid_lt : id.index < w.alloc.slots.length := (List.getElem?_eq_some_iff.mp hslot_id).1
  have hfix_len : (fixAlloc w.alloc last a.handle r a.ids.length).slots.length = w.alloc.slots.length := by
    simp [fixAlloc]; split <;> simp
  have hfix_id : (fixAlloc w.alloc last a.handle r a.ids.length).slots[id.index]? =
      some ⟨id.gen, some ⟨a.handle, r⟩⟩ := by
    unfold fixAlloc
    by_cases hmid : r < a.ids.length - 1
    · have hne : last.index ≠ id.index := by
        intro e
        rw [e, hslot_id] at hslot_last
        simp at hslot_last; omega
      simp only [hmid, if_true]
      rw [List.getElem?_set_ne hne]; exact hslot_id
    · simp only [hmid, if_false]; exact hslot_id
  have hid_notfree : id.index ∉ w.alloc.free := by
    have := (slotOk_iff.mp (hi.slots _ hid_lt)) _ hslot_id
    obtain ⟨_, _, _, hnf⟩ := this.2 _ rfl
    exact hnf
  -- the final allocator
  have hal : al = ⟨(fixAlloc w.alloc last a.handle r a.ids.length).slots.set id.index
      ⟨id.gen, some ⟨h', t.ids.length⟩⟩, w.alloc.free⟩ := by
    rw [hal2] at hset
    simp only [Alloc.setLoc] at hset
    have : (fixAlloc w.alloc last a.handle r a.ids.length).slots[id.index]? = some ⟨id.gen, some ⟨a.handle, r⟩⟩ := hfix_id
    rw [this] at hset
    simp only [Out.ok.injEq] at hset
    rw [← hset]; rfl
  -- reactivating the retired slot is an `AllocSpec`
  have sp : AllocSpec (removeAlloc w.alloc id last a.handle r a.ids.length) al ⟨h', t.ids.length⟩ id := by
    rw [hal, removeAlloc_eq_fix]
    refine ⟨?_, ?_, hi.free_nodup, ?_, ?_⟩
    · intro j
      by_cases hj : j = id.index
      · subst hj
        simp [hfix_len, hid_lt]
      · simp only [hj, if_false]
        rw [List.getElem?_set_ne (Ne.symm hj), List.getElem?_set_ne (Ne.symm hj)]
    · intro j
      simp only [List.mem_append, List.mem_singleton]
      constructor
      · intro hjf
        exact ⟨Or.inl hjf, fun e => hid_notfree (e ▸ hjf)⟩
      · rintro ⟨hjf | hjf, hne⟩
        · exact hjf
        · exact absurd hjf hne
    · intro s hs
      simp only at hs
      rw [List.getElem?_set_self (by rw [hfix_len]; exact hid_lt)] at hs
      cases hs; rfl
    · simp [hfix_len]
      omega
  obtain ⟨p1, p2, p3⟩ := pushRow_entity af.inv hft' sp hp
  obtain ⟨r1, r2, _, _⟩ := remove_entity hi hrem
  have hlen_pos : 1 ≤ w.len := by
    have hs := hi.len
    have : a.ids.length ≤ (w.archs.map (·.ids.length)).sum := ids_length_le_sum la.mem
    omega
  have hlen : w.len - 1 + 1 = w2.len := by
    rw [hlen2]; simp only [World.setArch]; omega
  have hW : ({ (w2.setArch t') with alloc := al } : World) =
      ({ (({ w2 with alloc := removeAlloc w.alloc id last a.handle r a.ids.length, len := w.len - 1 } : World).setArch t') with
          alloc := al, len := (w.len - 1) + 1 } : World) := by
    show (⟨w2.n, replaceH w2.archs t', w2.typeIds, w2.foreign, al, w2.len, w2.res, w2.next⟩ : World) =
      ⟨w2.n, replaceH w2.archs t', w2.typeIds, w2.foreign, al, w.len - 1 + 1, w2.res, w2.next⟩
    rw [hlen]
  rw [hW]
  refine ⟨p2, ?_, ?_⟩
  · intro id' hne
    rw [p3 id' hne, archFor_entity hir af, r2 id' hne]
  · show w.len - 1 + 1 = w.len
    omega

/-! ### overwriting one cell -/

theorem row_eq_map {w : World} {a : Arch} (ok : ArchOk w a) {r : Nat} (hr : r < a.ids.length) :
    a.row r = a.cols.map (fun c => c.getD r default) := by
  unfold Arch.row
  apply filterMap_eq_map
  intro c hc
  have : r < c.length := by rw [ok.cols_all_len c hc]; exact hr
  simp [List.getD, List.getElem?_eq_getElem this]

theorem setCell_entity {w : World} (hi : Inv w) {id : Ident} {a : Arch} {r : Nat} (la : LiveAt w id a r)
    {k : Nat} {col : List Val} {old v : Val} (hcol : a.cols[k]? = some col) (hold : col[r]? = some old) :
    (w.setArch { a with cols := a.cols.set k (col.set r v) }).entity id = some ((a.row r).set k v) ∧
    ∀ id', id' ≠ id →
      (w.setArch { a with cols := a.cols.set k (col.set r v) }).entity id' = w.entity id' := by
  have hr : r < a.ids.length := (List.getElem?_eq_some_iff.mp la.row).1
  have hrc : r < col.length := (List.getElem?_eq_some_iff.mp hold).1
  have hk : k < a.cols.length := (List.getElem?_eq_some_iff.mp hcol).1
  have hfind_same : (w.setArch { a with cols := a.cols.set k (col.set r v) }).findArch a.handle =
      some { a with cols := a.cols.set k (col.set r v) } := findArch_setArch_same w _ la.find
  have hlen' : ∀ c ∈ a.cols.set k (col.set r v), c.length = a.ids.length := by
    intro c hc
    rcases List.mem_or_eq_of_mem_set hc with h1 | rfl
    · exact la.ok.cols_all_len c h1
    · simp [la.ok.cols_all_len col (List.mem_of_getElem? hcol)]
  have hsome : ∀ (q : Nat), q < a.ids.length → ∀ c ∈ a.cols.set k (col.set r v),
      c[q]? = some (c.getD q default) := by
    intro q hq c hc
    have : q < c.length := by rw [hlen' c hc]; exact hq
    simp [List.getD, List.getElem?_eq_getElem this]
  constructor
  · unfold World.entity
    show (match w.alloc.get id with | none => none | some l => _) = _
    rw [la.get]
    simp only
    rw [hfind_same]
    simp only [Arch.row]
    rw [filterMap_eq_map (hsome r hr)]
    have := row_eq_map la.ok hr
    unfold Arch.row at this
    rw [this, List.map_set]
    congr 2
    simp [List.getD, List.getElem?_set, hrc]
  · intro id' hne
    unfold World.entity
    show (match w.alloc.get id' with | none => none | some l => _) = _
    cases hg : w.alloc.get id' with
    | none => rfl
    | some l =>
      obtain ⟨b, lb, hhb⟩ := hi.liveAt hg
      simp only
      rw [← hhb, lb.find]
      by_cases hba : b.handle = a.handle
      · have hb : b = a := by
          have h1 := lb.find; rw [hba, la.find] at h1; cases h1; rfl
        subst hb
        rw [hfind_same]
        have hlr : l.row < b.ids.length := (List.getElem?_eq_some_iff.mp lb.row).1
        have hne_r : l.row ≠ r := by
          intro er
          have h1 := lb.row; rw [er, la.row] at h1
          exact hne (by cases h1; rfl)
        simp only [Arch.row]
        rw [filterMap_eq_map (hsome l.row hlr)]
        have := row_eq_map lb.ok hlr
        unfold Arch.row at this
        rw [this]
        congr 1
        apply List.ext_getElem?
        intro j
        simp only [List.getElem?_map, List.getElem?_set]
        by_cases hjk : k = j
        · subst hjk
          simp only [if_true, hk, hcol]
          simp [List.getD, List.getElem?_set, Ne.symm hne_r]
        · simp [hjk]
      · have := findArch_setArch_ne w { a with cols := a.cols.set k (col.set r v) } hba
        rw [this, lb.find]

/-! ### rows as sorted association lists -/

theorem insertVal_replace {l : List Val} {k : Nat} {old v : Val}
    (hs : (l.map (·.ty)).Pairwise (· < ·)) (hk : l[k]? = some old) (hty : old.ty = v.ty) :
    Spec.insertVal v l = l.set k v := by
  induction l generalizing k with
  | nil => simp at hk
  | cons x xs ih =>
    simp only [List.map_cons, List.pairwise_cons] at hs
    cases k with
    | zero =>
      simp at hk; subst hk
      simp [Spec.insertVal, hty]
    | succ k =>
      simp at hk
      have hmem : old.ty ∈ xs.map (·.ty) := List.mem_map.mpr ⟨old, List.mem_of_getElem? hk, rfl⟩
      have hlt := hs.1 _ hmem
      have h1 : ¬ v.ty < x.ty := by omega
      have h2 : ¬ v.ty = x.ty := by omega
      simp [Spec.insertVal, h1, h2, ih hs.2 hk]

theorem insertVal_insertAt {l : List Val} {k : Nat} {v : Val}
    (hs : (World.insertAt (l.map (·.ty)) k v.ty).Pairwise (· < ·)) (hk : k ≤ l.length) :
    Spec.insertVal v l = World.insertAt l k v := by
  induction l generalizing k with
  | nil => simp [Spec.insertVal, World.insertAt]
  | cons x xs ih =>
    cases k with
    | zero =>
      simp only [World.insertAt, List.take_zero, List.drop_zero, List.nil_append, List.map_cons,
        List.pairwise_cons] at hs
      have := hs.1 x.ty (by simp)
      simp [Spec.insertVal, World.insertAt, this]
    | succ k =>
      have hk' : k ≤ xs.length := by simpa using hk
      simp only [World.insertAt, List.map_cons, List.take_succ_cons, List.drop_succ_cons,
        List.cons_append, List.pairwise_cons] at hs
      have hlt := hs.1 v.ty (by simp)
      have h1 : ¬ v.ty < x.ty := by omega
      have h2 : ¬ v.ty = x.ty := by omega
      have := ih (k := k) hs.2 hk'
      simp only [World.insertAt] at this
      simp [Spec.insertVal, h1, h2, World.insertAt, this]

theorem eraseIdx_eq_filter {l : List Val} {k : Nat} {old : Val} {c : Nat}
    (hs : (l.map (·.ty)).Nodup) (hk : l[k]? = some old) (hty : old.ty = c) :
    l.eraseIdx k = l.filter (fun v => v.ty ≠ c) := by
  induction l generalizing k with
  | nil => simp at hk
  | cons x xs ih =>
    simp only [List.map_cons, List.nodup_cons] at hs
    cases k with
    | zero =>
      simp at hk; subst hk
      have : ∀ y ∈ xs, y.ty ≠ c := by
        intro y hy e
        exact hs.1 (List.mem_map.mpr ⟨y, hy, by rw [e, hty]⟩)
      simp only [List.eraseIdx_zero, List.tail_cons, List.filter_cons, hty]
      simp only [ne_eq, not_true_eq_false, decide_false, Bool.false_eq_true, if_false]
      symm
      apply List.filter_eq_self.mpr
      intro y hy
      simpa using this y hy
    | succ k =>
      simp at hk
      have hx : x.ty ≠ c := by
        intro e
        exact hs.1 (List.mem_map.mpr ⟨old, List.mem_of_getElem? hk, by rw [hty, e]⟩)
      simp [List.eraseIdx_cons_succ, List.filter_cons, hx, ih hs.2 hk]

theorem filter_ne_self {l : List Val} {c : Nat} (h : ∀ v ∈ l, v.ty ≠ c) :
    l.filter (fun v => v.ty ≠ c) = l := by
  apply List.filter_eq_self.mpr
  intro y hy
  simpa using h y hy

/-! ### `Entry::add`, `Entry::remove`, writes through `&mut` views -/

theorem row_sorted {w : World} {a : Arch} (ok : ArchOk w a) {r : Nat} (hr : r < a.ids.length) :
    ((a.row r).map (·.ty)).Pairwise (· < ·) := by
  unfold Arch.row; rw [row_tys ok hr]; exact comps_sorted _

theorem row_length {w : World} {a : Arch} (ok : ArchOk w a) {r : Nat} (hr : r < a.ids.length) :
    (a.row r).length = a.mask.count := by
  have := congrArg List.length (row_tys ok hr)
  simpa [comps_length, Arch.row] using this

theorem row_getElem {w : World} {a : Arch} (ok : ArchOk w a) {r k : Nat} {col : List Val} {old : Val}
    (hr : r < a.ids.length) (hcol : a.cols[k]? = some col) (hold : col[r]? = some old) :
    (a.row r)[k]? = some old := by
  rw [row_eq_map ok hr, List.getElem?_map, hcol]
  simp [List.getD, hold]

/-- **`Entry::add`** sets component `c` of the entity (replacing a present value), touches no
other entity, and leaves `len` unchanged; on an identifier that is not live it does nothing. -/
theorem entryAdd_entity {w w' : World} {id : Ident} {c : Nat} {v : Val} {res : Option (List Val)}
    (hi : Inv w) (hc : c < w.n) (hv : v.ty = c) (e : w.entryAdd id c v = .ok (w', res)) :
    w'.entity id = (w.entity id).map (Spec.insertVal v) ∧
    (∀ id', id' ≠ id → w'.entity id' = w.entity id') ∧ w'.len = w.len ∧
    (res.isSome ↔ (w.entity id).isSome) := by
  unfold World.entryAdd at e
  cases hg : w.alloc.get id with
  | none =>
    simp [hg] at e; obtain ⟨rfl, rfl⟩ := e
    simp [entity_none_of_dead hg]
  | some loc =>
    simp only [hg] at e
    obtain ⟨a, la, hh⟩ := hi.liveAt hg
    have hga : w.getArch loc.arch = .ok a := by
      unfold World.getArch; rw [← hh, la.find]; rfl
    simp only [hga] at e
    have hr : loc.row < a.ids.length := (List.getElem?_eq_some_iff.mp la.row).1
    rw [entity_of_liveAt la]
    by_cases hcm : a.mask.has c
    · -- overwrite in place
      simp only [hcm, if_true] at e
      cases hcol : a.cols[colIndex a.mask c]? with
      | none => simp [hcol] at e
      | some col =>
        simp only [hcol] at e
        cases hold : col[loc.row]? with
        | none => simp [hold] at e
        | some old =>
          simp only [hold] at e
          by_cases hbad : old.ty ≠ c ∨ v.ty ≠ c
          · simp [hbad] at e
          · simp only [hbad, if_false, Out.ok.injEq, Prod.mk.injEq] at e
            obtain ⟨rfl, rfl⟩ := e
            have h1 : old.ty = c := by
              apply Classical.byContradiction; intro h; exact hbad (Or.inl h)
            obtain ⟨p1, p2⟩ := setCell_entity hi la hcol hold (v := v)
            refine ⟨?_, p2, rfl, by simp⟩
            rw [p1]
            simp only [Option.map_some, Option.some.injEq]
            exact (insertVal_replace (row_sorted la.ok hr) (row_getElem la.ok hr hcol hold)
              (by rw [h1, hv])).symm
    · -- move to the table with the component added
      simp only [hcm, Bool.false_eq_true, if_false] at e
      have hne0 : a.ids.length - 1 < a.ids.length := by omega
      have hlast : a.ids[a.ids.length - 1]? = some a.ids[a.ids.length - 1] := List.getElem?_eq_getElem hne0
      rw [← hh, takeRowAt_eq hi la hlast] at e
      simp only at e
      cases hfm : ({ (w.setArch (removedArch a loc.row)) with
          alloc := fixAlloc w.alloc a.ids[a.ids.length - 1] a.handle loc.row a.ids.length } : World).archForMask
          (World.setBit a.mask c true) with
      | ub x => simp [hfm] at e
      | ok p =>
        obtain ⟨w2, h'⟩ := p
        simp only [hfm] at e
        cases hgt : w2.getArch h' with
        | ub x => simp [hgt] at e
        | ok t =>
          simp only [hgt] at e
          cases hp : t.pushRow (World.insertAt (a.cols.filterMap (fun c => c[loc.row]?))
              (colIndex (World.setBit a.mask c true) c) v) id with
          | ub x => simp [hp] at e
          | ok t' =>
            simp only [hp] at e
            cases hset : w2.alloc.setLoc id ⟨h', t.ids.length⟩ with
            | ub x => simp [hset] at e
            | ok al =>
              simp only [hset, Out.ok.injEq, Prod.mk.injEq] at e
              obtain ⟨rfl, rfl⟩ := e
              obtain ⟨p1, p2, p3⟩ := moveRow_entity hi la hlast (by simp [World.setBit, la.ok.mask_len]) hfm
                (getArch_ok hgt) hp hset
              refine ⟨?_, p2, p3, by simp⟩
              rw [p1]
              simp only [Option.map_some, Option.some.injEq]
              have hcl : c < a.mask.length := by rw [la.ok.mask_len]; exact hc
              have hcf : a.mask.has c = false := by simpa using hcm
              have hk : colIndex (World.setBit a.mask c true) c = colIndex a.mask c := by
                unfold World.setBit; exact colIndex_set _ _ _
              rw [hk]
              symm
              apply insertVal_insertAt
              · show (World.insertAt ((a.row loc.row).map (·.ty)) (colIndex a.mask c) v.ty).Pairwise (· < ·)
                unfold Arch.row
                rw [row_tys la.ok hr, hv, ← comps_set_true hcl hcf]
                exact comps_sorted _
              · show colIndex a.mask c ≤ (a.row loc.row).length
                rw [row_length la.ok hr]; exact colIndex_le_count _ _

/-- **`Entry::remove`** deletes component `c` of the entity (nothing if absent), touches no other
entity, and leaves `len` unchanged. -/
theorem entryRemove_entity {w w' : World} {id : Ident} {c : Nat} {res : Option (List Val)}
    (hi : Inv w) (e : w.entryRemove id c = .ok (w', res)) :
    w'.entity id = (w.entity id).map (fun vs => vs.filter (fun v => v.ty ≠ c)) ∧
    (∀ id', id' ≠ id → w'.entity id' = w.entity id') ∧ w'.len = w.len ∧
    (res.isSome ↔ (w.entity id).isSome) := by
  unfold World.entryRemove at e
  cases hg : w.alloc.get id with
  | none =>
    simp [hg] at e; obtain ⟨rfl, rfl⟩ := e
    simp [entity_none_of_dead hg]
  | some loc =>
    simp only [hg] at e
    obtain ⟨a, la, hh⟩ := hi.liveAt hg
    have hga : w.getArch loc.arch = .ok a := by
      unfold World.getArch; rw [← hh, la.find]; rfl
    simp only [hga] at e
    have hr : loc.row < a.ids.length := (List.getElem?_eq_some_iff.mp la.row).1
    rw [entity_of_liveAt la]
    by_cases hcm : a.mask.has c
    · simp only [hcm, if_true] at e
      have hne0 : a.ids.length - 1 < a.ids.length := by omega
      have hlast : a.ids[a.ids.length - 1]? = some a.ids[a.ids.length - 1] := List.getElem?_eq_getElem hne0
      rw [← hh, takeRowAt_eq hi la hlast] at e
      simp only at e
      cases hfm : ({ (w.setArch (removedArch a loc.row)) with
          alloc := fixAlloc w.alloc a.ids[a.ids.length - 1] a.handle loc.row a.ids.length } : World).archForMask
          (World.setBit a.mask c false) with
      | ub x => simp [hfm] at e
      | ok p =>
        obtain ⟨w2, h'⟩ := p
        simp only [hfm] at e
        cases hgt : w2.getArch h' with
        | ub x => simp [hgt] at e
        | ok t =>
          simp only [hgt] at e
          cases hp : t.pushRow ((a.cols.filterMap (fun c => c[loc.row]?)).eraseIdx (colIndex a.mask c)) id with
          | ub x => simp [hp] at e
          | ok t' =>
            simp only [hp] at e
            cases hset : w2.alloc.setLoc id ⟨h', t.ids.length⟩ with
            | ub x => simp [hset] at e
            | ok al =>
              simp only [hset, Out.ok.injEq, Prod.mk.injEq] at e
              obtain ⟨rfl, rfl⟩ := e
              obtain ⟨p1, p2, p3⟩ := moveRow_entity hi la hlast (by simp [World.setBit, la.ok.mask_len]) hfm
                (getArch_ok hgt) hp hset
              refine ⟨?_, p2, p3, by simp⟩
              rw [p1]
              simp only [Option.map_some, Option.some.injEq]
              obtain ⟨col, old, h1, h2, h3⟩ := cell_ok la.ok hcm hr
              exact eraseIdx_eq_filter (l := a.row loc.row)
                ((row_sorted la.ok hr).imp (by intro x y h; omega))
                (row_getElem la.ok hr h1 h2) h3
    · simp [hcm] at e; obtain ⟨rfl, rfl⟩ := e
      refine ⟨?_, fun _ _ => rfl, rfl, by simp [entity_of_liveAt la]⟩
      rw [entity_of_liveAt la]
      simp only [Option.map_some, Option.some.injEq]
      symm
      apply filter_ne_self
      intro x hx e2
      have : c ∈ (a.row loc.row).map (·.ty) := List.mem_map.mpr ⟨x, hx, e2⟩
      unfold Arch.row at this
      rw [row_tys la.ok hr] at this
      exact hcm (mem_comps.mp this)

theorem any_ty_contains (l : List Val) (c : Nat) :
    l.any (fun x => x.ty == c) = (l.map (·.ty)).contains c := by
  induction l with
  | nil => rfl
  | cons x xs ih =>
    simp only [List.any_cons, List.map_cons, List.contains_cons, ih]
    congr 1
    cases h : x.ty == c <;> cases h2 : c == x.ty <;> simp_all

/-- **A write through a `&mut` view** replaces component `c` of the entity if it is present, and
changes nothing else. -/
theorem write_entity {w w' : World} {id : Ident} {c : Nat} {v : Val} {res : Option (List Val)}
    (hi : Inv w) (hv : v.ty = c) (e : w.write id c v = .ok (w', res)) :
    w'.entity id = (w.entity id).map
      (fun vs => if vs.any (fun x => x.ty == c) then Spec.insertVal v vs else vs) ∧
    (∀ id', id' ≠ id → w'.entity id' = w.entity id') ∧ w'.len = w.len := by
  unfold World.write at e
  cases hg : w.alloc.get id with
  | none =>
    simp [hg] at e; obtain ⟨rfl, rfl⟩ := e
    simp [entity_none_of_dead hg]
  | some loc =>
    simp only [hg] at e
    obtain ⟨a, la, hh⟩ := hi.liveAt hg
    rw [← hh, la.find] at e
    simp only at e
    have hr : loc.row < a.ids.length := (List.getElem?_eq_some_iff.mp la.row).1
    rw [entity_of_liveAt la]
    have hany : (a.row loc.row).any (fun x => x.ty == c) = a.mask.has c := by
      rw [any_ty_contains]
      unfold Arch.row
      rw [row_tys la.ok hr]
      cases hm : a.mask.has c with
      | true => simpa using mem_comps.mpr hm
      | false =>
        cases hcn : a.mask.comps.contains c with
        | false => rfl
        | true =>
          have := mem_comps.mp (by simpa using hcn : c ∈ a.mask.comps)
          rw [hm] at this; cases this
    by_cases hcm : a.mask.has c
    · simp only [hcm, if_true] at e
      cases hcol : a.cols[colIndex a.mask c]? with
      | none => simp [hcol] at e
      | some col =>
        simp only [hcol] at e
        cases hold : col[loc.row]? with
        | none => simp [hold] at e
        | some old =>
          simp only [hold] at e
          by_cases hbad : old.ty ≠ c ∨ v.ty ≠ c
          · simp [hbad] at e
          · simp only [hbad, if_false, Out.ok.injEq, Prod.mk.injEq] at e
            obtain ⟨rfl, rfl⟩ := e
            have h1 : old.ty = c := by
              apply Classical.byContradiction; intro h; exact hbad (Or.inl h)
            obtain ⟨p1, p2⟩ := setCell_entity hi la hcol hold (v := v)
            refine ⟨?_, p2, rfl⟩
            rw [p1]
            simp only [Option.map_some, Option.some.injEq, hany, hcm, if_true]
            exact (insertVal_replace (row_sorted la.ok hr) (row_getElem la.ok hr hcol hold)
              (by rw [h1, hv])).symm
    · simp [hcm] at e; obtain ⟨rfl, rfl⟩ := e
      refine ⟨?_, fun _ _ => rfl, rfl⟩
      rw [entity_of_liveAt la]
      have hf : a.mask.has c = false := by simpa using hcm
      simp only [Option.map_some, hany, hf, Bool.false_eq_true, if_false]

/-! ### `reserve`, `shrink_to_fit`, `clear` -/

theorem reserve_entity {w w' : World} {shape : List Nat} (hi : Inv w) (e : w.reserve shape = .ok w') :
    (∀ id, w'.entity id = w.entity id) ∧ w'.len = w.len := by
  unfold World.reserve at e
  cases h1 : w.archForEntity (Mask.ofShape w.n shape) with
  | ub x => simp [h1] at e
  | ok p =>
    obtain ⟨w1, hd⟩ := p
    have af := archForEntity_inv hi (by simp [Mask.ofShape]) h1
    simp [h1] at e
    subst e
    exact ⟨archFor_entity hi af, af.len⟩

theorem shrink_entity {w : World} (hi : Inv w) :
    (∀ id, w.shrinkToFit.entity id = w.entity id) ∧ w.shrinkToFit.len = w.len := by
  refine ⟨?_, rfl⟩
  intro id
  unfold World.entity
  show (match w.alloc.get id with | none => none | some l => _) = _
  cases hg : w.alloc.get id with
  | none => rfl
  | some l =>
    obtain ⟨b, lb, hhb⟩ := hi.liveAt hg
    simp only
    rw [← hhb, lb.find]
    have hne : b.ids.isEmpty = false := by
      cases hb : b.ids with
      | nil => have := lb.row; rw [hb] at this; simp at this
      | cons x xs => rfl
    have : w.shrinkToFit.findArch b.handle = some b := by
      unfold World.findArch World.shrinkToFit
      simp only
      exact find_filter_of_pos lb.find (by simp [hne])
    rw [this]

/-- **`clear` removes every entity.** -/
theorem clear_entity {w w' : World} {order : List Mask} {drops : List Val} (hi : Inv w)
    (e : w.clear order = .ok (w', drops)) : (∀ id, w'.entity id = none) ∧ w'.len = 0 := by
  obtain ⟨w1, d1, h1, hi1⟩ := clear_inv hi order
  rw [h1] at e
  simp only [Out.ok.injEq, Prod.mk.injEq] at e
  obtain ⟨rfl, rfl⟩ := e
  have harchs : w1.archs = w.archs.map Arch.cleared ∧ w1.len = 0 := by
    obtain ⟨w0, h0, rfl⟩ := clear_eq h1
    unfold World.clearRaw at h0
    simp only [] at h0
    split at h0
    · simp at h0
    · simp at h0; rw [← h0.1]; exact ⟨rfl, rfl⟩
  refine ⟨?_, harchs.2⟩
  intro id
  cases he : w1.entity id with
  | none => rfl
  | some vs =>
    obtain ⟨a, ha, r, hr, _⟩ := (entity_eq_some_iff hi1).mp he
    rw [harchs.1] at ha
    obtain ⟨b, _, rfl⟩ := List.mem_map.mp ha
    simp [Arch.cleared] at hr

/-! ### `len` counts the live identifiers -/

theorem length_flatMap_ids (l : List Arch) : (l.flatMap (·.ids)).length = (l.map (·.ids.length)).sum := by
  induction l with
  | nil => rfl
  | cons a as ih => simp [List.flatMap_cons, ih]

/-- The stored identifiers are a duplicate-free enumeration of the live identifiers, and `len` is
their number. -/
theorem len_counts_entities {w : World} (hi : Inv w) :
    w.stored.Nodup ∧ w.stored.length = w.len ∧ ∀ id, id ∈ w.stored ↔ (w.entity id).isSome := by
  refine ⟨?_, ?_, ?_⟩
  · exact hi.stored_pairwise.imp (by intro x y h e; exact h (by rw [e]))
  · unfold World.stored; rw [length_flatMap_ids, hi.len]
  · intro id
    constructor
    · intro h
      obtain ⟨a, ha, r, hr⟩ := mem_stored h
      have := (entity_eq_some_iff hi (id := id) (vs := a.row r)).mpr ⟨a, ha, r, hr, rfl⟩
      simp [this]
    · intro h
      cases he : w.entity id with
      | none => rw [he] at h; cases h
      | some vs =>
        obtain ⟨a, ha, r, hr, _⟩ := (entity_eq_some_iff hi).mp he
        exact List.mem_flatMap.mpr ⟨a, ha, List.mem_of_getElem? hr⟩

theorem isEmpty_iff {w : World} (hi : Inv w) : w.isEmpty = true ↔ ∀ id, w.entity id = none := by
  obtain ⟨_, h2, h3⟩ := len_counts_entities hi
  unfold World.isEmpty
  constructor
  · intro h id
    have : w.stored = [] := by
      have : w.stored.length = 0 := by rw [h2]; simpa using h
      exact List.length_eq_zero_iff.mp this
    cases he : w.entity id with
    | none => rfl
    | some vs =>
      have := (h3 id).mpr (by simp [he])
      rw [‹w.stored = []›] at this; cases this
  · intro h
    have : w.stored = [] := by
      cases hs : w.stored with
      | nil => rfl
      | cons x xs =>
        have := (h3 x).mp (by rw [hs]; simp)
        rw [h x] at this; cases this
    rw [← h2, this]; rfl

end Brood
