//! splitmix64: every random choice of the harness derives from one state.
pub struct Rng(pub u64);
impl Rng {
    pub fn new(seed: u64) -> Self {
        Rng(seed.wrapping_mul(0x9E37_79B9_7F4A_7C15) ^ 0xD1B5_4A32_D192_ED03)
    }
    pub fn next(&mut self) -> u64 {
        self.0 = self.0.wrapping_add(0x9E37_79B9_7F4A_7C15);
        let mut z = self.0;
        z = (z ^ (z >> 30)).wrapping_mul(0xBF58_476D_1CE4_E5B9);
        z = (z ^ (z >> 27)).wrapping_mul(0x94D0_49BB_1331_11EB);
        z ^ (z >> 31)
    }
    pub fn below(&mut self, n: u64) -> u64 {
        if n == 0 { 0 } else { self.next() % n }
    }
}
