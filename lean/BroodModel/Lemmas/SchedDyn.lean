/-
  The run-time half of scheduling (src/system/schedule/stage.rs): the stage's claim map and the
  add-on decision.  The map records, per archetype, the exact join of the claims of the tasks
  running in the stage that match it; a next-stage task is started early exactly when its claims
  conflict with no running task on any archetype both match (and its resource claims conflict
  with none).
-/
import BroodModel.Lemmas.Sched

set_option linter.unusedSimpArgs false
set_option linter.unusedVariables false

namespace Brood
open Static Generated

/-! ### claims -/

/-- A successful merge is the exact join: something conflicts with the merged claim iff it
conflicts with one of the two. -/
theorem merge_conflicts_iff (a b c x : Cl) (h : tryMergeCl claimTryMerge a b = some c) :
    x.conflicts c = (x.conflicts a || x.conflicts b) := by
  cases a <;> cases b <;> simp [tryMergeCl, lookupCl, claimTryMerge] at h <;> subst h <;> cases x <;> rfl

theorem conflicts_none (x : Cl) : x.conflicts .none = false := by cases x <;> rfl

theorem conflicts_comm (a b : Cl) : a.conflicts b = b.conflicts a := by cases a <;> cases b <;> rfl

theorem tryMergeCl_isSome (a b : Cl) : (tryMergeCl claimTryMerge a b).isSome = !(a.conflicts b) :=
  try_merge_exact a b

/-- Pointwise: two claim vectors of the same length do not conflict anywhere. -/
def vecOk (a b : List Cl) : Bool := (List.zipWith Cl.conflicts a b).all (fun x => !x)

theorem tryMergeVec_some_iff (a b : List Cl) (hl : a.length = b.length) :
    (tryMergeVec claimTryMerge a b).isSome = vecOk a b := by
  induction a generalizing b with
  | nil => cases b with
    | nil => rfl
    | cons _ _ => simp at hl
  | cons x xs ih =>
    cases b with
    | nil => simp at hl
    | cons y ys =>
      have ih' := ih ys (by simpa using hl)
      have hx := tryMergeCl_isSome x y
      simp only [tryMergeVec, vecOk, List.zipWith_cons_cons, List.all_cons]
      cases h1 : tryMergeCl claimTryMerge x y with
      | none =>
        rw [h1] at hx
        have : x.conflicts y = true := by simpa using hx
        simp [this]
      | some c =>
        rw [h1] at hx
        have : x.conflicts y = false := by simpa using hx
        have hv : vecOk xs ys = ((List.zipWith Cl.conflicts xs ys).all fun x => !x) := rfl
        cases h2 : tryMergeVec claimTryMerge xs ys with
        | none =>
          rw [h2] at ih'
          simp only [this, Bool.not_false, Bool.true_and, ← hv, ← ih']
        | some cs =>
          rw [h2] at ih'
          simp only [this, Bool.not_false, Bool.true_and, ← hv, ← ih']
          rfl

/-- The merged vector is the pointwise exact join. -/
theorem tryMergeVec_join {a b c : List Cl} (h : tryMergeVec claimTryMerge a b = some c) :
    c.length = a.length ∧ a.length = b.length ∧
    ∀ (x : List Cl), x.length = a.length → vecOk x c = (vecOk x a && vecOk x b) := by
  induction a generalizing b c with
  | nil =>
    cases b with
    | nil => simp [tryMergeVec] at h; subst h; exact ⟨rfl, rfl, by intro x hx; simp [vecOk]⟩
    | cons _ _ => simp [tryMergeVec] at h
  | cons y ys ih =>
    cases b with
    | nil => simp [tryMergeVec] at h
    | cons z zs =>
      simp only [tryMergeVec] at h
      cases h1 : tryMergeCl claimTryMerge y z with
      | none => simp [h1] at h
      | some m =>
        cases h2 : tryMergeVec claimTryMerge ys zs with
        | none => simp [h1, h2] at h
        | some ms =>
          simp [h1, h2] at h
          subst h
          obtain ⟨i1, i2, i3⟩ := ih h2
          refine ⟨by simp [i1], by simp [i2], ?_⟩
          intro x hx
          cases x with
          | nil => simp at hx
          | cons w ws =>
            have := i3 ws (by simpa using hx)
            simp only [vecOk, List.zipWith_cons_cons, List.all_cons] at this ⊢
            rw [this, merge_conflicts_iff y z m w h1]
            cases w.conflicts y <;> cases w.conflicts z <;> simp

theorem vecOk_comm (a b : List Cl) : vecOk a b = vecOk b a := by
  unfold vecOk
  induction a generalizing b with
  | nil => cases b <;> rfl
  | cons x xs ih =>
    cases b with
    | nil => rfl
    | cons y ys => simp [ih ys, conflicts_comm x y]

theorem claimVec_length (n : Nat) (t : Task) : (t.claimVec n).length = n := by simp [Task.claimVec]
theorem resVec_length (n : Nat) (t : Task) : (t.resVec n).length = n := by simp [Task.resVec]

/-! ### the claim map -/

theorem ClaimMap.get_set_same (m : ClaimMap) (k : Mask) (v : List Cl) : (m.set k v).get k = some v := by
  unfold ClaimMap.set ClaimMap.get
  by_cases h : m.any (fun p => p.1 == k) = true
  · simp only [h, if_true]
    induction m with
    | nil => simp at h
    | cons p ps ih =>
      simp only [List.map_cons, List.find?_cons]
      by_cases hp : p.1 == k
      · simp [hp]
      · have hp' : (p.1 == k) = false := by simpa using hp
        simp only [hp', Bool.false_eq_true, if_false]
        simp only [List.any_cons, hp', Bool.false_or] at h
        exact ih h
  · have h' : m.any (fun p => p.1 == k) = false := by
      cases hb : m.any (fun p => p.1 == k) with
      | false => rfl
      | true => exact absurd hb h
    simp only [h', Bool.false_eq_true, if_false]
    rw [List.find?_append]
    have : m.find? (fun p => p.1 == k) = none := by
      apply List.find?_eq_none.mpr
      intro p hp
      rw [List.any_eq_false] at h'
      exact h' p hp
    simp [this]

theorem ClaimMap.get_set_other (m : ClaimMap) {k k' : Mask} (v : List Cl) (hne : k' ≠ k) :
    (m.set k v).get k' = m.get k' := by
  unfold ClaimMap.set ClaimMap.get
  by_cases h : m.any (fun p => p.1 == k) = true
  · simp only [h, if_true]
    congr 1
    induction m with
    | nil => rfl
    | cons p ps ih =>
      simp only [List.map_cons, List.find?_cons]
      by_cases hp : p.1 == k
      · have hpk : p.1 = k := by simpa using hp
        have h1 : (k == k') = false := by simpa using (fun e => hne e.symm)
        have h2 : (p.1 == k') = false := by rw [hpk]; exact h1
        simp only [hp, if_true, h1, h2]
        by_cases hany : ps.any (fun p => p.1 == k) = true
        · exact ih hany
        · have hany' : ps.any (fun p => p.1 == k) = false := by
            cases hb : ps.any (fun p => p.1 == k) with
            | false => rfl
            | true => exact absurd hb hany
          have : ps.map (fun p => if p.1 == k then (k, v) else p) = ps := by
            have : ps.map (fun p => if p.1 == k then (k, v) else p) = ps.map id := by
              apply List.map_congr_left
              intro q hq
              rw [List.any_eq_false] at hany'
              have := hany' q hq
              simp [this]
            simpa using this
          rw [this]
      · have hp' : (p.1 == k) = false := by simpa using hp
        simp only [hp', Bool.false_eq_true, if_false]
        cases hpk' : p.1 == k' with
        | true => rfl
        | false =>
          simp only [List.any_cons, hp', Bool.false_or] at h
          exact ih h
  · have h' : m.any (fun p => p.1 == k) = false := by
      cases hb : m.any (fun p => p.1 == k) with
      | false => rfl
      | true => exact absurd hb h
    simp only [h', Bool.false_eq_true, if_false]
    rw [List.find?_append]
    have hk : ((fun p : Mask × List Cl => p.1 == k') (k, v)) = false := by simpa using (fun e => hne e.symm)
    cases hf : m.find? (fun p => p.1 == k') with
    | some p => rfl
    | none => simp [List.find?_cons, hk]

/-! ### folding a task's claims into the map -/

/-- One step of `query_archetype_identifiers` (the add-on variant, which refuses on conflict). -/
def tryAddStep (tvec : List Cl) (acc : Option ClaimMap) (k : Mask) : Option ClaimMap :=
  match acc with
  | none => none
  | some acc =>
    match acc.get k with
    | some old =>
      match tryMergeVec claimTryMerge tvec old with
      | some merged => some (acc.set k merged)
      | none => none
    | none => some (acc.set k tvec)

theorem tryAddClaims_eq (n : Nat) (masks : List Mask) (t : Task) (m : ClaimMap) :
    tryAddClaims claimTryMerge n masks t m =
      (masks.filter t.matchesArch).foldl (tryAddStep (t.claimVec n)) (some m) := rfl

theorem tryAdd_fold_none (tvec : List Cl) (ks : List Mask) :
    ks.foldl (tryAddStep tvec) none = none := by
  induction ks with
  | nil => rfl
  | cons k ks ih => simpa [List.foldl_cons, tryAddStep] using ih

/-- Success: every listed key now holds the merge (or the task's own claims), other keys are
untouched. -/
theorem tryAdd_fold_some (tvec : List Cl) (ks : List Mask) (hn : ks.Nodup) :
    ∀ (acc r : ClaimMap), ks.foldl (tryAddStep tvec) (some acc) = some r →
      (∀ k ∈ ks, (acc.get k = none → r.get k = some tvec) ∧
        (∀ old, acc.get k = some old → ∃ c, tryMergeVec claimTryMerge tvec old = some c ∧ r.get k = some c)) ∧
      (∀ k, k ∉ ks → r.get k = acc.get k) := by
  induction ks with
  | nil =>
    intro acc r h
    simp at h; subst h
    exact ⟨by simp, fun _ _ => rfl⟩
  | cons k ks ih =>
    intro acc r h
    simp only [List.nodup_cons] at hn
    simp only [List.foldl_cons] at h
    -- the first step
    cases hg : acc.get k with
    | none =>
      have hstep : tryAddStep tvec (some acc) k = some (acc.set k tvec) := by simp [tryAddStep, hg]
      rw [hstep] at h
      obtain ⟨i1, i2⟩ := ih hn.2 _ r h
      refine ⟨?_, ?_⟩
      · intro k' hk'
        rcases List.mem_cons.mp hk' with rfl | hk'
        · have := i2 k' hn.1
          rw [ClaimMap.get_set_same] at this
          exact ⟨fun _ => this, fun old ho => (by rw [hg] at ho; cases ho)⟩
        · have hne : k' ≠ k := fun e => hn.1 (e ▸ hk')
          have := i1 k' hk'
          rw [ClaimMap.get_set_other _ _ hne] at this
          exact this
      · intro k' hk'
        simp only [List.mem_cons, not_or] at hk'
        rw [i2 k' hk'.2, ClaimMap.get_set_other _ _ hk'.1]
    | some old =>
      cases hm : tryMergeVec claimTryMerge tvec old with
      | none =>
        have hstep : tryAddStep tvec (some acc) k = none := by simp [tryAddStep, hg, hm]
        rw [hstep, tryAdd_fold_none] at h; cases h
      | some c =>
        have hstep : tryAddStep tvec (some acc) k = some (acc.set k c) := by simp [tryAddStep, hg, hm]
        rw [hstep] at h
        obtain ⟨i1, i2⟩ := ih hn.2 _ r h
        refine ⟨?_, ?_⟩
        · intro k' hk'
          rcases List.mem_cons.mp hk' with rfl | hk'
          · have := i2 k' hn.1
            rw [ClaimMap.get_set_same] at this
            refine ⟨fun hnone => (by rw [hg] at hnone; cases hnone), ?_⟩
            intro old' ho
            rw [hg] at ho; cases ho
            exact ⟨c, hm, this⟩
          · have hne : k' ≠ k := fun e => hn.1 (e ▸ hk')
            have := i1 k' hk'
            rw [ClaimMap.get_set_other _ _ hne] at this
            exact this
        · intro k' hk'
          simp only [List.mem_cons, not_or] at hk'
          rw [i2 k' hk'.2, ClaimMap.get_set_other _ _ hk'.1]

/-- Failure: some listed key already holds claims the task's claims cannot be merged with. -/
theorem tryAdd_fold_fail (tvec : List Cl) (ks : List Mask) (hn : ks.Nodup) :
    ∀ (acc : ClaimMap), ks.foldl (tryAddStep tvec) (some acc) = none →
      ∃ k ∈ ks, ∃ old, acc.get k = some old ∧ tryMergeVec claimTryMerge tvec old = none := by
  induction ks with
  | nil => intro acc h; simp at h
  | cons k ks ih =>
    intro acc h
    simp only [List.nodup_cons] at hn
    simp only [List.foldl_cons] at h
    cases hg : acc.get k with
    | none =>
      have hstep : tryAddStep tvec (some acc) k = some (acc.set k tvec) := by simp [tryAddStep, hg]
      rw [hstep] at h
      obtain ⟨k', hk', old, ho, hm⟩ := ih hn.2 _ h
      have hne : k' ≠ k := fun e => hn.1 (e ▸ hk')
      rw [ClaimMap.get_set_other _ _ hne] at ho
      exact ⟨k', by simp [hk'], old, ho, hm⟩
    | some old =>
      cases hm : tryMergeVec claimTryMerge tvec old with
      | none => exact ⟨k, by simp, old, hg, hm⟩
      | some c =>
        have hstep : tryAddStep tvec (some acc) k = some (acc.set k c) := by simp [tryAddStep, hg, hm]
        rw [hstep] at h
        obtain ⟨k', hk', old', ho, hm'⟩ := ih hn.2 _ h
        have hne : k' ≠ k := fun e => hn.1 (e ▸ hk')
        rw [ClaimMap.get_set_other _ _ hne] at ho
        exact ⟨k', by simp [hk'], old', ho, hm'⟩

/-- The running-task variant (`addClaims`, which keeps the old claims if a merge fails) agrees
with the refusing variant whenever the latter succeeds. -/
theorem addClaims_of_tryAdd {n : Nat} {masks : List Mask} {t : Task} {m r : ClaimMap}
    (h : tryAddClaims claimTryMerge n masks t m = some r) : addClaims claimTryMerge n masks t m = r := by
  rw [tryAddClaims_eq] at h
  unfold addClaims
  generalize masks.filter t.matchesArch = ks at h ⊢
  induction ks generalizing m with
  | nil => simp at h ⊢; exact h
  | cons k ks ih =>
    simp only [List.foldl_cons] at h ⊢
    cases hg : m.get k with
    | none =>
      have hstep : tryAddStep (t.claimVec n) (some m) k = some (m.set k (t.claimVec n)) := by
        simp [tryAddStep, hg]
      rw [hstep] at h
      simp only [hg]
      exact ih h
    | some old =>
      cases hm : tryMergeVec claimTryMerge (t.claimVec n) old with
      | none =>
        have hstep : tryAddStep (t.claimVec n) (some m) k = none := by simp [tryAddStep, hg, hm]
        rw [hstep, tryAdd_fold_none] at h; cases h
      | some c =>
        have hstep : tryAddStep (t.claimVec n) (some m) k = some (m.set k c) := by
          simp [tryAddStep, hg, hm]
        rw [hstep] at h
        simp only [hg, hm, Option.getD_some]
        exact ih h

/-! ### the claim map is the exact join of the matching running tasks -/

structure MapExact (n : Nat) (masks : List Mask) (cm : ClaimMap) (ts : List Task) : Prop where
  none_of : ∀ k ∈ masks, (∀ t ∈ ts, t.matchesArch k = false) → cm.get k = none
  some_of : ∀ k ∈ masks, (∃ t ∈ ts, t.matchesArch k = true) →
    ∃ v, cm.get k = some v ∧ v.length = n ∧
      ∀ x : List Cl, x.length = n →
        vecOk x v = ts.all (fun t => !t.matchesArch k || vecOk x (t.claimVec n))

theorem MapExact.empty (n : Nat) (masks : List Mask) : MapExact n masks [] [] :=
  ⟨fun _ _ _ => rfl, fun _ _ h => by obtain ⟨t, ht, _⟩ := h; cases ht⟩

theorem all_false_of_none {ts : List Task} {k : Mask} (h : ∀ t ∈ ts, t.matchesArch k = false)
    (f : Task → Bool) : ts.all (fun t => !t.matchesArch k || f t) = true := by
  apply List.all_eq_true.mpr
  intro t ht
  simp [h t ht]

/-- **The add-on decision, exactly**: the claims of `u` are accepted iff they conflict with the
claims of no running task on any archetype both match; on acceptance the map is again exact. -/
theorem tryAdd_exact {n : Nat} {masks : List Mask} (hm : masks.Nodup) {cm : ClaimMap} {ts : List Task}
    (me : MapExact n masks cm ts) (u : Task) :
    (∀ cm', tryAddClaims claimTryMerge n masks u cm = some cm' →
      (∀ k ∈ masks, u.matchesArch k = true → ∀ t ∈ ts, t.matchesArch k = true →
        vecOk (u.claimVec n) (t.claimVec n) = true) ∧ MapExact n masks cm' (ts ++ [u])) ∧
    (tryAddClaims claimTryMerge n masks u cm = none →
      ∃ k ∈ masks, ∃ t ∈ ts, u.matchesArch k = true ∧ t.matchesArch k = true ∧
        vecOk (u.claimVec n) (t.claimVec n) = false) := by
  have hks : (masks.filter u.matchesArch).Nodup := hm.sublist List.filter_sublist
  have hlen := claimVec_length n u
  -- what the map holds at a key some running task matches
  have hold : ∀ k ∈ masks, ∀ old, cm.get k = some old →
      old.length = n ∧ ∀ x : List Cl, x.length = n →
        vecOk x old = ts.all (fun t => !t.matchesArch k || vecOk x (t.claimVec n)) := by
    intro k hk old ho
    by_cases hex : ∃ t ∈ ts, t.matchesArch k = true
    · obtain ⟨v, hv, hvl, hvx⟩ := me.some_of k hk hex
      rw [ho] at hv; cases hv
      exact ⟨hvl, hvx⟩
    · have : ∀ t ∈ ts, t.matchesArch k = false := by
        intro t ht
        cases hb : t.matchesArch k with
        | false => rfl
        | true => exact absurd ⟨t, ht, hb⟩ hex
      rw [me.none_of k hk this] at ho; cases ho
  constructor
  · intro cm' h
    rw [tryAddClaims_eq] at h
    obtain ⟨f1, f2⟩ := tryAdd_fold_some (u.claimVec n) _ hks cm cm' h
    constructor
    · intro k hk huk t ht htk
      have hkks : k ∈ masks.filter u.matchesArch := List.mem_filter.mpr ⟨hk, huk⟩
      obtain ⟨v, hv, hvl, hvx⟩ := me.some_of k hk ⟨t, ht, htk⟩
      obtain ⟨c, hc, _⟩ := (f1 k hkks).2 v hv
      have hsome : (tryMergeVec claimTryMerge (u.claimVec n) v).isSome = true := by rw [hc]; rfl
      rw [tryMergeVec_some_iff _ _ (by rw [hlen, hvl]), hvx _ hlen] at hsome
      have := List.all_eq_true.mp hsome t ht
      simpa [htk] using this
    · constructor
      · intro k hk hnone
        have hu : u.matchesArch k = false := hnone u (by simp)
        have hkks : k ∉ masks.filter u.matchesArch := by
          intro hmem; rw [(List.mem_filter.mp hmem).2] at hu; cases hu
        rw [f2 k hkks]
        exact me.none_of k hk (fun t ht => hnone t (by simp [ht]))
      · intro k hk hex
        by_cases huk : u.matchesArch k = true
        · have hkks : k ∈ masks.filter u.matchesArch := List.mem_filter.mpr ⟨hk, huk⟩
          cases hg : cm.get k with
          | none =>
            have hr := (f1 k hkks).1 hg
            have hnone : ∀ t ∈ ts, t.matchesArch k = false := by
              intro t ht
              cases hb : t.matchesArch k with
              | false => rfl
              | true =>
                obtain ⟨v, hv, _⟩ := me.some_of k hk ⟨t, ht, hb⟩
                rw [hg] at hv; cases hv
            refine ⟨u.claimVec n, hr, hlen, ?_⟩
            intro x hx
            rw [List.all_append, all_false_of_none hnone]
            simp [huk]
          | some old =>
            obtain ⟨c, hc, hr⟩ := (f1 k hkks).2 old hg
            obtain ⟨ol, ox⟩ := hold k hk old hg
            obtain ⟨j1, j2, j3⟩ := tryMergeVec_join hc
            refine ⟨c, hr, by rw [j1, hlen], ?_⟩
            intro x hx
            rw [j3 x (by rw [hx, hlen]), ox x hx, List.all_append]
            simp [huk, Bool.and_comm]
        · have huk' : u.matchesArch k = false := by
            cases hb : u.matchesArch k with
            | false => rfl
            | true => exact absurd hb huk
          have hkks : k ∉ masks.filter u.matchesArch := by
            intro hmem; rw [(List.mem_filter.mp hmem).2] at huk'; cases huk'
          have hex' : ∃ t ∈ ts, t.matchesArch k = true := by
            obtain ⟨t, ht, htk⟩ := hex
            rcases List.mem_append.mp ht with ht | ht
            · exact ⟨t, ht, htk⟩
            · simp at ht; subst ht; rw [huk'] at htk; cases htk
          obtain ⟨v, hv, hvl, hvx⟩ := me.some_of k hk hex'
          refine ⟨v, by rw [f2 k hkks]; exact hv, hvl, ?_⟩
          intro x hx
          rw [hvx x hx, List.all_append]
          simp [huk']
  · intro h
    rw [tryAddClaims_eq] at h
    obtain ⟨k, hkks, old, ho, hmf⟩ := tryAdd_fold_fail (u.claimVec n) _ hks cm h
    obtain ⟨hk, huk⟩ := List.mem_filter.mp hkks
    obtain ⟨ol, ox⟩ := hold k hk old ho
    have hnone : (tryMergeVec claimTryMerge (u.claimVec n) old).isSome = false := by rw [hmf]; rfl
    rw [tryMergeVec_some_iff _ _ (by rw [hlen, ol]), ox _ hlen] at hnone
    have : ¬ (∀ t ∈ ts, (!t.matchesArch k || vecOk (u.claimVec n) (t.claimVec n)) = true) := by
      intro hall
      rw [List.all_eq_true.mpr hall] at hnone; cases hnone
    have hex : ∃ t ∈ ts, (!t.matchesArch k || vecOk (u.claimVec n) (t.claimVec n)) = false := by
      apply Classical.byContradiction
      intro hne
      apply this
      intro t ht
      cases hb : (!t.matchesArch k || vecOk (u.claimVec n) (t.claimVec n)) with
      | true => rfl
      | false => exact absurd ⟨t, ht, hb⟩ hne
    obtain ⟨t, ht, hb⟩ := hex
    simp only [Bool.or_eq_false_iff, Bool.not_eq_false'] at hb
    exact ⟨k, hk, t, ht, huk, hb.1, hb.2⟩

/-! ### tasks that may run together -/

/-- `u` and `t` may run at the same time: their resource claims do not conflict, and on every
archetype both match their component claims do not conflict. -/
def TaskOk (n nres : Nat) (masks : List Mask) (u t : Task) : Prop :=
  vecOk (u.resVec nres) (t.resVec nres) = true ∧
  ∀ k ∈ masks, u.matchesArch k = true → t.matchesArch k = true →
    vecOk (u.claimVec n) (t.claimVec n) = true

/-- The resource claim vector covers the resource claims of `ts`. -/
def ResCover (nres : Nat) (rc : List Cl) (ts : List Task) : Prop :=
  rc.length = nres ∧ ∀ x : List Cl, x.length = nres → vecOk x rc = true → ∀ t ∈ ts, vecOk x (t.resVec nres) = true

theorem ResCover.merge {nres : Nat} {rc rc' : List Cl} {ts : List Task} {u : Task}
    (h : ResCover nres rc ts) (hm : tryMergeVec claimTryMerge (u.resVec nres) rc = some rc') :
    ResCover nres rc' (ts ++ [u]) := by
  obtain ⟨j1, j2, j3⟩ := tryMergeVec_join hm
  refine ⟨by rw [j1, resVec_length], ?_⟩
  intro x hx hok t ht
  rw [j3 x (by rw [hx, resVec_length])] at hok
  simp only [Bool.and_eq_true] at hok
  rcases List.mem_append.mp ht with ht | ht
  · exact h.2 x hx hok.2 t ht
  · simp at ht; subst ht; exact hok.1

theorem ResCover.weaken {nres : Nat} {rc : List Cl} {ts : List Task} {u : Task}
    (h : ResCover nres rc (ts ++ [u])) : ResCover nres rc ts :=
  ⟨h.1, fun x hx hok t ht => h.2 x hx hok t (by simp [ht])⟩

/-- The tasks of `next` that `addOns` starts early. -/
def accepted : List Task → List Bool → List Task
  | t :: ts, b :: bs => if b then t :: accepted ts bs else accepted ts bs
  | _, _ => []

/-- **Add-ons are safe**: a next-stage task that is started early may run together with every
running task and with every add-on started before it. -/
theorem addOns_safe {n nres : Nat} {masks : List Mask} (hm : masks.Nodup) (next : List Task) :
    ∀ (run : List Task) (cm : ClaimMap) (rc : List Cl), MapExact n masks cm run → ResCover nres rc run →
      ∀ u ∈ accepted next (addOns claimTryMerge n nres masks next cm rc),
        (∀ t ∈ run, TaskOk n nres masks u t) ∧
        (accepted next (addOns claimTryMerge n nres masks next cm rc)).Pairwise
          (fun a b => TaskOk n nres masks b a) := by
  induction next with
  | nil => intro run cm rc _ _ u hu; simp [addOns, accepted] at hu
  | cons w ws ih =>
    intro run cm rc me rcov u hu
    simp only [addOns] at hu ⊢
    cases hr : tryMergeVec claimTryMerge (w.resVec nres) rc with
    | none =>
      simp only [hr, accepted, Bool.false_eq_true, if_false] at hu ⊢
      exact ih run cm rc me rcov u hu
    | some rc' =>
      simp only [hr] at hu ⊢
      have hrok : vecOk (w.resVec nres) rc = true := by
        have : (tryMergeVec claimTryMerge (w.resVec nres) rc).isSome = true := by rw [hr]; rfl
        rwa [tryMergeVec_some_iff _ _ (by rw [resVec_length, rcov.1])] at this
      cases hc : tryAddClaims claimTryMerge n masks w cm with
      | none =>
        simp only [hc, accepted, Bool.false_eq_true, if_false] at hu ⊢
        -- the resource vector now also covers `w`, which only makes later decisions stricter
        have rcov' : ResCover nres rc' run := (rcov.merge hr).weaken
        exact ih run cm rc' me rcov' u hu
      | some cm' =>
        simp only [hc, accepted, if_true] at hu ⊢
        obtain ⟨hsafe, me'⟩ := (tryAdd_exact hm me w).1 cm' hc
        have rcov' := rcov.merge hr
        have hw_ok : ∀ t ∈ run, TaskOk n nres masks w t := fun t ht =>
          ⟨rcov.2 _ (resVec_length nres w) hrok t ht, fun k hk h1 h2 => hsafe k hk h1 t ht h2⟩
        have hrest := ih (run ++ [w]) cm' rc' me' rcov'
        rcases List.mem_cons.mp hu with rfl | hu'
        · refine ⟨hw_ok, ?_⟩
          rw [List.pairwise_cons]
          refine ⟨?_, ?_⟩
          · intro b hb
            exact (hrest b hb).1 u (by simp)
          · cases hacc : accepted ws (addOns claimTryMerge n nres masks ws cm' rc') with
            | nil => exact List.Pairwise.nil
            | cons b bs => exact (hrest b (by rw [hacc]; simp)).2 |> fun h => by rw [hacc] at h; exact h
        · obtain ⟨h1, h2⟩ := hrest u hu'
          refine ⟨fun t ht => h1 t (by simp [ht]), ?_⟩
          rw [List.pairwise_cons]
          exact ⟨fun b hb => (hrest b hb).1 w (by simp), h2⟩

/-! ### the map and the resource vector built from the running tasks -/

def CompOk (n : Nat) (masks : List Mask) (u t : Task) : Prop :=
  ∀ k ∈ masks, u.matchesArch k = true → t.matchesArch k = true →
    vecOk (u.claimVec n) (t.claimVec n) = true

theorem running_map_exact {n : Nat} {masks : List Mask} (hm : masks.Nodup) (rest : List Task) :
    ∀ (done : List Task) (cm : ClaimMap), MapExact n masks cm done →
      (∀ u ∈ rest, ∀ t ∈ done, CompOk n masks u t) → rest.Pairwise (fun a b => CompOk n masks b a) →
      MapExact n masks (rest.foldl (fun m t => addClaims claimTryMerge n masks t m) cm) (done ++ rest) := by
  induction rest with
  | nil => intro done cm me _ _; simpa using me
  | cons u us ih =>
    intro done cm me hud hpw
    simp only [List.foldl_cons]
    rw [List.pairwise_cons] at hpw
    obtain ⟨ex1, ex2⟩ := tryAdd_exact hm me u
    cases hc : tryAddClaims claimTryMerge n masks u cm with
    | none =>
      obtain ⟨k, hk, t, ht, h1, h2, h3⟩ := ex2 hc
      have := hud u (by simp) t ht k hk h1 h2
      rw [h3] at this; cases this
    | some cm' =>
      rw [addClaims_of_tryAdd hc]
      have me' := (ex1 cm' hc).2
      have := ih (done ++ [u]) cm' me'
        (by
          intro w hw t ht
          rcases List.mem_append.mp ht with ht | ht
          · exact hud w (by simp [hw]) t ht
          · simp at ht; subst ht; exact hpw.1 w hw)
        hpw.2
      simpa using this

def ResExact (nres : Nat) (rc : List Cl) (ts : List Task) : Prop :=
  rc.length = nres ∧ ∀ x : List Cl, x.length = nres → vecOk x rc = ts.all (fun t => vecOk x (t.resVec nres))

theorem vecOk_replicate_none (x : List Cl) (k : Nat) : vecOk x (List.replicate k Cl.none) = true := by
  unfold vecOk
  apply List.all_eq_true.mpr
  intro b hb
  obtain ⟨i, hi⟩ := List.getElem?_of_mem hb
  rw [List.getElem?_zipWith] at hi
  cases hx : x[i]? with
  | none => simp [hx] at hi
  | some a =>
    cases hr : (List.replicate k Cl.none)[i]? with
    | none => simp [hx, hr] at hi
    | some c =>
      have hc : c = Cl.none := by
        have := List.mem_of_getElem? hr
        exact (List.mem_replicate.mp this).2
      simp [hx, hr, hc, conflicts_none] at hi
      subst hi; rfl

theorem running_res_exact {nres : Nat} (rest : List Task) :
    ∀ (done : List Task) (rc : List Cl), ResExact nres rc done →
      (∀ u ∈ rest, ∀ t ∈ done, vecOk (u.resVec nres) (t.resVec nres) = true) →
      rest.Pairwise (fun a b => vecOk (b.resVec nres) (a.resVec nres) = true) →
      ResExact nres (rest.foldl (fun acc t => (tryMergeVec claimTryMerge (t.resVec nres) acc).getD acc) rc)
        (done ++ rest) := by
  induction rest with
  | nil => intro done rc re _ _; simpa using re
  | cons u us ih =>
    intro done rc re hud hpw
    simp only [List.foldl_cons]
    rw [List.pairwise_cons] at hpw
    have hok : vecOk (u.resVec nres) rc = true := by
      rw [re.2 _ (resVec_length nres u)]
      apply List.all_eq_true.mpr
      intro t ht
      exact hud u (by simp) t ht
    have hsome : (tryMergeVec claimTryMerge (u.resVec nres) rc).isSome = true := by
      rw [tryMergeVec_some_iff _ _ (by rw [resVec_length, re.1])]; exact hok
    cases hmv : tryMergeVec claimTryMerge (u.resVec nres) rc with
    | none => rw [hmv] at hsome; cases hsome
    | some rc' =>
      simp only [Option.getD_some]
      obtain ⟨j1, j2, j3⟩ := tryMergeVec_join hmv
      have re' : ResExact nres rc' (done ++ [u]) := by
        refine ⟨by rw [j1, resVec_length], ?_⟩
        intro x hx
        rw [j3 x (by rw [hx, resVec_length]), re.2 x hx, List.all_append]
        simp [Bool.and_comm]
      have := ih (done ++ [u]) rc' re'
        (by
          intro w hw t ht
          rcases List.mem_append.mp ht with ht | ht
          · exact hud w (by simp [hw]) t ht
          · simp at ht; subst ht; exact hpw.1 w hw)
        hpw.2
      simpa using this

theorem ResExact.cover {nres : Nat} {rc : List Cl} {ts : List Task} (h : ResExact nres rc ts) :
    ResCover nres rc ts :=
  ⟨h.1, fun x hx hok t ht => by
    rw [h.2 x hx] at hok
    exact List.all_eq_true.mp hok t ht⟩

/-- **One stage at run time is safe**: if the tasks that run in the stage may pairwise run
together, then so may all tasks of the resulting phase — the running tasks and the next-stage
tasks `runStage` starts early. -/
theorem runStage_safe {n nres : Nat} {masks : List Mask} (hm : masks.Nodup) (running next : List Task)
    (hpw : running.Pairwise (fun a b => TaskOk n nres masks b a)) :
    let cm := running.foldl (fun m t => addClaims claimTryMerge n masks t m) ([] : ClaimMap)
    let rc := running.foldl (fun acc t => (tryMergeVec claimTryMerge (t.resVec nres) acc).getD acc)
      (List.replicate nres Cl.none)
    (running ++ accepted next (addOns claimTryMerge n nres masks next cm rc)).Pairwise
      (fun a b => TaskOk n nres masks b a) := by
  intro cm rc
  have me : MapExact n masks cm ([] ++ running) :=
    running_map_exact hm running [] [] (MapExact.empty n masks) (by intro u _ t ht; cases ht)
      (hpw.imp (fun h => h.2))
  have re : ResExact nres rc ([] ++ running) :=
    running_res_exact running [] (List.replicate nres Cl.none)
      ⟨by simp, fun x hx => by simp [vecOk_replicate_none]⟩ (by intro u _ t ht; cases ht)
      (hpw.imp (fun h => h.1))
  simp only [List.nil_append] at me re
  rw [List.pairwise_append]
  refine ⟨hpw, ?_, ?_⟩
  · cases hacc : accepted next (addOns claimTryMerge n nres masks next cm rc) with
    | nil => exact List.Pairwise.nil
    | cons b bs =>
      have := (addOns_safe hm next running cm rc me re.cover b (by rw [hacc]; simp)).2
      rw [hacc] at this; exact this
  · intro t ht u hu
    exact (addOns_safe hm next running cm rc me re.cover u hu).1 t ht

/-! ### from the static grouping to the run-time condition -/

/-- `Claim` of a claim list on component / resource `c`. -/
def clOn (l : List (Nat × VK)) (c : Nat) : Cl :=
  let ks := (l.filter (fun p => p.1 == c)).map (·.2)
  if ks.any VK.isMut then .mutable else if ks.isEmpty then .none else .immutable

theorem claimOn_eq (t : Task) (c : Nat) : t.claimOn c = clOn t.claims c := rfl

theorem resClaimOn_eq (t : Task) (p : Nat) : t.resClaimOn p = clOn (t.res.map resVK) p := by
  unfold Task.resClaimOn clOn
  have h1 : ((t.res.map resVK).filter (fun q => q.1 == p)).map (·.2) =
      ((t.res.filter (fun q => q.1 == p)).map (·.2)).map (fun b => if b then VK.mut else VK.ref) := by
    induction t.res with
    | nil => rfl
    | cons q qs ih =>
      simp only [List.map_cons, List.filter_cons, resVK]
      by_cases hq : q.1 == p
      · simp [hq, ih, resVK]
      · have : (q.1 == p) = false := by simpa using hq
        simp [this, ih]
  rw [h1]
  have h2 : ∀ l : List Bool, (l.map (fun b => if b then VK.mut else VK.ref)).any VK.isMut = l.any id := by
    intro l
    induction l with
    | nil => rfl
    | cons b bs ih => cases b <;> simp [ih, VK.isMut]
  have h3 : ∀ l : List Bool, (l.map (fun b => if b then VK.mut else VK.ref)).isEmpty = l.isEmpty := by
    intro l; cases l <;> rfl
  simp only [h2, h3]

/-- At most one claim on a component unless all claims on it are shared reads (what
`view::Disjoint` and the resource-view rules enforce at compile time). -/
def ClaimsWF (l : List (Nat × VK)) : Prop :=
  ∀ c, ((l.filter (fun p => p.1 == c)).map (·.2)).any VK.isMut = true → (l.filter (fun p => p.1 == c)).length = 1

theorem clOn_mutable {l : List (Nat × VK)} {c : Nat} (h : clOn l c = .mutable) :
    ((l.filter (fun p => p.1 == c)).map (·.2)).any VK.isMut = true := by
  unfold clOn at h
  simp only [] at h
  split at h
  · assumption
  · split at h <;> cases h

theorem clOn_ne_none {l : List (Nat × VK)} {c : Nat} (h : clOn l c ≠ .none) :
    ∃ p ∈ l, p.1 = c := by
  unfold clOn at h
  simp only [] at h
  cases hf : l.filter (fun p => p.1 == c) with
  | nil => simp [hf] at h
  | cons q qs =>
    have : q ∈ l.filter (fun p => p.1 == c) := by rw [hf]; simp
    obtain ⟨hq, hqc⟩ := List.mem_filter.mp this
    exact ⟨q, hq, by simpa using hqc⟩

theorem oldOf_of_mem {u : List (Nat × VK)} {c : Nat} (h : ∃ p ∈ u, p.1 = c) :
    ∃ k, oldOf u c = .claimed k ∧ (u.filter (fun p => p.1 == c)).head? = some (c, k) := by
  unfold oldOf
  induction u with
  | nil => obtain ⟨p, hp, _⟩ := h; cases hp
  | cons q qs ih =>
    by_cases hq : q.1 = c
    · refine ⟨q.2, by simp [List.find?_cons, hq], ?_⟩
      simp [List.filter_cons, hq]
      cases q; simp_all
    · have hq' : (q.1 == c) = false := by simpa using hq
      have hrest : ∃ p ∈ qs, p.1 = c := by
        obtain ⟨p, hp, hpc⟩ := h
        rcases List.mem_cons.mp hp with rfl | hp
        · exact absurd hpc hq
        · exact ⟨p, hp, hpc⟩
      obtain ⟨k, h1, h2⟩ := ih hrest
      exact ⟨k, by simpa [List.find?_cons, hq'] using h1, by simpa [List.filter_cons, hq'] using h2⟩

/-- The static check (`claimsConflict`, what the verifier computes) implies that the two claim
lists conflict on no component. -/
theorem static_no_conflict {u t : List (Nat × VK)} (hu : ClaimsWF u)
    (h : claimsConflict u t = false) (c : Nat) : (clOn u c).conflicts (clOn t c) = false := by
  unfold claimsConflict at h
  rw [List.any_eq_false] at h
  -- facts about `t`'s claims on `c`
  have ht_mem : clOn t c ≠ .none → ∃ k, (c, k) ∈ t := by
    intro hne
    obtain ⟨p, hp, hpc⟩ := clOn_ne_none hne
    exact ⟨p.2, by cases p; simp_all⟩
  have hu_mem : clOn u c ≠ .none → ∃ k, oldOf u c = .claimed k ∧ (u.filter (fun p => p.1 == c)).head? = some (c, k) :=
    fun hne => oldOf_of_mem (clOn_ne_none hne)
  cases hcu : clOn u c with
  | none => cases clOn t c <;> rfl
  | immutable =>
    cases hct : clOn t c with
    | none => rfl
    | immutable => rfl
    | mutable =>
      -- `t` writes `c`, `u` reads it: the verifier would have cut
      have hm := clOn_mutable hct
      obtain ⟨k, hk, hkm⟩ := List.any_eq_true.mp hm
      obtain ⟨q, hq, rfl⟩ := List.mem_map.mp hk
      obtain ⟨hqt, hqc⟩ := List.mem_filter.mp hq
      have hqc' : q.1 = c := by simpa using hqc
      obtain ⟨k', hk', _⟩ := hu_mem (by rw [hcu]; simp)
      have := h q hqt
      rw [hqc', hk'] at this
      simp [conflictKinds, hkm] at this
  | mutable =>
    cases hct : clOn t c with
    | none => rfl
    | immutable =>
      -- `u` writes `c` (its only claim on `c`, by well-formedness), `t` reads it
      obtain ⟨k, hkt⟩ := ht_mem (by rw [hct]; simp)
      have hm := clOn_mutable hcu
      obtain ⟨k', hk', hhead⟩ := hu_mem (by rw [hcu]; simp)
      have hone := hu c hm
      have hk'm : k'.isMut = true := by
        cases hf : u.filter (fun p => p.1 == c) with
        | nil => rw [hf] at hone; cases hone
        | cons q qs =>
          rw [hf] at hone hhead hm
          have hqs : qs = [] := by
            cases qs with
            | nil => rfl
            | cons _ _ => simp at hone
          subst hqs
          simp at hhead
          subst hhead
          simpa using hm
      have := h (c, k) hkt
      rw [hk'] at this
      simp [conflictKinds, hk'm] at this
    | mutable =>
      obtain ⟨k, hkt⟩ := ht_mem (by rw [hct]; simp)
      have hm := clOn_mutable hcu
      obtain ⟨k', hk', hhead⟩ := hu_mem (by rw [hcu]; simp)
      have hone := hu c hm
      have hk'm : k'.isMut = true := by
        cases hf : u.filter (fun p => p.1 == c) with
        | nil => rw [hf] at hone; cases hone
        | cons q qs =>
          rw [hf] at hone hhead hm
          have hqs : qs = [] := by
            cases qs with
            | nil => rfl
            | cons _ _ => simp at hone
          subst hqs
          simp at hhead
          subst hhead
          simpa using hm
      have := h (c, k) hkt
      rw [hk'] at this
      simp [conflictKinds, hk'm] at this

theorem vecOk_of_pointwise (f g : Nat → Cl) (n : Nat) (h : ∀ c, (f c).conflicts (g c) = false) :
    vecOk ((List.range n).map f) ((List.range n).map g) = true := by
  unfold vecOk
  apply List.all_eq_true.mpr
  intro b hb
  obtain ⟨i, hi⟩ := List.getElem?_of_mem hb
  rw [List.getElem?_zipWith, List.getElem?_map, List.getElem?_map] at hi
  cases hr : (List.range n)[i]? with
  | none => simp [hr] at hi
  | some c => simp [hr] at hi; subst hi; simp [h c]

/-- A task whose claim lists are well formed. -/
def Task.WF (t : Task) : Prop := ClaimsWF t.claims ∧ ClaimsWF (t.res.map resVK)

/-- Tasks the static stager put into one group may run together on every world. -/
theorem static_taskOk (n nres : Nat) (masks : List Mask) {u t : Task} (hu : u.WF)
    (h1 : claimsConflict u.claims t.claims = false)
    (h2 : claimsConflict (u.res.map resVK) (t.res.map resVK) = false) : TaskOk n nres masks t u := by
  constructor
  · unfold Task.resVec
    rw [vecOk_comm]
    apply vecOk_of_pointwise
    intro c
    rw [resClaimOn_eq, resClaimOn_eq]
    exact static_no_conflict hu.2 h2 c
  · intro k _ _ _
    unfold Task.claimVec
    rw [vecOk_comm]
    apply vecOk_of_pointwise
    intro c
    rw [claimOn_eq, claimOn_eq]
    exact static_no_conflict hu.1 h1 c

/-- A compatible group is pairwise `TaskOk`. -/
theorem compatible_pairwise (n nres : Nat) (masks : List Mask) {g : List Task} (hc : Compatible g)
    (hwf : ∀ t ∈ g, t.WF) : g.Pairwise (fun a b => TaskOk n nres masks b a) := by
  rw [List.pairwise_iff_getElem]
  intro i j hi hj hij
  have := hc j hj
  unfold stageConflict at this
  simp only [Bool.or_eq_false_iff] at this
  obtain ⟨c1, c2⟩ := this
  rw [List.any_eq_false] at c1 c2
  have hmem : g[i] ∈ g.take j := by
    rw [List.mem_take_iff_getElem]
    exact ⟨i, by omega, rfl⟩
  have h1 := c1 g[i] hmem
  have h2 := c2 g[i] hmem
  exact static_taskOk n nres masks (hwf _ (List.getElem_mem hi)) (by simpa using h1) (by simpa using h2)

/-! ### one stage of a real schedule -/

theorem accepted_all_false (next : List Task) : accepted next (next.map (fun _ => false)) = [] := by
  induction next with
  | nil => rfl
  | cons t ts ih => simp [accepted, ih]

theorem zip_map_fst_sublist (stage : List Task) (hasRun : List Bool) :
    ((List.zip stage hasRun).map (·.1)).Sublist stage := by
  induction stage generalizing hasRun with
  | nil => simp
  | cons t ts ih =>
    cases hasRun with
    | nil => simp
    | cons b bs => simpa using (ih bs).cons_cons t

theorem running_sublist (stage : List Task) (hasRun : List Bool) :
    (((List.zip stage hasRun).filter (fun p => !p.2)).map (·.1)).Sublist stage := by
  have h1 : ((List.zip stage hasRun).filter (fun p => !p.2)).Sublist (List.zip stage hasRun) :=
    List.filter_sublist
  exact (h1.map (·.1)).trans (zip_map_fst_sublist stage hasRun)

/-- **Every phase of a stage is conflict free**: the tasks of a statically compatible stage that
have not run yet, together with the next-stage tasks `runStage` starts early, may all run at the
same time — no two of them claim the same resource or the same component of a common archetype
with one of the claims mutable. -/
theorem runStage_phase_safe {n nres : Nat} {masks : List Mask} (hm : masks.Nodup)
    (stage next : List Task) (hasRun : List Bool) (hc : Compatible stage) (hwf : ∀ t ∈ stage, t.WF) :
    ((((List.zip stage hasRun).filter (fun p => !p.2)).map (·.1)) ++
        accepted next (runStage claimTryMerge n nres masks stage hasRun next).2).Pairwise
      (fun a b => TaskOk n nres masks b a) := by
  have hrun : (((List.zip stage hasRun).filter (fun p => !p.2)).map (·.1)).Pairwise
      (fun a b => TaskOk n nres masks b a) :=
    (compatible_pairwise n nres masks hc hwf).sublist (running_sublist stage hasRun)
  unfold runStage
  simp only []
  split
  · rw [accepted_all_false, List.append_nil]; exact hrun
  · exact runStage_safe hm _ next hrun

end Brood
