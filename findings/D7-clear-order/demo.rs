//! Demonstration of D7 on the crate as it was before fix 0564c68 (place at tests/clear_order.rs,
//! `cargo test --features serde --test clear_order`): a world and its round-tripped copy are both
//! cleared and then handed different identifiers.
#![cfg(feature = "serde")]
use brood::{entity, Registry, World};
use serde::{Deserialize as _, Serialize as _};
use serde_assert::{Deserializer, Serializer};
use serde_derive::{Deserialize, Serialize};

#[derive(Clone, Debug, PartialEq, Serialize, Deserialize)]
struct A(u32);
#[derive(Clone, Debug, PartialEq, Serialize, Deserialize)]
struct B(u32);
#[derive(Clone, Debug, PartialEq, Serialize, Deserialize)]
struct C(u32);
type R = Registry!(A, B, C);

fn ids(w: &mut World<R>) -> Vec<brood::entity::Identifier> {
    (0..4).map(|i| w.insert(entity!(A(i)))).collect()
}

#[test]
fn clear_then_insert_issues_same_ids_in_copy() {
    let mut differing = 0;
    for round in 0..20 {
        let mut w = World::<R>::new();
        let _junk: Vec<Vec<u8>> = (0..round).map(|k| vec![0u8; 16 + k * 8]).collect();
        w.insert(entity!(A(1)));
        w.insert(entity!(B(2)));
        w.insert(entity!(C(3)));
        w.insert(entity!(A(4), B(5)));
        w.insert(entity!(B(6), C(7)));
        let ser = Serializer::builder().is_human_readable(round % 2 == 0).build();
        let tokens = w.serialize(&ser).unwrap();
        let mut de = Deserializer::builder().tokens(tokens).is_human_readable(round % 2 == 0).build();
        let mut copy = World::<R>::deserialize(&mut de).unwrap();
        assert!(w == copy);
        w.clear();
        copy.clear();
        let a = ids(&mut w);
        let b = ids(&mut copy);
        if a != b {
            differing += 1;
        }
    }
    assert_eq!(differing, 0, "{} of 20 round trips issued different identifiers after clear()", differing);
}
