/-
  What `clone_from` drops: exactly the values the destination owned before (its component values —
  overwritten in place or cleared — and its resources), each once.
-/
import BroodModel.Lemmas.CloneFrom

set_option linter.unusedSimpArgs false
set_option linter.unusedVariables false

namespace Brood
open Alloc Serde

/-- Occurrences of `x` in the destination tables that no source table has been written into yet. -/
def unwrittenCnt (x : Val) (st : World.CF) : Nat :=
  (st.d.archs.map (fun a => if (st.pairs.map (·.2)).contains a.handle then 0 else a.cnt x)).sum

/-- One iteration moves the overwritten table's values from "still owned" to "dropped". -/
theorem cfStep_drops {n e : Nat} {proc : List Arch} {st : World.CF} {sa : Arch} (h : CFOk n e proc st)
    (hmask : ∀ p ∈ proc, p.mask ≠ sa.mask) (x : Val) :
    (World.cloneFromStep e st sa).drops.count x + unwrittenCnt x (World.cloneFromStep e st sa) =
      st.drops.count x + unwrittenCnt x st := by
  have hwritten_mask : ∀ t, t ∈ st.pairs.map (·.2) → ∃ T, st.d.findArch t = some T ∧ T.mask ≠ sa.mask := by
    intro t ht
    obtain ⟨p, hp, rfl⟩ := List.mem_map.mp ht
    obtain ⟨j, hj⟩ := List.getElem?_of_mem hp
    have hjl : j < proc.length := by rw [← h.plen]; exact (List.getElem?_eq_some_iff.mp hj).1
    obtain ⟨t', T, h1, h2, h3, _⟩ := h.pairs j proc[j] (List.getElem?_eq_getElem hjl)
    rw [hj] at h1; cases h1
    exact ⟨T, h2, by rw [h3]; exact hmask _ (List.getElem_mem hjl)⟩
  unfold World.cloneFromStep
  cases hhit : World.cfHit st.d sa.mask with
  | some da =>
    obtain ⟨ham, hdm, hfa⟩ := cfHit_some h.foreign hhit
    simp only
    generalize hda' : ({ da with ids := sa.ids, cols := sa.cols.map (fun c => c.map (cloneVal e)) } : Arch) = da'
    have hh' : da'.handle = da.handle := by rw [← hda']
    have hda_notwritten : da.handle ∉ st.pairs.map (·.2) := by
      intro hw
      obtain ⟨T, hT, hTm⟩ := hwritten_mask _ hw
      rw [hfa] at hT; cases hT
      exact hTm hdm
    unfold unwrittenCnt
    show (st.drops ++ da.values).count x +
        ((replaceH st.d.archs da').map (fun a =>
          if ((st.pairs ++ [(sa.handle, da.handle)]).map (·.2)).contains a.handle then 0 else a.cnt x)).sum = _
    generalize hf : (fun a : Arch => if (st.pairs.map (·.2)).contains a.handle then 0 else a.cnt x) = f
    generalize hg : (fun a : Arch =>
        if ((st.pairs ++ [(sa.handle, da.handle)]).map (·.2)).contains a.handle then 0 else a.cnt x) = g
    have hg_other : ∀ b ∈ st.d.archs, b.handle ≠ da.handle → g b = f b := by
      intro b _ hb
      rw [← hg, ← hf]
      have : (b.handle == da.handle) = false := by simpa using hb
      have hc : ((st.pairs ++ [(sa.handle, da.handle)]).map (·.2)).contains b.handle =
          (st.pairs.map (·.2)).contains b.handle := by
        rw [List.map_append, List.map_cons, List.map_nil, contains_append_singleton, this, Bool.or_false]
      show (if ((st.pairs ++ [(sa.handle, da.handle)]).map (·.2)).contains b.handle then 0 else b.cnt x) =
        (if (st.pairs.map (·.2)).contains b.handle then 0 else b.cnt x)
      rw [hc]
    have hf_da : f da = da.cnt x := by
      rw [← hf]
      have : (st.pairs.map (·.2)).contains da.handle = false := by
        cases hc : (st.pairs.map (·.2)).contains da.handle with
        | false => rfl
        | true => exact absurd (by simpa using hc) hda_notwritten
      show (if (st.pairs.map (·.2)).contains da.handle then 0 else da.cnt x) = da.cnt x
      rw [this]; rfl
    have hg_da : g da = 0 := by
      rw [← hg]; simp [contains_append_singleton]
    have hg_da' : g da' = 0 := by
      rw [← hg]
      show (if ((st.pairs ++ [(sa.handle, da.handle)]).map (·.2)).contains da'.handle then 0 else da'.cnt x) = 0
      rw [hh']; simp [contains_append_singleton]
    have c1 := sum_map_change_one f g h.handles_nodup ham hg_other
    have c2 := replaceH_sum g h.handles_nodup ham hh'
    rw [List.count_append, ← Arch.cnt_eq]
    omega
  | none =>
    simp only
    have hlt : ∀ a ∈ st.d.archs, a.handle < st.d.next := fun a ha => (h.shape a ha).2.1
    unfold unwrittenCnt
    show st.drops.count x +
        ((st.d.archs ++ [World.Arch.cloneWith e st.d.next sa]).map (fun a =>
          if ((st.pairs ++ [(sa.handle, st.d.next)]).map (·.2)).contains a.handle then 0 else a.cnt x)).sum = _
    rw [List.map_append, List.sum_append]
    have hold : st.d.archs.map (fun a =>
        if ((st.pairs ++ [(sa.handle, st.d.next)]).map (·.2)).contains a.handle then 0 else a.cnt x) =
        st.d.archs.map (fun a => if (st.pairs.map (·.2)).contains a.handle then 0 else a.cnt x) := by
      apply List.map_congr_left
      intro a ha
      have hne : a.handle ≠ st.d.next := by have := hlt a ha; omega
      have : (a.handle == st.d.next) = false := by simpa using hne
      simp only [List.map_append, List.map_cons, List.map_nil, contains_append_singleton, this,
        Bool.or_false]
    rw [hold]
    simp [contains_append_singleton, World.Arch.cloneWith]

theorem cfLoop_drops {n e : Nat} (l : List Arch) (x : Val) :
    ∀ {proc : List Arch} {st : World.CF}, CFOk n e proc st → (∀ sa ∈ l, ArchShape n sa) →
      ((proc ++ l).map (·.mask)).Nodup →
      (World.cloneFromArchs e st l).drops.count x + unwrittenCnt x (World.cloneFromArchs e st l) =
        st.drops.count x + unwrittenCnt x st := by
  unfold World.cloneFromArchs
  induction l with
  | nil => intro proc st _ _ _; rfl
  | cons sa rest ih =>
    intro proc st h hs hn
    simp only [List.foldl_cons]
    have hmask : ∀ p ∈ proc, p.mask ≠ sa.mask := by
      intro p hp e'
      rw [List.map_append, List.nodup_append] at hn
      exact hn.2.2 p.mask (List.mem_map.mpr ⟨p, hp, rfl⟩) sa.mask (by simp) e'
    have h1 := cfStep_ok h (hs sa (by simp)) hmask
    have := ih h1 (fun y hy => hs y (by simp [hy])) (by simpa using hn)
    rw [this, cfStep_drops h hmask x]

theorem sum_filter_if (f : Arch → Nat) (p : Arch → Bool) (l : List Arch) :
    ((l.filter (fun a => !p a)).map f).sum = (l.map (fun a => if p a then 0 else f a)).sum := by
  induction l with
  | nil => rfl
  | cons a as ih => cases hp : p a <;> simp [List.filter_cons, hp, ih]

/-- **`clone_from` drops exactly what the destination owned** — every component value
(overwritten in place or cleared) and every resource, each once. -/
theorem cloneFrom_drops {d s fin : World} {drops : List Val} (hd : Inv d) (hs : Inv s) (hn : d.n = s.n)
    {e : Nat} (h : World.cloneFrom d s e = .ok (fin, drops)) : drops.Perm d.values := by
  apply List.perm_iff_count.mpr
  intro x
  rw [cloneFrom_eq] at h
  generalize hst : World.cloneFromArchs e ⟨d, [], []⟩ s.archs = st at h
  have hl := cfLoop_drops (n := d.n) (e := e) s.archs x (initCF_ok hd e)
    (fun sa hsa => by rw [hn]; exact archShape_of_ok (hs.archOk hsa)) (by simpa using hs.masks_nodup)
  rw [hst] at hl
  cases h1 : World.remapLookup st.pairs s.typeIds with
  | ub y => simp [h1] at h
  | ok tys =>
    simp only [h1] at h
    cases h2 : s.alloc.remap (World.mapH st.pairs) with
    | ub y => simp [h2] at h
    | ok al =>
      simp only [h2, Out.ok.injEq, Prod.mk.injEq] at h
      obtain ⟨_, rfl⟩ := h
      rw [← World.cnt_eq]
      simp only [List.count_append, sum_map_count_flatMap]
      rw [sum_filter_if (Arch.cnt x) (fun a => (st.pairs.map (·.2)).contains a.handle)]
      have h0 : unwrittenCnt x ⟨d, [], []⟩ = (d.archs.map (Arch.cnt x)).sum := by
        unfold unwrittenCnt
        simp
      have hu : unwrittenCnt x st =
          (st.d.archs.map (fun a => if (st.pairs.map (·.2)).contains a.handle then 0 else a.cnt x)).sum := rfl
      rw [h0] at hl
      simp only [List.count_nil, Nat.zero_add] at hl
      unfold World.cnt
      omega

/-! ### what a clone owns -/

theorem map_cloneArchs' {β} (w : World) (e next : Nat) (f : Arch → β) (g : β → β)
    (hf : ∀ a h', f (World.Arch.cloneWith e h' a) = g (f a)) :
    (cloneArchs w e next).map f = (w.archs.map f).map g := by
  apply List.ext_getElem?
  intro k
  rw [List.getElem?_map, List.getElem?_map, List.getElem?_map, cloneArchs_getElem?]
  cases w.archs[k]? with
  | none => rfl
  | some a => simp [hf]

/-- **A clone owns copies**: the values the clone owns are the copies (`cloneVal e`: own identity)
of the values the original owns, one for one, in the same order. -/
theorem clone_values {w w' : World} (hi : Inv w) {e next : Nat} (h : w.clone e next = .ok w') :
    w'.values = w.values.map (cloneVal e) := by
  obtain ⟨tys, al, _, hc⟩ := clone_parts hi e next
  rw [hc] at h; cases h
  unfold World.values cloneWorld
  simp only [List.map_append]
  congr 1
  rw [List.flatMap_def, List.flatMap_def, map_cloneArchs' w e next Arch.values (fun l => l.map (cloneVal e))
    (by intro a h'; simp [Arch.values, World.Arch.cloneWith, List.map_flatten])]
  rw [List.map_flatten]

/-! ### identifiers across copies -/

theorem remap_go_rel (f : Nat → Option Nat) (ss : List Slot) :
    ∀ ss', Alloc.remap.go f ss = .ok ss' → ss'.length = ss.length ∧
      ∀ (i : Nat) (s : Slot), ss[i]? = some s →
        ∃ s', ss'[i]? = some s' ∧ s'.gen = s.gen ∧ (s'.loc = none ↔ s.loc = none) := by
  induction ss with
  | nil => intro ss' h; simp [Alloc.remap.go] at h; subst h; exact ⟨rfl, by simp⟩
  | cons s ss ih =>
    intro ss' h
    simp only [Alloc.remap.go] at h
    cases hgo : Alloc.remap.go f ss with
    | ub x => simp [hgo] at h
    | ok rest =>
      simp only [hgo] at h
      obtain ⟨i1, i2⟩ := ih rest hgo
      cases hl : s.loc with
      | none =>
        simp [hl] at h; subst h
        refine ⟨by simp [i1], ?_⟩
        intro i t ht
        cases i with
        | zero => simp at ht; subst ht; exact ⟨_, rfl, rfl, by simp [hl]⟩
        | succ i => simp at ht; simpa using i2 i t ht
      | some l =>
        cases hf : f l.arch with
        | none => simp [hl, hf] at h
        | some h' =>
          simp [hl, hf] at h; subst h
          refine ⟨by simp [i1], ?_⟩
          intro i t ht
          cases i with
          | zero => simp at ht; subst ht; exact ⟨_, rfl, rfl, by simp [hl]⟩
          | succ i => simp at ht; simpa using i2 i t ht

/-- An identifier that is dead stays dead in every copy of the allocator. -/
theorem remap_dead {a a' : Alloc} {f : Nat → Option Nat} {x : Ident} (h : a.remap f = .ok a')
    (d : Dead a x) : Dead a' x := by
  unfold Alloc.remap at h
  cases hgo : Alloc.remap.go f a.slots with
  | ub y => simp [hgo] at h
  | ok ss =>
    simp [hgo] at h; subst h
    obtain ⟨s, hs, hd⟩ := d
    obtain ⟨_, hrel⟩ := remap_go_rel f a.slots ss hgo
    obtain ⟨s', hs', hg, hl⟩ := hrel x.index s hs
    refine ⟨s', hs', ?_⟩
    rcases hd with hd | ⟨hd1, hd2⟩
    · left; omega
    · right; exact ⟨by omega, hl.mpr hd2⟩

/-- Dead identifiers of the source are dead in its clone and in a `clone_from` destination. -/
theorem clone_keeps_dead {w w' : World} (hi : Inv w) {e next : Nat} (h : w.clone e next = .ok w')
    {x : Ident} (d : Dead w.alloc x) : Dead w'.alloc x := by
  rw [clone_eq] at h
  cases h1 : World.remapLookup (clonePairs w next) w.typeIds with
  | ub y => simp [h1] at h
  | ok tys =>
    simp only [h1] at h
    cases h2 : w.alloc.remap (World.mapH (clonePairs w next)) with
    | ub y => simp [h2] at h
    | ok al =>
      simp only [h2, Out.ok.injEq] at h
      subst h
      exact remap_dead h2 d

theorem cloneFrom_keeps_dead {d s fin : World} {drops : List Val} {e : Nat}
    (h : World.cloneFrom d s e = .ok (fin, drops)) {x : Ident} (hd : Dead s.alloc x) : Dead fin.alloc x := by
  rw [cloneFrom_eq] at h
  generalize World.cloneFromArchs e ⟨d, [], []⟩ s.archs = st at h
  cases h1 : World.remapLookup st.pairs s.typeIds with
  | ub y => simp [h1] at h
  | ok tys =>
    simp only [h1] at h
    cases h2 : s.alloc.remap (World.mapH st.pairs) with
    | ub y => simp [h2] at h
    | ok al =>
      simp only [h2, Out.ok.injEq, Prod.mk.injEq] at h
      obtain ⟨rfl, _⟩ := h
      exact remap_dead h2 hd

end Brood
