/-
  BroodModel.SchedSpec — the *specification* of conflict between tasks (independent of the
  verifier / merger tables): used by the theorems and, compiled, as an oracle on the real staging.
-/
import BroodModel.Sched

namespace Brood
open Static

/-- Specification of "the new claims conflict with `u`'s claims". -/
def claimsConflict (u new : List (Nat × VK)) : Bool :=
  new.any (fun p => conflictKinds p.2 (oldOf u p.1))

/-- Spec-level conflict of a new task with a stage: components or resources. -/
def stageConflict (stage : List Task) (t : Task) : Bool :=
  stage.any (fun u => claimsConflict u.claims t.claims) ||
  stage.any (fun u => claimsConflict (u.res.map resVK) (t.res.map resVK))

end Brood
