/-
  C17 — A panic in user code never leads to double drops or invalid memory.

  The full statement is FALSE on the current tree (recorded findings): a `Drop` panic inside
  `World::remove` (non-last row) and a `Clone` / `Drop` panic inside `World::clone_from` leave
  columns and the shared length inconsistent, so values are dropped a second time when the world
  is dropped.  Proved here: the mechanism of the (repaired) `clear` finding on the model (a
  concrete witness of the double drop for *every* non-empty column layout), that the length-first
  order is panic safe (leaks at worst), and for `Entry::remove` that dropping the detached
  component in the middle of the row move is not panic safe (witness) while dropping it last is.  The fault-enumeration run checks every
  (operation, callback, position) of the table below on the real crate; pairs the table calls safe
  must show no double drop, no allocator error, no crash.  PARTIAL: unwinding itself, `Vec`'s
  internal guards and rayon's panic propagation are modelled from their documentation.
-/
import BroodModel.Fault
import BroodModel.Lemmas.Ledger

namespace Brood

/-- **The `clear` finding, for every layout**: if clearing is interrupted by a `Drop` panic in
column `j`, every value of columns `0..=j` (that the shared length still covers) is dropped again
when the archetype is dropped. -/
theorem C17_clear_drop_panic_double_drop (cols : List (List Val)) (j : Nat)
    (hlen : ∀ c ∈ cols, c.length = (cols.headD []).length) :
    let (d1, st) := clearFault cols j
    ∀ v ∈ d1, v ∈ st.dropAll := by
  simp only [clearFault, RawArch.dropAll]
  intro v hv
  simp only [List.mem_flatten] at hv
  obtain ⟨c, hc, hvc⟩ := hv
  have hcm : c ∈ cols := List.mem_of_mem_take hc
  simp only [List.mem_flatMap]
  refine ⟨c, hcm, ?_⟩
  rw [← hlen c hcm, List.take_length]
  exact hvc

/-- A concrete instance: two columns of two values, panic in the first column: both of its
values are dropped by the operation and again by the world's drop. -/
def witnessCols : List (List Val) := [[⟨0, 1⟩, ⟨0, 2⟩], [⟨2, 3⟩, ⟨2, 4⟩]]

example : (clearFault witnessCols 0).1 = [⟨0, 1⟩, ⟨0, 2⟩] ∧
    (clearFault witnessCols 0).2.dropAll = [⟨0, 1⟩, ⟨0, 2⟩, ⟨2, 3⟩, ⟨2, 4⟩] ∧
    ((clearFault witnessCols 0).1 ++ (clearFault witnessCols 0).2.dropAll).Nodup = False := by
  refine ⟨by decide, by decide, ?_⟩
  simp [clearFault, witnessCols, RawArch.dropAll]

/-- **Length-first is panic safe**: with the shared length zeroed before the loop, nothing the
interrupted operation dropped is dropped again (the untouched columns leak). -/
theorem C17_clear_length_first_safe (cols : List (List Val)) (j : Nat) :
    let (_, st) := clearFaultLengthFirst cols j
    st.dropAll = [] := by
  simp [clearFaultLengthFirst, RawArch.dropAll]

/-! ### `Entry::remove`: where the detached component is dropped

`Entry::remove` pops the entity's row into a byte buffer (fixing the location of the row that is
swapped into its place), pushes the row minus the detached component into the target table, and
re-points the entity's slot.  Originally the detached component was never dropped (a leak, C04).
Repair 885588c dropped it while the row was being pushed: a panicking `Drop` then left the world
in the state `entryRemoveMidFault` below.  Repair 7197610 drops it last. -/

/-- The state a `Drop` panic in the middle of the move leaves behind: the row has left its table
(`takeRowAt`), nothing else has happened — in particular the entity's slot still names the old row. -/
def entryRemoveMidFault (w : World) (id : Ident) : Out World :=
  match w.alloc.get id with
  | none => .ok w
  | some loc =>
    match w.takeRowAt loc.arch loc.row with
    | .ok (w1, _, _) => .ok w1
    | .ub e => .ub e

/-- **Mid-move is not panic safe** (witness): the state left behind violates the invariant — a
live identifier whose location names a row that is no longer there — so later safe calls index
outside the live rows. -/
example :
    (match run (World.init 2 []) [.insert [0, 1] [⟨0, 1⟩, ⟨1, 2⟩]] with
     | .ok w =>
       (match entryRemoveMidFault w ⟨0, 0⟩ with
        | .ok w1 => (invB w, invB w1, (w1.alloc.get ⟨0, 0⟩).isSome, w1.archs.map (·.ids.length))
        | .ub _ => (false, true, false, []))
     | .ub _ => (false, true, false, [])) = (true, false, true, [0]) := by decide

/-- **Drop-last is panic safe**: when the detached component is dropped as the last step, the
state a panicking `Drop` leaves behind is the complete result of `Entry::remove`, which satisfies
the invariant and denotes the expected map — the world stays fully usable, nothing is dropped
twice (the detached value was moved out of the columns before its `Drop` ran). -/
theorem C17_entry_remove_drop_last_safe {w w' : World} {id : Ident} {c : Nat} {res : Option (List Val)}
    (hi : Inv w) (e : w.entryRemove id c = .ok (w', res)) :
    Inv w' ∧ w'.len = w.len ∧
    w'.entity id = (w.entity id).map (fun vs => vs.filter (fun v => v.ty ≠ c)) ∧
    (∀ id', id' ≠ id → w'.entity id' = w.entity id') ∧
    (∀ x, w'.cnt x + (res.getD []).count x = w.cnt x) := by
  obtain ⟨h1, h2, h3, _⟩ := entryRemove_entity hi e
  exact ⟨entryRemove_inv hi e, h3, h1, h2, fun x => entryRemove_cnt x hi e⟩

/-- Callbacks that only read (`PartialEq`, `Debug`, `Serialize`, a system body) are safe for
every operation; `Clone` is safe inside `clone`. -/
theorem C17_read_only_safe (op : String) :
    faultSafe op "PartialEq" = true ∧ faultSafe op "Debug" = true ∧
    faultSafe op "Serialize" = true ∧ faultSafe op "Body" = true ∧ faultSafe "clone" "Clone" = true := by
  simp [faultSafe]

end Brood

#print axioms Brood.C17_clear_drop_panic_double_drop
#print axioms Brood.C17_clear_length_first_safe
#print axioms Brood.C17_read_only_safe
#print axioms Brood.C17_entry_remove_drop_last_safe
