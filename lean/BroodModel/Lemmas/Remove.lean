/-
  `World::remove` preserves the invariant and never reaches an unchecked access with a violated
  precondition (C13, C05, C01 for the swap-remove path — the location fix-up of the moved row).
-/
import BroodModel.Lemmas.World
import BroodModel.Lemmas.Basic

set_option linter.unusedSimpArgs false
set_option linter.unusedVariables false

namespace Brood
open Alloc

/-- The table after row `r` has been swap-removed. -/
def removedArch (a : Arch) (r : Nat) : Arch :=
  { a with ids := swapRemove a.ids r, cols := a.cols.map (fun c => swapRemove c r) }

theorem rowVals_go_ok (cols : List (List Val)) (r n : Nat) (h : ∀ c ∈ cols, c.length = n) (hr : r < n) :
    ∃ vs, Arch.rowVals.go r cols = .ok vs ∧ vs = cols.filterMap (fun c => c[r]?) := by
  induction cols with
  | nil => exact ⟨[], rfl, rfl⟩
  | cons c cs ih =>
    have hc : c.length = n := h c (by simp)
    have hlt : r < c.length := by omega
    obtain ⟨vs, hvs, hveq⟩ := ih (fun x hx => h x (by simp [hx]))
    refine ⟨c[r] :: vs, ?_, ?_⟩
    · simp [Arch.rowVals.go, List.getElem?_eq_getElem hlt, hvs]
    · simp [List.filterMap_cons, List.getElem?_eq_getElem hlt, hveq]

/-- Under the table invariant, taking an existing row never hits an unchecked access and yields
exactly the swap-removed table, the row's values (column order) and its identifier. -/
theorem takeRow_ok {w : World} {a : Arch} (ok : ArchOk w a) {r : Nat} {id : Ident}
    (hr : a.ids[r]? = some id) :
    a.takeRow r = .ok (removedArch a r, a.cols.filterMap (fun c => c[r]?), id) := by
  have hlt : r < a.ids.length := (List.getElem?_eq_some_iff.mp hr).1
  unfold Arch.takeRow
  simp only [hr]
  have hany : (a.cols.any fun c => decide (c.length ≠ a.ids.length)) = false := by
    rw [List.any_eq_false]
    intro c hc
    simp [ok.cols_all_len c hc]
  simp only [hany, Bool.false_eq_true, if_false]
  obtain ⟨vs, hvs, hveq⟩ := rowVals_go_ok a.cols r a.ids.length ok.cols_all_len hlt
  simp [Arch.rowVals, hvs, hveq, removedArch]

/-- The allocator after removing the live identifier `id` stored at row `r` of table `h`, whose
last row holds `last`: the moved row's slot follows it, the removed slot is retired. -/
def removeAlloc (al : Alloc) (id last : Ident) (h r len : Nat) : Alloc :=
  ⟨(if r < len - 1 then al.slots.set last.index ⟨last.gen, some ⟨h, r⟩⟩ else al.slots).set id.index
      ⟨id.gen, none⟩,
   al.free ++ [id.index]⟩

/-- Facts about a live identifier and its table that `Inv` provides. -/
structure LiveAt (w : World) (id : Ident) (a : Arch) (r : Nat) : Prop where
  get : w.alloc.get id = some ⟨a.handle, r⟩
  find : w.findArch a.handle = some a
  mem : a ∈ w.archs
  row : a.ids[r]? = some id
  ok : ArchOk w a

theorem Inv.liveAt {w : World} (h : Inv w) {id : Ident} {l : Loc} (hg : w.alloc.get id = some l) :
    ∃ a, LiveAt w id a l.row ∧ a.handle = l.arch := by
  obtain ⟨a, hf, hrow⟩ := h.live_row hg
  obtain ⟨hm, hh⟩ := findArch_some hf
  refine ⟨a, ⟨?_, ?_, hm, hrow, h.archOk hm⟩, hh⟩
  · rw [hg, hh]
  · rw [hh]; exact hf

theorem getLast?_of_getElem? {α} {l : List α} {x : α} (h : l[l.length - 1]? = some x) :
    l.getLast? = some x := by
  rw [List.getLast?_eq_getElem?]; exact h

/-- **`remove` in closed form**, and in particular: it never fails (no unchecked access with a
violated precondition) on a world satisfying the invariant. -/
theorem remove_eq {w : World} (h : Inv w) {id : Ident} {a : Arch} {r : Nat} (la : LiveAt w id a r)
    {last : Ident} (hlast : a.ids[a.ids.length - 1]? = some last) :
    w.remove id =
      .ok ({ (w.setArch (removedArch a r)) with
              alloc := removeAlloc w.alloc id last a.handle r a.ids.length, len := w.len - 1 },
           a.cols.filterMap (fun c => c[r]?)) := by
  have hlt : r < a.ids.length := (List.getElem?_eq_some_iff.mp la.row).1
  obtain ⟨sid, hsid, hsg, hsl⟩ := get_eq_some.mp la.get
  have hslot_id : w.alloc.slots[id.index]? = some ⟨id.gen, some ⟨a.handle, r⟩⟩ := la.ok.rows r id la.row
  have hslot_last : w.alloc.slots[last.index]? = some ⟨last.gen, some ⟨a.handle, a.ids.length - 1⟩⟩ :=
    la.ok.rows _ last hlast
  unfold World.remove
  simp only [la.get]
  unfold World.takeRowAt World.getArch
  simp only [la.find, Out.ofOption_some, takeRow_ok la.ok la.row]
  by_cases hmid : r < a.ids.length - 1
  · -- a later row moves into the hole: its slot is updated
    have hne : last.index ≠ id.index := by
      intro e
      rw [e, hslot_id] at hslot_last
      simp at hslot_last
      omega
    simp only [hmid, if_true, getLast?_of_getElem? hlast]
    simp only [Alloc.setRow, hslot_last]
    have h2 : (w.alloc.slots.set last.index ⟨last.gen, some ⟨a.handle, r⟩⟩)[id.index]? =
        some ⟨id.gen, some ⟨a.handle, r⟩⟩ := by
      rw [List.getElem?_set_ne hne]; exact hslot_id
    simp [Alloc.release, h2, removeAlloc, hmid, World.setArch]
  · simp only [hmid, if_false]
    simp [Alloc.release, hslot_id, removeAlloc, hmid, World.setArch]

/-! ### The state after `remove` satisfies the invariant -/

section
variable {w : World} {id last : Ident} {a : Arch} {r : Nat}

/-- Slots of the allocator after the removal. -/
theorem removeAlloc_slots (hid : id.index < w.alloc.slots.length) (i : Nat) :
    (removeAlloc w.alloc id last a.handle r a.ids.length).slots[i]? =
      if i = id.index then some ⟨id.gen, none⟩
      else if r < a.ids.length - 1 ∧ i = last.index ∧ last.index < w.alloc.slots.length then
        some ⟨last.gen, some ⟨a.handle, r⟩⟩
      else w.alloc.slots[i]? := by
  unfold removeAlloc
  simp only
  by_cases hi : i = id.index
  · subst hi
    by_cases hmid : r < a.ids.length - 1 <;> simp [hmid, hid]
  · simp only [hi, if_false]
    rw [List.getElem?_set_ne (Ne.symm hi)]
    by_cases hmid : r < a.ids.length - 1
    · simp only [hmid, if_true, true_and]
      by_cases hil : i = last.index
      · subst hil
        by_cases hlt : last.index < w.alloc.slots.length
        · simp [hlt]
        · simp [hlt, List.getElem?_eq_none (Nat.le_of_not_lt hlt)]
      · simp [hil, List.getElem?_set_ne (Ne.symm hil)]
    · simp [hmid]

theorem removedArch_ids (hr : r < a.ids.length) (hlast : a.ids[a.ids.length - 1]? = some last) (q : Nat) :
    (removedArch a r).ids[q]? =
      if q + 1 < a.ids.length then (if q = r then some last else a.ids[q]?) else none := by
  simp only [removedArch, swapRemove_getElem? a.ids r q hr, hlast]

end

/-- **`remove` preserves the invariant** (C13), including the case where the last row is moved
into the hole and its slot must follow it. -/
theorem remove_inv {w w' : World} {id : Ident} {drops : List Val} (h : Inv w)
    (e : w.remove id = .ok (w', drops)) : Inv w' := by
  cases hg : w.alloc.get id with
  | none =>
    -- stale or unknown identifier: nothing changes
    simp [World.remove, hg] at e
    obtain ⟨rfl, _⟩ := e
    exact h
  | some loc =>
    obtain ⟨a, la, hh⟩ := h.liveAt hg
    have hr : loc.row < a.ids.length := (List.getElem?_eq_some_iff.mp la.row).1
    have hne0 : a.ids.length - 1 < a.ids.length := by omega
    obtain ⟨last, hlast⟩ : ∃ last, a.ids[a.ids.length - 1]? = some last :=
      ⟨a.ids[a.ids.length - 1], List.getElem?_eq_getElem hne0⟩
    rw [remove_eq h la hlast] at e
    simp only [Out.ok.injEq, Prod.mk.injEq] at e
    obtain ⟨rfl, _⟩ := e
    generalize loc.row = r at *
    have hslot_id : w.alloc.slots[id.index]? = some ⟨id.gen, some ⟨a.handle, r⟩⟩ := la.ok.rows r id la.row
    have hslot_last : w.alloc.slots[last.index]? = some ⟨last.gen, some ⟨a.handle, a.ids.length - 1⟩⟩ :=
      la.ok.rows _ last hlast
    have hid_lt : id.index < w.alloc.slots.length := (List.getElem?_eq_some_iff.mp hslot_id).1
    have hlast_lt : last.index < w.alloc.slots.length := (List.getElem?_eq_some_iff.mp hslot_last).1
    have hid_notfree : id.index ∉ w.alloc.free := by
      have := (slotOk_iff.mp (h.slots _ hid_lt)) _ hslot_id
      obtain ⟨_, _, _, hnf⟩ := this.2 _ rfl
      exact hnf
    have hlast_notfree : last.index ∉ w.alloc.free := by
      have := (slotOk_iff.mp (h.slots _ hlast_lt)) _ hslot_last
      obtain ⟨_, _, _, hnf⟩ := this.2 _ rfl
      exact hnf
    have hslots' := fun i => removeAlloc_slots (w := w) (id := id) (last := last) (a := a) (r := r) hid_lt i
    have hids' := fun q => removedArch_ids (a := a) (r := r) (last := last) hr hlast q
    -- an identifier stored anywhere but at row `r` of `a` has a slot index other than `id`'s;
    -- stored anywhere but at the last row of `a`, other than `last`'s
    have hfind' : ∀ hd, hd ≠ a.handle → (w.setArch (removedArch a r)).findArch hd = w.findArch hd :=
      fun hd hne => findArch_setArch_ne w (removedArch a r) (by simpa [removedArch] using hne)
    have hfind_same : (w.setArch (removedArch a r)).findArch a.handle = some (removedArch a r) := by
      have : (removedArch a r).handle = a.handle := rfl
      rw [← this]
      exact findArch_setArch_same w (removedArch a r) (by rw [this]; exact la.find)
    -- the new world
    refine
      { free_nodup := ?_, free_inactive := ?_, slots := ?_, archs := ?_, masks_nodup := ?_,
        handles_nodup := ?_, typeIds := ?_, typeIds_nodup := ?_, foreign := ?_, len := ?_ }
    · -- free_nodup
      show (w.alloc.free ++ [id.index]).Nodup
      rw [List.nodup_append]
      refine ⟨h.free_nodup, by simp, ?_⟩
      intro x hx y hy hxy
      simp at hy; subst hy; subst hxy
      exact hid_notfree hx
    · -- free_inactive
      intro i hi
      show ((removeAlloc w.alloc id last a.handle r a.ids.length).slots[i]?).map (·.loc) = some none
      have hi' : i ∈ w.alloc.free ∨ i = id.index := by
        have : i ∈ w.alloc.free ++ [id.index] := hi
        simpa using this
      rw [hslots' i]
      rcases hi' with hif | rfl
      · have h1 : i ≠ id.index := fun e => hid_notfree (e ▸ hif)
        have h2 : i ≠ last.index := fun e => hlast_notfree (e ▸ hif)
        simp only [h1, h2, if_false, false_and, and_false]
        exact h.free_inactive i hif
      · simp
    · -- slots
      intro i hi
      have hlen : (removeAlloc w.alloc id last a.handle r a.ids.length).slots.length = w.alloc.slots.length := by
        simp [removeAlloc]; split <;> simp
      have hi0 : i < w.alloc.slots.length := by
        have : i < (removeAlloc w.alloc id last a.handle r a.ids.length).slots.length := hi
        omega
      apply slotOk_iff.mpr
      intro s hs
      have hs' : (removeAlloc w.alloc id last a.handle r a.ids.length).slots[i]? = some s := hs
      rw [hslots' i] at hs'
      show (s.loc = none → i ∈ w.alloc.free ++ [id.index]) ∧
        (∀ l, s.loc = some l → ∃ b, (w.setArch (removedArch a r)).findArch l.arch = some b ∧
          b.ids[l.row]? = some ⟨i, s.gen⟩ ∧ i ∉ w.alloc.free ++ [id.index])
      by_cases hi1 : i = id.index
      · simp only [hi1, if_true, Option.some.injEq] at hs'
        subst hs'
        exact ⟨fun _ => by simp [hi1], fun l hl => by simp at hl⟩
      · simp only [hi1, if_false] at hs'
        by_cases hi2 : r < a.ids.length - 1 ∧ i = last.index ∧ last.index < w.alloc.slots.length
        · simp only [hi2, and_self, if_true, Option.some.injEq] at hs'
          subst hs'
          obtain ⟨hmid, hil, _⟩ := hi2
          refine ⟨fun hn => by simp at hn, ?_⟩
          intro l hl
          simp only [Option.some.injEq] at hl
          subst hl
          refine ⟨(removedArch a r), hfind_same, ?_, ?_⟩
          · rw [hids' r]
            have : r + 1 < a.ids.length := by omega
            simp [this, hil]
          · simp [hi1]
            rw [hil]; exact hlast_notfree
        · simp only [hi2, if_false] at hs'
          obtain ⟨hnone, hsome⟩ := (slotOk_iff.mp (h.slots i hi0)) s hs'
          refine ⟨fun hn => by simp [hnone hn], ?_⟩
          intro l hl
          obtain ⟨b, hb, hbrow, hbfree⟩ := hsome l hl
          have hnotfree : i ∉ w.alloc.free ++ [id.index] := by simp [hbfree, hi1]
          by_cases hla : l.arch = a.handle
          · -- a row of the same table: neither the removed row nor (when moved) the last one
            have hba : b = a := by
              rw [hla, la.find] at hb; exact (Option.some.inj hb).symm
            rw [hba] at hbrow
            have hrow_ne_r : l.row ≠ r := by
              intro e2
              rw [e2, la.row] at hbrow
              simp only [Option.some.injEq] at hbrow
              exact hi1 (by rw [hbrow])
            have hrow_lt : l.row < a.ids.length := (List.getElem?_eq_some_iff.mp hbrow).1
            have hrow_ne_last : l.row + 1 < a.ids.length := by
              by_cases hmid : r < a.ids.length - 1
              · -- then `i ≠ last.index`
                have hil : i ≠ last.index := fun e2 => hi2 ⟨hmid, e2, hlast_lt⟩
                apply Classical.byContradiction
                intro hcon
                have : l.row = a.ids.length - 1 := by omega
                rw [this, hlast] at hbrow
                simp only [Option.some.injEq] at hbrow
                exact hil (by rw [hbrow])
              · omega
            refine ⟨removedArch a r, by rw [hla]; exact hfind_same, ?_, hnotfree⟩
            rw [hids' l.row]
            simp [hrow_ne_last, hrow_ne_r, hbrow]
          · exact ⟨b, by rw [hfind' _ hla]; exact hb, hbrow, hnotfree⟩
    · -- archs
      intro x hx
      apply archOk_iff.mpr
      rcases mem_replaceH (hx : x ∈ replaceH w.archs (removedArch a r)) with rfl | ⟨hxm, hxne⟩
      · -- the modified table
        refine
          { mask_len := la.ok.mask_len, handle_lt := la.ok.handle_lt,
            cols_len := by simp [removedArch, la.ok.cols_len],
            cols_all_len := ?_, cols_ok := ?_, rows := ?_, foreign := la.ok.foreign }
        · intro c hc
          simp only [removedArch, List.mem_map] at hc
          obtain ⟨c0, hc0, rfl⟩ := hc
          have h0 := la.ok.cols_all_len c0 hc0
          show (swapRemove c0 r).length = (swapRemove a.ids r).length
          rw [swapRemove_length c0 r (by omega), swapRemove_length a.ids r hr, h0]
        · intro k c ty hc hty
          simp only [removedArch, List.getElem?_map] at hc
          cases hk : a.cols[k]? with
          | none => simp [hk] at hc
          | some c0 =>
            simp only [hk, Option.map_some, Option.some.injEq] at hc
            subst hc
            obtain ⟨h1, h2⟩ := la.ok.cols_ok k c0 ty hk hty
            refine ⟨?_, fun v hv => h2 v (mem_swapRemove hv)⟩
            show (swapRemove c0 r).length = (swapRemove a.ids r).length
            rw [swapRemove_length c0 r (by omega), swapRemove_length a.ids r hr, h1]
        · intro q x hq
          show (removeAlloc w.alloc id last a.handle r a.ids.length).slots[x.index]? = some ⟨x.gen, some ⟨a.handle, q⟩⟩
          rw [hids' q] at hq
          by_cases hq1 : q + 1 < a.ids.length
          · simp only [hq1, if_true] at hq
            by_cases hqr : q = r
            · subst hqr
              simp only [if_true, Option.some.injEq] at hq
              subst hq
              have hmid : q < a.ids.length - 1 := by omega
              have hne : last.index ≠ id.index := by
                intro e2
                rw [e2, hslot_id] at hslot_last
                simp at hslot_last; omega
              rw [hslots' last.index]
              simp [hne, hmid, hlast_lt]
            · simp only [hqr, if_false] at hq
              have hsx := la.ok.rows q x hq
              have hne1 : x.index ≠ id.index := by
                intro e2
                rw [e2, hslot_id] at hsx
                simp at hsx; exact hqr hsx.2.symm
              have hne2 : ¬ (r < a.ids.length - 1 ∧ x.index = last.index ∧ last.index < w.alloc.slots.length) := by
                rintro ⟨_, e2, _⟩
                rw [e2, hslot_last] at hsx
                simp at hsx; omega
              rw [hslots' x.index]
              simp only [hne1, hne2, if_false]
              exact hsx
          · simp [hq1] at hq
      · -- an untouched table: its rows' slots are untouched
        have okx := h.archOk hxm
        have hxne' : x.handle ≠ a.handle := hxne
        refine
          { mask_len := okx.mask_len, handle_lt := okx.handle_lt, cols_len := okx.cols_len,
            cols_all_len := okx.cols_all_len, cols_ok := okx.cols_ok, rows := ?_, foreign := okx.foreign }
        intro q y hq
        show (removeAlloc w.alloc id last a.handle r a.ids.length).slots[y.index]? = some ⟨y.gen, some ⟨x.handle, q⟩⟩
        have hsy := okx.rows q y hq
        have hne1 : y.index ≠ id.index := by
          intro e2
          rw [e2, hslot_id] at hsy
          simp at hsy; exact hxne' hsy.2.1.symm
        have hne2 : ¬ (r < a.ids.length - 1 ∧ y.index = last.index ∧ last.index < w.alloc.slots.length) := by
          rintro ⟨_, e2, _⟩
          rw [e2, hslot_last] at hsy
          simp at hsy; exact hxne' hsy.2.1.symm
        rw [hslots' y.index]
        simp only [hne1, hne2, if_false]
        exact hsy
    · -- masks_nodup
      show ((replaceH w.archs (removedArch a r)).map (·.mask)).Nodup
      rw [replaceH_masks (a' := removedArch a r) h.handles_nodup la.mem rfl rfl]
      exact h.masks_nodup
    · show ((replaceH w.archs (removedArch a r)).map (·.handle)).Nodup
      rw [replaceH_handles]
      exact h.handles_nodup
    · -- typeIds
      intro p hp
      have := h.typeIds p hp
      unfold lookupOk at this ⊢
      show (match (w.setArch (removedArch a r)).findArch p.2 with | some b => b.mask == p.1 | none => false) = true
      by_cases hp2 : p.2 = a.handle
      · rw [hp2, hfind_same]
        rw [hp2, la.find] at this
        exact this
      · rw [hfind' _ hp2]; exact this
    · exact h.typeIds_nodup
    · intro p hp
      have := h.foreign p hp
      unfold lookupOk at this ⊢
      show (match (w.setArch (removedArch a r)).findArch p.2 with | some b => b.mask == p.1 | none => false) = true
      by_cases hp2 : p.2 = a.handle
      · rw [hp2, hfind_same]
        rw [hp2, la.find] at this
        exact this
      · rw [hfind' _ hp2]; exact this
    · -- len
      show w.len - 1 = ((replaceH w.archs (removedArch a r)).map (·.ids.length)).sum
      have hsum := replaceH_len_sum (a' := removedArch a r) h.handles_nodup la.mem rfl
      have hl' : (removedArch a r).ids.length = a.ids.length - 1 := swapRemove_length a.ids r hr
      rw [h.len]
      omega

end Brood

/-- `remove` never reaches an unchecked access with a violated precondition. -/
theorem Brood.remove_no_ub {w : Brood.World} (h : Brood.Inv w) (id : Brood.Ident) :
    ∃ w' drops, w.remove id = .ok (w', drops) := by
  cases hg : w.alloc.get id with
  | none => exact ⟨w, [], by simp [Brood.World.remove, hg]⟩
  | some loc =>
    obtain ⟨a, la, hh⟩ := h.liveAt hg
    have hr : loc.row < a.ids.length := (List.getElem?_eq_some_iff.mp la.row).1
    have hne0 : a.ids.length - 1 < a.ids.length := by omega
    exact ⟨_, _, Brood.remove_eq h la (List.getElem?_eq_getElem hne0)⟩
