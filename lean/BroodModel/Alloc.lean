/-
  BroodModel.Alloc — `entity::Allocator` (src/entity/allocator/{mod,slot,location,locations}.rs).

  slots : Vec<Slot{generation, location : Option<Location>}>,  free : VecDeque<usize>.
-/
import BroodModel.Basic

namespace Brood

/-- `Location`: the archetype (by handle = address of its identifier buffer) and the row. -/
structure Loc where
  arch : Nat
  row : Nat
deriving DecidableEq, Repr, Inhabited

structure Slot where
  gen : Nat
  loc : Option Loc
deriving DecidableEq, Repr, Inhabited

/-- `free`: head of the list = front of the `VecDeque` = next index to be reused. -/
structure Alloc where
  slots : List Slot
  free : List Nat
deriving DecidableEq, Repr, Inhabited

namespace Alloc

def empty : Alloc := ⟨[], []⟩

/-- `Allocator::allocate`: reuse the front of the free queue (generation + 1) or append a slot. -/
def allocate (a : Alloc) (loc : Loc) : Out (Alloc × Ident) :=
  match a.free with
  | i :: rest =>
    match a.slots[i]? with
    | some s => .ok (⟨a.slots.set i ⟨s.gen + 1, some loc⟩, rest⟩, ⟨i, s.gen + 1⟩)
    | none => .ub .oobSlot
  | [] => .ok (⟨a.slots ++ [⟨0, some loc⟩], []⟩, ⟨a.slots.length, 0⟩)

/-- `Allocator::allocate_batch` for rows `start, start+1, …, start+n-1` of archetype `h`:
reuse free indices from the front while there are rows left, then append fresh slots; identifiers
are returned in row order.  This equals `n` successive `allocate`s (a free queue, once empty,
stays empty), which is how it is written here. -/
def allocateBatch (a : Alloc) (h start : Nat) : Nat → Out (Alloc × List Ident)
  | 0 => .ok (a, [])
  | n + 1 =>
    match a.allocate ⟨h, start⟩ with
    | .ub w => .ub w
    | .ok (a1, id) =>
      match allocateBatch a1 h (start + 1) n with
      | .ub w => .ub w
      | .ok (a2, ids) => .ok (a2, id :: ids)

/-- `Allocator::get`: the location of a live identifier. -/
def get (a : Alloc) (id : Ident) : Option Loc :=
  match a.slots[id.index]? with
  | some s => if s.gen = id.gen then s.loc else none
  | none => none

/-- `Allocator::is_active`. -/
def isActive (a : Alloc) (id : Ident) : Bool :=
  match a.slots[id.index]? with
  | some s => s.loc.isSome && s.gen == id.gen
  | none => false

/-- `Allocator::free_unchecked`. -/
def release (a : Alloc) (id : Ident) : Out Alloc :=
  match a.slots[id.index]? with
  | some s => .ok ⟨a.slots.set id.index ⟨s.gen, none⟩, a.free ++ [id.index]⟩
  | none => .ub .oobSlot

/-- `Allocator::modify_location_unchecked`. -/
def setLoc (a : Alloc) (id : Ident) (loc : Loc) : Out Alloc :=
  match a.slots[id.index]? with
  | some s => .ok ⟨a.slots.set id.index ⟨s.gen, some loc⟩, a.free⟩
  | none => .ub .oobSlot

/-- `Allocator::modify_location_index_unchecked`. -/
def setRow (a : Alloc) (id : Ident) (row : Nat) : Out Alloc :=
  match a.slots[id.index]? with
  | some s =>
    match s.loc with
    | some l => .ok ⟨a.slots.set id.index ⟨s.gen, some ⟨l.arch, row⟩⟩, a.free⟩
    | none => .ub .inactiveSlot
  | none => .ub .oobSlot

/-- `Allocator::clone` / `clone_from`: every location's archetype handle goes through the
old→new map (`unwrap_unchecked`: a missing key is UB). -/
def remap (a : Alloc) (f : Nat → Option Nat) : Out Alloc :=
  let rec go : List Slot → Out (List Slot)
    | [] => .ok []
    | s :: ss =>
      match go ss with
      | .ub w => .ub w
      | .ok ss' =>
        match s.loc with
        | none => .ok (⟨s.gen, none⟩ :: ss')
        | some l =>
          match f l.arch with
          | some h' => .ok (⟨s.gen, some ⟨h', l.row⟩⟩ :: ss')
          | none => .ub .mapMiss
  match go a.slots with
  | .ok ss => .ok ⟨ss, a.free⟩
  | .ub w => .ub w

end Alloc
end Brood
