#![cfg(feature = "serde")]
//! A failing row-wise deserialization must not leak the components of the row it was reading.
use brood::{entity, Registry, World};
use serde::{de, Deserialize, Deserializer as _, Serialize};
use serde_assert::{Deserializer, Serializer, Token};
use std::sync::atomic::{AtomicIsize, Ordering};

static LIVE_A: AtomicIsize = AtomicIsize::new(0);

#[derive(Debug, PartialEq)]
struct A(u32);
impl Serialize for A {
    fn serialize<S: serde::Serializer>(&self, s: S) -> Result<S::Ok, S::Error> { s.serialize_u32(self.0) }
}
impl<'de> Deserialize<'de> for A {
    fn deserialize<D: serde::Deserializer<'de>>(d: D) -> Result<Self, D::Error> {
        let v = u32::deserialize(d)?;
        LIVE_A.fetch_add(1, Ordering::SeqCst);
        Ok(A(v))
    }
}
impl Drop for A {
    fn drop(&mut self) { LIVE_A.fetch_sub(1, Ordering::SeqCst); }
}
#[derive(Debug, PartialEq)]
struct B(u32);
impl Serialize for B {
    fn serialize<S: serde::Serializer>(&self, s: S) -> Result<S::Ok, S::Error> { s.serialize_u32(self.0) }
}
impl<'de> Deserialize<'de> for B {
    fn deserialize<D: serde::Deserializer<'de>>(d: D) -> Result<Self, D::Error> {
        let v = u32::deserialize(d)?;
        if v == 666 { return Err(de::Error::custom("rejected")); }
        Ok(B(v))
    }
}
type R = Registry!(A, B);

fn run(human_readable: bool) -> isize {
    let before = LIVE_A.load(Ordering::SeqCst);
    {
        let mut w = World::<R>::new();
        w.insert(entity!(A(1), B(2)));
        w.insert(entity!(A(3), B(666)));
        // the A values of the source world were not created by Deserialize: count only the copies
        let ser = Serializer::builder().is_human_readable(human_readable).build();
        let tokens = w.serialize(&ser).unwrap();
        let created_before = LIVE_A.load(Ordering::SeqCst);
        let mut de = Deserializer::builder().tokens(tokens).is_human_readable(human_readable).build();
        let r = World::<R>::deserialize(&mut de);
        assert!(r.is_err());
        drop(r);
        let leaked = LIVE_A.load(Ordering::SeqCst) - created_before;
        std::mem::forget(w); // the source's values are not the subject
        let _ = before;
        return leaked;
    }
}

#[test]
fn failing_row_wise_deserialization_leaks_nothing() {
    assert_eq!(run(true), 0, "row-wise: components of the failing row were never dropped");
}

#[test]
fn failing_column_wise_deserialization_leaks_nothing() {
    assert_eq!(run(false), 0, "column-wise: components were never dropped");
}
