//! Types shared by the schedule shards and the harness.
use crate::gen_reg4::{Reg, Res, W};
use brood::entity;

pub struct SysState {
    pub id: u64,
    pub acc: u64,
    pub runs: u32,
    pub targets: Vec<entity::Identifier>,
}
impl SysState {
    pub fn new(id: u64, targets: &[entity::Identifier]) -> Self {
        SysState { id, acc: 0, runs: 0, targets: targets.to_vec() }
    }
}

#[derive(Clone, Copy, PartialEq)]
pub enum SchedMode {
    Sequential,
    Schedule,
}

pub struct SchedOut {
    pub states: Vec<(u64, u32)>,
    pub stages: String,
}

pub type SchedFn = fn(&mut W, SchedMode, &[entity::Identifier]) -> SchedOut;

pub fn stages_name<'a, S, I>(_s: &S) -> &'static str
where
    S: brood::system::schedule::Schedule<'a, Reg, Res, I>,
{
    core::any::type_name::<S::Stages>()
}
