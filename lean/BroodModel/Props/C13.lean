/-
  C13 — Identifier index and storage stay in one-to-one correspondence.

  `Inv` (BroodModel/Inv.lean) is the statement: free queue = inactive slots, without duplicates;
  every active slot points at an existing table row that stores exactly that identifier; every
  stored identifier's slot points back at its row; `len` = number of rows; one table per component
  set, with sound lookup tables.  The compiled twin `invB` is evaluated on a structural dump of the
  real world after every operation of every generated history (correspondence check).

  FULL STATEMENT: every history of public operations from an empty world ends in a state
  satisfying `Inv`.  PROVED (`C13_inv_partial`): every history over the single-world operations —
  insert (any shape, any written order, slot reuse or fresh slot, table found by entity type / by
  identifier bytes / created), extend (any batch size including 0, free queue longer / equal /
  shorter than the batch), remove (any row: the swap-remove location fix-up; stale identifiers),
  clear (for *every* order in which the table iterator may visit the archetypes), Entry::add
  (overwrite and shape change), Entry::remove, writes through `&mut` views, reserve,
  shrink_to_fit — and the FULL STATEMENT (`C13_inv_reachable`): every world reachable by
  additionally cloning reachable worlds, `clone_from` between reachable worlds, and deserializing
  *arbitrary* token streams.
-/
import BroodModel.Lemmas.Reach

namespace Brood

/-- The empty world satisfies the invariant. -/
theorem C13_inv_init (n : Nat) (res : List Val) : Inv (World.init n res) := inv_init n res

/-- **One step preserves the invariant.** -/
theorem C13_step {w w' : World} (hi : Inv w) {op : Op} (e : step w op = .ok w') : Inv w' :=
  step_inv hi e

/-- **After every operation of every history** (over the operations proved so far): `Inv`. -/
theorem C13_inv_partial (n : Nat) (res : List Val) (ops : List Op) {w : World}
    (e : run (World.init n res) ops = .ok w) : Inv w :=
  run_inv (inv_init n res) ops e

/-- **Every reachable world satisfies the invariant** — every public operation, any history over
any number of worlds (`Reachable`, Lemmas/Reach.lean: single-world operations, `clone`,
`clone_from`, deserialization of arbitrary token streams). -/
theorem C13_inv_reachable {w : World} (h : Reachable w) : Inv w := reachable_inv h

/-- Identifiers accepted = identifiers stored: a live identifier resolves to a row holding it… -/
theorem C13_accepted_is_stored {w : World} (hi : Inv w) {id : Ident} {l : Loc}
    (hg : w.alloc.get id = some l) : ∃ a, w.findArch l.arch = some a ∧ a.ids[l.row]? = some id :=
  hi.live_row hg

/-- …and every stored identifier is accepted and resolves to its own row. -/
theorem C13_stored_is_accepted {w : World} (hi : Inv w) {a : Arch} (ha : a ∈ w.archs) {r : Nat}
    {id : Ident} (hr : a.ids[r]? = some id) : w.alloc.get id = some ⟨a.handle, r⟩ :=
  hi.row_live ha hr

/-- Each stored entity is reachable through exactly one identifier / row. -/
theorem C13_one_row_per_identifier {w : World} (hi : Inv w) {a b : Arch} (ha : a ∈ w.archs)
    (hb : b ∈ w.archs) {r q : Nat} {id : Ident} (hr : a.ids[r]? = some id) (hq : b.ids[q]? = some id) :
    a.handle = b.handle ∧ r = q := hi.rows_injective ha hb hr hq

/-- `len()` is the number of stored entities. -/
theorem C13_len {w : World} (hi : Inv w) : w.len = (w.archs.map (·.ids.length)).sum := hi.len

/-- Released identifiers are available for reuse, none lost or duplicated: the free queue lists
exactly the inactive slots, once each. -/
theorem C13_free_exact {w : World} (hi : Inv w) :
    w.alloc.free.Nodup ∧ ∀ i s, w.alloc.slots[i]? = some s → (s.loc = none ↔ i ∈ w.alloc.free) := by
  refine ⟨hi.free_nodup, fun i s hs => ⟨fun hl => hi.ainv.listed i s hs hl, fun hm => ?_⟩⟩
  obtain ⟨t, ht, htl⟩ := hi.ainv.inactive i hm
  rw [hs] at ht; cases ht; exact htl

/-- Entities with the same component set live in a single table. -/
theorem C13_one_table_per_set {w : World} (hi : Inv w) : (w.archs.map (·.mask)).Nodup := hi.masks_nodup

/-- Non-vacuity: a history through reuse of a freed slot and a swap-remove of a middle row. -/
def exampleWorld : Out World :=
  run (World.init 3 [])
    [.insert [0, 2] [⟨0, 1⟩, ⟨2, 2⟩], .insert [2, 0] [⟨2, 3⟩, ⟨0, 4⟩], .insert [0, 2] [⟨0, 5⟩, ⟨2, 6⟩],
     .remove ⟨0, 0⟩, .insert [1] [⟨1, 7⟩], .remove ⟨9, 9⟩, .reserve [0, 1, 2],
     .extend [2] [[⟨2, 8⟩], [⟨2, 9⟩]], .add ⟨1, 0⟩ 1 ⟨1, 10⟩, .del ⟨2, 0⟩ 0, .write ⟨0, 1⟩ 1 ⟨1, 11⟩,
     .shrink, .extend [0] []]

example : (match exampleWorld with | .ok w => invB w && w.len == 5 && w.alloc.slots.length == 5 | .ub _ => false) = true := by
  decide

end Brood

#print axioms Brood.C13_inv_init
#print axioms Brood.C13_step
#print axioms Brood.C13_inv_partial
#print axioms Brood.C13_inv_reachable
#print axioms Brood.C13_accepted_is_stored
#print axioms Brood.C13_stored_is_accepted
#print axioms Brood.C13_one_row_per_identifier
#print axioms Brood.C13_len
#print axioms Brood.C13_free_exact
#print axioms Brood.C13_one_table_per_set
