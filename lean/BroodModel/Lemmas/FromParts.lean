/-
  `Allocator::from_serialized_parts` (`Serde.fromParts`): when it accepts, every slot was filled
  exactly once — by a freed identifier or by a stored row — so the allocator it returns is
  consistent with the tables it was built from.
-/
import BroodModel.Serde
import BroodModel.Lemmas.World

set_option linter.unusedSimpArgs false
set_option linter.unusedVariables false

namespace Brood
namespace Serde

theorem fillSlot_ok {slots slots' : List (Option Slot)} {i : Nat} {s : Slot} {what : String}
    (h : fillSlot slots i s what = .ok slots') : slots[i]? = some none ∧ slots' = slots.set i (some s) := by
  unfold fillSlot at h
  cases hs : slots[i]? with
  | none => simp [hs] at h
  | some o =>
    cases o with
    | some _ => simp [hs] at h
    | none => simp [hs] at h; exact ⟨rfl, h.symm⟩

/-- Filling slots from a list: every listed index was empty and is now filled with the listed
slot, the indices are pairwise distinct, nothing else changed. -/
theorem fill_spec {α} (ix : α → Nat) (mk : α → Slot) (what : String) (xs : List α) :
    ∀ {init out : List (Option Slot)},
      xs.foldlM (fun sl x => fillSlot sl (ix x) (mk x) what) init = .ok out →
      out.length = init.length ∧ (xs.map ix).Nodup ∧
      (∀ x ∈ xs, init[ix x]? = some none ∧ out[ix x]? = some (some (mk x))) ∧
      (∀ j, j ∉ xs.map ix → out[j]? = init[j]?) := by
  induction xs with
  | nil =>
    intro init out h
    simp [List.foldlM, pure, Except.pure] at h
    subst h
    exact ⟨rfl, List.nodup_nil, by simp, by simp⟩
  | cons x xs ih =>
    intro init out h
    rw [List.foldlM_cons] at h
    cases h1 : fillSlot init (ix x) (mk x) what with
    | error e => rw [h1] at h; simp [bind, Except.bind] at h
    | ok mid =>
      rw [h1] at h
      simp only [bind, Except.bind] at h
      obtain ⟨e1, e2⟩ := fillSlot_ok h1
      obtain ⟨i1, i2, i3, i4⟩ := ih h
      have hlt : ix x < init.length := (List.getElem?_eq_some_iff.mp e1).1
      have hmid_len : mid.length = init.length := by rw [e2]; simp
      have hx_notin : ix x ∉ xs.map ix := by
        intro hm
        obtain ⟨y, hy, hyx⟩ := List.mem_map.mp hm
        have := (i3 y hy).1
        rw [hyx, e2, List.getElem?_set_self hlt] at this
        cases this
      refine ⟨by rw [i1, hmid_len], List.nodup_cons.mpr ⟨hx_notin, i2⟩, ?_, ?_⟩
      · intro y hy
        rcases List.mem_cons.mp hy with rfl | hy'
        · refine ⟨e1, ?_⟩
          rw [i4 _ hx_notin, e2, List.getElem?_set_self hlt]
        · obtain ⟨j1, j2⟩ := i3 y hy'
          refine ⟨?_, j2⟩
          have hne : ix x ≠ ix y := fun e => hx_notin (List.mem_map.mpr ⟨y, hy', e.symm⟩)
          rw [e2, List.getElem?_set_ne hne] at j1
          exact j1
      · intro j hj
        simp only [List.map_cons, List.mem_cons, not_or] at hj
        rw [i4 j hj.2, e2, List.getElem?_set_ne (Ne.symm hj.1)]

/-- The rows `from_serialized_parts` walks: every stored identifier with its location. -/
def rowsOf (archs : List Arch) : List (Ident × Loc) :=
  archs.flatMap (fun a => (List.zip a.ids (List.range a.ids.length)).map (fun p => (p.1, ⟨a.handle, p.2⟩)))

theorem mem_rowsOf {archs : List Arch} {id : Ident} {l : Loc} :
    (id, l) ∈ rowsOf archs ↔ ∃ a ∈ archs, l.arch = a.handle ∧ a.ids[l.row]? = some id := by
  unfold rowsOf
  simp only [List.mem_flatMap, List.mem_map, Prod.mk.injEq]
  constructor
  · rintro ⟨a, ha, ⟨p, hp, rfl, rfl⟩⟩
    refine ⟨a, ha, rfl, ?_⟩
    obtain ⟨i, r⟩ := p
    have := List.of_mem_zip hp
    obtain ⟨k, hk⟩ := List.getElem?_of_mem hp
    rw [List.getElem?_zip_eq_some] at hk
    obtain ⟨h1, h2⟩ := hk
    have hk' : k < a.ids.length := (List.getElem?_eq_some_iff.mp h1).1
    rw [List.getElem?_range hk'] at h2
    cases h2
    exact h1
  · rintro ⟨a, ha, h1, h2⟩
    refine ⟨a, ha, (id, l.row), ?_, rfl, ?_⟩
    · have hlt : l.row < a.ids.length := (List.getElem?_eq_some_iff.mp h2).1
      apply List.mem_iff_getElem?.mpr
      refine ⟨l.row, ?_⟩
      rw [List.getElem?_zip_eq_some]
      exact ⟨h2, List.getElem?_range hlt⟩
    · cases l; simp_all

/-- What an accepted `from_serialized_parts` guarantees. -/
structure PartsOk (free : List Ident) (archs : List Arch) (al : Alloc) : Prop where
  free_eq : al.free = free.map (·.index)
  free_nodup : (free.map (·.index)).Nodup
  free_slot : ∀ f ∈ free, al.slots[f.index]? = some ⟨f.gen, none⟩
  row_slot : ∀ id l, (id, l) ∈ rowsOf archs → al.slots[id.index]? = some ⟨id.gen, some l⟩
  row_not_free : ∀ id l, (id, l) ∈ rowsOf archs → id.index ∉ free.map (·.index)
  cover : ∀ (i : Nat) (s : Slot), al.slots[i]? = some s →
    (∃ f ∈ free, f.index = i ∧ s = ⟨f.gen, none⟩) ∨
    (∃ id l, (id, l) ∈ rowsOf archs ∧ id.index = i ∧ s = ⟨id.gen, some l⟩)

theorem filterMap_id_getElem? {l : List (Option Slot)} (h : l.any Option.isNone = false) (i : Nat) :
    (l.filterMap id)[i]? = (l[i]?).bind id := by
  induction l generalizing i with
  | nil => simp
  | cons x xs ih =>
    simp only [List.any_cons, Bool.or_eq_false_iff] at h
    cases x with
    | none => simp at h
    | some s =>
      simp only [List.filterMap_cons, id]
      cases i with
      | zero => simp
      | succ i => simp only [List.getElem?_cons_succ]; exact ih h.2 i

theorem fromParts_spec {length : Nat} {free : List Ident} {archs : List Arch} {al : Alloc}
    (h : fromParts length free archs = .ok al) : PartsOk free archs al := by
  unfold fromParts at h
  simp only [] at h
  cases h1 : free.foldlM (fun sl (id : Ident) => fillSlot sl id.index ⟨id.gen, none⟩ "freed-entity-index")
      (List.replicate length none) with
  | error e => rw [h1] at h; simp at h
  | ok sl1 =>
    rw [h1] at h
    simp only at h
    cases h2 : (rowsOf archs).foldlM
        (fun sl (p : Ident × Loc) => fillSlot sl p.1.index ⟨p.1.gen, some p.2⟩ "archetype-entity-index") sl1 with
    | error e =>
      have : (archs.flatMap (fun a => (List.zip a.ids (List.range a.ids.length)).map
          (fun p => (p.1, (⟨a.handle, p.2⟩ : Loc))))) = rowsOf archs := rfl
      rw [this, h2] at h; simp at h
    | ok sl2 =>
      have : (archs.flatMap (fun a => (List.zip a.ids (List.range a.ids.length)).map
          (fun p => (p.1, (⟨a.handle, p.2⟩ : Loc))))) = rowsOf archs := rfl
      rw [this, h2] at h
      simp only at h
      by_cases hany : sl2.any Option.isNone = true
      · simp [hany] at h
      · have hany' : sl2.any Option.isNone = false := by
          cases hb : sl2.any Option.isNone with
          | false => rfl
          | true => exact absurd hb hany
        simp only [hany', Bool.false_eq_true, if_false, Except.ok.injEq] at h
        subst h
        obtain ⟨a1, a2, a3, a4⟩ := fill_spec (fun id : Ident => id.index) (fun id => ⟨id.gen, none⟩) _ free h1
        obtain ⟨b1, b2, b3, b4⟩ := fill_spec (fun p : Ident × Loc => p.1.index)
          (fun p => ⟨p.1.gen, some p.2⟩) _ (rowsOf archs) h2
        have hget := filterMap_id_getElem? hany'
        have hrow_nf : ∀ id l, (id, l) ∈ rowsOf archs → id.index ∉ free.map (·.index) := by
          intro id l hm hf
          obtain ⟨f, hf1, hf2⟩ := List.mem_map.mp hf
          have := (b3 (id, l) hm).1
          simp only at this
          rw [← hf2, (a3 f hf1).2] at this
          cases this
        refine ⟨rfl, a2, ?_, ?_, hrow_nf, ?_⟩
        · intro f hf
          show (sl2.filterMap id)[f.index]? = _
          rw [hget]
          have hnot : f.index ∉ (rowsOf archs).map (fun p => p.1.index) := by
            intro hm
            obtain ⟨p, hp, hpe⟩ := List.mem_map.mp hm
            exact hrow_nf p.1 p.2 hp (by rw [hpe]; exact List.mem_map.mpr ⟨f, hf, rfl⟩)
          rw [b4 _ hnot, (a3 f hf).2]; rfl
        · intro id l hm
          show (sl2.filterMap _root_.id)[id.index]? = _
          rw [hget, (b3 (id, l) hm).2]; rfl
        · intro i s hs
          have hs' : (sl2.filterMap id)[i]? = some s := hs
          rw [hget] at hs'
          by_cases hr : i ∈ (rowsOf archs).map (fun p => p.1.index)
          · right
            obtain ⟨p, hp, hpe⟩ := List.mem_map.mp hr
            have := (b3 p hp).2
            rw [hpe] at this
            rw [this] at hs'
            have hs'' : (⟨p.1.gen, some p.2⟩ : Slot) = s := by simpa using hs'
            exact ⟨p.1, p.2, hp, hpe, hs''.symm⟩
          · rw [b4 i hr] at hs'
            by_cases hf : i ∈ free.map (·.index)
            · left
              obtain ⟨f, hf1, hf2⟩ := List.mem_map.mp hf
              have := (a3 f hf1).2
              rw [hf2] at this
              rw [this] at hs'
              have hs'' : (⟨f.gen, none⟩ : Slot) = s := by simpa using hs'
              exact ⟨f, hf1, hf2, hs''.symm⟩
            · rw [a4 i hf] at hs'
              by_cases hil : i < length
              · simp [List.getElem?_replicate, hil] at hs'
              · simp [List.getElem?_replicate, hil] at hs'

end Serde
end Brood
