import BroodModel.Inv
namespace Brood
theorem C16_init_inv (n : Nat) (res : List Val) : Inv (World.init n res) := by
  constructor <;> simp [World.init, Alloc.empty]
end Brood
#print axioms Brood.C16_init_inv
