#!/bin/sh
# Build the framework from files on disk only (offline).
set -e
cd "$(dirname "$0")"
export CARGO_NET_OFFLINE=true
mkdir -p work evidence replays
python3 translator/translate.py --repo /repo --out lean/BroodModel/Generated --report work/extraction_report.json
python3 harness/gen/gen_family.py Reg4 szlh shz harness/hcore/src/gen_reg4.rs
python3 harness/gen/gen_family.py Reg10 szlhshzslh shz harness/hcore/src/gen_reg10.rs
python3 harness/gen/gen_family.py Reg8 szlhshzs shz harness/hcore/src/gen_reg8.rs
python3 harness/gen/gen_queries.py harness/hcore/src/gen_queries.rs
python3 harness/gen/gen_sched.py harness/src/gen_sched.rs
python3 harness/gen/gen_ctor.py harness/src/gen_ctor.rs
[ -f harness/Cargo.lock ] || cp /repo/Cargo.lock harness/Cargo.lock
(cd harness && cargo build --offline)
(cd lean && lake build BroodModel driver)
echo setup done
