/-
  Printer / parser inversion: what `Serde.serialize` prints, `Serde.deserialize` reads back.
-/
import BroodModel.Lemmas.DeInv
import BroodModel.Lemmas.Bits

set_option linter.unusedSimpArgs false
set_option linter.unusedVariables false

namespace Brood
namespace Serde
open Alloc

/-! ### combinators -/

theorem hasElem_cons {endTok t : Tok} (h : t ≠ endTok) (ts : List Tok) :
    hasElem endTok (t :: ts) = .ok (true, t :: ts) := by
  unfold hasElem
  have : (t == endTok) = false := by simpa using h
  simp [this]

theorem hasElem_end (endTok : Tok) (ts : List Tok) : hasElem endTok (endTok :: ts) = .ok (false, ts) := by
  simp [hasElem]

theorem elem_cons {α} {endTok t : Tok} (h : t ≠ endTok) (p : P α) (ts : List Tok) :
    elem endTok p (t :: ts) = p (t :: ts) := by
  unfold elem
  rw [hasElem_cons h]

theorem assertEnded_end (endTok : Tok) (ts : List Tok) :
    assertEnded false endTok (endTok :: ts) = .ok ((), ts) := by
  simp [assertEnded]

/-- Reading a sequence of printed elements back, one `elem` at a time. -/
theorem elems_flatMap {α β} {endTok : Tok} {p : P α} (ser : β → List Tok) (f : β → α)
    (xs : List β) (hp : ∀ x ∈ xs, ∀ rest, p (ser x ++ rest) = .ok (f x, rest))
    (hne : ∀ x ∈ xs, ∃ t ts, ser x = t :: ts ∧ t ≠ endTok) (rest : List Tok) :
    elems endTok p xs.length (xs.flatMap ser ++ rest) = .ok (xs.map f, rest) := by
  induction xs with
  | nil => rfl
  | cons x xs ih =>
    obtain ⟨t, ts, hs, hte⟩ := hne x (by simp)
    simp only [List.length_cons, elems, List.flatMap_cons, List.append_assoc]
    have : elem endTok p (ser x ++ (xs.flatMap ser ++ rest)) = .ok (f x, xs.flatMap ser ++ rest) := by
      rw [hs, List.cons_append, elem_cons hte, ← List.cons_append, ← hs]
      exact hp x (by simp) _
    rw [this]
    simp only [ih (fun y hy => hp y (by simp [hy])) (fun y hy => hne y (by simp [hy])), List.map_cons]

theorem tupleOf_flatMap {α β} {p : P α} (ser : β → List Tok) (f : β → α)
    (xs : List β) (hp : ∀ x ∈ xs, ∀ rest, p (ser x ++ rest) = .ok (f x, rest))
    (hne : ∀ x ∈ xs, ∃ t ts, ser x = t :: ts ∧ t ≠ Tok.tupE) (rest : List Tok) :
    tupleOf xs.length p (Tok.tupB xs.length :: (xs.flatMap ser ++ Tok.tupE :: rest)) =
      .ok (xs.map f, rest) := by
  unfold tupleOf
  simp only [expectTup, if_true]
  rw [elems_flatMap ser f xs hp hne]
  simp [assertEnded_end]

/-! ### leaves -/

theorem deU64_cons (n : Nat) (ts : List Tok) : deU64 (Tok.u64 n :: ts) = .ok (n, ts) := rfl
theorem deU8_cons (n : Nat) (ts : List Tok) : deU8 (Tok.u8 n :: ts) = .ok (n, ts) := rfl

theorem deFields_ident (fuel i g : Nat) (rest : List Tok) :
    deFields "index" "generation" (fuel + 3) none none
      (Tok.field "index" :: Tok.u64 i :: Tok.field "generation" :: Tok.u64 g :: Tok.structE :: rest) =
      .ok ((i, g), rest) := by
  simp [deFields, deU64]

theorem deIdent_ser (i : Ident) (rest : List Tok) : deIdent (serIdent i ++ rest) = .ok (i, rest) := by
  unfold deIdent serIdent
  simp only [List.cons_append, List.nil_append, ne_eq, not_true_eq_false, if_false, List.length_cons]
  rw [show rest.length + 1 + 1 + 1 + 1 + 1 + 1 = (rest.length + 3) + 3 by omega, deFields_ident]

theorem serIdent_head (i : Ident) : ∃ t ts, serIdent i = t :: ts ∧ t ≠ Tok.tupE ∧ t ≠ Tok.seqE :=
  ⟨_, _, rfl, by simp, by simp⟩

/-- What a value looks like after a round trip with epoch `e`. -/
def retag (k : Kinds) (e : Nat) (v : Val) : Val :=
  if k.kindOf v.ty == 'z' then ⟨v.ty, 0⟩ else ⟨v.ty, v.id % epochBase + e * epochBase⟩

theorem deVal_ser (k : Kinds) (e : Nat) (v : Val) (rest : List Tok) :
    deVal k e v.ty (serVal v ++ rest) = .ok (retag k e v, rest) := by
  simp [deVal, serVal, deU64, retag]

/-! ### identifier bytes -/

theorem flatMap_singleton_map {α} (l : List α) (f : α → Tok) : l.flatMap (fun b => [f b]) = l.map f := by
  induction l with
  | nil => rfl
  | cons x xs ih => simp [ih]

theorem deMask_ser (m : Mask) (rest : List Tok) : deMask m.length (serMask m ++ rest) = .ok (m, rest) := by
  have hb := tupleOf_flatMap (p := deU8) (fun b : Nat => [Tok.u8 b]) id (Mask.pack m)
    (fun x _ r => by simp [deU8]) (fun x _ => ⟨_, _, rfl, by simp⟩) rest
  rw [flatMap_singleton_map, pack_length] at hb
  simp only [List.map_id] at hb
  have hs : serMask m ++ rest =
      Tok.tupB ((m.length + 7) / 8) :: ((Mask.pack m).map Tok.u8 ++ Tok.tupE :: rest) := by
    simp [serMask, pack_length]
  unfold deMask
  rw [hs, hb]
  simp only
  by_cases hn : m.length % 8 = 0
  · simp [hn, unpack_pack]
  · have hn0 : m.length ≠ 0 := by intro e; rw [e] at hn; simp at hn
    have := pack_padding m hn
    simp only [List.getD] at this
    simp [hn, hn0, this, unpack_pack]

/-! ### rows, columns, tables -/

/-- A table after a round trip with epoch `e` and handle `h`. -/
def retagArch (k : Kinds) (e h : Nat) (a : Arch) : Arch :=
  ⟨h, a.mask, a.ids, a.cols.map (fun c => c.map (retag k e))⟩

def serCell (r : Nat) (c : List Val) : List Tok :=
  match c[r]? with
  | some v => serVal v
  | none => []

theorem deRow_go_ser (k : Kinds) (e r : Nat) :
    ∀ (comps : List Nat) (cols : List (List Val)) (rest : List Tok), cols.length = comps.length →
      (∀ (j : Nat) (c : List Val) (ty : Nat), cols[j]? = some c → comps[j]? = some ty →
        ∃ v, c[r]? = some v ∧ v.ty = ty) →
      deRow.go k e comps (cols.flatMap (serCell r) ++ rest) =
        .ok ((cols.filterMap (fun c => c[r]?)).map (retag k e), rest) := by
  intro comps
  induction comps with
  | nil =>
    intro cols rest hl _
    have : cols = [] := List.length_eq_zero_iff.mp hl
    subst this; rfl
  | cons ty tys ih =>
    intro cols rest hl hc
    cases cols with
    | nil => simp at hl
    | cons c cs =>
      obtain ⟨v, hv, hvt⟩ := hc 0 c ty rfl rfl
      have hrest := ih cs rest (by simpa using hl)
        (fun j c' ty' h1 h2 => hc (j + 1) c' ty' (by simpa using h1) (by simpa using h2))
      simp only [deRow.go, List.flatMap_cons, serCell, hv, List.append_assoc, List.filterMap_cons,
        List.map_cons]
      have h1 : elem Tok.tupE (deVal k e ty) (serVal v ++ (cs.flatMap (serCell r) ++ rest)) =
          .ok (retag k e v, cs.flatMap (serCell r) ++ rest) := by
        rw [show serVal v = [Tok.u64 v.id] from rfl, List.singleton_append, elem_cons (by simp)]
        rw [← hvt]
        exact deVal_ser k e v _
      have hfm : cs.flatMap (fun c => match c[r]? with | some v => serVal v | none => []) =
          cs.flatMap (serCell r) := rfl
      rw [h1]
      simp only [hrest]

theorem serRow_eq (a : Arch) (r : Nat) {id : Ident} (hid : a.ids[r]? = some id) (rest : List Tok) :
    serRow a r ++ rest =
      Tok.tupB (a.cols.length + 1) :: (serIdent id ++ (a.cols.flatMap (serCell r) ++ Tok.tupE :: rest)) := by
  simp [serRow, hid, serCell]
  rfl

theorem deRow_ser {w : World} {a : Arch} (ok : ArchOk w a) (k : Kinds) (e : Nat) {r : Nat} {id : Ident}
    (hid : a.ids[r]? = some id) (rest : List Tok) :
    deRow k e a.mask.comps (serRow a r ++ rest) = .ok ((id, (a.row r).map (retag k e)), rest) := by
  have hr : r < a.ids.length := (List.getElem?_eq_some_iff.mp hid).1
  have hlen : a.cols.length = a.mask.comps.length := by rw [comps_length]; exact ok.cols_len
  rw [serRow_eq a r hid]
  unfold deRow
  simp only [expectTup, hlen, if_true]
  obtain ⟨t, ts, hs, hne, _⟩ := serIdent_head id
  have h1 : elem Tok.tupE deIdent (serIdent id ++ (a.cols.flatMap (serCell r) ++ Tok.tupE :: rest)) =
      .ok (id, a.cols.flatMap (serCell r) ++ Tok.tupE :: rest) := by
    rw [hs, List.cons_append, elem_cons hne, ← List.cons_append, ← hs]
    exact deIdent_ser id _
  rw [h1]
  simp only
  have hgo := deRow_go_ser k e r a.mask.comps a.cols (Tok.tupE :: rest) hlen (by
    intro j c ty hj hty
    obtain ⟨cl, ct⟩ := ok.cols_ok j c ty hj hty
    have hrc : r < c.length := by rw [cl]; exact hr
    exact ⟨c[r], List.getElem?_eq_getElem hrc, ct _ (List.getElem_mem hrc)⟩)
  rw [hgo]
  simp [assertEnded_end, Arch.row]

theorem serRow_head (a : Arch) (r : Nat) : ∃ t ts, serRow a r = t :: ts ∧ t ≠ Tok.tupE :=
  ⟨_, _, rfl, by simp⟩

theorem transpose_rows (g : Val → Val) (cols : List (List Val)) (len : Nat)
    (hl : ∀ c ∈ cols, c.length = len) :
    transpose cols.length ((List.range len).map (fun r => (cols.filterMap (fun c => c[r]?)).map g)) =
      cols.map (fun c => c.map g) := by
  unfold transpose
  apply List.ext_getElem?
  intro j
  rw [List.getElem?_map, List.getElem?_map]
  by_cases hj : j < cols.length
  · rw [List.getElem?_range hj, List.getElem?_eq_getElem hj]
    simp only [Option.map_some, Option.some.injEq]
    have hcl : (cols[j]).length = len := hl _ (List.getElem_mem hj)
    apply List.ext_getElem?
    intro r
    rw [List.getElem?_map]
    -- rows.filterMap (·[j]?) at r
    have hrow : ∀ r, r < len →
        ((cols.filterMap (fun c => c[r]?)).map g)[j]? = some (g ((cols[j]).getD r default)) := by
      intro r hr
      have hsome : ∀ c ∈ cols, c[r]? = some (c.getD r default) := by
        intro c hc
        have : r < c.length := by rw [hl c hc]; exact hr
        simp [List.getD, List.getElem?_eq_getElem this]
      rw [filterMap_eq_map hsome, List.map_map, List.getElem?_map, List.getElem?_eq_getElem hj]
      rfl
    have hall : ((List.range len).map (fun r => (cols.filterMap (fun c => c[r]?)).map g)).filterMap
        (fun row => row[j]?) = (List.range len).map (fun r => g ((cols[j]).getD r default)) := by
      rw [List.filterMap_map]
      apply filterMap_eq_map
      intro r hr
      have hrl : r < len := List.mem_range.mp hr
      simp only [Function.comp]
      rw [hrow r hrl]
    rw [hall, List.getElem?_map]
    by_cases hr : r < len
    · have : r < (cols[j]).length := by rw [hcl]; exact hr
      rw [List.getElem?_range hr, List.getElem?_eq_getElem this]
      simp [List.getD, List.getElem?_eq_getElem this]
    · have : ¬ r < (cols[j]).length := by rw [hcl]; exact hr
      simp [List.getElem?_eq_none, hr, this]
  · simp [List.getElem?_eq_none, hj]

theorem deArchBodyRows_ser {w : World} {a : Arch} (ok : ArchOk w a) (k : Kinds) (e h : Nat)
    (rest : List Tok) :
    deArchBodyRows k e h a.mask a.ids.length
      (Tok.tupB a.ids.length :: ((List.range a.ids.length).flatMap (serRow a) ++ Tok.tupE :: rest)) =
      .ok (retagArch k e h a, rest) := by
  unfold deArchBodyRows
  have ht := tupleOf_flatMap (p := deRow k e a.mask.comps) (serRow a)
    (fun r => (a.ids.getD r default, (a.row r).map (retag k e))) (List.range a.ids.length)
    (by
      intro r hr rest'
      have hrl : r < a.ids.length := List.mem_range.mp hr
      have hid : a.ids[r]? = some (a.ids.getD r default) := by
        simp [List.getD, List.getElem?_eq_getElem hrl]
      exact deRow_ser ok k e hid rest')
    (fun r _ => serRow_head a r) rest
  rw [List.length_range] at ht
  rw [ht]
  simp only [Except.ok.injEq, Prod.mk.injEq, and_true]
  unfold retagArch
  congr 1
  · -- identifiers
    rw [List.map_map]
    apply List.ext_getElem?
    intro r
    rw [List.getElem?_map]
    by_cases hr : r < a.ids.length
    · simp [List.getElem?_range hr, List.getElem?_eq_getElem hr, List.getD]
    · simp [List.getElem?_eq_none, hr]
  · -- columns
    rw [List.map_map]
    have hcl : a.mask.comps.length = a.cols.length := by rw [comps_length]; exact ok.cols_len.symm
    rw [hcl]
    exact transpose_rows (retag k e) a.cols a.ids.length ok.cols_all_len

def serCol (c : List Val) : List Tok := [Tok.tupB c.length] ++ c.flatMap serVal ++ [Tok.tupE]

theorem deCols_ser (k : Kinds) (e length : Nat) :
    ∀ (comps : List Nat) (cols : List (List Val)) (rest : List Tok), cols.length = comps.length →
      (∀ (j : Nat) (c : List Val) (ty : Nat), cols[j]? = some c → comps[j]? = some ty →
        c.length = length ∧ ∀ v ∈ c, v.ty = ty) →
      deCols k e length comps (cols.flatMap serCol ++ rest) =
        .ok (cols.map (fun c => c.map (retag k e)), rest) := by
  intro comps
  induction comps with
  | nil =>
    intro cols rest hl _
    have : cols = [] := List.length_eq_zero_iff.mp hl
    subst this; rfl
  | cons ty tys ih =>
    intro cols rest hl hc
    cases cols with
    | nil => simp at hl
    | cons c cs =>
      obtain ⟨cl, ct⟩ := hc 0 c ty rfl rfl
      subst cl
      have hrest := ih cs rest (by simpa using hl)
        (fun j c' ty' h1 h2 => hc (j + 1) c' ty' (by simpa using h1) (by simpa using h2))
      simp only [deCols, List.flatMap_cons, List.append_assoc, List.map_cons]
      have hs : serCol c ++ (cs.flatMap serCol ++ rest) =
          Tok.tupB c.length :: (c.flatMap serVal ++ Tok.tupE :: (cs.flatMap serCol ++ rest)) := by
        simp [serCol]
      rw [hs, elem_cons (by simp)]
      have ht := tupleOf_flatMap (p := deVal k e ty) serVal (retag k e) c
        (fun v hv r => by rw [← ct v hv]; exact deVal_ser k e v r)
        (fun v _ => ⟨_, _, rfl, by simp⟩) (cs.flatMap serCol ++ rest)
      rw [ht]
      simp only [hrest]

theorem deArchBodyCols_ser {w : World} {a : Arch} (ok : ArchOk w a) (k : Kinds) (e h : Nat)
    (rest : List Tok) :
    deArchBodyCols k e h a.mask a.ids.length
      (Tok.tupB (a.cols.length + 1) :: (Tok.tupB a.ids.length :: (a.ids.flatMap serIdent ++ Tok.tupE ::
        (a.cols.flatMap serCol ++ Tok.tupE :: rest)))) = .ok (retagArch k e h a, rest) := by
  have hlen : a.cols.length = a.mask.comps.length := by rw [comps_length]; exact ok.cols_len
  unfold deArchBodyCols
  simp only [expectTup, hlen, if_true]
  rw [elem_cons (by simp)]
  have ht := tupleOf_flatMap (p := deIdent) serIdent id a.ids
    (fun i _ r => deIdent_ser i r)
    (fun i _ => by obtain ⟨t, ts, h1, h2, _⟩ := serIdent_head i; exact ⟨t, ts, h1, h2⟩)
    (a.cols.flatMap serCol ++ Tok.tupE :: rest)
  rw [ht]
  simp only [List.map_id]
  rw [deCols_ser k e a.ids.length a.mask.comps a.cols (Tok.tupE :: rest) hlen
    (fun j c ty hj hty => ok.cols_ok j c ty hj hty)]
  simp [assertEnded_end, retagArch]

theorem serArch_eq (hr : Bool) (a : Arch) (rest : List Tok) :
    serArch hr a ++ rest =
      Tok.newtype "Archetype" :: Tok.tupB 3 :: (serMask a.mask ++ (Tok.u64 a.ids.length ::
        ((if hr then
            Tok.tupB a.ids.length :: ((List.range a.ids.length).flatMap (serRow a) ++ Tok.tupE :: (Tok.tupE :: rest))
          else
            Tok.tupB (a.cols.length + 1) :: (Tok.tupB a.ids.length :: (a.ids.flatMap serIdent ++ Tok.tupE ::
              (a.cols.flatMap serCol ++ Tok.tupE :: (Tok.tupE :: rest)))))))) := by
  have hsc : (fun c : List Val => Tok.tupB c.length :: (c.flatMap serVal ++ [Tok.tupE])) = serCol := by
    funext c; simp [serCol]
  cases hr
  · simp [serArch]
    rw [hsc]
  · simp [serArch]

theorem serMask_head (m : Mask) : ∃ t ts, serMask m = t :: ts ∧ t ≠ Tok.tupE := ⟨_, _, rfl, by simp⟩

theorem deArch_ser {w : World} {a : Arch} (ok : ArchOk w a) (k : Kinds) (hr : Bool) (e h : Nat)
    (rest : List Tok) :
    deArch k hr w.n e h (serArch hr a ++ rest) = .ok (retagArch k e h a, rest) := by
  rw [serArch_eq]
  unfold deArch
  simp only [ne_eq, not_true_eq_false, if_false, expectTup, if_true]
  obtain ⟨t, ts, hs, hne⟩ := serMask_head a.mask
  have h1 : ∀ tail, elem Tok.tupE (deMask w.n) (serMask a.mask ++ tail) = .ok (a.mask, tail) := by
    intro tail
    rw [hs, List.cons_append, elem_cons hne, ← List.cons_append, ← hs, ← ok.mask_len]
    exact deMask_ser a.mask tail
  rw [h1]
  simp only
  rw [elem_cons (by simp), deU64_cons]
  simp only
  cases hr with
  | true =>
    simp only [if_true]
    rw [elem_cons (by simp), deArchBodyRows_ser ok]
    simp [assertEnded_end]
  | false =>
    simp only [Bool.false_eq_true, if_false]
    rw [elem_cons (by simp), deArchBodyCols_ser ok]
    simp [assertEnded_end]

theorem serArch_head (hr : Bool) (a : Arch) : ∃ t ts, serArch hr a = t :: ts ∧ t ≠ Tok.seqE :=
  ⟨_, _, rfl, by simp⟩

/-- The tables of a round trip: same masks, identifiers and (re-tagged) columns, handles
`next, next+1, …`. -/
def retagArchs (k : Kinds) (e : Nat) : Nat → List Arch → List Arch
  | _, [] => []
  | h, a :: as => retagArch k e h a :: retagArchs k e (h + 1) as

theorem deArchs_ser {w : World} (k : Kinds) (hr : Bool) (e : Nat) :
    ∀ (l : List Arch) (fuel h : Nat) (acc : List Arch) (rest : List Tok),
      (∀ a ∈ l, ArchOk w a) → l.length < fuel →
      ((acc.map (·.mask)) ++ (l.map (·.mask))).Nodup →
      deArchs k hr w.n e fuel h acc (l.flatMap (serArch hr) ++ Tok.seqE :: rest) =
        .ok (acc ++ retagArchs k e h l, rest) := by
  intro l
  induction l with
  | nil =>
    intro fuel h acc rest _ hf _
    cases fuel with
    | zero => simp at hf
    | succ fuel => simp [deArchs, hasElem_end, retagArchs]
  | cons a as ih =>
    intro fuel h acc rest hok hf hnd
    cases fuel with
    | zero => simp at hf
    | succ fuel =>
      obtain ⟨t, ts, hs, hne⟩ := serArch_head hr a
      simp only [deArchs, List.flatMap_cons, List.append_assoc]
      have h1 : hasElem Tok.seqE (serArch hr a ++ (as.flatMap (serArch hr) ++ Tok.seqE :: rest)) =
          .ok (true, serArch hr a ++ (as.flatMap (serArch hr) ++ Tok.seqE :: rest)) := by
        rw [hs, List.cons_append, hasElem_cons hne]
      rw [h1]
      simp only
      rw [deArch_ser (hok a (by simp))]
      simp only
      have hdup : (acc.any fun b => b.mask == (retagArch k e h a).mask) = false := by
        rw [List.any_eq_false]
        intro b hb
        simp only [retagArch, beq_iff_eq]
        intro hbm
        rw [List.nodup_append] at hnd
        exact hnd.2.2 b.mask (List.mem_map.mpr ⟨b, hb, rfl⟩) a.mask (by simp) hbm
      simp only [hdup, Bool.false_eq_true, if_false]
      have := ih fuel (h + 1) (acc ++ [retagArch k e h a]) rest (fun b hb => hok b (by simp [hb]))
        (by simp at hf; omega)
        (by
          simp only [List.map_append, List.map_cons, List.map_nil, retagArch, List.append_assoc,
            List.singleton_append]
          simpa using hnd)
      rw [this]
      simp [retagArchs]

/-! ### allocator and resources -/

theorem deFree_ser (ids : List Ident) :
    ∀ (fuel : Nat) (acc : List Ident) (rest : List Tok), ids.length < fuel →
      deFree fuel acc (ids.flatMap serIdent ++ Tok.seqE :: rest) = .ok (acc ++ ids, rest) := by
  induction ids with
  | nil =>
    intro fuel acc rest hf
    cases fuel with
    | zero => simp at hf
    | succ fuel => simp [deFree, hasElem_end]
  | cons i is ih =>
    intro fuel acc rest hf
    cases fuel with
    | zero => simp at hf
    | succ fuel =>
      obtain ⟨t, ts, hs, _, hne⟩ := serIdent_head i
      simp only [deFree, List.flatMap_cons, List.append_assoc]
      have h1 : hasElem Tok.seqE (serIdent i ++ (is.flatMap serIdent ++ Tok.seqE :: rest)) =
          .ok (true, serIdent i ++ (is.flatMap serIdent ++ Tok.seqE :: rest)) := by
        rw [hs, List.cons_append, hasElem_cons hne]
      rw [h1]
      simp only
      rw [deIdent_ser]
      simp only
      rw [ih fuel (acc ++ [i]) rest (by simp at hf; omega)]
      simp

/-- The freed identifiers as serialized: index with the slot's current generation. -/
def freeIds (al : Alloc) : List Ident := al.free.map (fun i => ⟨i, (al.slots.getD i default).gen⟩)

theorem serAlloc_eq (al : Alloc) (rest : List Tok) :
    serAlloc al ++ rest =
      Tok.structB "Allocator" 2 :: Tok.field "length" :: Tok.u64 al.slots.length :: Tok.field "free" ::
        Tok.seqB (some al.free.length) :: ((freeIds al).flatMap serIdent ++ Tok.seqE :: Tok.structE :: rest) := by
  simp [serAlloc, freeIds, List.flatMap_map]

theorem deAllocParts_ser (al : Alloc) (rest : List Tok) :
    deAllocParts (serAlloc al ++ rest) = .ok ((al.slots.length, freeIds al), rest) := by
  rw [serAlloc_eq]
  unfold deAllocParts
  simp only [ne_eq, not_true_eq_false, if_false, List.length_cons]
  generalize hfl : ((freeIds al).flatMap serIdent ++ Tok.seqE :: Tok.structE :: rest) = tail
  rw [show tail.length + 1 + 1 + 1 + 1 + 1 = (tail.length + 2) + 1 + 1 + 1 by omega]
  simp only [deAllocFields, deU64]
  have hname1 : ("length" == "length") = true := by decide
  have hname2 : ("free" == "length") = false := by decide
  have hname3 : ("free" == "free") = true := by decide
  simp only [hname1, hname2, hname3, if_true, Bool.false_eq_true, if_false, Option.isSome_none,
    Option.isSome_some]
  unfold deFreeSeq
  simp only
  rw [← hfl]
  have hlen : (freeIds al).length < ((freeIds al).flatMap serIdent ++ Tok.seqE :: Tok.structE :: rest).length + 1 := by
    have : (freeIds al).length ≤ ((freeIds al).flatMap serIdent).length := by
      induction (freeIds al) with
      | nil => simp
      | cons i is ih =>
        rw [List.flatMap_cons, List.length_append, List.length_cons]
        have : (serIdent i).length = 6 := rfl
        omega
    simp only [List.length_append, List.length_cons]
    omega
  rw [deFree_ser (freeIds al) _ [] (Tok.structE :: rest) hlen]
  simp

theorem deResGo_ser (k : Kinds) (e : Nat) :
    ∀ (ps : List Nat) (vals : List Val) (rest : List Tok), vals.map (·.ty) = ps.map resTy →
      deResGo k e ps (vals.flatMap serVal ++ rest) = .ok (vals.map (retag k e), rest) := by
  intro ps
  induction ps with
  | nil =>
    intro vals rest h
    have : vals = [] := by
      cases vals with
      | nil => rfl
      | cons _ _ => simp at h
    subst this; rfl
  | cons p ps ih =>
    intro vals rest h
    cases vals with
    | nil => simp at h
    | cons v vs =>
      simp only [List.map_cons, List.cons.injEq] at h
      simp only [deResGo, List.flatMap_cons, List.append_assoc, List.map_cons]
      rw [show serVal v = [Tok.u64 v.id] from rfl, List.singleton_append, elem_cons (by simp)]
      rw [← h.1]
      have := deVal_ser k e v (vs.flatMap serVal ++ rest)
      rw [show serVal v = [Tok.u64 v.id] from rfl, List.singleton_append] at this
      rw [this]
      simp only [ih vs rest h.2]

/-- Resources are stored by position with the type tag `resTy p`. -/
def ResOk (w : World) : Prop := w.res.map (·.ty) = (List.range w.res.length).map resTy

theorem deRes_ser (k : Kinds) (e : Nat) {w : World} (hr : ResOk w) (rest : List Tok) :
    deRes k w.res.length e (Tok.tupB w.res.length :: (w.res.flatMap serVal ++ Tok.tupE :: rest)) =
      .ok (w.res.map (retag k e), rest) := by
  unfold deRes
  simp only [expectTup, if_true]
  rw [deResGo_ser k e (List.range w.res.length) w.res (Tok.tupE :: rest) hr]
  simp [assertEnded_end]

/-! ### `from_serialized_parts` accepts what was serialized -/

theorem fill_ok {α} (ix : α → Nat) (mk : α → Slot) (what : String) (xs : List α) :
    ∀ (init : List (Option Slot)), (xs.map ix).Nodup → (∀ x ∈ xs, init[ix x]? = some none) →
      ∃ out, xs.foldlM (fun sl x => fillSlot sl (ix x) (mk x) what) init = .ok out := by
  induction xs with
  | nil => intro init _ _; exact ⟨init, rfl⟩
  | cons x xs ih =>
    intro init hn hall
    simp only [List.map_cons, List.nodup_cons] at hn
    have hx := hall x (by simp)
    have hlt : ix x < init.length := (List.getElem?_eq_some_iff.mp hx).1
    have h1 : fillSlot init (ix x) (mk x) what = .ok (init.set (ix x) (some (mk x))) := by
      simp [fillSlot, hx]
    obtain ⟨out, ho⟩ := ih (init.set (ix x) (some (mk x))) hn.2 (by
      intro y hy
      have hne : ix x ≠ ix y := fun e => hn.1 (List.mem_map.mpr ⟨y, hy, e.symm⟩)
      rw [List.getElem?_set_ne hne]
      exact hall y (by simp [hy]))
    exact ⟨out, by rw [List.foldlM_cons, h1]; exact ho⟩

theorem rowsOf_fst (l : List Arch) : (rowsOf l).map (·.1) = l.flatMap (·.ids) := by
  unfold rowsOf
  rw [List.map_flatMap]
  congr 1
  funext a
  rw [List.map_map]
  have : ((fun p : Ident × Loc => p.1) ∘ fun p : Ident × Nat => (p.1, (⟨a.handle, p.2⟩ : Loc))) =
      fun p => p.1 := rfl
  rw [this]
  exact List.map_fst_zip (by simp)

theorem retagArchs_getElem? (k : Kinds) (e : Nat) (l : List Arch) (h j : Nat) :
    (retagArchs k e h l)[j]? = (l[j]?).map (retagArch k e (h + j)) := by
  induction l generalizing h j with
  | nil => simp [retagArchs]
  | cons a as ih =>
    cases j with
    | zero => simp [retagArchs]
    | succ j =>
      simp only [retagArchs, List.getElem?_cons_succ]
      rw [ih (h + 1) j]
      congr 2
      omega

theorem retagArchs_length (k : Kinds) (e : Nat) (l : List Arch) (h : Nat) :
    (retagArchs k e h l).length = l.length := by
  induction l generalizing h with
  | nil => rfl
  | cons a as ih => simp [retagArchs, ih]

theorem retagArchs_ids (k : Kinds) (e : Nat) (l : List Arch) (h : Nat) :
    (retagArchs k e h l).flatMap (·.ids) = l.flatMap (·.ids) := by
  induction l generalizing h with
  | nil => rfl
  | cons a as ih => simp [retagArchs, retagArch, ih]

theorem mem_retagArchs {k : Kinds} {e h : Nat} {l : List Arch} {b : Arch} :
    b ∈ retagArchs k e h l ↔ ∃ (j : Nat) (a : Arch), l[j]? = some a ∧ b = retagArch k e (h + j) a := by
  rw [List.mem_iff_getElem?]
  constructor
  · rintro ⟨j, hj⟩
    rw [retagArchs_getElem?] at hj
    cases ha : l[j]? with
    | none => simp [ha] at hj
    | some a => simp [ha] at hj; exact ⟨j, a, ha, hj.symm⟩
  · rintro ⟨j, a, ha, rfl⟩
    exact ⟨j, by rw [retagArchs_getElem?, ha]; rfl⟩

theorem filterMap_id_length (l : List (Option Slot)) (h : l.any Option.isNone = false) :
    (l.filterMap id).length = l.length := by
  induction l with
  | nil => rfl
  | cons x xs ih =>
    simp only [List.any_cons, Bool.or_eq_false_iff] at h
    cases x with
    | none => simp at h
    | some s => simp [ih h.2]

theorem fromParts_length {length : Nat} {free : List Ident} {archs : List Arch} {al : Alloc}
    (h : fromParts length free archs = .ok al) : al.slots.length = length := by
  unfold fromParts at h
  simp only [] at h
  cases h1 : free.foldlM (fun sl (id : Ident) => fillSlot sl id.index ⟨id.gen, none⟩ "freed-entity-index")
      (List.replicate length none) with
  | error e => rw [h1] at h; simp at h
  | ok sl1 =>
    rw [h1] at h
    simp only at h
    have hro : (archs.flatMap (fun a => (List.zip a.ids (List.range a.ids.length)).map
        (fun p => (p.1, (⟨a.handle, p.2⟩ : Loc))))) = rowsOf archs := rfl
    rw [hro] at h
    cases h2 : (rowsOf archs).foldlM
        (fun sl (p : Ident × Loc) => fillSlot sl p.1.index ⟨p.1.gen, some p.2⟩ "archetype-entity-index") sl1 with
    | error e => rw [h2] at h; simp at h
    | ok sl2 =>
      rw [h2] at h
      simp only at h
      cases hany : sl2.any Option.isNone with
      | true => simp [hany] at h
      | false =>
        simp only [hany, Bool.false_eq_true, if_false, Except.ok.injEq] at h
        subst h
        obtain ⟨a1, _⟩ := fill_spec (fun id : Ident => id.index) (fun id => ⟨id.gen, none⟩) _ free h1
        obtain ⟨b1, _⟩ := fill_spec (fun p : Ident × Loc => p.1.index)
          (fun p => ⟨p.1.gen, some p.2⟩) _ (rowsOf archs) h2
        show (sl2.filterMap id).length = length
        rw [filterMap_id_length sl2 hany, b1, a1]; simp

/-- **`from_serialized_parts` accepts the parts of a world satisfying the invariant**, whatever
handles the re-read tables got. -/
theorem fromParts_ok {w : World} (hi : Inv w) (k : Kinds) (e next : Nat) :
    ∃ al, fromParts w.alloc.slots.length (freeIds w.alloc) (retagArchs k e next w.archs) = .ok al := by
  -- step 1: the freed identifiers
  have hfi : (freeIds w.alloc).map (·.index) = w.alloc.free := by
    unfold freeIds; rw [List.map_map]
    apply List.ext_getElem?
    intro j
    rw [List.getElem?_map]
    cases w.alloc.free[j]? <;> rfl
  obtain ⟨sl1, h1⟩ := fill_ok (fun id : Ident => id.index) (fun id => ⟨id.gen, none⟩)
    "freed-entity-index" (freeIds w.alloc) (List.replicate w.alloc.slots.length none)
    (by rw [hfi]; exact hi.free_nodup)
    (by
      intro f hf
      have hfm : f.index ∈ w.alloc.free := by rw [← hfi]; exact List.mem_map.mpr ⟨f, hf, rfl⟩
      obtain ⟨s, hs, _⟩ := hi.ainv.inactive _ hfm
      have : f.index < w.alloc.slots.length := (List.getElem?_eq_some_iff.mp hs).1
      simp [List.getElem?_replicate, this])
  obtain ⟨a1, a2, a3, a4⟩ := fill_spec (fun id : Ident => id.index) (fun id => ⟨id.gen, none⟩) _ _ h1
  -- step 2: the stored rows
  have hrows_ids : (rowsOf (retagArchs k e next w.archs)).map (·.1) = w.stored := by
    rw [rowsOf_fst, retagArchs_ids]; rfl
  have hrow_idx : (rowsOf (retagArchs k e next w.archs)).map (fun p => p.1.index) =
      w.stored.map (·.index) := by
    rw [← hrows_ids, List.map_map]; rfl
  have hstored_slot : ∀ id ∈ w.stored, ∃ l, w.alloc.slots[id.index]? = some ⟨id.gen, some l⟩ := by
    intro id hid
    obtain ⟨a, ha, r, hr⟩ := mem_stored hid
    exact ⟨_, (hi.archOk ha).rows r id hr⟩
  have hstored_nf : ∀ id ∈ w.stored, id.index ∉ w.alloc.free := by
    intro id hid hf
    obtain ⟨l, hl⟩ := hstored_slot id hid
    obtain ⟨s, hs, hsl⟩ := hi.ainv.inactive _ hf
    rw [hl] at hs; cases hs; simp at hsl
  obtain ⟨sl2, h2⟩ := fill_ok (fun p : Ident × Loc => p.1.index) (fun p => ⟨p.1.gen, some p.2⟩)
    "archetype-entity-index" (rowsOf (retagArchs k e next w.archs)) sl1
    (by
      rw [hrow_idx]
      have := hi.stored_pairwise
      rw [List.Nodup, List.pairwise_map]
      exact this)
    (by
      intro p hp
      have hpm : p.1 ∈ w.stored := by rw [← hrows_ids]; exact List.mem_map.mpr ⟨p, hp, rfl⟩
      obtain ⟨l, hl⟩ := hstored_slot p.1 hpm
      have hlt : p.1.index < w.alloc.slots.length := (List.getElem?_eq_some_iff.mp hl).1
      show sl1[p.1.index]? = some none
      rw [a4 _ (by rw [hfi]; exact hstored_nf p.1 hpm)]
      simp [List.getElem?_replicate, hlt])
  obtain ⟨b1, b2, b3, b4⟩ := fill_spec (fun p : Ident × Loc => p.1.index)
    (fun p => ⟨p.1.gen, some p.2⟩) _ _ h2
  -- every slot has been filled
  have hfull : sl2.any Option.isNone = false := by
    rw [List.any_eq_false]
    intro x hx hxn
    obtain ⟨j, hj⟩ := List.getElem?_of_mem hx
    have hjl : j < w.alloc.slots.length := by
      have := (List.getElem?_eq_some_iff.mp hj).1
      rw [b1, a1] at this; simpa using this
    have hxnone : x = none := by cases x <;> simp_all
    subst hxnone
    have hs : w.alloc.slots[j]? = some w.alloc.slots[j] := List.getElem?_eq_getElem hjl
    generalize w.alloc.slots[j] = s at hs
    obtain ⟨w1, w2⟩ := (slotOk_iff.mp (hi.slots j hjl)) s hs
    cases hl : s.loc with
    | none =>
      have hjf : j ∈ w.alloc.free := w1 hl
      have hjn : j ∉ (rowsOf (retagArchs k e next w.archs)).map (fun p => p.1.index) := by
        rw [hrow_idx]
        intro hm
        obtain ⟨id, hid, hidx⟩ := List.mem_map.mp hm
        exact hstored_nf id hid (hidx ▸ hjf)
      rw [b4 j hjn] at hj
      rw [← hfi] at hjf
      obtain ⟨f, hf, hfj⟩ := List.mem_map.mp hjf
      have := (a3 f hf).2
      rw [hfj, hj] at this
      cases this
    | some l =>
      obtain ⟨a, hfa, hrow, _⟩ := w2 l hl
      have hmem : (⟨j, s.gen⟩ : Ident) ∈ w.stored :=
        List.mem_flatMap.mpr ⟨a, (findArch_some hfa).1, List.mem_of_getElem? hrow⟩
      rw [← hrows_ids] at hmem
      obtain ⟨p, hp, hpe⟩ := List.mem_map.mp hmem
      have := (b3 p hp).2
      rw [hpe, hj] at this
      cases this
  refine ⟨⟨sl2.filterMap id, (freeIds w.alloc).map (·.index)⟩, ?_⟩
  unfold fromParts
  simp only []
  rw [h1]
  simp only
  have hro : ((retagArchs k e next w.archs).flatMap (fun a => (List.zip a.ids (List.range a.ids.length)).map
      (fun p => (p.1, (⟨a.handle, p.2⟩ : Loc))))) = rowsOf (retagArchs k e next w.archs) := rfl
  rw [hro, h2]
  simp [hfull]

/-! ### the whole world -/

theorem serialize_eq (hr : Bool) (w : World) :
    serialize hr w =
      Tok.tupB 3 :: Tok.seqB (some w.archs.length) :: (w.archs.flatMap (serArch hr) ++ Tok.seqE ::
        (serAlloc w.alloc ++ (Tok.tupB w.res.length :: (w.res.flatMap serVal ++ Tok.tupE :: [Tok.tupE])))) := by
  simp [serialize]

theorem length_le_flatMap {α β} (f : α → List β) (l : List α) (h : ∀ x ∈ l, f x ≠ []) :
    l.length ≤ (l.flatMap f).length := by
  induction l with
  | nil => simp
  | cons x xs ih =>
    have hx := h x (by simp)
    have : 1 ≤ (f x).length := by
      cases hfx : f x with
      | nil => exact absurd hfx hx
      | cons _ _ => simp
    have := ih (fun y hy => h y (by simp [hy]))
    simp only [List.flatMap_cons, List.length_append, List.length_cons]
    omega

/-- **`deserialize ∘ serialize` succeeds** on every world satisfying the invariant (resources
typed by position), in both encodings, and returns the re-tagged tables with consecutive handles
and an allocator built by `from_serialized_parts`. -/
theorem roundtrip_ok {w : World} (hi : Inv w) (hres : ResOk w) (k : Kinds) (hr : Bool) (e next : Nat) :
    ∃ al, fromParts w.alloc.slots.length (freeIds w.alloc) (retagArchs k e next w.archs) = .ok al ∧
      deserialize k hr w.n w.res.length e next (serialize hr w) =
        .ok (assemble w.n next (retagArchs k e next w.archs) al (w.res.map (retag k e))) := by
  obtain ⟨al, hal⟩ := fromParts_ok hi k e next
  refine ⟨al, hal, ?_⟩
  rw [serialize_eq]
  unfold deserialize
  simp only [expectTup, if_true]
  rw [elem_cons (by simp)]
  -- archetypes
  have harchs : ∀ tail, deArchsSeq k hr w.n e next
      (Tok.seqB (some w.archs.length) :: (w.archs.flatMap (serArch hr) ++ Tok.seqE :: tail)) =
      .ok (retagArchs k e next w.archs, tail) := by
    intro tail
    unfold deArchsSeq
    simp only
    have hlen : w.archs.length < (w.archs.flatMap (serArch hr) ++ Tok.seqE :: tail).length + 1 := by
      have := length_le_flatMap (serArch hr) w.archs (by
        intro a _
        obtain ⟨t, ts, hs, _⟩ := serArch_head hr a
        rw [hs]; simp)
      simp only [List.length_append, List.length_cons]
      omega
    have := deArchs_ser (w := w) k hr e w.archs _ next [] tail (fun a ha => hi.archOk ha) hlen
      (by simpa using hi.masks_nodup)
    rw [this]; simp
  rw [harchs]
  simp only
  -- allocator
  have hhead : ∃ t ts, serAlloc w.alloc = t :: ts ∧ t ≠ Tok.tupE := ⟨_, _, rfl, by simp⟩
  obtain ⟨t, ts, hs, hne⟩ := hhead
  have halloc : ∀ tail, elem Tok.tupE deAllocParts (serAlloc w.alloc ++ tail) =
      .ok ((w.alloc.slots.length, freeIds w.alloc), tail) := by
    intro tail
    rw [hs, List.cons_append, elem_cons hne, ← List.cons_append, ← hs]
    exact deAllocParts_ser w.alloc tail
  rw [halloc]
  simp only [hal]
  -- resources
  rw [elem_cons (by simp), deRes_ser k e hres]
  simp [assertEnded_end]

/-! ### the round trip compares equal -/

/-- Zero-sized components carry no identity (the harness canonicalises them to identity 0). -/
def ZOk (k : Kinds) (w : World) : Prop := ∀ v ∈ w.values, k.kindOf v.ty = 'z' → v.base = 0

theorem eqv_retag {k : Kinds} {e : Nat} {v : Val} (hz : k.kindOf v.ty = 'z' → v.base = 0) :
    v.eqv (retag k e v) = true := by
  unfold retag Val.eqv
  by_cases hk : k.kindOf v.ty = 'z'
  · have := hz hk
    simp [hk, Val.base, epochBase] at this ⊢
    exact this
  · have : (k.kindOf v.ty == 'z') = false := by simpa using hk
    simp [this, Val.base, epochBase]

theorem rowEqv_map {g : Val → Val} (x : List Val) (h : ∀ v ∈ x, v.eqv (g v) = true) :
    rowEqv x (x.map g) = true := by
  unfold rowEqv
  simp only [List.length_map, beq_self_eq_true, Bool.true_and]
  induction x with
  | nil => rfl
  | cons v vs ih => simp [h v (by simp), ih (fun u hu => h u (by simp [hu]))]

theorem colsEqv_map {g : Val → Val} (x : List (List Val)) (h : ∀ c ∈ x, ∀ v ∈ c, v.eqv (g v) = true) :
    World.colsEqv x (x.map (fun c => c.map g)) = true := by
  unfold World.colsEqv
  simp only [List.length_map, beq_self_eq_true, Bool.true_and]
  induction x with
  | nil => rfl
  | cons c cs ih =>
    have := rowEqv_map c (h c (by simp))
    unfold rowEqv at this
    simp only [List.map_cons, List.zipWith_cons_cons, List.all_cons, id, this,
      ih (fun d hd => h d (by simp [hd])), Bool.and_self]

theorem retagArchs_map {β} (k : Kinds) (e : Nat) (f : Arch → β)
    (hf : ∀ h a, f (retagArch k e h a) = f a) (l : List Arch) (h : Nat) :
    (retagArchs k e h l).map f = l.map f := by
  induction l generalizing h with
  | nil => rfl
  | cons a as ih => simp [retagArchs, hf, ih]

/-- **The round trip compares equal to the original.** -/
theorem roundtrip_eq {w : World} (hi : Inv w) (hres : ResOk w) {k : Kinds} (hz : ZOk k w)
    (hr : Bool) (e next : Nat) :
    ∃ w', deserialize k hr w.n w.res.length e next (serialize hr w) = .ok w' ∧ Inv w' ∧
      World.eqWorld w w' = .ok true := by
  obtain ⟨al, hal, hde⟩ := roundtrip_ok hi hres k hr e next
  have hi' := deserialize_inv hde
  refine ⟨_, hde, hi', ?_⟩
  have hp := fromParts_spec hal
  have hslen := fromParts_length hal
  have hvals : ∀ a ∈ w.archs, ∀ c ∈ a.cols, ∀ v ∈ c, v.eqv (retag k e v) = true := by
    intro a ha c hc v hv
    apply eqv_retag
    apply hz v
    unfold World.values
    apply List.mem_append_left
    exact List.mem_flatMap.mpr ⟨a, ha, by unfold Arch.values; exact List.mem_flatten.mpr ⟨c, hc, hv⟩⟩
  have hfi : (freeIds w.alloc).map (·.index) = w.alloc.free := by
    unfold freeIds; rw [List.map_map]
    apply List.ext_getElem?
    intro j
    rw [List.getElem?_map]
    cases w.alloc.free[j]? <;> rfl
  -- the table of the result at position j
  have hfind' : ∀ (j : Nat) (a : Arch), w.archs[j]? = some a →
      (assemble w.n next (retagArchs k e next w.archs) al (w.res.map (retag k e))).findArch (next + j) =
        some (retagArch k e (next + j) a) := by
    intro j a ha
    have hm : retagArch k e (next + j) a ∈ retagArchs k e next w.archs :=
      mem_retagArchs.mpr ⟨j, a, ha, rfl⟩
    exact findArch_of_mem hi'.handles_nodup hm
  apply (eqWorld_true_iff hi hi').mpr
  refine ⟨?_, ?_, ?_, ?_, ?_, ?_⟩
  · show w.len = ((retagArchs k e next w.archs).map (·.ids.length)).sum
    rw [retagArchs_map k e (·.ids.length) (fun _ _ => rfl), hi.len]
  · exact (retagArchs_length k e w.archs next).symm
  · intro x hx
    obtain ⟨j, hj⟩ := List.getElem?_of_mem hx
    refine ⟨retagArch k e (next + j) x, mem_retagArchs.mpr ⟨j, x, hj, rfl⟩, rfl, ?_⟩
    unfold World.archEqv
    simp only [retagArch, beq_self_eq_true, Bool.true_and]
    exact colsEqv_map x.cols (hvals x hx)
  · apply slotsEqv_of_pointwise
    · exact hslen.symm
    · intro i s t hs ht
      have ht' : al.slots[i]? = some t := ht
      rcases hp.cover i t ht' with ⟨f, hf, hfi', rfl⟩ | ⟨id, l', hm, hidx, rfl⟩
      · -- a freed slot
        have hif : i ∈ w.alloc.free := by rw [← hfi, ← hfi']; exact List.mem_map.mpr ⟨f, hf, rfl⟩
        obtain ⟨s', hs', hsl⟩ := hi.ainv.inactive i hif
        rw [hs] at hs'; cases hs'
        have hgen : f.gen = s.gen := by
          unfold freeIds at hf
          obtain ⟨i0, _, rfl⟩ := List.mem_map.mp hf
          simp only at hfi'
          subst hfi'
          simp [List.getD, hs]
        unfold World.slotEqv
        simp [hgen, hsl]
      · -- a stored row
        obtain ⟨y, hy, hya, hyr⟩ := mem_rowsOf.mp hm
        obtain ⟨j, a, ha, rfl⟩ := mem_retagArchs.mp hy
        have hyr' : a.ids[l'.row]? = some id := hyr
        have ham := List.mem_of_getElem? ha
        have hslot := (hi.archOk ham).rows l'.row id hyr'
        rw [hidx, hs] at hslot
        cases hslot
        have hla : l'.arch = next + j := hya
        unfold World.slotEqv
        have m1 : w.maskOf a.handle = some a.mask := by
          simp [World.maskOf, findArch_of_mem hi.handles_nodup ham]
        have m2 : (assemble w.n next (retagArchs k e next w.archs) al (w.res.map (retag k e))).maskOf l'.arch =
            some a.mask := by
          unfold World.maskOf
          rw [hla, hfind' j a ha]; rfl
        simp [m1, m2]
  · show w.alloc.free = al.free
    rw [hp.free_eq, hfi]
  · show rowEqv w.res (w.res.map (retag k e)) = true
    apply rowEqv_map
    intro v hv
    apply eqv_retag
    apply hz v
    unfold World.values
    exact List.mem_append_right _ hv

end Serde
end Brood
