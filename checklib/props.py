"""Per-property check logic: which theorems, which correspondence runs, which oracles, how a
disagreement is attributed and turned into a replay."""
import json
import os
import re
import subprocess
import sys
import time

from . import common as C

# ------------------------------------------------------------------------------------------
# attribution of disagreements / oracle failures to properties
# ------------------------------------------------------------------------------------------

D_FIELDS = ["len", "slots", "free", "archs", "typeids", "foreign", "res", "extra"]


def fields_of(dline):
    out = {}
    for tok in dline.split(" "):
        if "=" in tok:
            k, v = tok.split("=", 1)
            out[k] = v
    return out


def op_before(trace_lines, lineno):
    i = min(lineno, len(trace_lines)) - 1
    while i >= 0:
        if trace_lines[i].startswith("op "):
            return trace_lines[i]
        i -= 1
    return ""


def classify_m(mline, trace_lines):
    """Properties a model/implementation disagreement speaks to."""
    m = re.match(r"M (\d+) case=(\S+) model=\[(.*)\] real=\[(.*)\]$", mline)
    if not m:
        return {"C01"}, "unparsed"
    lineno, case, model, real = int(m.group(1)), m.group(2), m.group(3), m.group(4)
    op = op_before(trace_lines, lineno).split(" ")
    opname = op[2] if len(op) > 2 else "?"
    props = set()
    what = ""
    if model.startswith("batch "):
        # a ragged batch accepted by the safe constructor is adopted by the unchecked extend path (C05)
        return {"C18", "C05"}, "ctor:batch"
    if model.startswith("ctor "):
        return {"C18"}, "ctor:" + model.split(" ")[0]
    if model.startswith("prog "):
        return {"C14"}, "program:" + model
    if model.startswith("fault "):
        return {"C17"}, "fault:" + model
    if "UB " in model or "panicked" in real or "dump-panicked" in real:
        props |= {"C05"}
        what = "ub-or-panic"
    if model.startswith("r ") or real.startswith("r "):
        fm, fr = fields_of(model), fields_of(real)
        diff = {k for k in set(fm) | set(fr) if fm.get(k) != fr.get(k)}
        what = "result:%s:%s" % (opname, ",".join(sorted(diff)) or "shape")
        if diff == {"drops"}:
            props |= {"C04"}
        else:
            if "drops" in diff or "unexpected-drops" in diff:
                props |= {"C04"}
            if opname in ("probe", "churn"):
                props |= {"C02"}
            elif opname in ("insert", "extend"):
                props |= {"C02", "C01"}
            elif opname == "eq":
                props |= {"C16"}
            elif opname in ("q", "eq1", "entries"):
                props |= {"C03"}
            elif opname == "chain":
                props |= {"C01"}
                if "reads" in diff:
                    props |= {"C03"}
            elif opname in ("parq",):
                props |= {"C09"}
            elif opname in ("res",):
                props |= {"C15"}
            elif opname in ("sched",):
                if "stages" in diff:
                    props |= {"C12", "C08"}
                if "phases" in diff:
                    props |= {"C08", "C07", "C12"}
                if not diff:
                    props |= {"C07"}
            else:
                props |= {"C01"}
    else:
        fm, fr = fields_of(model), fields_of(real)
        diff = {k for k in D_FIELDS if fm.get(k) != fr.get(k)}
        what = "dump:%s:%s" % (opname, ",".join(sorted(diff)))
        if diff & {"slots", "free", "typeids", "foreign", "extra"}:
            props |= {"C13"}
        if diff & {"slots"}:
            props |= {"C02"}
        if diff & {"archs", "len"}:
            props |= {"C01"}
        if diff & {"res"}:
            props |= {"C15"}
        if not diff:
            props |= {"C01"}
    if opname in ("clone", "clonefrom"):
        props |= {"C10"}
    if opname == "de":
        mutated = len(op) > 5 and op[5] == "-"
        props |= {"C11"} if mutated else {"C06"}
    if opname in ("q", "entries"):
        props |= {"C03"}
    if opname == "parq":
        props |= {"C09"}
    if opname == "res":
        props |= {"C15"}
    if opname == "fault":
        props = {"C17"}
    return props or {"C01"}, what


def classify_x(xline, trace_lines):
    m = re.match(r"X (\d+|harness) case=(\S+) oracle=(\S+)(.*)$", xline)
    if not m:
        return {"C05"}, "unparsed"
    oracle, rest = m.group(3), m.group(4)
    opname = ""
    if m.group(1).isdigit():
        op = op_before(trace_lines, int(m.group(1))).split(" ")
        opname = op[2] if len(op) > 2 else ""
        mutated = opname == "de" and len(op) > 5 and op[5] == "-"
    else:
        mutated = False
    props = set()
    if oracle == "Inv":
        props |= {"C13"}
        if "slots" in rest or "free" in rest:
            props |= {"C02"}
    elif oracle.startswith("ledger"):
        props |= {"C04"}
        if "checksum" in rest or "misaligned" in rest:
            props = {"C05"}
    elif oracle in ("crash", "timeout"):
        # the real code aborted / hung on a safe history: no property about that history can hold
        props |= {"C05", "*"}
    elif oracle in ("driver-crash", "dump-parse", "alloc"):
        props |= {"C05"}
    elif oracle == "panic":
        # the safe API panicked where the reference completes: the operation's own property fails
        props |= {"C05"} | {"q": {"C03"}, "entries": {"C03"}, "entryq": {"C03"}, "parq": {"C09"},
                            "sched": {"C07", "C08"}, "clone": {"C10"}, "clonefrom": {"C10"}, "eq": {"C16"},
                            "res": {"C15"}, "de": ({"C11"} if mutated else {"C06"})}.get(opname, {"C01"})
    elif oracle == "spec":
        props |= {"C01"}
        if "ident" in rest:
            props |= {"C02"}
    elif oracle == "drops":
        props |= {"C04"}
    elif oracle == "lockstep":
        props |= {"C06"}
    elif oracle == "reissue":
        props |= {"C02"}
    elif oracle == "independence":
        props |= {"C10"}
    elif oracle == "eq":
        props |= {"C16"}
        if " by clone" in rest:
            props |= {"C10"}
        if "serde round trip" in rest:
            props |= {"C06"}
    elif oracle == "stages":
        if "serialised" in rest:
            props |= {"C12"}
        elif "conflicting" in rest:
            props |= {"C08", "C07"}
        else:
            props |= {"C07", "C12"}
    elif oracle == "ctor":
        props |= {"C18"}
        if "Batch::new accepted" in rest:
            props |= {"C05"}     # the ragged batch is adopted by the unchecked extend path
    elif oracle == "program":
        props |= {"C14"}
    elif oracle == "fault":
        props |= {"C17"}
    elif oracle == "sched":
        props |= {"C07"}
        if "world-differs" in rest or "phases-differ" in rest or "system-state-differs" in rest:
            props |= {"C08"}
        if "serialised" in rest:
            props = {"C12"}
        elif re.search(r"schedule=\S*:[0-9]+[rm]", rest) and "differs" in rest:
            # some task of the schedule has resource views: a stale or lost resource value
            props |= {"C15"}
    elif oracle == "query":
        props |= {"C03"}
    elif oracle == "par":
        props |= {"C09"}
    elif oracle == "res":
        props |= {"C15"}
    else:
        props |= {"C05"}
    if opname in ("clone", "clonefrom"):
        props |= {"C10"}
    if opname == "de":
        props |= {"C11"} if mutated else {"C06"}
    if opname == "fault":
        props = {"C17"}
    return props, "oracle:%s:%s" % (oracle, opname)


# ------------------------------------------------------------------------------------------
# property table
# ------------------------------------------------------------------------------------------

def query_runs(tier, seed):
    return core_runs(tier, seed, profile="multi-query")


def serde_runs(tier, seed):
    return core_runs(tier, seed, profile="multi-serde")


def mutate_runs(tier, seed):
    return core_runs(tier, seed, profile="multi-serde-mutate")


def c04_runs(tier, seed):
    # values built by a deserialization that fails must be dropped too: the ownership check also
    # runs histories with mutated token streams
    return core_runs(tier, seed, profile="multi-serde-mutate")


def res_runs(tier, seed):
    # system resource views are exercised by the schedule family (a write through one system's
    # resource view must be visible to the systems declared after it)
    return core_runs(tier, seed, profile="multi-res-serde") + sched_runs(tier, seed)


def all_runs(tier, seed):
    # C05 also runs the constructor family: a ragged batch accepted by `Batch::new` is adopted by the
    # unchecked extend path
    return core_runs(tier, seed, profile="multi-res-serde-query") + [["ctor"]]


def par_runs(tier, seed):
    return core_runs(tier, seed, profile="multi-par")


def c14_run(trace_path):
    from . import c14
    n, details = c14.run_family(trace_path)
    return {"programs": n, "compiled": sum(1 for d in details.values() if d["compiled"]),
            "rejected": sum(1 for d in details.values() if not d["compiled"]),
            "error_codes": sorted({c for d in details.values() for c in d["codes"]})}


def c14_runs(tier, seed):
    return [c14_run]


def fault_runs(tier, seed):
    if tier == "thorough":
        return [["fault", "--seed", str(seed), "--cases", "400", "--maxk", "12"]]
    return [["fault", "--seed", str(seed), "--cases", "40", "--maxk", "8"]]


def ctor_runs(tier, seed):
    return [["ctor"]]


def sched_runs(tier, seed):
    if tier == "thorough":
        return [["core", "--family", "reg4", "--seed", str(seed), "--cases", "1500", "--ops", "50", "--profile", "single-sched"]]
    return [["core", "--family", "reg4", "--seed", str(seed), "--cases", "520", "--ops", "40", "--profile", "single-sched"]]


def core_runs(tier, seed, profile="multi"):
    if tier == "thorough":
        return [["core", "--family", "reg4", "--seed", str(seed), "--cases", "6000", "--ops", "60", "--profile", profile],
                ["core", "--family", "reg10", "--seed", str(seed + 1), "--cases", "3000", "--ops", "60", "--profile", profile],
                ["core", "--family", "reg8", "--seed", str(seed + 3), "--cases", "2000", "--ops", "60", "--profile", profile],
                ["core", "--family", "reg4", "--seed", str(seed + 2), "--cases", "40", "--ops", "2000", "--profile", profile]]
    return [["core", "--family", "reg4", "--seed", str(seed), "--cases", "500", "--ops", "50", "--profile", profile],
            ["core", "--family", "reg10", "--seed", str(seed + 1), "--cases", "200", "--ops", "50", "--profile", profile],
            ["core", "--family", "reg8", "--seed", str(seed + 2), "--cases", "120", "--ops", "50", "--profile", profile]]


TRUSTED = [
    "Lean 4.33.0 kernel (theorems re-elaborated on every run with `lake env lean`; thorough tier adds leanchecker)",
    "axioms allowed: propext, Classical.choice, Quot.sound (audited from `#print axioms` on every run); no native_decide, no bv_decide, no sorry/admit, no own axioms",
    "correspondence check = differential testing of the hand-written model against /repo's working tree (harness, generators, canonicalisation, Lean driver parser, brood_verif hooks); coverage measured below",
    "alloc::Vec/VecDeque, hashbrown, rayon, serde, rustc modelled not verified; fewer than 2^64 identifiers issued by one world (hypothesis of C02_machine_partial; the counter's width is re-extracted from the source on every run)",
]

HOOK_COMMITS = ["903a2e5", "7f71e80", "129f937"]
FIX_COMMITS = ["7b7a5a0", "885588c", "58c8a9f", "3d46a06", "0180007", "7197610", "0564c68", "450bc0a", "bbb86ce"]
NOT_APPLICABLE = {}

CORE_TRUST = ("Lean kernel + {propext, Classical.choice, Quot.sound}; hand-written L1 model tied to the code by the "
              "correspondence check (real World vs Lean driver, every result and full dump, Inv evaluated on every real "
              "dump through the brood_verif dump hook); Vec/VecDeque/hashbrown modelled as lists; hash iteration order "
              "abstracted (sorted; the order in which clear visits the tables is read from the real table and only decides the order of drops — the allocator it leaves is proved not to depend on it)")

SCHED_TRUST = ("Lean kernel + {propext, Classical.choice, Quot.sound}; conflict tables regenerated from the source by the translator on every run; hand-written stager / stage-runner model tied to the code by type_name of the real Stages type and by the fork/join log of the brood_verif join shim; PARTIAL: tasks are atomic in the model (instruction-level interleaving of data-race-free tasks, rayon work stealing and join are not modelled)")

PROPS = {
    "C01": dict(runs=core_runs,
                level="refinement theorem: every history of admissible ops is a run of the reference map, len() counts its live identifiers; per-op effect/frame theorems with returned identifiers; copies hold the same map; every Reachable world is a consistent map (Props/C01.lean) + exact state/result correspondence with the real World on generated histories incl. chains of Entry operations through one handle",
                trust=CORE_TRUST, technique="Lean 4 proof (invariant + refinement by induction over op lists) + differential correspondence check"),
    "C02": dict(runs=core_runs,
                level="allocator theorems (freshness, stability, death of identifiers) for every allocator history, lifted to world histories (every world op acts on the allocator only through allocate/release/setLoc on live identifiers): dead forever, never reissued, stable, dead in copies; the allocator with the code's u64 wrapping generation counter (width, start and bump re-extracted from the source on every run) is the image of the Nat one for every history and coincides with it along every history issuing fewer than 2^64 identifiers, beyond which the statement is false of wrapping_add (Props/C02.lean); slot churn past 2^16 reuses of one slot; probes of every issued identifier compared with the model",
                trust=CORE_TRUST, technique="Lean 4 proof (allocator invariant, induction) + differential correspondence check"),
    "C04": dict(runs=c04_runs,
                level="conservation theorem over all histories (owned ++ dropped is a permutation of moved-in), exactly-once, clone_from drops exactly what the destination owned, clones and round-tripped worlds own copies (Props/C04.lean, C06_roundtrip_owns_copies); a deserialization that fails must drop every value it had built (ledger on the real code, mutated token streams); per-op drop multisets of the real code (observing Drop impls) compared with the model, ledger empty after all worlds dropped",
                trust=CORE_TRUST, technique="Lean 4 proof (multiset conservation per op) + differential correspondence check with a drop ledger"),
    "C03": dict(runs=query_runs,
                level="query model (filter recursion, bit-walk column selection, optional views, entry and sub-view queries, size_hint) with theorems in Props/C03.lean; a generated family of typed queries run on the real World after random histories and compared row-for-row with the model; size_hint checked against the true remaining count at every step",
                trust=CORE_TRUST + "; the typed query family is finite (listed in evidence)", technique="Lean 4 proof over the query model + differential correspondence check on a generated typed query family"),
    "C05": dict(runs=all_runs,
                level="theorem: no modelled op sequence reaches an unchecked access with a violated precondition (Out.ub unreachable under Inv; Props/C05.lean); Batch::new's column-length guard checked exhaustively (constructor family); the real run is watched by a tracking global allocator (layout equality at dealloc/realloc, double free, everything obtained during library calls returned after the worlds are dropped), self-checking payloads (type confusion / stale reads), std's debug assertions on unchecked accesses, and crash attribution",
                trust=CORE_TRUST + "; PARTIAL: the model has no bytes — allocation sizes, Vec growth, pointer provenance are observed on the real side only (allocator audit), not proved", technique="Lean 4 proof (no-UB over the protocol model) + differential correspondence check with allocator audit"),
    "C10": dict(runs=core_runs,
                level="clone and clone_from never fail, preserve Inv, yield the source's map with copied values, clone == original; a clone and its original fed the same operations are issued the same identifiers for ever (C10_clone_lockstep) (Props/C10.lean); pairs of worlds cloned into each other after random histories, then mutated / dropped independently; every world is tracked separately by the model and by the L0 spec, so any leak of one world's change into another shows as a disagreement",
                trust=CORE_TRUST, technique="Lean 4 proof (clone preserves Inv and abs; fresh handles) + differential correspondence check on world pairs"),
    "C15": dict(runs=res_runs,
                level="resource theorems (Props/C15.lean: position lookup, views in any order, frame for every operation; in schedules no two tasks of a phase claim one resource with a mutable claim); the schedule family with resource views is run against the sequential reference; generated view_resources orders/kinds, get_mut writes, interleaved with entity histories, clone, clone_from and serde round trips; resources compared after every op with the model and the L0 spec",
                trust=CORE_TRUST, technique="Lean 4 proof (frame + permutation lemmas) + differential correspondence check on generated resource views"),
    "C16": dict(runs=core_runs,
                level="equality theorems (Props/C16.lean: reflexive, symmetric under Inv, sound w.r.t. abs); `==` evaluated in both directions on pairs of worlds built by different histories and compared with the model; L0 oracle: worlds that compare equal must hold the same map and resources, a == a, a == b iff b == a",
                trust=CORE_TRUST, technique="Lean 4 proof (soundness/symmetry of eqWorld) + differential correspondence check with an L0 soundness oracle"),
    "C07": dict(runs=sched_runs,
                level="every task staged exactly once in order; run time: sequential-equivalence theorem — the phases of the stage runner, tasks of a phase in any order, equal the declared order for every claim-respecting task semantics; each task once; step-level: every task a program of claim-respecting steps, any interleaving per phase equals the declared-order sequential run (C07_interleaving_equivalence) (Props/C07.lean) over the generated tables; each schedule of a generated typed family is run by run_schedule under scripted fork/join orders (all-first, all-second, random) and on real pools of 1, 2, 8 threads on clones of random worlds and compared with the same systems run one by one in declared order (world dump, resources, per-system accumulators, run counts)",
                trust=SCHED_TRUST, technique="Lean 4 proof (stager partition theorems over generated tables) + differential check against the sequential run under scripted fork/join orders"),
    "C08": dict(runs=sched_runs,
                level="verifier table sound, Claim::try_merge sound (generated tables, kernel-decided), every group of every schedule pairwise compatible; run time: the claim map is the exact join of the running tasks' claims, the add-on decision is exact, every phase is pairwise conflict free (Props/C08.lean); static groups of real schedule types and the run-time phases (which next-stage tasks start early) compared with the model through the fork/join log, which covers all interleavings of a run at once",
                trust=SCHED_TRUST, technique="Lean 4 proof (table soundness + stager invariant) + fork/join-structure correspondence check"),
    "C12": dict(runs=sched_runs,
                level="verifier table precise, stage boundaries justified by a conflict, independent tasks appended, an independent next-stage task is accepted as add-on (Props/C12.lean); harness oracles on the real fork/join log: tasks of one phase pairwise unordered, no stage mate held back while nothing it conflicts with runs; static grouping of real schedule types read from type_name::<S::Stages>() and compared with the model's greedy stager; every schedule run to completion on pools of 1, 2 and 8 threads",
                trust=SCHED_TRUST + "; termination of the real run_schedule is exercised, not proved", technique="Lean 4 proof (precision + maximality of the greedy stager over generated tables) + static staging correspondence via type_name"),
    "C09": dict(runs=par_runs,
                level="for every split tree: leaves partition the sequence, zipped leaves equal the sequential zip, the None filler splits consistently; par_query over any traversal order and any split trees is a permutation of query, the mutable addresses it hands out are pairwise distinct, row-local updates end in the sequential result (Props/C09.lean); par_query on a generated typed family under pools of 1, 2, 3, 8, 16 threads and three consumption modes (collect, fold/reduce, for_each) compared row-for-row (as multisets) with the model and the L0 spec, writes through mutable views compared, addresses of all mutable items of one parallel iteration pairwise distinct; ParSystem outcomes are covered by the schedule runs (C07)",
                trust=CORE_TRUST + "; PARTIAL: rayon bridge / MultiZip / splitter and hashbrown's parallel bucket iterator assumed to hand each item to exactly one leaf", technique="Lean 4 proof over arbitrary split trees + differential correspondence check under several pool sizes"),
    "C14": dict(runs=c14_runs, static=True,
                level="accepts => Sound proved by kernel decision over the whole program family outside the recorded finding (Props/C14.lean), with `accepts` computed from tables re-extracted from the source on every run (every unsafe impl Send/Sync with its bounds, the entry-query signatures, the SubViewable impl table); every program of the family (each pair of view kinds in each position, repeated entry queries, resource views, components outside the registry, each thread-crossing API with Send+Sync / !Sync / !Send payloads; conflicting programs next to conflict-free twins) is instantiated as Rust source and compiled by rustc against the current tree: verdict compared with `accepts`, and every accepted program checked against `Sound`",
                trust="Lean kernel + {propext, Classical.choice, Quot.sound}; translator; PARTIAL: rustc's trait solver and borrow checker are the implementation here — the model reproduces their verdict on this family only (272 programs)", technique="Lean 4 proof by kernel decision over a program family, tables generated from the source + rustc verdict correspondence"),
    "C17": dict(runs=fault_runs, static=True,
                level="mechanism of the clear finding and safety of the length-first order, Entry::remove: mid-move drop unsafe (witness) / drop-last safe, the recorded remove and clone_from findings as double-drop theorems for every layout, proved on the fault model (Props/C17.lean); fault enumeration on the real crate (each fault followed by a use phase through the safe API): for small worlds with multi-column archetypes, every operation that calls user code x callback (Drop, Clone, PartialEq, Debug, Serialize, Deserialize, query body) x position k, each fault point in its own child process: the panic is caught, then a ledger of individually identified values (no value dropped twice), self-checking payloads, the allocator audit and the final drop of every world are checked; (operation, callback) pairs the model table calls safe must show no failure, the others are the recorded findings",
                trust="Lean kernel + {propext, Classical.choice, Quot.sound}; the table of safe (operation, callback) pairs is hand-written from the code and compared with the enumeration; PARTIAL: unwinding, Vec's internal panic guards and rayon's panic propagation are taken from their documentation, not modelled", technique="Lean 4 proof on a fault model + fault enumeration in child processes with a drop ledger"),
    "C18": dict(runs=ctor_runs,
                level="assert_no_duplicates accepts exactly duplicate-free registries of any length, every path to a World literal passes it, Batch::new accepts exactly equal-length columns (Props/C18.lean, over shapes and a constructor graph re-extracted from the source on every run); exhaustive run of new / with_resources / default / deserialize (both encodings) on 120 registries of length 2-9 with every pair of equal positions plus duplicate-free controls, and of Batch::new on all 340 combinations of column lengths 0-3 for 1-4 columns",
                trust="Lean kernel + {propext, Classical.choice, Quot.sound}; translator (regex extraction of the check's shape and of the constructor call graph; its report is in the evidence); World's fields are private to src/world so no other literal exists", technique="Lean 4 proof over source-extracted shapes + exhaustive constructor run"),
    "C06": dict(runs=serde_runs,
                level="token-level model of Serialize/Deserialize (both encodings); round-trip theorem: for every world with Inv (hence every world of every history) deserialize(serialize w) succeeds, satisfies Inv, == w both ways, same map/len/resources; lock step: original and copy fed the same operations (any history, clear in any table order) are issued the same identifiers for ever (C06_lockstep; the allocator left by clear does not depend on table order) (Props/C06.lean); the real token stream of every round trip is deserialized by the real code and by the model, dumps compared, the copy then driven with further ops; while original and copy receive the same operations the executor requires the same identifiers (oracle=lockstep); rejection of a reachable world's serialization is an oracle failure",
                trust=CORE_TRUST + "; serde_assert 0.5 framing rules modelled from its source", technique="Lean 4 proof (round trip on the token model) + differential correspondence check on real token streams"),
    "C11": dict(runs=mutate_runs,
                level="the model deserializer decides every token stream (Props/C11.lean: accepted => Inv); mutated real serializations (delete/duplicate/swap/alter tokens, headers, field names, whole elements) are fed to the real code and the model: verdicts and resulting worlds compared, Inv evaluated on every accepted world, ledger checked for double drops",
                trust=CORE_TRUST + "; serde_assert 0.5 framing rules modelled from its source; error classes are not compared, only Ok/Err", technique="Lean 4 proof (accepted input => invariant) + differential correspondence check on mutated token streams"),
    "C13": dict(runs=core_runs,
                level="Inv holds in every Reachable world: all single-world ops, clone, clone_from, deserialization of arbitrary token streams (Props/C13.lean); the compiled Inv predicate evaluated on a structural dump of the real world after every op",
                trust=CORE_TRUST, technique="Lean 4 proof (inductive invariant) + invariant monitoring on real dumps + differential correspondence check"),
}


def corpus_files():
    d = os.path.join(C.VERIF, "corpus")
    return sorted(os.path.join(d, f) for f in os.listdir(d) if f.endswith(".ops")) if os.path.isdir(d) else []


# ------------------------------------------------------------------------------------------
# the check
# ------------------------------------------------------------------------------------------

def report_violation(pid, seed, tag, header, body, text, no_input=False):
    """Print VIOLATION / KNOWN-FINDING. Returns 1 if it counts as a violation."""
    known = None if no_input else C.match_known(pid, text)
    if known:
        print("KNOWN-FINDING: property=%s %s" % (pid, known.get("what", "")))
        return 0
    path = C.write_replay(pid, seed, tag, header, body)
    print("VIOLATION property=%s replay=%s%s" % (pid, path, " no-failing-input-found" if no_input else ""))
    return 1


def search_failing_input(pid, seed, tier, tmp, spec):
    """After a broken proof obligation / correspondence with no oracle failure at hand: run a
    targeted batch on the real code with every implementation-side oracle and return the first
    case on which one of them fails (trace lines, X line) — or None."""
    budget = 3 if tier == "quick" else 10
    for k in range(budget):
        for args in spec["runs"]("quick", seed + 1000 * (k + 1)):
            tr = tmp + ".search.trace"
            try:
                rc, _, err = C.harness_trace(args, tr, timeout=600)
            except subprocess.TimeoutExpired:
                continue
            ms, xs, _ = C.drive(tr)
            lines = open(tr).read().splitlines()
            if rc != 0:
                xs.append("X %d case=%s oracle=crash harness-exit=%d" % (len(lines), last_case(lines), rc))
            for x in xs:
                props, what = classify_x(x, lines)
                if pid in props or "*" in props:
                    return lines, x, what
    return None


def replay_body_static(pid, line, cov):
    """Replay body for a non-op finding (a program, a constructor case): the line itself plus, for a
    C14 program, its Rust source."""
    body = ["# " + line]
    m = re.search(r"\[([a-z0-9_ ]+)\]", line)
    if pid == "C14" and m:
        try:
            from . import c14
            body += ["// program: " + m.group(1)] + c14.source(m.group(1)).splitlines()
        except Exception:   # noqa: BLE001
            pass
    return body


def last_case(lines):
    for l in reversed(lines):
        if l.startswith("case "):
            return l[5:].strip()
    return "?"


def check_property(pid, tier, seed, t0):
    spec = PROPS[pid]
    os.makedirs(C.WORK, exist_ok=True)
    tmp = os.path.join(C.WORK, "%s-%d" % (pid, os.getpid()))
    report = {}
    violations = 0
    notes = []

    build_fail = C.build_all(report)
    audit = C.audit_props(pid, thorough=(tier == "thorough")) if "lake" not in build_fail else \
        {"obligations": 0, "discharged": 0, "theorems": [], "errors": ["lake build failed"], "file": ""}
    proof_broken = []
    if "translator" in build_fail:
        # first: what the translator could not read is usually the cause of what follows
        proof_broken.append("translator: " + " | ".join(l for l in build_fail["translator"].splitlines() if "translator error" in l)[:1500] or build_fail["translator"][-1500:])
    proof_broken += list(audit["errors"])
    if "lake" in build_fail:
        proof_broken.append("lake build: " + build_fail["lake"][-1500:])
    for k, v in build_fail.items():
        # the harness (built against /repo's working tree) or a generator no longer builds: the
        # correspondence cannot be run, so the property is no longer shown to hold
        if k not in ("lake", "translator"):
            proof_broken.append("build step `%s` failed: %s" % (k, str(v)[-1500:]))

    cov = {"obligations": audit["obligations"], "discharged": audit["discharged"],
           "checker_cmd": "cd lean && lake build BroodModel driver && lake env lean BroodModel/Props/%s.lean  (# #print axioms audited)" % pid,
           "trusted_base": TRUSTED, "theorems": audit["theorems"], "repo_tree": C.repo_tree_hash()}

    # ---- correspondence ------------------------------------------------------------------
    evaluations = 0
    real_dumps = 0
    op_hist, branches = {}, {}
    samples = []
    found = []           # (kind, line, what, trace_lines)
    unrelated = []
    if "cargo" in build_fail:
        notes.append("harness does not build against /repo: " + build_fail["cargo"][-1500:])
    else:
        runs = []
        for f in (corpus_files() if not spec.get("static") else []):
            runs.append(["replay", f])
        runs += spec["runs"](tier, seed) if spec.get("runs") else []
        for k, args in enumerate(runs):
            tr = "%s.%d.trace" % (tmp, k)
            # a crash (abort / signal) of the real code loses only the case it happened in: the run
            # is resumed after it, a few times
            lines, ms, xs, summ, stats = [], [], [], {}, {}
            first = 0
            if callable(args):
                # a run implemented in Python (e.g. the C14 program family): it writes the trace itself
                try:
                    info = args(tr)
                except Exception as ex:   # noqa: BLE001
                    info = {}
                    xs.append("X 0 case=? oracle=runner %s" % str(ex)[:300])
                ms1, xs1, summ = C.drive(tr) if os.path.exists(tr) else ([], [], {})
                ms += ms1
                xs += xs1
                lines = open(tr).read().splitlines() if os.path.exists(tr) else []
                cov.setdefault("extra", {}).update(info or {})
                if not samples:
                    samples = lines[1:9]
            for attempt in (range(6) if not callable(args) else []):
                a2 = args + (["--first", str(first)] if args[0] == "core" and first else [])
                try:
                    rc, stats1, err = C.harness_trace(a2, tr, timeout=3000)
                except subprocess.TimeoutExpired:
                    rc, stats1, err = -1, {}, "timeout"
                ms1, xs1, summ1 = C.drive(tr)
                lines1 = open(tr).read().splitlines()
                off = len(lines)
                ms += [re.sub(r"^M (\d+)", lambda m: "M %d" % (int(m.group(1)) + off), l) for l in ms1]
                xs += [re.sub(r"^X (\d+)", lambda m: "X %d" % (int(m.group(1)) + off), l) for l in xs1]
                lines += lines1
                for kk, v in summ1.items():
                    summ[kk] = int(summ.get(kk, 0)) + int(v)
                for grp in ("op_hist", "branches"):
                    for kk, v in stats1.get(grp, {}).items():
                        stats.setdefault(grp, {})[kk] = stats.get(grp, {}).get(kk, 0) + v
                if rc == 0:
                    break
                lc = last_case(lines1)
                xs.append("X %d case=%s oracle=crash harness-exit=%d %s" % (len(lines), lc, rc, err.strip().splitlines()[-1][:200] if err.strip() else ""))
                m = re.search(r"-(\d+)$", lc)
                if args[0] != "core" or not m:
                    break
                first = int(m.group(1)) + 1
            evaluations += int(summ.get("ops", 0))
            real_dumps += int(summ.get("real_dumps", 0))
            for kk, v in stats.get("op_hist", {}).items():
                op_hist[kk] = op_hist.get(kk, 0) + v
            for kk, v in stats.get("branches", {}).items():
                branches[kk] = branches.get(kk, 0) + v
            if not callable(args) and not samples and args[0] != "replay":
                samples = [l for l in lines if l.startswith("op ")][:12]
            for x in xs:
                props, what = classify_x(x, lines)
                (found if (pid in props or "*" in props) else unrelated).append(("X", x, what, lines))
            for m in ms:
                props, what = classify_m(m, lines)
                (found if pid in props else unrelated).append(("M", m, what, lines))
            if not found:
                os.remove(tr)

    # distinct non-trivial = distinct op lines that changed state or hit a named branch
    if spec.get("static") and real_dumps == 0:
        real_dumps = evaluations      # programs compiled / fault points / constructor cases executed on the real crate
    cov.update({"evaluations": evaluations, "traces_validated_against_impl": real_dumps,
                "distinct_nontrivial": sum(v for k, v in branches.items() if not k.endswith(":none")) + op_hist.get("insert", 0),
                "rule": "ops executed on the real World and replayed through the Lean model (every result line and full state dump compared, Inv evaluated on every real dump); non-trivial = ops that hit a named state-changing branch (see branches)",
                "op_hist": op_hist, "branches": branches, "samples": samples or ["(corpus only)"],
                "unrelated_divergences": [u[2] for u in unrelated][:10], "notes": notes})

    # ---- decide --------------------------------------------------------------------------
    xs = [f for f in found if f[0] == "X"]
    ms = [f for f in found if f[0] == "M"]
    # findings that are recorded (known_findings.json) are announced once each and do not fail the check
    announced = set()
    unknown_xs = []
    for f in xs:
        k = C.match_known(pid, f[1])
        if k:
            if k.get("id") not in announced:
                announced.add(k.get("id"))
                print("KNOWN-FINDING: property=%s %s" % (pid, k.get("what", "")))
        else:
            unknown_xs.append(f)
    unknown_ms = []
    for f in ms:
        k = C.match_known(pid, f[1])
        if k:
            if k.get("id") not in announced:
                announced.add(k.get("id"))
                print("KNOWN-FINDING: property=%s %s" % (pid, k.get("what", "")))
        else:
            unknown_ms.append(f)
    cov["known_findings_seen"] = sorted(x for x in announced if x)
    xs, ms = unknown_xs, unknown_ms
    is_ops = lambda lines: any(l.startswith("op ") for l in lines)
    if xs:
        # an oracle fails on the implementation: a concrete failing input exists
        kind, line, what, lines = xs[0]
        if is_ops(lines):
            case = C.case_of(line)
            cases = split_lines_cases(lines)
            body = C.ops_only(cases.get(case, lines))
            sig = C.signature([], [line])
            body = C.shrink(body, sig, tmp, budget=60 if tier == "quick" else 200)
            m2, x2, _ = C.replay_verdict(body, tmp)
            text = "\n".join(body + x2 + m2)
            violations += report_violation(pid, seed, "oracle", {"property": pid, "what": what, "oracle-line": (x2 or [line])[0][:400], "reproduce": "./check %s --replay <this file>" % pid}, body, text)
        else:
            body = replay_body_static(pid, line, cov)
            violations += report_violation(pid, seed, "oracle", {"property": pid, "what": what, "oracle-line": line[:400]}, body, line)
    elif ms or proof_broken or "cargo" in build_fail:
        # the correspondence or a proof obligation no longer checks: look for a failing input
        hit = search_failing_input(pid, seed, tier, tmp, spec) if (spec.get("runs") and "cargo" not in build_fail and not spec.get("static")) else None
        if hit:
            lines, x, what = hit
            case = C.case_of(x)
            body = C.ops_only(split_lines_cases(lines).get(case, lines))
            body = C.shrink(body, C.signature([], [x]), tmp, budget=60)
            m2, x2, _ = C.replay_verdict(body, tmp)
            violations += report_violation(pid, seed, "oracle", {"property": pid, "what": what, "oracle-line": (x2 or [x])[0][:400]}, body, "\n".join(body + x2 + m2))
        else:
            if ms:
                kind, line, what, lines = ms[0]
                if is_ops(lines):
                    case = C.case_of(line)
                    body = C.ops_only(split_lines_cases(lines).get(case, lines))
                    body = C.shrink(body, "M", tmp, budget=60 if tier == "quick" else 200)
                    m2, x2, _ = C.replay_verdict(body, tmp)
                else:
                    body, m2 = replay_body_static(pid, line, cov), [line]
                header = {"property": pid, "no-longer-checks": "correspondence (%s)" % what, "first-disagreement": (m2 or [line])[0][:600]}
                violations += report_violation(pid, seed, "corr", header, body, "\n".join(body + m2), no_input=True)
            else:
                header = {"property": pid, "no-longer-checks": "; ".join(proof_broken)[:1500]}
                violations += report_violation(pid, seed, "proof", header, ["# theorem / build obligation that no longer checks:"] + ["# " + e for e in proof_broken], "", no_input=True)

    if cov["obligations"] == 0:
        cov["obligations"] = 1  # the property file itself is an (undischarged) obligation
    cov["proof_errors"] = proof_broken
    C.write_evidence(pid, tier, seed, cov, TRUSTED, time.time() - t0, violations)
    for f in os.listdir(C.WORK):
        if f.startswith(os.path.basename(tmp)):
            try:
                os.remove(os.path.join(C.WORK, f))
            except OSError:
                pass
    C.log("%s: tier=%s seed=%d obligations=%d/%d ops=%d real_dumps=%d violations=%d wall=%.0fs" % (
        pid, tier, seed, cov["discharged"], cov["obligations"], evaluations, real_dumps, violations, time.time() - t0))
    return 1 if violations else 0


def split_lines_cases(lines):
    cases, cur = {}, None
    for l in lines:
        if l.startswith("case "):
            cur = [l]
            cases[l[5:].strip()] = cur
        elif cur is not None:
            cur.append(l)
    return cases


def do_replay(pid, path):
    """Re-execute a replay file on the real code and the model; print what differs."""
    C.build_all({})
    body = [l for l in open(path).read().splitlines() if l and not l.startswith("#")]
    if not any(l.startswith("op ") for l in body):
        print(open(path).read())
        return 0
    tmp = os.path.join(C.WORK, "replay-%d" % os.getpid())
    ms, xs, crashed = C.replay_verdict(body, tmp)
    for l in xs + ms:
        print(l)
    print("replay: %d oracle failures on the implementation, %d model disagreements" % (len(xs), len(ms)))
    return 1 if (xs or ms) else 0
