/-
  `World::eq` (`World.eqWorld`): never undefined on worlds satisfying the invariant, reflexive,
  symmetric, and sound with respect to the map view (equal worlds hold the same live identifiers
  with equivalent values and equivalent resources).
-/
import BroodModel.Lemmas.Entity

set_option linter.unusedSimpArgs false
set_option linter.unusedVariables false

namespace Brood
open Alloc

/-! ### values, rows, columns -/

theorem Val.eqv_refl (v : Val) : v.eqv v = true := by simp [Val.eqv]

theorem Val.eqv_symm (a b : Val) : a.eqv b = b.eqv a := by
  unfold Val.eqv
  cases h1 : a.ty == b.ty <;> cases h2 : b.ty == a.ty <;> cases h3 : a.base == b.base <;>
    cases h4 : b.base == a.base <;> simp_all

/-- Row / resource-list equivalence: same length, pairwise equivalent values. -/
def rowEqv (x y : List Val) : Bool := x.length == y.length && (List.zipWith Val.eqv x y).all id

theorem rowEqv_refl (x : List Val) : rowEqv x x = true := by
  unfold rowEqv
  simp only [beq_self_eq_true, Bool.true_and]
  induction x with
  | nil => rfl
  | cons v vs ih => simp [Val.eqv_refl, ih]

theorem zipWith_eqv_symm (x y : List Val) :
    (List.zipWith Val.eqv x y).all id = (List.zipWith Val.eqv y x).all id := by
  induction x generalizing y with
  | nil => cases y <;> rfl
  | cons v vs ih =>
    cases y with
    | nil => rfl
    | cons u us => simp [Val.eqv_symm v u, ih us]

theorem rowEqv_symm (x y : List Val) : rowEqv x y = rowEqv y x := by
  unfold rowEqv
  rw [zipWith_eqv_symm]
  cases h1 : x.length == y.length <;> cases h2 : y.length == x.length <;> simp_all

theorem colsEqv_refl (x : List (List Val)) : World.colsEqv x x = true := by
  unfold World.colsEqv
  simp only [beq_self_eq_true, Bool.true_and]
  induction x with
  | nil => rfl
  | cons c cs ih =>
    have := rowEqv_refl c
    unfold rowEqv at this
    simp only [List.zipWith_cons_cons, List.all_cons, id, this, ih, Bool.and_self]

theorem colsEqv_symm (x y : List (List Val)) : World.colsEqv x y = World.colsEqv y x := by
  unfold World.colsEqv
  have h : ∀ (x y : List (List Val)),
      (List.zipWith (fun a b => a.length == b.length && (List.zipWith Val.eqv a b).all id) x y).all id =
      (List.zipWith (fun a b => a.length == b.length && (List.zipWith Val.eqv a b).all id) y x).all id := by
    intro x
    induction x with
    | nil => intro y; cases y <;> rfl
    | cons c cs ih =>
      intro y
      cases y with
      | nil => rfl
      | cons d ds =>
        have := rowEqv_symm c d
        unfold rowEqv at this
        simp [this, ih ds]
  rw [h]
  cases h1 : x.length == y.length <;> cases h2 : y.length == x.length <;> simp_all

theorem archEqv_refl (x : Arch) : World.archEqv x x = true := by
  simp [World.archEqv, colsEqv_refl]

theorem archEqv_symm (x y : Arch) : World.archEqv x y = World.archEqv y x := by
  unfold World.archEqv
  rw [colsEqv_symm]
  cases h1 : x.ids.length == y.ids.length <;> cases h2 : y.ids.length == x.ids.length <;>
    cases h3 : x.ids == y.ids <;> cases h4 : y.ids == x.ids <;> simp_all

theorem cell_eqv (r : Nat) (c d : List Val) (hl : c.length = d.length)
    (he : (List.zipWith Val.eqv c d).all id = true) :
    (c[r]? = none ∧ d[r]? = none) ∨ ∃ u v, c[r]? = some u ∧ d[r]? = some v ∧ u.eqv v = true := by
  induction c generalizing r d with
  | nil => cases d with
    | nil => left; simp
    | cons _ _ => simp at hl
  | cons u us ihc =>
    cases d with
    | nil => simp at hl
    | cons v vs =>
      simp only [List.zipWith_cons_cons, List.all_cons, id, Bool.and_eq_true] at he
      cases r with
      | zero => right; exact ⟨u, v, rfl, rfl, he.1⟩
      | succ r =>
        simp only [List.getElem?_cons_succ]
        exact ihc r vs (by simpa using hl) he.2

/-- Equivalent columns have equivalent rows. -/
theorem colsEqv_row {x y : List (List Val)} (h : World.colsEqv x y = true) (r : Nat) :
    rowEqv (x.filterMap (fun c => c[r]?)) (y.filterMap (fun c => c[r]?)) = true := by
  unfold World.colsEqv at h
  simp only [Bool.and_eq_true, beq_iff_eq] at h
  obtain ⟨hlen, h2⟩ := h
  induction x generalizing y with
  | nil =>
    cases y with
    | nil => rfl
    | cons d ds => simp at hlen
  | cons c cs ih =>
    cases y with
    | nil => simp at hlen
    | cons d ds =>
      simp only [List.zipWith_cons_cons, List.all_cons, id, Bool.and_eq_true, beq_iff_eq] at h2
      obtain ⟨⟨hl, he⟩, hrest⟩ := h2
      have ihr := ih (by simpa using hlen) hrest
      rcases cell_eqv r c d hl he with ⟨h1, h2'⟩ | ⟨u, v, h1, h2', h3⟩
      · simp only [List.filterMap_cons, h1, h2']; exact ihr
      · simp only [List.filterMap_cons, h1, h2']
        unfold rowEqv at ihr ⊢
        simp only [Bool.and_eq_true, beq_iff_eq] at ihr
        simp [h3, ihr.1, ihr.2]

/-! ### looking a table up by its component set -/

theorem eq_of_nodup_map {α β} {f : α → β} {l : List α} (hn : (l.map f).Nodup) {a b : α}
    (ha : a ∈ l) (hb : b ∈ l) (h : f a = f b) : a = b := by
  induction l with
  | nil => simp at ha
  | cons x xs ih =>
    simp only [List.map_cons, List.nodup_cons] at hn
    rcases List.mem_cons.mp ha with rfl | ha'
    · rcases List.mem_cons.mp hb with rfl | hb'
      · rfl
      · exact absurd (List.mem_map.mpr ⟨b, hb', h.symm⟩) hn.1
    · rcases List.mem_cons.mp hb with rfl | hb'
      · exact absurd (List.mem_map.mpr ⟨a, ha', h⟩) hn.1
      · exact ih hn.2 ha' hb'

theorem lookupH_of_mem {l : List (Mask × Nat)} {m : Mask} {h : Nat} (hm : (m, h) ∈ l) :
    ∃ h', lookupH l m = some h' := by
  unfold lookupH
  cases hf : l.find? (fun p => p.1 == m) with
  | some p => exact ⟨p.2, rfl⟩
  | none =>
    have := List.find?_eq_none.mp hf (m, h) hm
    simp at this

/-- The table with component set `m`, found the way `World::eq` and `clone_from` find it. -/
theorem lookup_by_mask {w : World} (hi : Inv w) {x : Arch} (hx : x ∈ w.archs) :
    ∃ h, lookupH w.foreign x.mask = some h ∧ w.findArch h = some x := by
  obtain ⟨h, hl⟩ := lookupH_of_mem (hi.archOk hx).foreign
  obtain ⟨y, hfy, hym⟩ := lookup_mask (hi.foreign _ (lookupH_some hl))
  simp only at hfy hym
  have : y = x := eq_of_nodup_map hi.masks_nodup (findArch_some hfy).1 hx hym
  exact ⟨h, hl, by rw [hfy, this]⟩

theorem lookup_by_mask_some {w : World} (hi : Inv w) {m : Mask} {h : Nat} {y : Arch}
    (hl : lookupH w.foreign m = some h) (hf : w.findArch h = some y) : y.mask = m := by
  obtain ⟨y', hfy, hym⟩ := lookup_mask (hi.foreign _ (lookupH_some hl))
  simp only at hfy hym
  rw [hf] at hfy; cases hfy; exact hym

/-! ### slots -/

/-- Every active slot of `w` names an existing table. -/
def SlotsResolve (w : World) (ss : List Slot) : Prop :=
  ∀ s ∈ ss, ∀ l, s.loc = some l → ∃ m, w.maskOf l.arch = some m

theorem Inv.slotsResolve {w : World} (hi : Inv w) : SlotsResolve w w.alloc.slots := by
  intro s hs l hl
  obtain ⟨i, hi'⟩ := List.getElem?_of_mem hs
  have hlt : i < w.alloc.slots.length := (List.getElem?_eq_some_iff.mp hi').1
  obtain ⟨a, ha, _, _⟩ := ((slotOk_iff.mp (hi.slots i hlt)) s hi').2 l hl
  exact ⟨a.mask, by simp [World.maskOf, ha]⟩

theorem slotEqv_ok {a b : World} {s t : Slot}
    (ha : ∀ l, s.loc = some l → ∃ m, a.maskOf l.arch = some m)
    (hb : ∀ l, t.loc = some l → ∃ m, b.maskOf l.arch = some m) :
    ∃ r, World.slotEqv a b s t = .ok r := by
  unfold World.slotEqv
  by_cases hg : s.gen ≠ t.gen
  · simp [hg]
  · simp only [hg, if_false]
    cases hs : s.loc with
    | none => cases ht : t.loc <;> simp
    | some l =>
      cases ht : t.loc with
      | none => simp
      | some r =>
        obtain ⟨ma, hma⟩ := ha l hs
        obtain ⟨mb, hmb⟩ := hb r ht
        simp [hma, hmb]

theorem slotsEqv_ok {a b : World} (ss ts : List Slot) (ha : SlotsResolve a ss) (hb : SlotsResolve b ts) :
    ∃ r, World.slotsEqv a b ss ts = .ok r := by
  induction ss generalizing ts with
  | nil => cases ts <;> simp [World.slotsEqv]
  | cons s ss ih =>
    cases ts with
    | nil => simp [World.slotsEqv]
    | cons t ts =>
      obtain ⟨r, hr⟩ := slotEqv_ok (a := a) (b := b) (s := s) (t := t)
        (fun l hl => ha s (by simp) l hl) (fun l hl => hb t (by simp) l hl)
      simp only [World.slotsEqv, hr]
      cases r with
      | false => exact ⟨false, rfl⟩
      | true =>
        exact ih ts (fun s' hs' => ha s' (by simp [hs'])) (fun t' ht' => hb t' (by simp [ht']))

theorem slotEqv_symm {a b : World} {s t : Slot} {r : Bool} (h : World.slotEqv a b s t = .ok r) :
    World.slotEqv b a t s = .ok r := by
  unfold World.slotEqv at h ⊢
  by_cases hg : s.gen ≠ t.gen
  · have hg' : t.gen ≠ s.gen := fun e => hg e.symm
    rw [if_pos hg] at h
    rw [if_pos hg']; exact h
  · have hg' : ¬ t.gen ≠ s.gen := fun e => hg (fun e2 => e e2.symm)
    rw [if_neg hg] at h
    rw [if_neg hg']
    cases hs : s.loc with
    | none => cases ht : t.loc <;> simp_all
    | some l =>
      cases ht : t.loc with
      | none => simp_all
      | some q =>
        simp only [hs, ht] at h ⊢
        cases hma : a.maskOf l.arch with
        | none => simp [hma] at h
        | some ma =>
          cases hmb : b.maskOf q.arch with
          | none => simp [hma, hmb] at h
          | some mb =>
            simp only [hma, hmb, Out.ok.injEq] at h ⊢
            rw [← h]
            cases h1 : ma == mb <;> cases h2 : mb == ma <;> cases h3 : l.row == q.row <;>
              cases h4 : q.row == l.row <;> simp_all

theorem slotsEqv_symm {a b : World} (ss ts : List Slot) {r : Bool}
    (h : World.slotsEqv a b ss ts = .ok r) : World.slotsEqv b a ts ss = .ok r := by
  induction ss generalizing ts with
  | nil => cases ts <;> simp_all [World.slotsEqv]
  | cons s ss ih =>
    cases ts with
    | nil => simp_all [World.slotsEqv]
    | cons t ts =>
      simp only [World.slotsEqv] at h ⊢
      cases h1 : World.slotEqv a b s t with
      | ub e => simp [h1] at h
      | ok q =>
        rw [slotEqv_symm h1]
        cases q with
        | false => simp [h1] at h ⊢; exact h
        | true => simp only [h1] at h ⊢; exact ih ts h

theorem slotsEqv_refl {w : World} (ss : List Slot) (hr : SlotsResolve w ss) :
    World.slotsEqv w w ss ss = .ok true := by
  induction ss with
  | nil => rfl
  | cons s ss ih =>
    have h1 : World.slotEqv w w s s = .ok true := by
      unfold World.slotEqv
      simp only [ne_eq, not_true_eq_false, if_false]
      cases hs : s.loc with
      | none => rfl
      | some l =>
        obtain ⟨m, hm⟩ := hr s (by simp) l hs
        simp [hm]
    simp only [World.slotsEqv, h1]
    exact ih (fun s' hs' => hr s' (by simp [hs']))

/-- Pointwise content of `slotsEqv = true`. -/
theorem slotsEqv_true {a b : World} (ss ts : List Slot) (h : World.slotsEqv a b ss ts = .ok true) :
    ss.length = ts.length ∧ ∀ (i : Nat) (s t : Slot), ss[i]? = some s → ts[i]? = some t →
      World.slotEqv a b s t = .ok true := by
  induction ss generalizing ts with
  | nil =>
    cases ts with
    | nil => exact ⟨rfl, by simp⟩
    | cons _ _ => simp [World.slotsEqv] at h
  | cons s ss ih =>
    cases ts with
    | nil => simp [World.slotsEqv] at h
    | cons t ts =>
      simp only [World.slotsEqv] at h
      cases h1 : World.slotEqv a b s t with
      | ub e => simp [h1] at h
      | ok q =>
        cases q with
        | false => simp [h1] at h
        | true =>
          simp only [h1] at h
          obtain ⟨hl, hp⟩ := ih ts h
          refine ⟨by simp [hl], ?_⟩
          intro i s' t' hs ht
          cases i with
          | zero => simp at hs ht; subst hs; subst ht; exact h1
          | succ i => simp at hs ht; exact hp i s' t' hs ht

/-! ### the table clause of `World::eq` -/

theorem matchIn_iff {b : World} (hb : Inv b) {x : Arch} :
    World.matchIn b x = true ↔ ∃ y ∈ b.archs, y.mask = x.mask ∧ World.archEqv x y = true := by
  unfold World.matchIn
  constructor
  · intro h
    cases hl : lookupH b.foreign x.mask with
    | none => simp [hl] at h
    | some hd =>
      simp only [hl] at h
      cases hf : b.findArch hd with
      | none => simp [hf] at h
      | some y =>
        simp only [hf] at h
        exact ⟨y, (findArch_some hf).1, lookup_by_mask_some hb hl hf, h⟩
  · rintro ⟨y, hy, hm, he⟩
    obtain ⟨hd, hl, hf⟩ := lookup_by_mask hb hy
    rw [hm] at hl
    simp [hl, hf, he]

/-- Pigeonhole on duplicate-free lists. -/
theorem subset_of_nodup_length {α} [DecidableEq α] {l1 l2 : List α} (h1 : l1.Nodup)
    (hs : ∀ x ∈ l1, x ∈ l2) (hl : l2.length ≤ l1.length) : ∀ x ∈ l2, x ∈ l1 := by
  induction l1 generalizing l2 with
  | nil =>
    intro x hx
    have : l2 = [] := List.length_eq_zero_iff.mp (by simpa using hl)
    rw [this] at hx; cases hx
  | cons y ys ih =>
    simp only [List.nodup_cons] at h1
    have hy : y ∈ l2 := hs y (by simp)
    have hs' : ∀ x ∈ ys, x ∈ l2.erase y := by
      intro x hx
      have hne : x ≠ y := fun e => h1.1 (e ▸ hx)
      exact (List.mem_erase_of_ne hne).mpr (hs x (by simp [hx]))
    have hl' : (l2.erase y).length ≤ ys.length := by
      rw [List.length_erase_of_mem hy]
      simp at hl; omega
    intro x hx
    by_cases hxy : x = y
    · simp [hxy]
    · have := ih h1.2 hs' hl' x ((List.mem_erase_of_ne hxy).mpr hx)
      simp [this]

theorem match_symm {a b : World} (ha : Inv a) (hb : Inv b) (hlen : a.archs.length = b.archs.length)
    (h : ∀ x ∈ a.archs, ∃ y ∈ b.archs, y.mask = x.mask ∧ World.archEqv x y = true) :
    ∀ y ∈ b.archs, ∃ x ∈ a.archs, x.mask = y.mask ∧ World.archEqv y x = true := by
  have hsub : ∀ m ∈ a.archs.map (·.mask), m ∈ b.archs.map (·.mask) := by
    intro m hm
    obtain ⟨x, hx, rfl⟩ := List.mem_map.mp hm
    obtain ⟨y, hy, hym, _⟩ := h x hx
    exact List.mem_map.mpr ⟨y, hy, hym⟩
  have hback := subset_of_nodup_length ha.masks_nodup hsub (by simp [hlen])
  intro y hy
  obtain ⟨x, hx, hxm⟩ := List.mem_map.mp (hback y.mask (List.mem_map.mpr ⟨y, hy, rfl⟩))
  obtain ⟨y', hy', hym', he⟩ := h x hx
  have : y' = y := eq_of_nodup_map hb.masks_nodup hy' hy (by rw [hym', hxm])
  subst this
  exact ⟨x, hx, hxm, by rw [archEqv_symm]; exact he⟩

/-! ### `World::eq` -/

/-- `eqWorld` in terms of its clauses (no undefined behaviour under the invariant). -/
theorem eqWorld_eq {a b : World} (ha : Inv a) (hb : Inv b) :
    ∃ rs : Bool, World.slotsEqv a b a.alloc.slots b.alloc.slots = .ok rs ∧
      World.eqWorld a b = .ok (decide (a.len = b.len) && decide (a.archs.length = b.archs.length) &&
        a.archs.all (World.matchIn b) && rs && (a.alloc.free == b.alloc.free &&
          a.res.length == b.res.length && (List.zipWith Val.eqv a.res b.res).all id)) := by
  obtain ⟨rs, hrs⟩ := slotsEqv_ok a.alloc.slots b.alloc.slots ha.slotsResolve hb.slotsResolve
  refine ⟨rs, hrs, ?_⟩
  unfold World.eqWorld
  by_cases h1 : a.len ≠ b.len
  · simp [h1]
  · rw [if_neg h1]
    have h1' : a.len = b.len := by simpa using h1
    by_cases h2 : a.archs.length ≠ b.archs.length
    · simp [h2, h1']
    · rw [if_neg h2]
      have h2' : a.archs.length = b.archs.length := by simpa using h2
      cases h3 : a.archs.all (World.matchIn b) with
      | false => simp [h1', h2']
      | true =>
        simp only [Bool.not_true, Bool.false_eq_true, if_false, hrs]
        cases rs with
        | false => simp [h1', h2']
        | true => simp [h1', h2']

theorem eqWorld_ok {a b : World} (ha : Inv a) (hb : Inv b) : ∃ r, World.eqWorld a b = .ok r := by
  obtain ⟨rs, _, h⟩ := eqWorld_eq ha hb
  exact ⟨_, h⟩

/-- **Reflexivity.** -/
theorem eqWorld_refl {w : World} (hi : Inv w) : World.eqWorld w w = .ok true := by
  obtain ⟨rs, hrs, h⟩ := eqWorld_eq hi hi
  rw [slotsEqv_refl _ hi.slotsResolve] at hrs
  cases hrs
  rw [h]
  have hall : w.archs.all (World.matchIn w) = true := by
    apply List.all_eq_true.mpr
    intro x hx
    exact (matchIn_iff hi).mpr ⟨x, hx, rfl, archEqv_refl x⟩
  have hres := rowEqv_refl w.res
  unfold rowEqv at hres
  simp only [Bool.and_eq_true, beq_iff_eq] at hres
  rw [hall, hres.2]
  simp

/-- The clauses of `eqWorld a b = true`. -/
theorem eqWorld_true_iff {a b : World} (ha : Inv a) (hb : Inv b) :
    World.eqWorld a b = .ok true ↔
      a.len = b.len ∧ a.archs.length = b.archs.length ∧
      (∀ x ∈ a.archs, ∃ y ∈ b.archs, y.mask = x.mask ∧ World.archEqv x y = true) ∧
      World.slotsEqv a b a.alloc.slots b.alloc.slots = .ok true ∧
      a.alloc.free = b.alloc.free ∧ rowEqv a.res b.res = true := by
  obtain ⟨rs, hrs, h⟩ := eqWorld_eq ha hb
  rw [h, hrs]
  simp only [Out.ok.injEq, Bool.and_eq_true, decide_eq_true_eq, beq_iff_eq, List.all_eq_true, rowEqv]
  constructor
  · rintro ⟨⟨⟨⟨h1, h2⟩, h3⟩, h4⟩, ⟨h5, h6⟩, h7⟩
    exact ⟨h1, h2, fun x hx => (matchIn_iff hb).mp (h3 x hx), h4, h5, h6, h7⟩
  · rintro ⟨h1, h2, h3, h4, h5, h6, h7⟩
    exact ⟨⟨⟨⟨h1, h2⟩, fun x hx => (matchIn_iff hb).mpr (h3 x hx)⟩, h4⟩, ⟨h5, h6⟩, h7⟩

theorem eqWorld_true_symm {a b : World} (ha : Inv a) (hb : Inv b)
    (h : World.eqWorld a b = .ok true) : World.eqWorld b a = .ok true := by
  obtain ⟨h1, h2, h3, h4, h5, h6⟩ := (eqWorld_true_iff ha hb).mp h
  exact (eqWorld_true_iff hb ha).mpr
    ⟨h1.symm, h2.symm, match_symm ha hb h2 h3, slotsEqv_symm _ _ h4, h5.symm,
      by rw [rowEqv_symm]; exact h6⟩

/-- **Symmetry.** -/
theorem eqWorld_symm {a b : World} (ha : Inv a) (hb : Inv b) :
    World.eqWorld a b = World.eqWorld b a := by
  obtain ⟨r1, h1⟩ := eqWorld_ok ha hb
  obtain ⟨r2, h2⟩ := eqWorld_ok hb ha
  rw [h1, h2]
  cases r1 with
  | true => rw [eqWorld_true_symm ha hb h1] at h2; cases h2; rfl
  | false =>
    cases r2 with
    | false => rfl
    | true => rw [eqWorld_true_symm hb ha h2] at h1; cases h1

/-! ### soundness with respect to the map view -/

/-- Two optional rows are equivalent: both absent, or both present with equivalent values. -/
def entEqv : Option (List Val) → Option (List Val) → Bool
  | some x, some y => rowEqv x y
  | none, none => true
  | _, _ => false

theorem get_none_of_slot_none {al : Alloc} {id : Ident} (h : al.slots[id.index]? = none) :
    al.get id = none := by
  unfold Alloc.get; rw [h]

/-- **Soundness**: worlds that compare equal hold the same live identifiers with equivalent
component values, the same number of entities and equivalent resources. -/
theorem eqWorld_sound {a b : World} (ha : Inv a) (hb : Inv b) (h : World.eqWorld a b = .ok true) :
    a.len = b.len ∧ rowEqv a.res b.res = true ∧
    ∀ id, entEqv (a.entity id) (b.entity id) = true := by
  obtain ⟨h1, h2, h3, h4, h5, h6⟩ := (eqWorld_true_iff ha hb).mp h
  refine ⟨h1, h6, ?_⟩
  obtain ⟨hlen, hpt⟩ := slotsEqv_true _ _ h4
  intro id
  cases hsa : a.alloc.slots[id.index]? with
  | none =>
    have hsb : b.alloc.slots[id.index]? = none := by
      rw [List.getElem?_eq_none_iff] at hsa ⊢; omega
    rw [entity_none_of_dead (get_none_of_slot_none hsa), entity_none_of_dead (get_none_of_slot_none hsb)]
    rfl
  | some s =>
    have hlt : id.index < b.alloc.slots.length := by
      rw [← hlen]; exact (List.getElem?_eq_some_iff.mp hsa).1
    have hsb : b.alloc.slots[id.index]? = some b.alloc.slots[id.index] := List.getElem?_eq_getElem hlt
    generalize b.alloc.slots[id.index] = t at hsb
    have hst := hpt id.index s t hsa hsb
    unfold World.slotEqv at hst
    by_cases hg : s.gen ≠ t.gen
    · rw [if_pos hg] at hst; cases hst
    · rw [if_neg hg] at hst
      have hg' : s.gen = t.gen := by simpa using hg
      by_cases hgi : s.gen = id.gen
      · cases hsl : s.loc with
        | none =>
          cases htl : t.loc with
          | some q => simp [hsl, htl] at hst
          | none =>
            have g1 : a.alloc.get id = none := by unfold Alloc.get; rw [hsa]; simp [hgi, hsl]
            have g2 : b.alloc.get id = none := by unfold Alloc.get; rw [hsb]; simp [← hg', hgi, htl]
            rw [entity_none_of_dead g1, entity_none_of_dead g2]; rfl
        | some l =>
          cases htl : t.loc with
          | none => simp [hsl, htl] at hst
          | some q =>
            simp only [hsl, htl] at hst
            have g1 : a.alloc.get id = some l := by unfold Alloc.get; rw [hsa]; simp [hgi, hsl]
            have g2 : b.alloc.get id = some q := by unfold Alloc.get; rw [hsb]; simp [← hg', hgi, htl]
            obtain ⟨xa, la, hxa⟩ := ha.liveAt g1
            obtain ⟨yb, lb, hyb⟩ := hb.liveAt g2
            have m1 : a.maskOf l.arch = some xa.mask := by simp [World.maskOf, ← hxa, la.find]
            have m2 : b.maskOf q.arch = some yb.mask := by simp [World.maskOf, ← hyb, lb.find]
            simp only [m1, m2, Out.ok.injEq, Bool.and_eq_true, beq_iff_eq] at hst
            obtain ⟨hmask, hrow⟩ := hst
            obtain ⟨y, hy, hym, he⟩ := h3 xa la.mem
            have : y = yb := eq_of_nodup_map hb.masks_nodup hy lb.mem (by rw [hym, hmask])
            subst this
            rw [entity_of_liveAt la, entity_of_liveAt lb, ← hrow]
            unfold World.archEqv at he
            simp only [Bool.and_eq_true] at he
            exact colsEqv_row he.2 l.row
      · have g1 : a.alloc.get id = none := by unfold Alloc.get; rw [hsa]; simp [hgi]
        have g2 : b.alloc.get id = none := by
          unfold Alloc.get; rw [hsb]
          have : t.gen ≠ id.gen := by rw [← hg']; exact hgi
          simp [this]
        rw [entity_none_of_dead g1, entity_none_of_dead g2]; rfl

end Brood
