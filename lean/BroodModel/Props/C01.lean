/-
  C01 — World behaves as a map from live identifiers to component sets.

  `World.entity w id` is the map a user has in mind (the values stored for `id`, in registry
  order, `none` when `id` is not live).  The theorems say how each public operation changes that
  map and that nothing else changes — for every world satisfying the invariant, hence (by
  `run_inv`) for every world reachable by any history — and lift this to whole histories as a
  refinement of the reference map `Ref`.

  `clone`, `clone_from` and serialize+deserialize involve a second world; `C01_copies` collects
  their map-level statements (proved in C10 / C06), and `C01_reachable` states the map view's
  consistency for every world reachable through any mix of these operations.
-/
import BroodModel.Lemmas.Entity
import BroodModel.Lemmas.Reach

namespace Brood

/-! ### per-operation statements (with the results the operation returns) -/

/-- `insert` adds exactly one entity under a previously dead identifier; nothing else changes. -/
theorem C01_insert {w w' : World} {shape : List Nat} {vals : List Val} {nid : Ident} (hi : Inv w)
    (e : w.insert shape vals = .ok (w', nid)) :
    w.entity nid = none ∧ w'.entity nid = some (World.canonVals w.n shape vals) ∧
    (∀ id', id' ≠ nid → w'.entity id' = w.entity id') ∧ w'.len = w.len + 1 :=
  insert_entity hi e

/-- `extend` returns one identifier per batch row, in batch order, all distinct and previously
dead; row `k` is stored under identifier `k`; nothing else changes. -/
theorem C01_extend {w w' : World} {shape : List Nat} {rows : List (List Val)} {ids : List Ident}
    (hi : Inv w) (e : w.extend shape rows = .ok (w', ids)) :
    ids.length = rows.length ∧ ids.Nodup ∧ (∀ id ∈ ids, w.entity id = none) ∧
    (∀ (k : Nat) (id : Ident) (r : List Val), ids[k]? = some id → rows[k]? = some r →
      w'.entity id = some (World.canonVals w.n shape r)) ∧
    (∀ id', id' ∉ ids → w'.entity id' = w.entity id') ∧ w'.len = w.len + rows.length :=
  extend_entity hi e

/-- `remove` deletes exactly that entity (a stale or unknown identifier: nothing). -/
theorem C01_remove {w w' : World} {id : Ident} {drops : List Val} (hi : Inv w)
    (e : w.remove id = .ok (w', drops)) :
    w'.entity id = none ∧ (∀ id', id' ≠ id → w'.entity id' = w.entity id') ∧
    w'.len + (if (w.entity id).isSome then 1 else 0) = w.len :=
  let ⟨a, b, _, d⟩ := remove_entity hi e
  ⟨a, b, d⟩

theorem C01_clear {w w' : World} {order : List Mask} {drops : List Val} (hi : Inv w)
    (e : w.clear order = .ok (w', drops)) : (∀ id, w'.entity id = none) ∧ w'.len = 0 :=
  clear_entity hi e

theorem C01_entry_add {w w' : World} {id : Ident} {c : Nat} {v : Val} {res : Option (List Val)}
    (hi : Inv w) (hc : c < w.n) (hv : v.ty = c) (e : w.entryAdd id c v = .ok (w', res)) :
    w'.entity id = (w.entity id).map (Spec.insertVal v) ∧
    (∀ id', id' ≠ id → w'.entity id' = w.entity id') ∧ w'.len = w.len :=
  let ⟨a, b, c, _⟩ := entryAdd_entity hi hc hv e
  ⟨a, b, c⟩

theorem C01_entry_remove {w w' : World} {id : Ident} {c : Nat} {res : Option (List Val)}
    (hi : Inv w) (e : w.entryRemove id c = .ok (w', res)) :
    w'.entity id = (w.entity id).map (fun vs => vs.filter (fun v => v.ty ≠ c)) ∧
    (∀ id', id' ≠ id → w'.entity id' = w.entity id') ∧ w'.len = w.len :=
  let ⟨a, b, c, _⟩ := entryRemove_entity hi e
  ⟨a, b, c⟩

theorem C01_write {w w' : World} {id : Ident} {c : Nat} {v : Val} {res : Option (List Val)}
    (hi : Inv w) (hv : v.ty = c) (e : w.write id c v = .ok (w', res)) :
    w'.entity id = (w.entity id).map
      (fun vs => if vs.any (fun x => x.ty == c) then Spec.insertVal v vs else vs) ∧
    (∀ id', id' ≠ id → w'.entity id' = w.entity id') ∧ w'.len = w.len :=
  write_entity hi hv e

theorem C01_reserve_shrink {w : World} (hi : Inv w) :
    (∀ shape w', w.reserve shape = .ok w' → (∀ id, w'.entity id = w.entity id) ∧ w'.len = w.len) ∧
    ((∀ id, w.shrinkToFit.entity id = w.entity id) ∧ w.shrinkToFit.len = w.len) :=
  ⟨fun _ _ e => reserve_entity hi e, shrink_entity hi⟩

/-- `len()` is the number of live identifiers and `is_empty()` says there is none. -/
theorem C01_len {w : World} (hi : Inv w) :
    (∃ l : List Ident, l.Nodup ∧ l.length = w.len ∧ ∀ id, id ∈ l ↔ (w.entity id).isSome) ∧
    (w.isEmpty = true ↔ ∀ id, w.entity id = none) :=
  ⟨⟨w.stored, len_counts_entities hi⟩, isEmpty_iff hi⟩

/-- `contains` / `entry` agree with the map. -/
theorem C01_contains {w : World} (hi : Inv w) (id : Ident) :
    w.contains id = (w.entity id).isSome ∧ w.hasEntry id = (w.entity id).isSome := by
  have h1 := entity_isSome_iff hi (id := id)
  have h2 := Alloc.isActive_iff_get (a := w.alloc) (id := id)
  unfold World.contains World.hasEntry
  constructor
  · cases ha : w.alloc.isActive id <;> cases he : (w.entity id).isSome <;> simp_all
  · cases ha : (w.alloc.get id).isSome <;> cases he : (w.entity id).isSome <;> simp_all

/-! ### the order components are written in does not matter -/

theorem lookup_some_iff {l : List (Nat × Val)} (hn : (l.map (·.1)).Nodup) {c : Nat} {v : Val} :
    l.lookup c = some v ↔ (c, v) ∈ l := by
  induction l with
  | nil => simp
  | cons p ps ih =>
    obtain ⟨k, x⟩ := p
    simp only [List.map_cons, List.nodup_cons] at hn
    simp only [List.lookup_cons, List.mem_cons, Prod.mk.injEq]
    by_cases hck : c = k
    · subst hck
      simp only [beq_self_eq_true, Option.some.injEq, true_and]
      constructor
      · intro h; exact Or.inl h.symm
      · rintro (h | h)
        · exact h.symm
        · exact absurd (List.mem_map.mpr ⟨(c, v), h, rfl⟩) hn.1
    · have : (c == k) = false := by simpa using hck
      simp only [this, hck, false_and, false_or]
      exact ih hn.2

/-- Writing the same components in another order (`entity!(A, B)` vs `entity!(B, A)`) gives the
same canonical row, hence the same table, the same identifier and the same world. -/
theorem C01_written_order_irrelevant {n : Nat} {shape shape' : List Nat} {vals vals' : List Val}
    (hn : shape.Nodup) (hl : shape.length = vals.length) (hl' : shape'.length = vals'.length)
    (hp : (shape.zip vals).Perm (shape'.zip vals')) :
    World.canonVals n shape vals = World.canonVals n shape' vals' ∧
    Mask.ofShape n shape = Mask.ofShape n shape' := by
  have hk : (shape.zip vals).map (·.1) = shape := List.map_fst_zip (by omega)
  have hk' : (shape'.zip vals').map (·.1) = shape' := List.map_fst_zip (by omega)
  have hps : shape.Perm shape' := by
    have := hp.map (·.1); rwa [hk, hk'] at this
  have hn1 : ((shape.zip vals).map (·.1)).Nodup := by rw [hk]; exact hn
  have hn2 : ((shape'.zip vals').map (·.1)).Nodup := by rw [hk']; exact hps.nodup_iff.mp hn
  constructor
  · unfold World.canonVals
    apply filterMap_congr'
    intro c _
    apply Option.ext
    intro v
    rw [lookup_some_iff hn1, lookup_some_iff hn2]
    exact hp.mem_iff
  · unfold Mask.ofShape
    apply List.map_congr_left
    intro c _
    have : c ∈ shape ↔ c ∈ shape' := hps.mem_iff
    cases h1 : shape.contains c <;> cases h2 : shape'.contains c <;> simp_all

theorem C01_insert_order_irrelevant {w : World} {shape shape' : List Nat} {vals vals' : List Val}
    (hn : shape.Nodup) (hl : shape.length = vals.length) (hl' : shape'.length = vals'.length)
    (hp : (shape.zip vals).Perm (shape'.zip vals')) :
    w.insert shape vals = w.insert shape' vals' := by
  obtain ⟨h1, h2⟩ := C01_written_order_irrelevant (n := w.n) hn hl hl' hp
  unfold World.insert
  rw [h1, h2]

/-! ### refinement over histories -/

/-- The reference: a finite map from identifiers to rows. -/
abbrev EMap := Ident → Option (List Val)

def EMap.upd (m : EMap) (id : Ident) (x : Option (List Val)) : EMap := fun j => if j = id then x else m j

/-- One step of the reference map.  Fresh identifiers are chosen by the implementation; the
reference only demands that they were not live. -/
def RefStep (n : Nat) (m m' : EMap) : Op → Prop
  | .insert shape vals =>
      ∃ nid, m nid = none ∧ m' = m.upd nid (some (World.canonVals n shape vals))
  | .extend shape rows =>
      ∃ ids : List Ident, ids.length = rows.length ∧ ids.Nodup ∧ (∀ id ∈ ids, m id = none) ∧
        (∀ (k : Nat) (id : Ident) (r : List Val), ids[k]? = some id → rows[k]? = some r →
          m' id = some (World.canonVals n shape r)) ∧
        (∀ id', id' ∉ ids → m' id' = m id')
  | .remove id => m' = m.upd id none
  | .clear _ => m' = fun _ => none
  | .add id _ v => m' = m.upd id ((m id).map (Spec.insertVal v))
  | .del id c => m' = m.upd id ((m id).map (fun vs => vs.filter (fun v => v.ty ≠ c)))
  | .write id c v =>
      m' = m.upd id ((m id).map
        (fun vs => if vs.any (fun x => x.ty == c) then Spec.insertVal v vs else vs))
  | .reserve _ => m' = m
  | .shrink => m' = m

inductive RefRun (n : Nat) : EMap → List Op → EMap → Prop
  | nil (m : EMap) : RefRun n m [] m
  | cons {m m1 m' : EMap} {op : Op} {ops : List Op} :
      RefStep n m m1 op → RefRun n m1 ops m' → RefRun n m (op :: ops) m'

theorem upd_ext {m m' : EMap} {id : Ident} {x : Option (List Val)} (h1 : m' id = x)
    (h2 : ∀ id', id' ≠ id → m' id' = m id') : m' = m.upd id x := by
  funext j
  unfold EMap.upd
  by_cases h : j = id
  · subst h; simp [h1]
  · simp [h, h2 j h]

/-- **Every step of the implementation is a step of the reference map.** -/
theorem C01_step_refines {w w' : World} (hi : Inv w) {op : Op} (hwt : op.wt w.n)
    (e : step w op = .ok w') : RefStep w.n w.entity w'.entity op := by
  cases op with
  | insert shape vals =>
    obtain ⟨nid, h⟩ := fstOut_ok e
    obtain ⟨p1, p2, p3, _⟩ := insert_entity hi h
    exact ⟨nid, p1, upd_ext p2 p3⟩
  | extend shape rows =>
    obtain ⟨ids, h⟩ := fstOut_ok e
    obtain ⟨q1, q2, q3, q4, q5, _⟩ := extend_entity hi h
    exact ⟨ids, q1, q2, q3, q4, q5⟩
  | remove id =>
    obtain ⟨d, h⟩ := fstOut_ok e
    obtain ⟨p1, p2, _, _⟩ := remove_entity hi h
    exact upd_ext p1 p2
  | clear order =>
    obtain ⟨d, h⟩ := fstOut_ok e
    exact funext (clear_entity hi h).1
  | add id c v =>
    obtain ⟨d, h⟩ := fstOut_ok e
    obtain ⟨p1, p2, _, _⟩ := entryAdd_entity hi hwt.1 hwt.2 h
    exact upd_ext p1 p2
  | del id c =>
    obtain ⟨d, h⟩ := fstOut_ok e
    obtain ⟨p1, p2, _, _⟩ := entryRemove_entity hi h
    exact upd_ext p1 p2
  | write id c v =>
    obtain ⟨d, h⟩ := fstOut_ok e
    obtain ⟨p1, p2, _⟩ := write_entity hi hwt h
    exact upd_ext p1 p2
  | reserve shape => exact funext (reserve_entity hi e).1
  | shrink =>
    simp only [step, Out.ok.injEq] at e
    subst e
    exact funext (shrink_entity hi).1

/-- **Refinement**: every history of admissible operations, started on the empty world, is a run
of the reference map ending in the map the final world denotes; and in that world `len()` is the
number of live identifiers. -/
theorem C01_refinement (n : Nat) (res : List Val) (ops : List Op) (hwt : ∀ op ∈ ops, op.wt n)
    {w : World} (h : run (World.init n res) ops = .ok w) :
    RefRun n (fun _ => none) ops w.entity ∧
    ∃ l : List Ident, l.Nodup ∧ l.length = w.len ∧ ∀ id, id ∈ l ↔ (w.entity id).isSome := by
  have key : ∀ (ops : List Op) (w0 : World), Inv w0 → w0.n = n → (∀ op ∈ ops, op.wt n) →
      run w0 ops = .ok w → RefRun n w0.entity ops w.entity := by
    intro ops
    induction ops with
    | nil =>
      intro w0 _ _ _ h0
      simp only [run, Out.ok.injEq] at h0
      subst h0
      exact RefRun.nil _
    | cons op ops ih =>
      intro w0 hi0 hn0 hw0 h0
      simp only [run] at h0
      cases hs : step w0 op with
      | ub x => simp [hs] at h0
      | ok w1 =>
        simp only [hs] at h0
        have hwt0 : op.wt w0.n := by rw [hn0]; exact hw0 op (by simp)
        have r1 := C01_step_refines hi0 hwt0 hs
        rw [hn0] at r1
        exact RefRun.cons r1
          (ih w1 (step_inv hi0 hs) (by rw [step_n hi0 hs, hn0]) (fun o ho => hw0 o (by simp [ho])) h0)
  have hinit : (World.init n res).entity = fun _ => none := by
    funext id; rfl
  refine ⟨?_, w.stored, len_counts_entities (run_inv (inv_init n res) ops h)⟩
  rw [← hinit]
  exact key ops _ (inv_init n res) rfl hwt h

/-- **Every reachable world** — any history over any number of worlds, including clones,
`clone_from` destinations and worlds deserialized from arbitrary input — is a consistent map:
`len()` is the number of live identifiers, `is_empty()` says there is none, `contains` / `entry`
agree with the map, and every admissible operation keeps behaving as the reference map says. -/
theorem C01_reachable {w : World} (h : Reachable w) :
    (∃ l : List Ident, l.Nodup ∧ l.length = w.len ∧ ∀ id, id ∈ l ↔ (w.entity id).isSome) ∧
    (w.isEmpty = true ↔ ∀ id, w.entity id = none) ∧
    (∀ id, w.contains id = (w.entity id).isSome) ∧
    (∀ op w', op.wt w.n → step w op = .ok w' → RefStep w.n w.entity w'.entity op) := by
  have hi := reachable_inv h
  exact ⟨(C01_len hi).1, (C01_len hi).2, fun id => (C01_contains hi id).1,
    fun op w' hwt e => C01_step_refines hi hwt e⟩

/-- **Copies hold the same map**: a clone and a `clone_from` destination hold exactly the
source's entities — same identifiers, copied values — with the same `len`, whatever the
destination held before. -/
theorem C01_copies {d s : World} (hd : Inv d) (hs : Inv s) (hn : d.n = s.n) (e next : Nat) :
    (∃ c, s.clone e next = .ok c ∧ c.len = s.len ∧
      ∀ id, c.entity id = (s.entity id).map (fun vs => vs.map (cloneVal e))) ∧
    (∃ fin drops, World.cloneFrom d s e = .ok (fin, drops) ∧ fin.len = s.len ∧
      ∀ id, fin.entity id = (s.entity id).map (fun vs => vs.map (cloneVal e))) := by
  obtain ⟨c, h1, _, _, h4, h5, _⟩ := clone_spec hs e next
  obtain ⟨fin, drops, g1, _, _, g4, _, g6⟩ := cloneFrom_spec hd hs hn e
  exact ⟨⟨c, h1, h4, h5⟩, ⟨fin, drops, g1, g4, g6⟩⟩

/-- Non-vacuity: the map of a concrete reachable world. -/
example :
    let w := run (World.init 3 [])
      [.insert [1, 0] [⟨1, 11⟩, ⟨0, 10⟩], .extend [2] [[⟨2, 20⟩], [⟨2, 21⟩]],
       .add ⟨0, 0⟩ 2 ⟨2, 22⟩, .del ⟨0, 0⟩ 1, .remove ⟨2, 0⟩]
    (match w with
      | .ok w => (w.entity ⟨0, 0⟩, w.entity ⟨1, 0⟩, w.entity ⟨2, 0⟩, w.len)
      | .ub _ => (none, none, none, 0)) =
    (some [⟨0, 10⟩, ⟨2, 22⟩], some [⟨2, 20⟩], none, 2) := by decide

end Brood

#print axioms Brood.C01_insert
#print axioms Brood.C01_extend
#print axioms Brood.C01_remove
#print axioms Brood.C01_clear
#print axioms Brood.C01_entry_add
#print axioms Brood.C01_entry_remove
#print axioms Brood.C01_write
#print axioms Brood.C01_reserve_shrink
#print axioms Brood.C01_len
#print axioms Brood.C01_contains
#print axioms Brood.C01_written_order_irrelevant
#print axioms Brood.C01_insert_order_irrelevant
#print axioms Brood.C01_step_refines
#print axioms Brood.C01_refinement
#print axioms Brood.C01_reachable
#print axioms Brood.C01_copies
