#!/usr/bin/env python3
"""Writes MANIFEST.json from the property table (so it is always consistent with ./check)."""
import json, os, sys
sys.path.insert(0, os.path.dirname(os.path.dirname(os.path.abspath(__file__))))
from checklib import props as P

VERIF = os.path.dirname(os.path.dirname(os.path.abspath(__file__)))
ALL = [json.loads(l)["id"] for l in open(os.path.join(VERIF, "properties.jsonl"))]

def main():
    checks = []
    for pid in ALL:
        if pid not in P.PROPS:
            continue
        s = P.PROPS[pid]
        checks.append({
            "property_id": pid,
            "quick_cmd": "./check %s --tier quick" % pid,
            "thorough_cmd": "./check %s --tier thorough" % pid,
            "evidence_file": "evidence/%s.json" % pid,
            "replay_cmd_template": "./check %s --replay {path}" % pid,
            "engine": "lean4-model+correspondence",
            "level_claimed": {"category": "proof", "text": s["level"], "design_ref": s.get("design", "DESIGN.md §7 " + pid)},
            "level_note": s["trust"],
            "technique": s["technique"],
        })
    na = [{"property_id": pid, "reason": P.NOT_APPLICABLE.get(pid, "check not built yet in this session; planned in DESIGN.md §7")} for pid in ALL if pid not in P.PROPS]
    m = {
        "version": 1,
        "setup_cmd": "./setup.sh",
        "hooks": {
            "guard": "--cfg brood_verif",
            "enable": "harness/.cargo/config.toml sets rustflags = [\"--cfg\", \"brood_verif\"]; the harness depends on /repo by path with features serde,rayon",
            "baseline_off_cmd": "cd /repo && cargo test --workspace --no-fail-fast --offline",
            "source_commits": P.HOOK_COMMITS,
            "add_only": True,
        },
        "engines": [
            {"name": "lean4-model+correspondence", "path": "lean/ harness/ translator/ check checklib/",
             "serves_properties": [c["property_id"] for c in checks],
             "kind_free_text": "Lean 4 model of brood with machine-checked theorems (lean/BroodModel/Props), tied to /repo on every run by a translator (translator/ -> lean/BroodModel/Generated) and a differential correspondence check (Rust harness on the real crate vs. compiled Lean driver)"},
        ],
        "checks": checks,
        "not_applicable": na,
        "notes": "All checks rebuild the harness from /repo's working tree with --cfg brood_verif and re-elaborate the property's theorems with the Lean kernel on every run. known_findings.json lists recorded findings and fixed defects.",
    }
    json.dump(m, open(os.path.join(VERIF, "MANIFEST.json"), "w"), indent=1)
    print("MANIFEST.json: %d checks, %d not_applicable" % (len(checks), len(na)))

if __name__ == "__main__":
    main()
