/-
  Totality: on a world satisfying the invariant, every public operation whose arguments the type
  system admits runs to completion — none of the `*_unchecked` / raw-pointer preconditions the
  model checks (`Out.ub`) is ever violated.
-/
import BroodModel.Lemmas.Ops
import BroodModel.Lemmas.Mask

set_option linter.unusedSimpArgs false
set_option linter.unusedVariables false

namespace Brood
open Alloc

/-! ### finding / creating a table -/

theorem archForEntity_ok {w : World} (hi : Inv w) (m : Mask) :
    ∃ w1 hd, w.archForEntity m = .ok (w1, hd) := by
  unfold World.archForEntity
  cases ht : lookupH w.typeIds m with
  | some h =>
    obtain ⟨a, hfa, _⟩ := lookup_mask (hi.typeIds _ (lookupH_some ht))
    simp only at hfa
    simp only [hfa]
    exact ⟨_, _, rfl⟩
  | none =>
    cases hf : lookupH w.foreign m with
    | some h =>
      obtain ⟨a, hfa, _⟩ := lookup_mask (hi.foreign _ (lookupH_some hf))
      simp only at hfa
      simp only [hfa]
      exact ⟨_, _, rfl⟩
    | none => exact ⟨_, _, rfl⟩

theorem archForMask_ok {w : World} (hf : ∀ p ∈ w.foreign, lookupOk w p = true) (m : Mask) :
    ∃ w1 hd, w.archForMask m = .ok (w1, hd) := by
  unfold World.archForMask
  cases hl : lookupH w.foreign m with
  | some h =>
    obtain ⟨a, hfa, _⟩ := lookup_mask (hf _ (lookupH_some hl))
    simp only at hfa
    simp only [hfa]
    exact ⟨_, _, rfl⟩
  | none => exact ⟨_, _, rfl⟩

/-! ### pushing rows -/

theorem pushRow_ok {a : Arch} {cv : List Val} (id : Ident) (h1 : cv.map (·.ty) = a.mask.comps)
    (h2 : a.cols.length = a.mask.count) : ∃ a', a.pushRow cv id = .ok a' := by
  unfold Arch.pushRow
  have hl : cv.length = a.cols.length := by
    rw [h2, ← comps_length, ← h1, List.length_map]
  simp [h1, hl]

theorem pushRow_shape {a a' : Arch} {cv : List Val} {id : Ident} (h : a.pushRow cv id = .ok a') :
    a'.mask = a.mask ∧ a'.cols.length = a.cols.length := by
  unfold Arch.pushRow at h
  split at h; · simp at h
  split at h; · simp at h
  rename_i _ hl
  simp at h; subst h
  simp at hl
  simp [List.length_zipWith, hl]

theorem pushRows_ok {n : Nat} {shape : List Nat} (rows : List (List Val))
    (hs : ∀ r ∈ rows, World.shapeOk n shape r = true) :
    ∀ (a : Arch) (ids : List Ident), ids.length = rows.length → a.mask = Mask.ofShape n shape →
      a.cols.length = a.mask.count → ∃ a', World.pushRows n shape a ids rows = .ok a' := by
  induction rows with
  | nil => intro a ids _ _ _; exact ⟨a, by cases ids <;> rfl⟩
  | cons r rows ih =>
    intro a ids hl hm hc
    cases ids with
    | nil => simp at hl
    | cons id ids =>
      obtain ⟨a1, h1⟩ := pushRow_ok id (cv := World.canonVals n shape r)
        (by rw [canonVals_tys (hs r (by simp)), hm]) hc
      obtain ⟨hm1, hc1⟩ := pushRow_shape h1
      obtain ⟨a', h2⟩ := ih (fun x hx => hs x (by simp [hx])) a1 ids (by simpa using hl)
        (by rw [hm1, hm]) (by rw [hc1, hm1, hc])
      exact ⟨a', by simp [World.pushRows, h1, h2]⟩

/-! ### `insert`, `extend`, `reserve` -/

theorem insert_ok {w : World} (hi : Inv w) {shape : List Nat} {vals : List Val}
    (hs : World.shapeOk w.n shape vals = true) : ∃ w' id, w.insert shape vals = .ok (w', id) := by
  obtain ⟨w1, hd, h1⟩ := archForEntity_ok hi (Mask.ofShape w.n shape)
  have af := archForEntity_inv hi (ofShape_length _ _) h1
  obtain ⟨a, hfa, hm, _⟩ := af.found
  obtain ⟨al, nid, h3⟩ := allocate_ok af.inv.ainv ⟨hd, a.ids.length⟩
  have aok := af.inv.archOk (findArch_some hfa).1
  obtain ⟨a', h4⟩ := pushRow_ok nid (cv := World.canonVals w.n shape vals)
    (by rw [canonVals_tys hs, hm]) aok.cols_len
  unfold World.insert
  simp only [h1, World.getArch, hfa, Out.ofOption_some, h3, h4]
  exact ⟨_, _, rfl⟩

theorem extend_ok {w : World} (hi : Inv w) {shape : List Nat} {rows : List (List Val)}
    (hs : ∀ r ∈ rows, World.shapeOk w.n shape r = true) :
    ∃ w' ids, w.extend shape rows = .ok (w', ids) := by
  obtain ⟨w1, hd, h1⟩ := archForEntity_ok hi (Mask.ofShape w.n shape)
  have af := archForEntity_inv hi (ofShape_length _ _) h1
  obtain ⟨a, hfa, hm, _⟩ := af.found
  obtain ⟨al, ids, h3⟩ := allocateBatch_ok af.inv.ainv hd a.ids.length rows.length
  have hlen := (allocateBatch_inv af.inv.ainv h3).2
  have aok := af.inv.archOk (findArch_some hfa).1
  obtain ⟨a', h4⟩ := pushRows_ok rows hs a ids hlen hm aok.cols_len
  unfold World.extend
  simp only [h1, World.getArch, hfa, Out.ofOption_some, h3, h4]
  exact ⟨_, _, rfl⟩

theorem reserve_ok {w : World} (hi : Inv w) (shape : List Nat) : ∃ w', w.reserve shape = .ok w' := by
  obtain ⟨w1, hd, h1⟩ := archForEntity_ok hi (Mask.ofShape w.n shape)
  exact ⟨w1, by simp [World.reserve, h1]⟩

/-! ### cells and rows of a well-formed table -/

theorem filterMap_eq_map {α β} {f : α → Option β} {g : α → β} {l : List α}
    (h : ∀ x ∈ l, f x = some (g x)) : l.filterMap f = l.map g := by
  induction l with
  | nil => rfl
  | cons x xs ih =>
    simp only [List.filterMap_cons, h x (by simp), List.map_cons]
    rw [ih (fun y hy => h y (by simp [hy]))]

/-- The cell of a present component exists and holds a value of that component's type. -/
theorem cell_ok {w : World} {a : Arch} (ok : ArchOk w a) {c r : Nat} (hc : a.mask.has c = true)
    (hr : r < a.ids.length) :
    ∃ col old, a.cols[colIndex a.mask c]? = some col ∧ col[r]? = some old ∧ old.ty = c := by
  have hk : colIndex a.mask c < a.cols.length := by rw [ok.cols_len]; exact colIndex_lt_count hc
  obtain ⟨hlen, hty⟩ := ok.cols_ok _ _ c (List.getElem?_eq_getElem hk) (colIndex_comps hc)
  have hr' : r < (a.cols[colIndex a.mask c]).length := by rw [hlen]; exact hr
  exact ⟨_, _, List.getElem?_eq_getElem hk, List.getElem?_eq_getElem hr',
    hty _ (List.getElem_mem hr')⟩

/-- A stored row has exactly the component types of its table, in registry order. -/
theorem row_tys {w : World} {a : Arch} (ok : ArchOk w a) {r : Nat} (hr : r < a.ids.length) :
    (a.cols.filterMap (fun c => c[r]?)).map (·.ty) = a.mask.comps := by
  have hsome : ∀ c ∈ a.cols, c[r]? = some (c.getD r default) := by
    intro c hc
    have : r < c.length := by rw [ok.cols_all_len c hc]; exact hr
    simp [List.getD, List.getElem?_eq_getElem this]
  rw [filterMap_eq_map hsome, List.map_map]
  apply List.ext_getElem?
  intro k
  by_cases hk : k < a.cols.length
  · have hk2 : k < a.mask.comps.length := by rw [comps_length, ← ok.cols_len]; exact hk
    obtain ⟨hlen, hty⟩ := ok.cols_ok k _ _ (List.getElem?_eq_getElem hk) (List.getElem?_eq_getElem hk2)
    have hr' : r < (a.cols[k]).length := by rw [hlen]; exact hr
    rw [List.getElem?_map, List.getElem?_eq_getElem hk, List.getElem?_eq_getElem hk2]
    simp only [Option.map_some, Function.comp, Option.some.injEq]
    have : (a.cols[k]).getD r default = (a.cols[k])[r] := by
      simp [List.getD, List.getElem?_eq_getElem hr']
    rw [this]
    exact hty _ (List.getElem_mem hr')
  · have hk2 : ¬ k < a.mask.comps.length := by rw [comps_length, ← ok.cols_len]; exact hk
    rw [List.getElem?_eq_none (by simpa using hk), List.getElem?_eq_none (by simpa using hk2)]

/-! ### `write` -/

theorem write_ok {w : World} (hi : Inv w) (id : Ident) {c : Nat} {v : Val} (hv : v.ty = c) :
    ∃ w' r, w.write id c v = .ok (w', r) := by
  unfold World.write
  cases hg : w.alloc.get id with
  | none => exact ⟨_, _, rfl⟩
  | some loc =>
    obtain ⟨a, la, hh⟩ := hi.liveAt hg
    simp only [← hh, la.find]
    by_cases hc : a.mask.has c = true
    · have hr : loc.row < a.ids.length := (List.getElem?_eq_some_iff.mp la.row).1
      obtain ⟨col, old, h1, h2, h3⟩ := cell_ok la.ok hc hr
      simp only [hc, if_true, h1, h2]
      have : ¬ (old.ty ≠ c ∨ v.ty ≠ c) := by simp [h3, hv]
      simp only [this, if_false]
      exact ⟨_, _, rfl⟩
    · simp only [hc, Bool.false_eq_true, if_false]
      exact ⟨_, _, rfl⟩

/-! ### moving a row between tables -/

theorem map_insertAt {α β} (f : α → β) (l : List α) (k : Nat) (x : α) :
    (World.insertAt l k x).map f = World.insertAt (l.map f) k (f x) := by
  simp [World.insertAt, List.map_take, List.map_drop]

theorem move_ok {w : World} (hi : Inv w) {id : Ident} {a : Arch} {r : Nat} (la : LiveAt w id a r)
    {last : Ident} (hlast : a.ids[a.ids.length - 1]? = some last)
    {m' : Mask} (hm : m'.length = w.n) {cv : List Val} (hcv : cv.map (·.ty) = m'.comps) :
    ∃ w2 h' t t' al,
      ({ (w.setArch (removedArch a r)) with
          alloc := fixAlloc w.alloc last a.handle r a.ids.length } : World).archForMask m' = .ok (w2, h') ∧
      w2.getArch h' = .ok t ∧ t.pushRow cv id = .ok t' ∧
      w2.alloc.setLoc id ⟨h', t.ids.length⟩ = .ok al := by
  have hrem := remove_eq hi la hlast
  have hir : Inv ({ (w.setArch (removedArch a r)) with
      alloc := removeAlloc w.alloc id last a.handle r a.ids.length, len := w.len - 1 } : World) :=
    remove_inv hi hrem
  obtain ⟨u2, h', hu⟩ := archForMask_ok hir.foreign m'
  have af := archForMask_inv hir (by simpa [World.setArch] using hm) hu
  obtain ⟨hfm, hal2, hlen2⟩ := archForMask_frame (fixAlloc w.alloc last a.handle r a.ids.length) w.len hu
  obtain ⟨t, hft, htm, _⟩ := af.found
  have tok := af.inv.archOk (findArch_some hft).1
  obtain ⟨t', hp⟩ := pushRow_ok id (cv := cv) (by rw [hcv, htm]) tok.cols_len
  have hslot_id : w.alloc.slots[id.index]? = some ⟨id.gen, some ⟨a.handle, r⟩⟩ := la.ok.rows r id la.row
  have hid_lt : id.index < w.alloc.slots.length := (List.getElem?_eq_some_iff.mp hslot_id).1
  have hfix_len : (fixAlloc w.alloc last a.handle r a.ids.length).slots.length = w.alloc.slots.length := by
    simp [fixAlloc]; split <;> simp
  have hsl : ∃ s, (fixAlloc w.alloc last a.handle r a.ids.length).slots[id.index]? = some s :=
    ⟨_, List.getElem?_eq_getElem (by rw [hfix_len]; exact hid_lt)⟩
  obtain ⟨s, hs⟩ := hsl
  refine ⟨{ u2 with alloc := fixAlloc w.alloc last a.handle r a.ids.length, len := w.len }, h', t, t',
    ⟨(fixAlloc w.alloc last a.handle r a.ids.length).slots.set id.index ⟨s.gen, some ⟨h', t.ids.length⟩⟩,
     (fixAlloc w.alloc last a.handle r a.ids.length).free⟩, hfm, ?_, hp, ?_⟩
  · show Out.ofOption _ (u2.findArch h') = _
    rw [hft]; rfl
  · show (fixAlloc w.alloc last a.handle r a.ids.length).setLoc id ⟨h', t.ids.length⟩ = _
    simp only [Alloc.setLoc, hs]

theorem entryAdd_ok {w : World} (hi : Inv w) (id : Ident) {c : Nat} {v : Val} (hc : c < w.n)
    (hv : v.ty = c) : ∃ w' r, w.entryAdd id c v = .ok (w', r) := by
  unfold World.entryAdd
  cases hg : w.alloc.get id with
  | none => exact ⟨_, _, rfl⟩
  | some loc =>
    obtain ⟨a, la, hh⟩ := hi.liveAt hg
    have hga : w.getArch loc.arch = .ok a := by
      unfold World.getArch; rw [← hh, la.find]; rfl
    simp only [hga]
    have hr : loc.row < a.ids.length := (List.getElem?_eq_some_iff.mp la.row).1
    by_cases hcm : a.mask.has c = true
    · obtain ⟨col, old, h1, h2, h3⟩ := cell_ok la.ok hcm hr
      simp only [hcm, if_true, h1, h2]
      have : ¬ (old.ty ≠ c ∨ v.ty ≠ c) := by simp [h3, hv]
      simp only [this, if_false]
      exact ⟨_, _, rfl⟩
    · simp only [hcm, Bool.false_eq_true, if_false]
      have hne0 : a.ids.length - 1 < a.ids.length := by omega
      have hlast : a.ids[a.ids.length - 1]? = some a.ids[a.ids.length - 1] := List.getElem?_eq_getElem hne0
      rw [← hh, takeRowAt_eq hi la hlast]
      simp only
      have hcl : c < a.mask.length := by rw [la.ok.mask_len]; exact hc
      have hcf : a.mask.has c = false := by simpa using hcm
      have hcv : (World.insertAt (a.cols.filterMap (fun c => c[loc.row]?))
          (colIndex (World.setBit a.mask c true) c) v).map (·.ty) = Mask.comps (World.setBit a.mask c true) := by
        rw [map_insertAt, row_tys la.ok hr, hv]
        unfold World.setBit
        rw [colIndex_set, comps_set_true hcl hcf]
      obtain ⟨w2, h', t, t', al, e1, e2, e3, e4⟩ := move_ok hi la hlast
        (m' := World.setBit a.mask c true) (by simp [World.setBit, la.ok.mask_len]) hcv
      simp only [e1, e2, e3, e4]
      exact ⟨_, _, rfl⟩

theorem entryRemove_ok {w : World} (hi : Inv w) (id : Ident) (c : Nat) :
    ∃ w' r, w.entryRemove id c = .ok (w', r) := by
  unfold World.entryRemove
  cases hg : w.alloc.get id with
  | none => exact ⟨_, _, rfl⟩
  | some loc =>
    obtain ⟨a, la, hh⟩ := hi.liveAt hg
    have hga : w.getArch loc.arch = .ok a := by
      unfold World.getArch; rw [← hh, la.find]; rfl
    simp only [hga]
    have hr : loc.row < a.ids.length := (List.getElem?_eq_some_iff.mp la.row).1
    by_cases hcm : a.mask.has c = true
    · simp only [hcm, if_true]
      have hne0 : a.ids.length - 1 < a.ids.length := by omega
      have hlast : a.ids[a.ids.length - 1]? = some a.ids[a.ids.length - 1] := List.getElem?_eq_getElem hne0
      rw [← hh, takeRowAt_eq hi la hlast]
      simp only
      have hcv : ((a.cols.filterMap (fun c => c[loc.row]?)).eraseIdx (colIndex a.mask c)).map (·.ty)
          = Mask.comps (World.setBit a.mask c false) := by
        rw [map_eraseIdx, row_tys la.ok hr]
        unfold World.setBit
        rw [comps_set_false hcm]
      obtain ⟨w2, h', t, t', al, e1, e2, e3, e4⟩ := move_ok hi la hlast
        (m' := World.setBit a.mask c false) (by simp [World.setBit, la.ok.mask_len]) hcv
      simp only [e1, e2, e3, e4]
      exact ⟨_, _, rfl⟩
    · simp only [hcm, Bool.false_eq_true, if_false]
      exact ⟨_, _, rfl⟩

/-! ### histories -/

/-- What the type system enforces on the arguments of an operation over a registry of `n`
components: written entities have distinct registry components with one value of the right type
each; an added / written value has the type of the component it is stored under. -/
def Op.wt (n : Nat) : Op → Prop
  | .insert shape vals => World.shapeOk n shape vals = true
  | .extend shape rows => ∀ r ∈ rows, World.shapeOk n shape r = true
  | .add _ c v => c < n ∧ v.ty = c
  | .write _ c v => v.ty = c
  | _ => True

theorem step_total {w : World} (hi : Inv w) {op : Op} (hwt : op.wt w.n) : ∃ w', step w op = .ok w' := by
  cases op with
  | insert shape vals => obtain ⟨w', id, h⟩ := insert_ok hi hwt; exact ⟨w', by simp [step, h, fstOut]⟩
  | extend shape rows => obtain ⟨w', ids, h⟩ := extend_ok hi hwt; exact ⟨w', by simp [step, h, fstOut]⟩
  | remove id => obtain ⟨w', d, h⟩ := remove_no_ub hi id; exact ⟨w', by simp [step, h, fstOut]⟩
  | clear order => obtain ⟨w', d, h, _⟩ := clear_inv hi order; exact ⟨w', by simp [step, h, fstOut]⟩
  | add id c v => obtain ⟨w', r, h⟩ := entryAdd_ok hi id hwt.1 hwt.2; exact ⟨w', by simp [step, h, fstOut]⟩
  | del id c => obtain ⟨w', r, h⟩ := entryRemove_ok hi id c; exact ⟨w', by simp [step, h, fstOut]⟩
  | write id c v => obtain ⟨w', r, h⟩ := write_ok hi id hwt; exact ⟨w', by simp [step, h, fstOut]⟩
  | reserve shape => exact reserve_ok hi shape
  | shrink => exact ⟨_, rfl⟩

/-- The registry (its length) never changes. -/
theorem archForMask_n {w w1 : World} {m : Mask} {hd : Nat} (e : w.archForMask m = .ok (w1, hd)) :
    w1.n = w.n := by
  unfold World.archForMask at e
  cases hl : lookupH w.foreign m with
  | some h1 =>
    simp only [hl] at e
    cases hfa : w.findArch h1 with
    | none => simp [hfa] at e
    | some a => simp [hfa] at e; rw [← e.1]
  | none => simp [hl] at e; rw [← e.1]

theorem step_n {w w' : World} (hi : Inv w) {op : Op} (e : step w op = .ok w') : w'.n = w.n := by
  cases op with
  | insert shape vals =>
    obtain ⟨nid, h⟩ := fstOut_ok e
    unfold World.insert at h
    cases h1 : w.archForEntity (Mask.ofShape w.n shape) with
    | ub x => simp [h1] at h
    | ok p =>
      obtain ⟨w1, hd⟩ := p
      have af := archForEntity_inv hi (ofShape_length _ _) h1
      simp only [h1] at h
      repeat' split at h
      all_goals simp at h
      obtain ⟨rfl, _⟩ := h
      exact af.n
  | extend shape rows =>
    obtain ⟨nid, h⟩ := fstOut_ok e
    unfold World.extend at h
    cases h1 : w.archForEntity (Mask.ofShape w.n shape) with
    | ub x => simp [h1] at h
    | ok p =>
      obtain ⟨w1, hd⟩ := p
      have af := archForEntity_inv hi (ofShape_length _ _) h1
      simp only [h1] at h
      repeat' split at h
      all_goals simp at h
      obtain ⟨rfl, _⟩ := h
      exact af.n
  | remove id =>
    obtain ⟨d, h⟩ := fstOut_ok e
    cases hg : w.alloc.get id with
    | none => simp [World.remove, hg] at h; rw [← h.1]
    | some loc =>
      obtain ⟨a, la, hh⟩ := hi.liveAt hg
      have hr : loc.row < a.ids.length := (List.getElem?_eq_some_iff.mp la.row).1
      have hne0 : a.ids.length - 1 < a.ids.length := by omega
      rw [remove_eq hi la (List.getElem?_eq_getElem hne0)] at h
      simp at h
      rw [← h.1]; rfl
  | clear order =>
    obtain ⟨d, h⟩ := fstOut_ok e
    obtain ⟨w0, h0, rfl⟩ := clear_eq h
    unfold World.clearRaw at h0
    simp only [] at h0
    split at h0
    · simp at h0
    · simp at h0; rw [← h0.1]
  | add id c v =>
    obtain ⟨d, e⟩ := fstOut_ok e
    unfold World.entryAdd at e
    cases hg : w.alloc.get id with
    | none => simp [hg] at e; obtain ⟨rfl, _⟩ := e; rfl
    | some loc =>
      simp only [hg] at e
      obtain ⟨a, la, hh⟩ := hi.liveAt hg
      have hga : w.getArch loc.arch = .ok a := by
        unfold World.getArch; rw [← hh, la.find]; rfl
      simp only [hga] at e
      by_cases hc : a.mask.has c
      · simp only [hc, if_true] at e
        cases hcol : a.cols[colIndex a.mask c]? with
        | none => simp [hcol] at e
        | some col =>
          simp only [hcol] at e
          cases hold : col[loc.row]? with
          | none => simp [hold] at e
          | some old =>
            simp only [hold] at e
            by_cases hbad : old.ty ≠ c ∨ v.ty ≠ c
            · simp [hbad] at e
            · simp only [hbad, if_false, Out.ok.injEq, Prod.mk.injEq] at e
              obtain ⟨rfl, _⟩ := e; rfl
      · simp only [hc, Bool.false_eq_true, if_false] at e
        have hr : loc.row < a.ids.length := (List.getElem?_eq_some_iff.mp la.row).1
        have hne0 : a.ids.length - 1 < a.ids.length := by omega
        have hlast : a.ids[a.ids.length - 1]? = some a.ids[a.ids.length - 1] := List.getElem?_eq_getElem hne0
        rw [← hh, takeRowAt_eq hi la hlast] at e
        simp only at e
        cases hfm : ({ (w.setArch (removedArch a loc.row)) with
            alloc := fixAlloc w.alloc a.ids[a.ids.length - 1] a.handle loc.row a.ids.length } : World).archForMask
            (World.setBit a.mask c true) with
        | ub x => simp [hfm] at e
        | ok p =>
          obtain ⟨w2, h'⟩ := p
          simp only [hfm] at e
          cases hgt : w2.getArch h' with
          | ub x => simp [hgt] at e
          | ok t =>
            simp only [hgt] at e
            cases hp : t.pushRow (World.insertAt (a.cols.filterMap (fun c => c[loc.row]?))
                (colIndex (World.setBit a.mask c true) c) v) id with
            | ub x => simp [hp] at e
            | ok t' =>
              simp only [hp] at e
              cases hset : w2.alloc.setLoc id ⟨h', t.ids.length⟩ with
              | ub x => simp [hset] at e
              | ok al =>
                simp only [hset, Out.ok.injEq, Prod.mk.injEq] at e
                obtain ⟨rfl, _⟩ := e
                have := archForMask_n hfm
                exact this
  | del id c =>
    obtain ⟨d, e⟩ := fstOut_ok e
    unfold World.entryRemove at e
    cases hg : w.alloc.get id with
    | none => simp [hg] at e; obtain ⟨rfl, _⟩ := e; rfl
    | some loc =>
      simp only [hg] at e
      obtain ⟨a, la, hh⟩ := hi.liveAt hg
      have hga : w.getArch loc.arch = .ok a := by
        unfold World.getArch; rw [← hh, la.find]; rfl
      simp only [hga] at e
      by_cases hc : a.mask.has c
      · simp only [hc, if_true] at e
        have hr : loc.row < a.ids.length := (List.getElem?_eq_some_iff.mp la.row).1
        have hne0 : a.ids.length - 1 < a.ids.length := by omega
        have hlast : a.ids[a.ids.length - 1]? = some a.ids[a.ids.length - 1] := List.getElem?_eq_getElem hne0
        rw [← hh, takeRowAt_eq hi la hlast] at e
        simp only at e
        cases hfm : ({ (w.setArch (removedArch a loc.row)) with
            alloc := fixAlloc w.alloc a.ids[a.ids.length - 1] a.handle loc.row a.ids.length } : World).archForMask
            (World.setBit a.mask c false) with
        | ub x => simp [hfm] at e
        | ok p =>
          obtain ⟨w2, h'⟩ := p
          simp only [hfm] at e
          cases hgt : w2.getArch h' with
          | ub x => simp [hgt] at e
          | ok t =>
            simp only [hgt] at e
            cases hp : t.pushRow ((a.cols.filterMap (fun c => c[loc.row]?)).eraseIdx (colIndex a.mask c)) id with
            | ub x => simp [hp] at e
            | ok t' =>
              simp only [hp] at e
              cases hset : w2.alloc.setLoc id ⟨h', t.ids.length⟩ with
              | ub x => simp [hset] at e
              | ok al =>
                simp only [hset, Out.ok.injEq, Prod.mk.injEq] at e
                obtain ⟨rfl, _⟩ := e
                have := archForMask_n hfm
                exact this
      · simp [hc] at e; obtain ⟨rfl, _⟩ := e; rfl
  | write id c v =>
    obtain ⟨d, e⟩ := fstOut_ok e
    unfold World.write at e
    cases hg : w.alloc.get id with
    | none => simp [hg] at e; obtain ⟨rfl, _⟩ := e; rfl
    | some loc =>
      simp only [hg] at e
      cases hf : w.findArch loc.arch with
      | none => simp [hf] at e; obtain ⟨rfl, _⟩ := e; rfl
      | some a =>
        simp only [hf] at e
        by_cases hc : a.mask.has c
        · simp only [hc, if_true] at e
          cases hcol : a.cols[colIndex a.mask c]? with
          | none => simp [hcol] at e
          | some col =>
            simp only [hcol] at e
            cases hold : col[loc.row]? with
            | none => simp [hold] at e
            | some old =>
              simp only [hold] at e
              by_cases hbad : old.ty ≠ c ∨ v.ty ≠ c
              · simp [hbad] at e
              · simp only [hbad, if_false, Out.ok.injEq, Prod.mk.injEq] at e
                obtain ⟨rfl, _⟩ := e; rfl
        · simp [hc] at e; obtain ⟨rfl, _⟩ := e; rfl
  | reserve shape =>
    simp only [step] at e
    unfold World.reserve at e
    cases h1 : w.archForEntity (Mask.ofShape w.n shape) with
    | ub x => simp [h1] at e
    | ok p =>
      obtain ⟨w1, hd⟩ := p
      have af := archForEntity_inv hi (ofShape_length _ _) h1
      simp [h1] at e
      subst e; exact af.n
  | shrink => simp [step] at e; subst e; rfl

/-- Every history of admissible operations runs to completion, and ends in a world satisfying the
invariant. -/
theorem run_total {w : World} (hi : Inv w) (ops : List Op) (hwt : ∀ op ∈ ops, op.wt w.n) :
    ∃ w', run w ops = .ok w' ∧ Inv w' ∧ w'.n = w.n := by
  induction ops generalizing w with
  | nil => exact ⟨w, rfl, hi, rfl⟩
  | cons op ops ih =>
    obtain ⟨w1, h1⟩ := step_total hi (hwt op (by simp))
    have hi1 := step_inv hi h1
    have hn1 := step_n hi h1
    obtain ⟨w', h2, hi2, hn2⟩ := ih hi1 (fun o ho => by rw [hn1]; exact hwt o (by simp [ho]))
    exact ⟨w', by simp [run, h1, h2], hi2, by rw [hn2, hn1]⟩

end Brood
