/-
  BroodModel.Query — views, filters, column selection, entry queries, sub-views, size hints.

  Mirrors src/query/result/iter.rs, src/registry/sealed/view.rs (column selection by the
  identifier bit-walk), src/registry/contains/filter/sealed.rs (filter recursion),
  src/world/entry.rs (`Entry::query`), src/query/entries.rs + src/query/view/subset.rs
  (`MaybeUninit` super-views as `Option`, `assume_init`/`unwrap_unchecked` on `none` = UB).
-/
import BroodModel.Dump

namespace Brood

inductive View where
  | ref (c : Nat)        -- &C
  | mut (c : Nat)        -- &mut C
  | oref (c : Nat)       -- Option<&C>
  | omut (c : Nat)       -- Option<&mut C>
  | ident                -- entity::Identifier
deriving DecidableEq, Repr, Inhabited

/-- Filter expressions, including views used as filters. -/
inductive Filter where
  | none
  | has (c : Nat)
  | not (f : Filter)
  | and (f g : Filter)
  | or (f g : Filter)
  | view (v : View)
deriving Repr, Inhabited

def View.comp? : View → Option Nat
  | .ref c | .mut c | .oref c | .omut c => some c
  | .ident => Option.none

def View.isMut : View → Bool
  | .mut _ | .omut _ => true
  | _ => false

/-- `ContainsFilterSealed::filter` on a view: `&C`/`&mut C` test the bit, everything else is true. -/
def View.filter (m : Mask) : View → Bool
  | .ref c | .mut c => m.has c
  | _ => true

/-- `registry/contains/filter/sealed.rs`, evaluated on an archetype identifier. -/
def Filter.eval (m : Mask) : Filter → Bool
  | .none => true
  | .has c => m.has c
  | .not f => !(f.eval m)
  | .and f g => f.eval m && g.eval m
  | .or f g => f.eval m || g.eval m
  | .view v => v.filter m

/-- A view list used as a filter: the conjunction of its views (`(V, W)` ⇒ `And<V, W>`). -/
def viewsFilter (m : Mask) (vs : List View) : Bool := vs.all (View.filter m)

/-- One cell of a result row. -/
inductive Cell where
  | val (v : Val)
  | absent               -- `None` of an optional view
  | id (i : Ident)
deriving DecidableEq, Repr, Inhabited

/-- Read component `c` of row `r`: the column found by the bit walk, the row inside it, and the
value read at the component's type. -/
def compRead (a : Arch) (r c : Nat) : Out Cell :=
  match a.cols[colIndex a.mask c]? with
  | Option.none => .ub .colCount
  | some col =>
    match col[r]? with
    | Option.none => .ub .oobRow
    | some x => if x.ty = c then .ok (.val x) else .ub .typeConfusion

/-- The value view `v` yields for row `r` of archetype `a` (column found by the bit-walk).
A non-optional view of an absent component is `uninitRead` (the filter must have excluded it). -/
def viewCell (a : Arch) (r : Nat) : View → Out Cell
  | .ident =>
    match a.ids[r]? with
    | some i => .ok (.id i)
    | Option.none => .ub .oobRow
  | .ref c | .mut c => if a.mask.has c then compRead a r c else .ub .uninitRead
  | .oref c | .omut c => if a.mask.has c then compRead a r c else .ok .absent

def rowCells (a : Arch) (r : Nat) : List View → Out (List Cell)
  | [] => .ok []
  | v :: vs =>
    match viewCell a r v with
    | .ub e => .ub e
    | .ok c =>
      match rowCells a r vs with
      | .ub e => .ub e
      | .ok cs => .ok (c :: cs)

def archRows (a : Arch) (vs : List View) : Nat → Out (List (List Cell))
  | 0 => .ok []
  | k + 1 =>
    match archRows a vs k with
    | .ub e => .ub e
    | .ok rows =>
      match rowCells a k vs with
      | .ub e => .ub e
      | .ok row => .ok (rows ++ [row])

/-- `World::query`: for every archetype passing `And<Views, Filter>`, one row per entity. -/
def queryArchs (vs : List View) (f : Filter) : List Arch → Out (List (List Cell))
  | [] => .ok []
  | a :: as =>
    match queryArchs vs f as with
    | .ub e => .ub e
    | .ok rest =>
      if viewsFilter a.mask vs && f.eval a.mask then
        match archRows a vs a.ids.length with
        | .ub e => .ub e
        | .ok rows => .ok (rows ++ rest)
      else .ok rest

def World.query (w : World) (vs : List View) (f : Filter) : Out (List (List Cell)) :=
  queryArchs vs f w.archs

/-- Reference semantics (L0): which entities a query must return, computed from component sets
alone — the statement C03 compares `World.query` with. -/
def specMatches (vs : List View) (f : Filter) (m : Mask) : Bool :=
  vs.all (fun v => match v with | .ref c | .mut c => m.has c | _ => true) && f.eval m

/-- Write through every mutable view of the query: each visited value is replaced by a fresh copy
(`cloneVal e`); returns the new world and the replaced (dropped) values. -/
def writeStep (e : Nat) (acc : Arch × List Val) (c : Nat) : Arch × List Val :=
  let k := colIndex acc.1.mask c
  match acc.1.cols[k]? with
  | some col => ({ acc.1 with cols := acc.1.cols.set k (col.map (cloneVal e)) }, acc.2 ++ col)
  | Option.none => acc

def writeArch (e : Nat) (vs : List View) (a : Arch) : Arch × List Val :=
  let cs := (vs.filter View.isMut).filterMap View.comp?
  let cs := cs.filter (fun c => a.mask.has c)
  cs.foldl (writeStep e) (a, [])

/-- One archetype of `queryWrite`. -/
def writeOne (e : Nat) (vs : List View) (f : Filter) (acc : List Arch × List Val) (a : Arch) :
    List Arch × List Val :=
  if viewsFilter a.mask vs && f.eval a.mask then
    ((acc.1 ++ [(writeArch e vs a).1]), acc.2 ++ (writeArch e vs a).2)
  else (acc.1 ++ [a], acc.2)

def World.queryWrite (w : World) (vs : List View) (f : Filter) (e : Nat) : World × List Val :=
  let r := w.archs.foldl (writeOne e vs f) ([], [])
  ({ w with archs := r.1 }, r.2)

/-- `World::entry(id).query(views, filter)`. -/
def World.entryQuery (w : World) (id : Ident) (vs : List View) (f : Filter) :
    Out (Option (List Cell)) :=
  match w.alloc.get id with
  | Option.none => .ok Option.none           -- `entry()` is `None`
  | some loc =>
    match w.findArch loc.arch with
    | Option.none => .ub .noArchetype        -- the filter reads the identifier through the location
    | some a =>
      if f.eval a.mask && viewsFilter a.mask vs then
        match rowCells a loc.row vs with
        | .ub e => .ub e
        | .ok row => .ok (some row)
      else .ok Option.none

/-- Sub-view of a declared entry view (`SubViewable` table of src/query/view/subset.rs):
which `(sub, super)` kind pairs have an impl. -/
def subViewable : View → View → Bool
  | .ref c, .ref d | .ref c, .mut d | .ref c, .oref d | .ref c, .omut d => c == d
  | .mut c, .mut d | .mut c, .omut d => c == d
  | .oref c, .ref d | .oref c, .mut d | .oref c, .oref d | .oref c, .omut d => c == d
  | .omut c, .mut d | .omut c, .omut d => c == d
  | .ident, .ident => true
  | _, _ => false

/-- `query::Entries::entry(id).query(sub_views, filter)` with declared entry views `evs`.
The super-views are materialised as `MaybeUninit` (`Option` here: absent component ⇒ `none`);
the filter is evaluated over the *entry views'* components only. -/
def World.entriesQuery (w : World) (evs : List View) (id : Ident) (subs : List View) (f : Filter) :
    Out (Option (List Cell)) :=
  match w.alloc.get id with
  | Option.none => .ok Option.none
  | some loc =>
    match w.findArch loc.arch with
    | Option.none => .ub .noArchetype
    | some a =>
      if f.eval a.mask && viewsFilter a.mask subs then
        if subs.all (fun s => evs.any (fun v => subViewable s v)) then
          match rowCells a loc.row subs with
          | .ub e => .ub e
          | .ok row => .ok (some row)
        else .ub .uninitRead
      else .ok Option.none

/-! ### size_hint (src/query/result/iter.rs) -/

/-- Iterator state: rows left in the current archetype's results (if any) and the archetypes not
yet visited. -/
structure IterSt where
  current : Option Nat
  rest : List Arch

/-- `Iter::size_hint`: the current results' exact bounds; an upper bound only when no archetype
is left. -/
def sizeHint (s : IterSt) : Nat × Option Nat :=
  let lo := s.current.getD 0
  if s.rest.isEmpty then (lo, some lo) else (lo, Option.none)

/-- Rows the iterator will still yield. -/
def remaining (vs : List View) (f : Filter) (s : IterSt) : Nat :=
  s.current.getD 0 +
    ((s.rest.filter (fun a => viewsFilter a.mask vs && f.eval a.mask)).map (·.ids.length)).sum

/-! ### Text form (driver) -/

def cellStr (k : Kinds) : Cell → String
  | .val v => valStr k v
  | .absent => "n"
  | .id i => s!"{i.index}.{i.gen}"

def rowStr (k : Kinds) (row : List Cell) : String :=
  if row.isEmpty then "()" else String.intercalate "/" (row.map (cellStr k))

def parseView (s : String) : Option View :=
  if s == "id" then some .ident
  else if s.startsWith "or" then (s.drop 2).toString.toNat?.map View.oref
  else if s.startsWith "om" then (s.drop 2).toString.toNat?.map View.omut
  else if s.startsWith "r" then (s.drop 1).toString.toNat?.map View.ref
  else if s.startsWith "m" then (s.drop 1).toString.toNat?.map View.mut
  else Option.none

def parseViews (s : String) : Option (List View) :=
  if s == "-" then some [] else (s.splitOn ",").mapM parseView

/-- Prefix token list → filter. Returns the filter and the unconsumed tokens. -/
def parseFilterToks : Nat → List String → Option (Filter × List String)
  | 0, _ => Option.none
  | _ + 1, [] => Option.none
  | fuel + 1, t :: ts =>
    if t == "none" then some (.none, ts)
    else if t == "not" then
      match parseFilterToks fuel ts with
      | some (f, r) => some (.not f, r)
      | Option.none => Option.none
    else if t == "and" || t == "or" then
      match parseFilterToks fuel ts with
      | some (f, r) =>
        match parseFilterToks fuel r with
        | some (g, r') => some (if t == "and" then .and f g else .or f g, r')
        | Option.none => Option.none
      | Option.none => Option.none
    else if t.startsWith "has" then
      match (t.drop 3).toString.toNat? with
      | some c => some (.has c, ts)
      | Option.none => Option.none
    else
      match parseView t with
      | some v => some (.view v, ts)
      | Option.none => Option.none

def parseFilter (s : String) : Option Filter :=
  let toks := s.splitOn "_"
  match parseFilterToks (toks.length + 1) toks with
  | some (f, []) => some f
  | _ => Option.none

end Brood
