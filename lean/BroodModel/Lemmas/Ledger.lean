/-
  Conservation of component values (C04): for every operation, the values owned afterwards plus
  the values dropped are exactly the values owned before plus the values moved in — counted with
  multiplicity (`List.count`), so "dropped exactly once" and "never lost" are one equation.
-/
import BroodModel.Lemmas.Entity

set_option linter.unusedSimpArgs false
set_option linter.unusedVariables false

namespace Brood
open Alloc

/-- How many times value `x` is stored in table `a`. -/
def Arch.cnt (x : Val) (a : Arch) : Nat := (a.cols.map (List.count x)).sum

/-- How many times value `x` is owned by the world (columns + resources). -/
def World.cnt (w : World) (x : Val) : Nat := (w.archs.map (Arch.cnt x)).sum + w.res.count x

theorem Arch.cnt_eq (x : Val) (a : Arch) : a.cnt x = a.values.count x := by
  unfold Arch.cnt Arch.values; rw [List.count_flatten]

theorem sum_map_count_flatMap (x : Val) (l : List Arch) :
    (l.flatMap Arch.values).count x = (l.map (Arch.cnt x)).sum := by
  induction l with
  | nil => rfl
  | cons a as ih => simp [List.flatMap_cons, ih, Arch.cnt_eq]

/-- `World.cnt` counts occurrences in `World.values` (what `drop(world)` drops). -/
theorem World.cnt_eq (w : World) (x : Val) : w.cnt x = w.values.count x := by
  unfold World.cnt World.values
  rw [List.count_append, sum_map_count_flatMap]

/-! ### list-level facts -/

theorem replaceH_sum (f : Arch → Nat) {l : List Arch} {a a' : Arch} (hn : (l.map (·.handle)).Nodup)
    (ha : a ∈ l) (hh : a'.handle = a.handle) :
    ((replaceH l a').map f).sum + f a = (l.map f).sum + f a' := by
  induction l with
  | nil => simp at ha
  | cons b bs ih =>
    simp only [List.map_cons, List.nodup_cons] at hn
    simp only [replaceH, List.map_cons, List.sum_cons] at *
    rcases List.mem_cons.mp ha with rfl | hmem
    · have h1 : (a.handle == a'.handle) = true := by simp [hh]
      simp only [h1, if_true]
      have hrest : bs.map (fun x => if x.handle == a'.handle then a' else x) = bs := by
        have : bs.map (fun x => if x.handle == a'.handle then a' else x) = bs.map id := by
          apply List.map_congr_left
          intro x hx
          have hne : x.handle ≠ a.handle := fun e => hn.1 (List.mem_map.mpr ⟨x, hx, e⟩)
          have : (x.handle == a'.handle) = false := by rw [hh]; simpa using hne
          simp [this]
        simpa using this
      rw [hrest]; omega
    · have hne : b.handle ≠ a'.handle := by
        rw [hh]; intro e
        exact hn.1 (List.mem_map.mpr ⟨a, hmem, e.symm⟩)
      have h1 : (b.handle == a'.handle) = false := by simpa using hne
      simp only [h1, Bool.false_eq_true, if_false]
      have := ih hn.2 hmem
      omega

theorem sum_count_zipWith_append (x : Val) (cols : List (List Val)) (cv : List Val)
    (h : cv.length = cols.length) :
    ((List.zipWith (fun c v => c ++ [v]) cols cv).map (List.count x)).sum =
      (cols.map (List.count x)).sum + cv.count x := by
  induction cols generalizing cv with
  | nil => cases cv with
    | nil => rfl
    | cons v vs => simp at h
  | cons c cs ih =>
    cases cv with
    | nil => simp at h
    | cons v vs =>
      simp only [List.zipWith_cons_cons, List.map_cons, List.sum_cons, List.count_append,
        List.count_cons, List.count_nil]
      rw [ih vs (by simpa using h)]
      omega

theorem count_set' (x : Val) (l : List Val) (r : Nat) (v : Val) (hr : r < l.length) :
    (l.set r v).count x + (if l[r] == x then 1 else 0) = l.count x + (if v == x then 1 else 0) := by
  induction l generalizing r with
  | nil => simp at hr
  | cons y ys ih =>
    cases r with
    | zero => simp [List.count_cons]; omega
    | succ r =>
      have := ih r (by simpa using hr)
      simp only [List.set_cons_succ, List.count_cons, List.getElem_cons_succ]
      omega

theorem count_swapRemove (x : Val) (c : List Val) (r : Nat) (hr : r < c.length) :
    (swapRemove c r).count x + (if c[r] == x then 1 else 0) = c.count x := by
  rcases List.eq_nil_or_concat c with rfl | ⟨L, b, hcb⟩
  · simp at hr
  · rw [List.concat_eq_append] at hcb
    subst hcb
    unfold swapRemove
    simp only [List.getLast?_append, List.getLast?_singleton, Option.some_or]
    by_cases hrl : r < L.length
    · have h1 : (L ++ [b]).set r b = L.set r b ++ [b] := List.set_append_left _ _ hrl
      have h2 : (L ++ [b])[r] = L[r] := List.getElem_append_left hrl
      rw [h1, List.dropLast_concat, h2]
      have := count_set' x L r b hrl
      simp only [List.count_append, List.count_cons, List.count_nil]
      omega
    · have hre : r = L.length := by simp at hr; omega
      subst hre
      have h1 : (L ++ [b]).set L.length b = L ++ [b] := by
        rw [List.set_append_right _ _ (Nat.le_refl _)]; simp
      have h2 : (L ++ [b])[L.length] = b := by simp
      rw [h1, List.dropLast_concat, h2]
      simp only [List.count_append, List.count_cons, List.count_nil]
      omega

/-! ### tables -/

theorem cnt_pushRow (x : Val) {a a' : Arch} {cv : List Val} {id : Ident} (hp : a.pushRow cv id = .ok a') :
    a'.cnt x = a.cnt x + cv.count x := by
  obtain ⟨rfl, hl⟩ := pushRow_eq hp
  unfold Arch.cnt
  exact sum_count_zipWith_append x a.cols cv hl

theorem sum_count_swapRemove (x : Val) (cols : List (List Val)) (r : Nat) (h : ∀ c ∈ cols, r < c.length) :
    ((cols.map (fun c => swapRemove c r)).map (List.count x)).sum + (cols.filterMap (fun c => c[r]?)).count x =
      (cols.map (List.count x)).sum := by
  induction cols with
  | nil => rfl
  | cons c cs ih =>
    have hr : r < c.length := h c (by simp)
    have h1 := count_swapRemove x c r hr
    have h2 := ih (fun y hy => h y (by simp [hy]))
    simp only [List.map_cons, List.sum_cons, List.filterMap_cons, List.getElem?_eq_getElem hr,
      List.count_cons]
    omega

theorem cnt_removedArch (x : Val) {w : World} {a : Arch} (ok : ArchOk w a) {r : Nat} (hr : r < a.ids.length) :
    (removedArch a r).cnt x + (a.row r).count x = a.cnt x := by
  unfold Arch.cnt removedArch Arch.row
  exact sum_count_swapRemove x a.cols r (fun c hc => by rw [ok.cols_all_len c hc]; exact hr)

theorem sum_map_set (f : List Val → Nat) (l : List (List Val)) (k : Nat) (c c' : List Val)
    (hk : l[k]? = some c) : ((l.set k c').map f).sum + f c = (l.map f).sum + f c' := by
  induction l generalizing k with
  | nil => simp at hk
  | cons y ys ih =>
    cases k with
    | zero => simp at hk; subst hk; simp; omega
    | succ k =>
      simp at hk
      have := ih k hk
      simp only [List.set_cons_succ, List.map_cons, List.sum_cons]
      omega

theorem cnt_setCell (x : Val) {a : Arch} {k r : Nat} {col : List Val} {old v : Val}
    (hcol : a.cols[k]? = some col) (hold : col[r]? = some old) :
    ({ a with cols := a.cols.set k (col.set r v) } : Arch).cnt x + [old].count x =
      a.cnt x + [v].count x := by
  unfold Arch.cnt
  have hr : r < col.length := (List.getElem?_eq_some_iff.mp hold).1
  have h1 := sum_map_set (List.count x) a.cols k col (col.set r v) hcol
  have h2 := count_set' x col r v hr
  have h3 : col[r] = old := by
    have := List.getElem?_eq_getElem hr; rw [hold] at this; exact (Option.some.inj this).symm
  rw [h3] at h2
  simp only [List.count_cons, List.count_nil]
  show ((a.cols.set k (col.set r v)).map (List.count x)).sum + _ = _
  omega

theorem cnt_new (x : Val) (h : Nat) (m : Mask) : (Arch.new h m).cnt x = 0 := by
  unfold Arch.cnt Arch.new
  simp only [List.map_replicate, List.count_nil]
  induction m.count with
  | zero => rfl
  | succ n ih => simp [List.replicate_succ, ih]

theorem cnt_cleared (x : Val) (a : Arch) : a.cleared.cnt x = 0 := by
  unfold Arch.cnt Arch.cleared
  simp only [List.map_map]
  induction a.cols with
  | nil => rfl
  | cons c cs ih => simp [ih]

/-! ### worlds -/

theorem cnt_setArch (x : Val) {w : World} (hn : (w.archs.map (·.handle)).Nodup) {a a' : Arch}
    (ha : a ∈ w.archs) (hh : a'.handle = a.handle) :
    (w.setArch a').cnt x + a.cnt x = w.cnt x + a'.cnt x := by
  unfold World.cnt
  have := replaceH_sum (Arch.cnt x) hn ha hh
  show ((replaceH w.archs a').map (Arch.cnt x)).sum + w.res.count x + _ = _
  omega

theorem cnt_archForEntity (x : Val) {w w1 : World} {m : Mask} {hd : Nat}
    (e : w.archForEntity m = .ok (w1, hd)) : w1.cnt x = w.cnt x := by
  unfold World.archForEntity at e
  cases ht : lookupH w.typeIds m with
  | some h1 =>
    simp only [ht] at e
    cases hfa : w.findArch h1 with
    | none => simp [hfa] at e
    | some a => simp [hfa] at e; rw [← e.1]
  | none =>
    simp only [ht] at e
    cases hf : lookupH w.foreign m with
    | some h1 =>
      simp only [hf] at e
      cases hfa : w.findArch h1 with
      | none => simp [hfa] at e
      | some a => simp [hfa] at e; rw [← e.1]; rfl
    | none =>
      simp [hf] at e
      rw [← e.1]
      unfold World.cnt
      simp [cnt_new]

theorem cnt_archForMask (x : Val) {w w1 : World} {m : Mask} {hd : Nat}
    (e : w.archForMask m = .ok (w1, hd)) : w1.cnt x = w.cnt x := by
  unfold World.archForMask at e
  cases hf : lookupH w.foreign m with
  | some h1 =>
    simp only [hf] at e
    cases hfa : w.findArch h1 with
    | none => simp [hfa] at e
    | some a => simp [hfa] at e; rw [← e.1]
  | none =>
    simp [hf] at e
    rw [← e.1]
    unfold World.cnt
    simp [cnt_new]

/-! ### per-operation conservation laws -/

theorem insert_cnt (x : Val) {w w' : World} {shape : List Nat} {vals : List Val} {nid : Ident}
    (hi : Inv w) (e : w.insert shape vals = .ok (w', nid)) :
    w'.cnt x = w.cnt x + (World.canonVals w.n shape vals).count x := by
  unfold World.insert at e
  cases h1 : w.archForEntity (Mask.ofShape w.n shape) with
  | ub y => simp [h1] at e
  | ok p =>
    obtain ⟨w1, hd⟩ := p
    have af := archForEntity_inv hi (by simp [Mask.ofShape]) h1
    simp only [h1] at e
    cases h2 : w1.getArch hd with
    | ub y => simp [h2] at e
    | ok a =>
      have hfa := getArch_ok h2
      simp only [h2] at e
      cases h3 : w1.alloc.allocate ⟨hd, a.ids.length⟩ with
      | ub y => simp [h3] at e
      | ok q =>
        obtain ⟨al, nid'⟩ := q
        simp only [h3] at e
        cases h4 : a.pushRow (World.canonVals w.n shape vals) nid' with
        | ub y => simp [h4] at e
        | ok a' =>
          simp only [h4, Out.ok.injEq, Prod.mk.injEq] at e
          obtain ⟨rfl, rfl⟩ := e
          have c1 := cnt_setArch x af.inv.handles_nodup (findArch_some hfa).1 (pushRow_handle h4).1
          have c2 := cnt_pushRow x h4
          have c3 := cnt_archForEntity x h1
          show (w1.setArch a').cnt x = _
          omega

theorem pushRows_cnt (x : Val) {n : Nat} {shape : List Nat} (rows : List (List Val)) :
    ∀ {a a' : Arch} {ids : List Ident}, World.pushRows n shape a ids rows = .ok a' →
      a'.handle = a.handle ∧
      a'.cnt x = a.cnt x + ((rows.map (World.canonVals n shape)).flatten).count x := by
  induction rows with
  | nil =>
    intro a a' ids hp
    cases ids <;> (simp [World.pushRows] at hp; subst hp; simp)
  | cons r rows ih =>
    intro a a' ids hp
    cases ids with
    | nil => simp [World.pushRows] at hp
    | cons id ids =>
      simp only [World.pushRows] at hp
      cases h3 : a.pushRow (World.canonVals n shape r) id with
      | ub y => simp [h3] at hp
      | ok a1 =>
        simp only [h3] at hp
        obtain ⟨i1, i2⟩ := ih hp
        have c2 := cnt_pushRow x h3
        refine ⟨by rw [i1, (pushRow_handle h3).1], ?_⟩
        simp only [List.map_cons, List.flatten_cons, List.count_append]
        omega

theorem extend_cnt (x : Val) {w w' : World} {shape : List Nat} {rows : List (List Val)}
    {ids : List Ident} (hi : Inv w) (e : w.extend shape rows = .ok (w', ids)) :
    w'.cnt x = w.cnt x + ((rows.map (World.canonVals w.n shape)).flatten).count x := by
  unfold World.extend at e
  cases h1 : w.archForEntity (Mask.ofShape w.n shape) with
  | ub y => simp [h1] at e
  | ok p =>
    obtain ⟨w1, hd⟩ := p
    have af := archForEntity_inv hi (by simp [Mask.ofShape]) h1
    simp only [h1] at e
    cases h2 : w1.getArch hd with
    | ub y => simp [h2] at e
    | ok a =>
      have hfa := getArch_ok h2
      simp only [h2] at e
      cases h3 : w1.alloc.allocateBatch hd a.ids.length rows.length with
      | ub y => simp [h3] at e
      | ok q =>
        obtain ⟨al, nids⟩ := q
        simp only [h3] at e
        cases h4 : World.pushRows w.n shape a nids rows with
        | ub y => simp [h4] at e
        | ok a' =>
          simp only [h4, Out.ok.injEq, Prod.mk.injEq] at e
          obtain ⟨rfl, rfl⟩ := e
          obtain ⟨i1, i2⟩ := pushRows_cnt x rows h4
          have c1 := cnt_setArch x af.inv.handles_nodup (findArch_some hfa).1 i1
          have c3 := cnt_archForEntity x h1
          show (w1.setArch a').cnt x = _
          omega

theorem remove_cnt (x : Val) {w w' : World} {id : Ident} {drops : List Val} (hi : Inv w)
    (e : w.remove id = .ok (w', drops)) : w'.cnt x + drops.count x = w.cnt x := by
  cases hg : w.alloc.get id with
  | none =>
    simp [World.remove, hg] at e
    obtain ⟨rfl, rfl⟩ := e
    simp
  | some loc =>
    obtain ⟨a, la, hh⟩ := hi.liveAt hg
    have hr : loc.row < a.ids.length := (List.getElem?_eq_some_iff.mp la.row).1
    have hne0 : a.ids.length - 1 < a.ids.length := by omega
    rw [remove_eq hi la (List.getElem?_eq_getElem hne0)] at e
    simp only [Out.ok.injEq, Prod.mk.injEq] at e
    obtain ⟨rfl, rfl⟩ := e
    have c1 := cnt_setArch x hi.handles_nodup la.mem (a' := removedArch a loc.row) rfl
    have c2 := cnt_removedArch x la.ok hr
    show (w.setArch (removedArch a loc.row)).cnt x + (a.row loc.row).count x = _
    omega

theorem clear_cnt (x : Val) {w w' : World} {order : List Mask} {drops : List Val}
    (e : w.clear order = .ok (w', drops)) : w'.cnt x + drops.count x = w.cnt x := by
  obtain ⟨w0, e0, rfl⟩ := clear_eq e
  show w0.cnt x + drops.count x = w.cnt x
  unfold World.clearRaw at e0
  simp only [] at e0
  split at e0
  · simp at e0
  · simp only [Out.ok.injEq, Prod.mk.injEq] at e0
    obtain ⟨rfl, rfl⟩ := e0
    have hp : (w.visitOrder order).Perm w.archs := List.mergeSort_perm _ _
    have h1 : ((w.visitOrder order).flatMap Arch.values).count x = (w.archs.flatMap Arch.values).count x :=
      (hp.flatMap_right Arch.values).count_eq x
    rw [h1, sum_map_count_flatMap]
    unfold World.cnt
    simp only [List.map_map]
    have : (w.archs.map (Arch.cnt x ∘ Arch.cleared)) = w.archs.map (fun _ => 0) := by
      apply List.map_congr_left; intro a _; exact cnt_cleared x a
    rw [this]
    have hz : (w.archs.map (fun _ => 0)).sum = 0 := by
      induction w.archs with
      | nil => rfl
      | cons _ _ ih => simp [ih]
    omega

/-- Moving a row: the popped row leaves, the pushed row `cv` arrives. -/
theorem moveRow_cnt (x : Val) {w : World} (hi : Inv w) {id : Ident} {a : Arch} {r : Nat} (la : LiveAt w id a r)
    {last : Ident} (hlast : a.ids[a.ids.length - 1]? = some last)
    {m' : Mask} (hm : m'.length = w.n) {w2 : World} {h' : Nat}
    (hfm : ({ (w.setArch (removedArch a r)) with alloc := fixAlloc w.alloc last a.handle r a.ids.length } : World).archForMask m'
        = .ok (w2, h'))
    {t t' : Arch} (hft : w2.findArch h' = some t) {cv : List Val} (hp : t.pushRow cv id = .ok t')
    :
    (w2.setArch t').cnt x + (a.cols.filterMap (fun c => c[r]?)).count x = w.cnt x + cv.count x := by
  have hr : r < a.ids.length := (List.getElem?_eq_some_iff.mp la.row).1
  -- the world after `remove id` satisfies the invariant
  have hrem := remove_eq hi la hlast
  have hir : Inv ({ (w.setArch (removedArch a r)) with
      alloc := removeAlloc w.alloc id last a.handle r a.ids.length, len := w.len - 1 } : World) :=
    remove_inv hi hrem
  -- the table lookup does not depend on the allocator
  obtain ⟨hfm', hal2, hlen2⟩ := archForMask_frame (removeAlloc w.alloc id last a.handle r a.ids.length) (w.len - 1) hfm
  have af := archForMask_inv hir (by simpa [World.setArch] using hm) hfm'
  have hft' : ({ w2 with alloc := removeAlloc w.alloc id last a.handle r a.ids.length, len := w.len - 1 } : World).findArch h'
      = some t := hft
  have c1 := cnt_setArch x hi.handles_nodup la.mem (a' := removedArch a r) rfl
  have c2 := cnt_removedArch x la.ok hr
  have c3 := cnt_archForMask x hfm
  have hn2 : (w2.archs.map (·.handle)).Nodup := af.inv.handles_nodup
  have c4 := cnt_setArch x hn2 (findArch_some hft).1 (pushRow_handle hp).1
  have c5 := cnt_pushRow x hp
  have e1 : ({ (w.setArch (removedArch a r)) with alloc := fixAlloc w.alloc last a.handle r a.ids.length } : World).cnt x
      = (w.setArch (removedArch a r)).cnt x := rfl
  unfold Arch.row at c2
  omega

theorem count_insertAt (x : Val) (l : List Val) (k : Nat) (v : Val) :
    (World.insertAt l k v).count x = l.count x + [v].count x := by
  unfold World.insertAt
  have : l.count x = (l.take k).count x + (l.drop k).count x := by
    rw [← List.count_append, List.take_append_drop]
  simp only [List.count_append, List.count_cons, List.count_nil]
  omega

theorem count_eraseIdx (x : Val) (l : List Val) (k : Nat) :
    (l.eraseIdx k).count x + ((l.drop k).take 1).count x = l.count x := by
  induction l generalizing k with
  | nil => simp
  | cons y ys ih =>
    cases k with
    | zero => simp [List.count_cons]
    | succ k =>
      have := ih k
      simp only [List.eraseIdx_cons_succ, List.drop_succ_cons, List.count_cons]
      omega

theorem entryAdd_cnt (x : Val) {w w' : World} {id : Ident} {c : Nat} {v : Val} {res : Option (List Val)}
    (hi : Inv w) (e : w.entryAdd id c v = .ok (w', res)) :
    w'.cnt x + (res.getD []).count x = w.cnt x + (if res.isSome then [v].count x else 0) := by
  unfold World.entryAdd at e
  cases hg : w.alloc.get id with
  | none => simp [hg] at e; obtain ⟨rfl, rfl⟩ := e; simp
  | some loc =>
    simp only [hg] at e
    obtain ⟨a, la, hh⟩ := hi.liveAt hg
    have hga : w.getArch loc.arch = .ok a := by
      unfold World.getArch; rw [← hh, la.find]; rfl
    simp only [hga] at e
    by_cases hc : a.mask.has c
    · simp only [hc, if_true] at e
      cases hcol : a.cols[colIndex a.mask c]? with
      | none => simp [hcol] at e
      | some col =>
        simp only [hcol] at e
        cases hold : col[loc.row]? with
        | none => simp [hold] at e
        | some old =>
          simp only [hold] at e
          by_cases hbad : old.ty ≠ c ∨ v.ty ≠ c
          · simp [hbad] at e
          · simp only [hbad, if_false, Out.ok.injEq, Prod.mk.injEq] at e
            obtain ⟨rfl, rfl⟩ := e
            have c1 := cnt_setArch x hi.handles_nodup la.mem
              (a' := { a with cols := a.cols.set (colIndex a.mask c) (col.set loc.row v) }) rfl
            have c2 := cnt_setCell x (v := v) hcol hold
            simp only [Option.getD_some, Option.isSome_some, if_true]
            omega
    · simp only [hc, Bool.false_eq_true, if_false] at e
      have hr : loc.row < a.ids.length := (List.getElem?_eq_some_iff.mp la.row).1
      have hne0 : a.ids.length - 1 < a.ids.length := by omega
      have hlast : a.ids[a.ids.length - 1]? = some a.ids[a.ids.length - 1] := List.getElem?_eq_getElem hne0
      rw [← hh, takeRowAt_eq hi la hlast] at e
      simp only at e
      cases hfm : ({ (w.setArch (removedArch a loc.row)) with
          alloc := fixAlloc w.alloc a.ids[a.ids.length - 1] a.handle loc.row a.ids.length } : World).archForMask
          (World.setBit a.mask c true) with
      | ub y => simp [hfm] at e
      | ok p =>
        obtain ⟨w2, h'⟩ := p
        simp only [hfm] at e
        cases hgt : w2.getArch h' with
        | ub y => simp [hgt] at e
        | ok t =>
          simp only [hgt] at e
          cases hp : t.pushRow (World.insertAt (a.cols.filterMap (fun c => c[loc.row]?))
              (colIndex (World.setBit a.mask c true) c) v) id with
          | ub y => simp [hp] at e
          | ok t' =>
            simp only [hp] at e
            cases hset : w2.alloc.setLoc id ⟨h', t.ids.length⟩ with
            | ub y => simp [hset] at e
            | ok al =>
              simp only [hset, Out.ok.injEq, Prod.mk.injEq] at e
              obtain ⟨rfl, rfl⟩ := e
              have c1 := moveRow_cnt x hi la hlast (by simp [World.setBit, la.ok.mask_len]) hfm
                (getArch_ok hgt) hp
              have c2 := count_insertAt x (a.cols.filterMap (fun c => c[loc.row]?))
                (colIndex (World.setBit a.mask c true) c) v
              simp only [Option.getD_some, Option.isSome_some, if_true, List.count_nil]
              show (w2.setArch t').cnt x + 0 = _
              omega

theorem entryRemove_cnt (x : Val) {w w' : World} {id : Ident} {c : Nat} {res : Option (List Val)}
    (hi : Inv w) (e : w.entryRemove id c = .ok (w', res)) :
    w'.cnt x + (res.getD []).count x = w.cnt x := by
  unfold World.entryRemove at e
  cases hg : w.alloc.get id with
  | none => simp [hg] at e; obtain ⟨rfl, rfl⟩ := e; simp
  | some loc =>
    simp only [hg] at e
    obtain ⟨a, la, hh⟩ := hi.liveAt hg
    have hga : w.getArch loc.arch = .ok a := by
      unfold World.getArch; rw [← hh, la.find]; rfl
    simp only [hga] at e
    by_cases hc : a.mask.has c
    · simp only [hc, if_true] at e
      have hr : loc.row < a.ids.length := (List.getElem?_eq_some_iff.mp la.row).1
      have hne0 : a.ids.length - 1 < a.ids.length := by omega
      have hlast : a.ids[a.ids.length - 1]? = some a.ids[a.ids.length - 1] := List.getElem?_eq_getElem hne0
      rw [← hh, takeRowAt_eq hi la hlast] at e
      simp only at e
      cases hfm : ({ (w.setArch (removedArch a loc.row)) with
          alloc := fixAlloc w.alloc a.ids[a.ids.length - 1] a.handle loc.row a.ids.length } : World).archForMask
          (World.setBit a.mask c false) with
      | ub y => simp [hfm] at e
      | ok p =>
        obtain ⟨w2, h'⟩ := p
        simp only [hfm] at e
        cases hgt : w2.getArch h' with
        | ub y => simp [hgt] at e
        | ok t =>
          simp only [hgt] at e
          cases hp : t.pushRow ((a.cols.filterMap (fun c => c[loc.row]?)).eraseIdx (colIndex a.mask c)) id with
          | ub y => simp [hp] at e
          | ok t' =>
            simp only [hp] at e
            cases hset : w2.alloc.setLoc id ⟨h', t.ids.length⟩ with
            | ub y => simp [hset] at e
            | ok al =>
              simp only [hset, Out.ok.injEq, Prod.mk.injEq] at e
              obtain ⟨rfl, rfl⟩ := e
              have c1 := moveRow_cnt x hi la hlast (by simp [World.setBit, la.ok.mask_len]) hfm
                (getArch_ok hgt) hp
              have c2 := count_eraseIdx x (a.cols.filterMap (fun c => c[loc.row]?)) (colIndex a.mask c)
              simp only [Option.getD_some]
              show (w2.setArch t').cnt x + _ = _
              omega
    · simp [hc] at e; obtain ⟨rfl, rfl⟩ := e; simp

theorem write_cnt (x : Val) {w w' : World} {id : Ident} {c : Nat} {v : Val} {res : Option (List Val)}
    (hi : Inv w) (e : w.write id c v = .ok (w', res)) :
    w'.cnt x + (res.getD []).count x = w.cnt x + (if res.isSome then [v].count x else 0) := by
  unfold World.write at e
  cases hg : w.alloc.get id with
  | none => simp [hg] at e; obtain ⟨rfl, rfl⟩ := e; simp
  | some loc =>
    simp only [hg] at e
    obtain ⟨a, la, hh⟩ := hi.liveAt hg
    rw [← hh, la.find] at e
    simp only at e
    by_cases hc : a.mask.has c
    · simp only [hc, if_true] at e
      cases hcol : a.cols[colIndex a.mask c]? with
      | none => simp [hcol] at e
      | some col =>
        simp only [hcol] at e
        cases hold : col[loc.row]? with
        | none => simp [hold] at e
        | some old =>
          simp only [hold] at e
          by_cases hbad : old.ty ≠ c ∨ v.ty ≠ c
          · simp [hbad] at e
          · simp only [hbad, if_false, Out.ok.injEq, Prod.mk.injEq] at e
            obtain ⟨rfl, rfl⟩ := e
            have c1 := cnt_setArch x hi.handles_nodup la.mem
              (a' := { a with cols := a.cols.set (colIndex a.mask c) (col.set loc.row v) }) rfl
            have c2 := cnt_setCell x (v := v) hcol hold
            simp only [Option.getD_some, Option.isSome_some, if_true]
            omega
    · simp [hc] at e; obtain ⟨rfl, rfl⟩ := e; simp

theorem reserve_cnt (x : Val) {w w' : World} {shape : List Nat} (e : w.reserve shape = .ok w') :
    w'.cnt x = w.cnt x := by
  unfold World.reserve at e
  cases h1 : w.archForEntity (Mask.ofShape w.n shape) with
  | ub y => simp [h1] at e
  | ok p =>
    obtain ⟨w1, hd⟩ := p
    simp [h1] at e; subst e
    exact cnt_archForEntity x h1

theorem shrink_cnt (x : Val) {w : World} (hi : Inv w) : w.shrinkToFit.cnt x = w.cnt x := by
  unfold World.cnt World.shrinkToFit
  simp only
  have : ∀ l : List Arch, (∀ a ∈ l, a.ids.isEmpty = true → a.cnt x = 0) →
      ((l.filter (fun a => !a.ids.isEmpty)).map (Arch.cnt x)).sum = (l.map (Arch.cnt x)).sum := by
    intro l
    induction l with
    | nil => intro _; rfl
    | cons a as ih =>
      intro h
      have ih' := ih (fun b hb => h b (by simp [hb]))
      cases he : a.ids.isEmpty with
      | true =>
        have := h a (by simp) he
        simp [List.filter_cons, he, ih', this]
      | false => simp [List.filter_cons, he, ih']
  rw [this]
  intro a ha he
  have ok := hi.archOk ha
  unfold Arch.cnt
  have hl : a.ids.length = 0 := by simpa using he
  have : a.cols.map (List.count x) = a.cols.map (fun _ => 0) := by
    apply List.map_congr_left
    intro c hc
    have : c.length = 0 := by rw [ok.cols_all_len c hc, hl]
    have : c = [] := List.length_eq_zero_iff.mp this
    simp [this]
  rw [this]
  induction a.cols with
  | nil => rfl
  | cons _ _ ih => simp [ih]

end Brood
