"""Shared machinery of ./check: builds, proof audit, correspondence runs, shrinking, reporting."""
import fcntl
import hashlib
import json
import os
import re
import shutil
import subprocess
import sys
import time

VERIF = os.path.dirname(os.path.dirname(os.path.abspath(__file__)))
REPO = os.environ.get("BROOD_REPO", "/repo")
LEAN = os.path.join(VERIF, "lean")
HARNESS = os.path.join(VERIF, "harness")
WORK = os.path.join(VERIF, "work")
DRIVER = os.path.join(LEAN, ".lake", "build", "bin", "driver")
HBIN = os.path.join(HARNESS, "target", "debug", "brood-harness")
ALLOWED_AXIOMS = {"propext", "Classical.choice", "Quot.sound"}
ENV = dict(os.environ, CARGO_NET_OFFLINE="true")

FORBIDDEN = re.compile(r"\bsorry\b|\badmit\b|^\s*axiom\s|native_decide|bv_decide|implemented_by|\bunsafe\s|maxHeartbeats\s+0")


def log(*a):
    print(*a, file=sys.stderr, flush=True)


def run(cmd, cwd=None, timeout=None, input=None, env=None):
    p = subprocess.run(cmd, cwd=cwd, timeout=timeout, input=input, env=env or ENV,
                       stdout=subprocess.PIPE, stderr=subprocess.PIPE, text=True)
    return p.returncode, p.stdout, p.stderr


class Lock:
    def __enter__(self):
        os.makedirs(WORK, exist_ok=True)
        self.f = open(os.path.join(VERIF, ".build.lock"), "w")
        fcntl.flock(self.f, fcntl.LOCK_EX)
        return self

    def __exit__(self, *a):
        fcntl.flock(self.f, fcntl.LOCK_UN)
        self.f.close()


def write_if_changed(path, text):
    try:
        if open(path).read() == text:
            return False
    except FileNotFoundError:
        pass
    os.makedirs(os.path.dirname(path), exist_ok=True)
    with open(path, "w") as f:
        f.write(text)
    return True


# ------------------------------------------------------------------------------------------
# builds
# ------------------------------------------------------------------------------------------

def build_all(report):
    """Regenerate generated sources, build the Lean library + driver and the harness against
    /repo's current working tree. Returns a dict of failures (empty = fine)."""
    failures = {}
    t0 = time.time()
    with Lock():
        # 1. translator: /repo/src -> lean/BroodModel/Generated/*.lean
        rc, out, err = run([sys.executable, os.path.join(VERIF, "translator", "translate.py"),
                            "--repo", REPO, "--out", os.path.join(LEAN, "BroodModel", "Generated"),
                            "--report", os.path.join(WORK, "extraction_report.json")])
        if rc != 0:
            failures["translator"] = (out + err)[-4000:]
        # 2. harness generators (typed families; files rewritten only when their content changes)
        hsrc = os.path.join(HARNESS, "hcore", "src")
        for name, kinds in (("Reg4", "szlh"), ("Reg10", "szlhshzslh"), ("Reg8", "szlhshzs")):
            tmpf = os.path.join(WORK, "gen_%s.rs" % name.lower())
            rc, out, err = run([sys.executable, os.path.join(HARNESS, "gen", "gen_family.py"), name, kinds, "shz", tmpf])
            if rc != 0:
                failures["gen_family"] = (out + err)[-2000:]
            else:
                write_if_changed(os.path.join(hsrc, "gen_%s.rs" % name.lower()), open(tmpf).read())
        tmpf = os.path.join(WORK, "gen_queries.rs")
        rc, out, err = run([sys.executable, os.path.join(HARNESS, "gen", "gen_queries.py"), tmpf])
        if rc != 0:
            failures["gen_queries"] = (out + err)[-2000:]
        else:
            write_if_changed(os.path.join(hsrc, "gen_queries.rs"), open(tmpf).read())
        tmpf = os.path.join(WORK, "gen_ctor.rs")
        rc, out, err = run([sys.executable, os.path.join(HARNESS, "gen", "gen_ctor.py"), tmpf])
        if rc != 0:
            failures["gen_ctor"] = (out + err)[-2000:]
        else:
            write_if_changed(os.path.join(HARNESS, "src", "gen_ctor.rs"), open(tmpf).read())
        tmpf = os.path.join(WORK, "gen_sched.rs")
        rc, out, err = run([sys.executable, os.path.join(HARNESS, "gen", "gen_sched.py"), tmpf])
        if rc != 0:
            failures["gen_sched"] = (out + err)[-2000:]
        else:
            write_if_changed(os.path.join(HARNESS, "src", "gen_sched.rs"), open(tmpf).read())
        lockfile = os.path.join(HARNESS, "Cargo.lock")
        if not os.path.exists(lockfile):
            shutil.copy(os.path.join(REPO, "Cargo.lock"), lockfile)
        # 3. cargo build of the harness against /repo's working tree (hooks on via .cargo/config.toml)
        rc, out, err = run(["cargo", "build", "--offline"], cwd=HARNESS)
        if rc != 0 and ("rust-lld: error" in err or "ld returned" in err or "linking with" in err) and "error[E" not in err:
            # a linker failure with no compiler diagnostic is a stale-object problem of the build
            # directory (e.g. an earlier build was interrupted), not a statement about /repo:
            # rebuild the affected crates from scratch once
            run(["cargo", "clean", "--offline", "-p", "hcore", "-p", "brood-harness", "-p", "brood"], cwd=HARNESS)
            rc, out, err = run(["cargo", "build", "--offline"], cwd=HARNESS)
        if rc != 0:
            failures["cargo"] = err[-6000:]
        # 4. lake build: library + driver
        rc, out, err = run(["lake", "build", "BroodModel", "driver"], cwd=LEAN)
        if rc != 0:
            failures["lake"] = (out + err)[-8000:]
    report["build_s"] = round(time.time() - t0, 1)
    return failures


# ------------------------------------------------------------------------------------------
# proof audit
# ------------------------------------------------------------------------------------------

def strip_comments(text):
    text = re.sub(r"/-.*?-/", "", text, flags=re.S)
    text = "\n".join(l.split("--")[0] for l in text.splitlines())
    # string literals are data, not constructs
    return re.sub(r'"(?:[^"\\\n]|\\.)*"', '""', text)


def scan_forbidden():
    hits = []
    for root, _, files in os.walk(LEAN):
        if ".lake" in root:
            continue
        for f in files:
            if f.endswith(".lean"):
                p = os.path.join(root, f)
                for i, l in enumerate(strip_comments(open(p).read()).splitlines(), 1):
                    if FORBIDDEN.search(l):
                        hits.append("%s:%d: %s" % (os.path.relpath(p, VERIF), i, l.strip()))
    return hits


def audit_props(pid, thorough=False):
    """Re-elaborate BroodModel/Props/<pid>.lean with the kernel, collect `#print axioms` output.
    Returns dict(obligations, discharged, theorems=[{name, axioms}], errors=[...])."""
    path = os.path.join(LEAN, "BroodModel", "Props", pid + ".lean")
    res = {"obligations": 0, "discharged": 0, "theorems": [], "errors": [], "file": os.path.relpath(path, VERIF)}
    if not os.path.exists(path):
        res["errors"].append("no property file " + path)
        return res
    src = strip_comments(open(path).read())
    wanted = re.findall(r"^#print axioms\s+(\S+)", src, flags=re.M)
    res["obligations"] = len(wanted)
    # build the module (and the lemma modules it imports) …
    rcb, outb, errb = run(["lake", "build", "BroodModel.Props." + pid], cwd=LEAN, timeout=3000)
    if rcb != 0:
        tb = outb + errb
        errl = [l.strip() for l in tb.splitlines() if re.search(r"\berror\b", l) and "Lean exited" not in l and "build failed" not in l]
        res["errors"].append("lake build BroodModel.Props.%s failed: %s" % (pid, " | ".join(errl[:6])[:1200] or tb[-1500:]))
    # … and re-elaborate the property file itself to collect `#print axioms`
    rc, out, err = run(["lake", "env", "lean", path], cwd=LEAN, timeout=1500)
    text = out + err
    # output format:  'Name' depends on axioms: [a, b]   |  'Name' does not depend on any axioms
    seen = {}
    for m in re.finditer(r"'([^']+)' depends on axioms: \[([^\]]*)\]", text, flags=re.S):
        seen[m.group(1)] = [a.strip() for a in m.group(2).replace("\n", " ").split(",") if a.strip()]
    for m in re.finditer(r"'([^']+)' does not depend on any axioms", text):
        seen[m.group(1)] = []
    errors = [l for l in text.splitlines() if re.search(r"\berror\b", l)]
    if rc != 0 or errors:
        res["errors"].extend(errors[:20] or ["lean exited with %d" % rc])
        res["raw"] = text[-3000:]
    for name in wanted:
        full = [k for k in seen if k == name or k.endswith("." + name)]
        if not full:
            res["errors"].append("no axioms report for " + name)
            continue
        ax = seen[full[0]]
        bad = [a for a in ax if a not in ALLOWED_AXIOMS]
        res["theorems"].append({"name": full[0], "axioms": ax})
        if bad:
            res["errors"].append("theorem %s depends on non-standard axioms %s" % (name, bad))
        elif "sorryAx" in ax:
            res["errors"].append("theorem %s uses sorry" % name)
        else:
            res["discharged"] += 1
    hits = scan_forbidden()
    if hits:
        res["errors"].append("forbidden constructs: " + "; ".join(hits[:5]))
    if thorough and not res["errors"]:
        rc, out, err = run(["lake", "env", "leanchecker", "BroodModel.Props." + pid], cwd=LEAN, timeout=1500)
        res["leanchecker_rc"] = rc
        if rc != 0:
            res["errors"].append("leanchecker: " + (out + err)[-500:])
    return res


# ------------------------------------------------------------------------------------------
# correspondence runs
# ------------------------------------------------------------------------------------------

def harness_trace(args, out_path, timeout=900):
    """Run the harness, trace to out_path. Returns (rc, stats_dict, stderr_tail)."""
    with open(out_path, "w") as f:
        p = subprocess.run([HBIN] + args, stdout=f, stderr=subprocess.PIPE, text=True, timeout=timeout, env=ENV)
    stats = {}
    for l in p.stderr.splitlines():
        if l.startswith("STATS "):
            try:
                stats = json.loads(l[6:])
            except Exception:
                pass
    return p.returncode, stats, p.stderr[-2000:]


def drive(trace_path, timeout=900):
    """Pipe a trace through the Lean driver. Returns (M lines, X lines, summary dict)."""
    with open(trace_path) as f:
        p = subprocess.run([DRIVER], stdin=f, stdout=subprocess.PIPE, stderr=subprocess.PIPE, text=True, timeout=timeout)
    ms, xs, summ = [], [], {}
    for l in p.stdout.splitlines():
        if l.startswith("M "):
            ms.append(l)
        elif l.startswith("X "):
            xs.append(l)
        elif l.startswith("S "):
            summ = dict(kv.split("=") for kv in l[2:].split())
    if p.returncode not in (0, 1):
        xs.append("X 0 case=? oracle=driver-crash rc=%d %s" % (p.returncode, p.stderr[-300:]))
    return ms, xs, summ


def split_cases(trace_path):
    """Split a trace into {case name: [lines]} preserving the header lines of each case."""
    cases, cur, name = {}, None, None
    for l in open(trace_path):
        l = l.rstrip("\n")
        if l.startswith("case "):
            name = l[5:].strip()
            cur = [l]
            cases[name] = cur
        elif cur is not None:
            cur.append(l)
    return cases


def case_of(line):
    m = re.search(r"case=(\S+)", line)
    return m.group(1) if m else None


def ops_only(lines):
    return [l for l in lines if l.split(" ", 1)[0] in ("case", "registry", "resources", "op", "cfg")]


def replay_verdict(op_lines, tmp):
    """Re-execute op lines on the real code and the model. Returns (M, X, crashed)."""
    src = tmp + ".ops"
    with open(src, "w") as f:
        f.write("\n".join(op_lines) + "\n")
    tr = tmp + ".trace"
    try:
        rc, _, err = harness_trace(["replay", src], tr, timeout=120)
    except subprocess.TimeoutExpired:
        return [], ["X 0 oracle=timeout"], True
    ms, xs, _ = drive(tr)
    if rc != 0:
        xs.append("X 0 case=? oracle=crash harness-exit=%d %s" % (rc, err.strip().splitlines()[-1] if err.strip() else ""))
    return ms, xs, rc != 0


def signature(ms, xs):
    """What kind of failure this is (used to keep the same failure while shrinking)."""
    if xs:
        m = re.search(r"oracle=(\S+)", xs[0])
        return "X:" + (m.group(1) if m else "?")
    if ms:
        return "M"
    return None


def shrink(op_lines, sig, tmp, budget=120):
    """Delta-debug the op list (header lines kept) while the failure signature persists."""
    header = [l for l in op_lines if not l.startswith("op ")]
    ops = [l for l in op_lines if l.startswith("op ")]

    def fails(cand):
        ms, xs, _ = replay_verdict(header + cand, tmp)
        return signature(ms, xs) == sig

    n = 2
    tries = 0
    while len(ops) >= 2 and tries < budget:
        chunk = max(1, len(ops) // n)
        reduced = False
        for i in range(0, len(ops), chunk):
            cand = ops[:i] + ops[i + chunk:]
            tries += 1
            if cand and fails(cand):
                ops = cand
                n = max(n - 1, 2)
                reduced = True
                break
            if tries >= budget:
                break
        if not reduced:
            if chunk == 1:
                break
            n = min(len(ops), n * 2)
    return header + ops


# ------------------------------------------------------------------------------------------
# known findings, reporting
# ------------------------------------------------------------------------------------------

def load_known():
    p = os.path.join(VERIF, "known_findings.json")
    if not os.path.exists(p):
        return {"findings": [], "fixed": []}
    return json.load(open(p))


def match_known(pid, text):
    """A violation is a known finding iff every regex of some entry's key matches its text."""
    for f in load_known().get("findings", []):
        if f.get("property") != pid:
            continue
        if f.get("match") and all(re.search(rx, text) for rx in f.get("match", [])):
            return f
    return None


def write_replay(pid, seed, tag, header, body):
    os.makedirs(os.path.join(VERIF, "replays"), exist_ok=True)
    path = os.path.join(VERIF, "replays", "%s-%s-%s.replay" % (pid, seed, tag))
    with open(path, "w") as f:
        for k, v in header.items():
            f.write("# %s: %s\n" % (k, v))
        f.write("\n".join(body) + "\n")
    return path


def write_evidence(pid, tier, seed, coverage, assumptions, wall, violations):
    ev = {"property_id": pid, "tier": tier, "seed": seed, "level": "proof", "coverage": coverage,
          "assumptions": assumptions, "wall_s": round(wall, 1), "violations": violations}
    os.makedirs(os.path.join(VERIF, "evidence"), exist_ok=True)
    with open(os.path.join(VERIF, "evidence", pid + ".json"), "w") as f:
        json.dump(ev, f, indent=1)
    return ev


def repo_tree_hash():
    rc, out, _ = run(["git", "-C", REPO, "rev-parse", "HEAD"])
    rc2, diff, _ = run(["git", "-C", REPO, "diff", "HEAD"])
    return out.strip()[:12] + ("+" + hashlib.sha1(diff.encode()).hexdigest()[:8] if diff.strip() else "")
