/-
  C10 — A cloned world is an exact, fully independent copy.

  `World.clone w e next` mirrors `World::clone` → `Archetypes::clone` (fresh tables, every lookup
  key inserted twice) → `Allocator::clone` with the old→new identifier map (`unwrap_unchecked`: a
  missing key is `Out.ub`).  `e` is the epoch that gives the copied values their own identities
  (`cloneVal`), `next` the first handle (buffer address) of the copy.

  Proved here, for every world satisfying the invariant (hence every reachable world) and all `e`,
  `next`: the clone never hits a missing map key, satisfies the invariant, denotes the same map
  with every value copied, has the same `len` and copied resources, and compares equal to the
  original.  Because the copy satisfies the invariant, every theorem stated for such worlds (C01,
  C02, C04, C05, C13, C16 …) applies to it: "both keep satisfying every other property".

  Independence: model worlds are values, an operation on one cannot mention the other; what could
  go wrong in the code is sharing of buffers, which the correspondence check decides (both worlds
  are dumped and compared with their models after every operation on either) together with the
  drop ledger (a shared buffer shows up as a double drop).

  `clone_from` (`World.cloneFrom`, mirroring `Archetypes::clone_from`: every source table is
  looked up in the destination by identifier bytes and overwrites that table in place or is added
  as a new table; destination tables without a counterpart are cleared, not removed; type-id
  lookups are upserted; the allocator is rebuilt through the identifier map) is proved too
  (`C10_clone_from`): for every destination and source satisfying the invariant over the same
  registry it never fails, leaves the destination satisfying the invariant and denoting the
  source's map with copied values, same `len`, same resources — whatever the destination held.
  (It need not compare `==` to the source: emptied destination tables remain, and `World::eq`
  compares table counts; the property claims equality for `clone()` only.)
-/
import BroodModel.Lemmas.CloneFrom
import BroodModel.Lemmas.AllocAbs
import BroodModel.Lemmas.Lockstep

namespace Brood

/-- **`clone` never reaches an unchecked map lookup that misses, and yields a world satisfying the
invariant, denoting the same map (values copied), with the same `len` and resources, equal to the
original.** -/
theorem C10_clone {w : World} (hi : Inv w) (e next : Nat) :
    ∃ w', w.clone e next = .ok w' ∧ Inv w' ∧ w'.n = w.n ∧ w'.len = w.len ∧
      (∀ id, w'.entity id = (w.entity id).map (fun vs => vs.map (cloneVal e))) ∧
      w'.res = w.res.map (cloneVal e) ∧ World.eqWorld w w' = .ok true :=
  clone_spec hi e next

/-- The same for every reachable world. -/
theorem C10_clone_reachable (n : Nat) (res : List Val) (ops : List Op) {w : World}
    (h : run (World.init n res) ops = .ok w) (e next : Nat) :
    ∃ w', w.clone e next = .ok w' ∧ Inv w' ∧ w'.len = w.len ∧
      (∀ id, w'.entity id = (w.entity id).map (fun vs => vs.map (cloneVal e))) ∧
      World.eqWorld w w' = .ok true ∧ World.eqWorld w' w = .ok true := by
  have hi := run_inv (inv_init n res) ops h
  obtain ⟨w', h1, h2, _, h4, h5, _, h7⟩ := clone_spec hi e next
  exact ⟨w', h1, h2, h4, h5, h7, eqWorld_true_symm hi h2 h7⟩

/-- **`clone_from` yields a world holding the same entities, identifiers, values and resources as
the source, whatever the destination held before**, never reaches an unchecked map lookup that
misses, and leaves the destination satisfying the invariant. -/
theorem C10_clone_from {d s : World} (hd : Inv d) (hs : Inv s) (hn : d.n = s.n) (e : Nat) :
    ∃ fin drops, World.cloneFrom d s e = .ok (fin, drops) ∧ Inv fin ∧ fin.n = s.n ∧ fin.len = s.len ∧
      fin.res = s.res.map (cloneVal e) ∧
      ∀ id, fin.entity id = (s.entity id).map (fun vs => vs.map (cloneVal e)) :=
  cloneFrom_spec hd hs hn e

/-- The destination keeps working afterwards like any valid world. -/
theorem C10_clone_from_keeps_working {d s : World} (hd : Inv d) (hs : Inv s) (hn : d.n = s.n) (e : Nat)
    (ops : List Op) (hwt : ∀ op ∈ ops, op.wt s.n) :
    ∃ fin drops fin', World.cloneFrom d s e = .ok (fin, drops) ∧ run fin ops = .ok fin' ∧ Inv fin' := by
  obtain ⟨fin, drops, h1, h2, h3, _⟩ := cloneFrom_spec hd hs hn e
  obtain ⟨fin', r1, r2, _⟩ := run_total h2 ops (by rw [h3]; exact hwt)
  exact ⟨fin, drops, fin', h1, r1, r2⟩

/-- A copied value is equivalent to (compares equal with) the value it was copied from and has the
same component type; its ledger identity is its own (`e > 0`). -/
theorem C10_copied_values (e : Nat) (v : Val) :
    v.eqv (cloneVal e v) = true ∧ (cloneVal e v).ty = v.ty ∧
    (0 < e → v.id < epochBase → (cloneVal e v).id ≠ v.id) := by
  refine ⟨eqv_cloneVal e v, rfl, ?_⟩
  intro he hv
  unfold cloneVal epochBase at *
  simp only
  have : v.id % 1048576 = v.id := Nat.mod_eq_of_lt hv
  have : e * 1048576 ≥ 1048576 := Nat.le_mul_of_pos_left _ he
  omega

/-- **The copy keeps satisfying the other properties**: every admissible history continued on the
clone runs to completion (C05), preserves the invariant (C13) and refines the reference map
(C01), exactly like the original. -/
theorem C10_clone_keeps_working {w : World} (hi : Inv w) (e next : Nat) (ops : List Op)
    (hwt : ∀ op ∈ ops, op.wt w.n) :
    ∃ c c', w.clone e next = .ok c ∧ run c ops = .ok c' ∧ Inv c' := by
  obtain ⟨c, h1, h2, h3, _⟩ := clone_spec hi e next
  obtain ⟨c', r1, r2, _⟩ := run_total h2 ops (by rw [h3]; exact hwt)
  exact ⟨c, c', h1, r1, r2⟩

/-- Non-vacuity: cloning a concrete reachable world. -/
example :
    (match run (World.init 2 [⟨7, 70⟩]) [.insert [0, 1] [⟨0, 1⟩, ⟨1, 2⟩], .insert [1] [⟨1, 3⟩], .remove ⟨0, 0⟩] with
     | .ok w =>
       (match w.clone 1 100 with
        | .ok c => (c.entity ⟨1, 0⟩, c.entity ⟨0, 0⟩, c.len, c.res,
            (match World.eqWorld w c with | .ok r => some r | .ub _ => none))
        | .ub _ => (none, none, 0, [], none))
     | .ub _ => (none, none, 0, [], none)) =
    (some [⟨1, 3 + 1048576⟩], none, 1, [⟨7, 70 + 1048576⟩], some true) := by decide

/-- Non-vacuity: `clone_from` into a destination that shares one table shape with the source, has
one the source lacks and lacks one the source has. -/
example :
    (match run (World.init 3 []) [.insert [0] [⟨0, 1⟩], .insert [1] [⟨1, 2⟩], .remove ⟨0, 0⟩],
           run (World.init 3 []) [.insert [0] [⟨0, 5⟩], .insert [0, 2] [⟨0, 6⟩, ⟨2, 7⟩]] with
     | .ok d, .ok s =>
       (match World.cloneFrom d s 1 with
        | .ok (f, _) => (f.entity ⟨0, 0⟩, f.entity ⟨1, 0⟩, f.len, f.archs.length)
        | .ub _ => (none, none, 0, 0))
     | _, _ => (none, none, 0, 0)) =
    (some [⟨0, 5 + 1048576⟩], some [⟨0, 6 + 1048576⟩, ⟨2, 7 + 1048576⟩], 2, 3) := by decide

/-- **A clone and its original keep issuing the same identifiers**: fed the same operations (any
history, `clear` in whatever table order each world has), both are handed the same identifiers —
the identifiers issued depend on the allocator abstraction only, which `clone` copies. -/
theorem C10_clone_lockstep {w : World} (hi : Inv w) (e next : Nat) (opsa opsb : List Op)
    (hops : opsa.map Op.forget = opsb.map Op.forget) :
    ∃ w', w.clone e next = .ok w' ∧
      ∀ {a b : World} {ia ib : List Ident}, runIssued w opsa = .ok (a, ia) → runIssued w' opsb = .ok (b, ib) →
        ia = ib ∧ a.alloc.abs = b.alloc.abs := by
  obtain ⟨w', h1, h2, _, _, _, _, h7⟩ := clone_spec hi e next
  exact ⟨w', h1, fun ra rb => lockstep_run opsa opsb hops hi h2 (eqWorld_abs hi h2 h7) ra rb⟩


/-- … and keep holding the same map: a clone and its original, fed the same admissible operations,
are issued the same identifiers and stay equal as maps from identifiers to values (up to the
component types' `PartialEq`), for every history. -/
theorem C10_clone_lockstep_full {w : World} (hi : Inv w) (e next : Nat) (opsa opsb : List Op)
    (hops : opsa.map Op.forget = opsb.map Op.forget) (hwt : ∀ op ∈ opsa, op.wt w.n) :
    ∃ w', w.clone e next = .ok w' ∧
      ∀ {a b : World} {ia ib : List Ident}, runIssued w opsa = .ok (a, ia) → runIssued w' opsb = .ok (b, ib) →
        ia = ib ∧ ∀ id, entEqv (a.entity id) (b.entity id) = true := by
  obtain ⟨w', h1, h2, h3, _, h5, _, h7⟩ := clone_spec hi e next
  refine ⟨w', h1, ?_⟩
  intro a b ia ib ra rb
  have hmap : MapEqv w.entity w'.entity := by
    intro id
    rw [h5 id]
    cases hx : w.entity id with
    | none => rfl
    | some r => exact rowEqv_clone e r
  obtain ⟨r1, t⟩ := twin_run opsa opsb hops hi h2 ⟨h3.symm, eqWorld_abs hi h2 h7, hmap⟩ hwt ra rb
  exact ⟨r1, t.map⟩

end Brood

#print axioms Brood.C10_clone
#print axioms Brood.C10_clone_reachable
#print axioms Brood.C10_copied_values
#print axioms Brood.C10_clone_keeps_working
#print axioms Brood.C10_clone_from
#print axioms Brood.C10_clone_from_keeps_working
#print axioms Brood.C10_clone_lockstep
#print axioms Brood.C10_clone_lockstep_full
