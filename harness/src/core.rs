//! Op interpreter over the real `World`, trace writer, generator (DESIGN §5.2–5.3).

use crate::comps::*;
use crate::family::Family;
use crate::rng::Rng;
use brood::entity;
use std::collections::HashMap;
use std::fmt::Write as _;
use std::io::Write as _;
use std::panic::{catch_unwind, AssertUnwindSafe};
use std::sync::atomic::Ordering;

pub type Id = (usize, u64);

#[derive(Clone, Debug)]
pub enum Op {
    New { res: Vec<u64> },
    Insert { shape: Vec<u8>, ids: Vec<u64> },
    Extend { shape: Vec<u8>, rows: Vec<Vec<u64>> },
    Remove(Id),
    Clear,
    Add(Id, usize, u64),
    Del(Id, usize),
    Write(Id, usize, u64),
    /// several entry operations through one entry handle: (kind 0 add / 1 del / 2 write / 3 read, component, value)
    Chain(Id, Vec<(u8, usize, u64)>),
    Reserve { shape: Vec<u8>, n: usize },
    Shrink,
    Clone { src: usize, e: u64 },
    CloneFrom { src: usize, e: u64 },
    Drop,
    Eq(usize),
    Probe(Id),
    Len,
    /// round trip `src` through serde into this slot: rows (human readable) or columns
    Serde { src: usize, rows: bool, e: u64, front: String, mutation: Vec<String> },
    /// a generated query, by family index (see queries.rs)
    Raw(String, Vec<String>),
}

pub fn fmt_list<T: std::fmt::Display>(v: &[T]) -> String {
    if v.is_empty() {
        "-".to_string()
    } else {
        v.iter().map(|x| x.to_string()).collect::<Vec<_>>().join(",")
    }
}

pub fn fmt_id(id: Id) -> String {
    format!("{}.{}", id.0, id.1)
}

pub fn parse_list<T: std::str::FromStr>(s: &str) -> Option<Vec<T>> {
    if s == "-" {
        return Some(vec![]);
    }
    s.split(',').map(|x| x.parse().ok()).collect()
}

pub fn parse_id(s: &str) -> Option<Id> {
    let (a, b) = s.split_once('.')?;
    Some((a.parse().ok()?, b.parse().ok()?))
}

pub fn mk_ident(id: Id) -> entity::Identifier {
    entity::Identifier::verif_new(id.0, id.1)
}

pub fn mask_of_bytes(n: usize, bytes: &[u8]) -> String {
    let mut s = String::new();
    for c in 0..n {
        let b = bytes.get(c / 8).map(|b| (b >> (c % 8)) & 1 != 0).unwrap_or(false);
        s.push(if b { '1' } else { '0' });
    }
    // padding bits must be zero and the length must be (n+7)/8
    let mut bad = bytes.len() != (n + 7) / 8;
    for c in n..bytes.len() * 8 {
        if (bytes[c / 8] >> (c % 8)) & 1 != 0 {
            bad = true;
        }
    }
    if bad {
        s.push_str("!pad");
    }
    s
}

impl Op {
    pub fn render(&self, w: usize, clear_order: &str) -> String {
        match self {
            Op::New { res } => format!("op {} new {}", w, fmt_list(res)),
            Op::Insert { shape, ids } => format!("op {} insert {} {}", w, fmt_list(shape), fmt_list(ids)),
            Op::Extend { shape, rows } => {
                let r = if rows.is_empty() {
                    "-".to_string()
                } else {
                    rows.iter().map(|r| fmt_list(r)).collect::<Vec<_>>().join("/")
                };
                format!("op {} extend {} {}", w, fmt_list(shape), r)
            }
            Op::Remove(id) => format!("op {} remove {}", w, fmt_id(*id)),
            Op::Clear => format!("op {} clear {}", w, clear_order),
            Op::Add(id, c, v) => format!("op {} add {} {} {}", w, fmt_id(*id), c, v),
            Op::Del(id, c) => format!("op {} del {} {}", w, fmt_id(*id), c),
            Op::Write(id, c, v) => format!("op {} write {} {} {}", w, fmt_id(*id), c, v),
            Op::Chain(id, steps) => format!("op {} chain {} {}", w, fmt_id(*id), steps.iter().map(|(k, c, v)| format!("{}:{}:{}", ["a", "d", "w", "r"][*k as usize], c, v)).collect::<Vec<_>>().join(",")),
            Op::Reserve { shape, n } => format!("op {} reserve {} {}", w, fmt_list(shape), n),
            Op::Shrink => format!("op {} shrink", w),
            Op::Clone { src, e } => format!("op {} clone {} {}", w, src, e),
            Op::CloneFrom { src, e } => format!("op {} clonefrom {} {}", w, src, e),
            Op::Drop => format!("op {} drop", w),
            Op::Eq(o) => format!("op {} eq {}", w, o),
            Op::Probe(id) => format!("op {} probe {}", w, fmt_id(*id)),
            Op::Len => format!("op {} len", w),
            Op::Serde { src, rows, e, front, mutation } => {
                let mut s = format!("op {} serde {} {} {} {}", w, src, if *rows { "rows" } else { "cols" }, e, front);
                for m in mutation {
                    s.push(' ');
                    s.push_str(m);
                }
                s
            }
            Op::Raw(name, args) => {
                let mut s = format!("op {} {}", w, name);
                for a in args {
                    s.push(' ');
                    s.push_str(a);
                }
                s
            }
        }
    }

    pub fn parse(toks: &[&str]) -> Option<(usize, Op)> {
        // toks: ["op", w, name, args…]
        if toks.len() < 3 || toks[0] != "op" {
            return None;
        }
        let w: usize = toks[1].parse().ok()?;
        let a = &toks[3..];
        let op = match (toks[2], a.len()) {
            ("new", 1) => Op::New { res: parse_list(a[0])? },
            ("insert", 2) => Op::Insert { shape: parse_list(a[0])?, ids: parse_list(a[1])? },
            ("extend", 2) => {
                let rows = if a[1] == "-" {
                    vec![]
                } else {
                    a[1].split('/').map(|r| parse_list(r)).collect::<Option<Vec<_>>>()?
                };
                Op::Extend { shape: parse_list(a[0])?, rows }
            }
            ("remove", 1) => Op::Remove(parse_id(a[0])?),
            ("clear", _) => Op::Clear,
            ("add", 3) => Op::Add(parse_id(a[0])?, a[1].parse().ok()?, a[2].parse().ok()?),
            ("del", 2) => Op::Del(parse_id(a[0])?, a[1].parse().ok()?),
            ("write", 3) => Op::Write(parse_id(a[0])?, a[1].parse().ok()?, a[2].parse().ok()?),
            ("chain", 2) => {
                let mut steps = Vec::new();
                for t in a[1].split(',') {
                    let f: Vec<&str> = t.split(':').collect();
                    if f.len() != 3 { return None; }
                    let k = match f[0] { "a" => 0u8, "d" => 1, "w" => 2, "r" => 3, _ => return None };
                    steps.push((k, f[1].parse().ok()?, f[2].parse().ok()?));
                }
                Op::Chain(parse_id(a[0])?, steps)
            }
            ("reserve", 2) => Op::Reserve { shape: parse_list(a[0])?, n: a[1].parse().ok()? },
            ("shrink", 0) => Op::Shrink,
            ("clone", 2) => Op::Clone { src: a[0].parse().ok()?, e: a[1].parse().ok()? },
            ("clonefrom", 2) => Op::CloneFrom { src: a[0].parse().ok()?, e: a[1].parse().ok()? },
            ("drop", 0) => Op::Drop,
            ("eq", 1) => Op::Eq(a[0].parse().ok()?),
            ("probe", 1) => Op::Probe(parse_id(a[0])?),
            ("len", 0) => Op::Len,
            ("serde", n) if n >= 4 => Op::Serde {
                src: a[0].parse().ok()?,
                rows: a[1] == "rows",
                e: a[2].parse().ok()?,
                front: a[3].to_string(),
                mutation: a[4..].iter().map(|s| s.to_string()).collect(),
            },
            (name, _) => Op::Raw(name.to_string(), a.iter().map(|s| s.to_string()).collect()),
        };
        Some((w, op))
    }
}

pub struct Interp<F: Family> {
    pub worlds: Vec<Option<F::W>>,
    pub out: Box<dyn std::io::Write>,
    pub case_name: String,
    /// identifiers ever issued, per world slot (clones / round trips inherit the source's)
    pub issued: Vec<Vec<Id>>,
    pub ops_run: u64,
    pub op_hist: HashMap<&'static str, u64>,
    pub stats: HashMap<String, u64>,
    pub alloc_base: (i64, i64, u64, u64),
    /// C06, lock step: `(a, b)` — `b` was made by round-tripping `a`, the round trip compared equal,
    /// and since then both received the same operations, one right after the other
    pub twin: Option<(usize, usize)>,
    /// the operation one twin has received and the other has not yet: (world, key, identifiers issued)
    pub twin_pending: Option<(usize, String, Option<String>)>,
    /// `(source, copy, how)`: `copy` was just made from `source` and neither was written since
    pub fresh_copy: Option<(usize, usize, &'static str)>,
}

pub fn render_dump<F: Family>(w: &mut F::W) -> String {
    let n = F::N;
    let d = F::dump(w);
    let rows = F::rows(w);
    let res = F::res(w);
    let mut by_id: HashMap<Id, &Vec<Option<u64>>> = HashMap::new();
    let mut dup = 0usize;
    for (id, vals) in rows.iter() {
        if by_id.insert(*id, vals).is_some() {
            dup += 1;
        }
    }
    let masks: Vec<String> = d.archetypes.iter().map(|a| mask_of_bytes(n, &a.identifier)).collect();
    let kinds: Vec<char> = F::KINDS.chars().collect();
    let mut s = String::new();
    write!(s, "len={}", d.len).unwrap();
    s.push_str(" slots=");
    let slots: Vec<String> = d
        .slots
        .iter()
        .map(|(g, loc)| match loc {
            None => format!("{}:-", g),
            Some((arch, row)) => match arch {
                Some(a) => format!("{}:{}@{}", g, masks[*a], row),
                None => format!("{}:?@{}", g, row),
            },
        })
        .collect();
    s.push_str(&slots.join(","));
    s.push_str(" free=");
    s.push_str(&d.free.iter().map(|i| i.to_string()).collect::<Vec<_>>().join(","));
    s.push_str(" archs=");
    let mut seen = 0usize;
    let mut archs: Vec<String> = d
        .archetypes
        .iter()
        .zip(masks.iter())
        .map(|(a, m)| {
            let comps: Vec<usize> = (0..n).filter(|c| m.as_bytes().get(*c) == Some(&b'1')).collect();
            let mut t = String::new();
            t.push_str(m);
            if a.columns != comps.len() {
                write!(t, "!cols{}", a.columns).unwrap();
            }
            if a.length != a.entity_identifiers.len() {
                t.push_str("!len");
            }
            t.push('[');
            let ids: Vec<String> = a
                .entity_identifiers
                .iter()
                .map(|id| {
                    let mut x = format!("{}.{}", id.0, id.1);
                    match by_id.get(id) {
                        Some(vals) => {
                            seen += 1;
                            let own: Vec<usize> = (0..n).filter(|c| vals[*c].is_some()).collect();
                            if own != comps {
                                x.push_str("!shape");
                            }
                        }
                        None => x.push_str("!unqueried"),
                    }
                    x
                })
                .collect();
            t.push_str(&ids.join(","));
            for c in comps.iter() {
                t.push('|');
                let col: Vec<String> = a
                    .entity_identifiers
                    .iter()
                    .map(|id| match by_id.get(id).and_then(|v| v[*c]) {
                        Some(v) => {
                            if kinds[*c] == 'z' {
                                "z".to_string()
                            } else {
                                v.to_string()
                            }
                        }
                        None => "?".to_string(),
                    })
                    .collect();
                t.push_str(&col.join(","));
            }
            t.push(']');
            t
        })
        .collect();
    archs.sort();
    s.push_str(&archs.join(";"));
    s.push_str(" typeids=");
    let mut t: Vec<String> = d
        .type_ids
        .iter()
        .map(|a| match a {
            Some(a) => masks[*a].clone(),
            None => "?".to_string(),
        })
        .collect();
    t.sort();
    s.push_str(&t.join(","));
    s.push_str(" foreign=");
    let mut t: Vec<String> = d
        .foreign
        .iter()
        .map(|(k, v)| match (k, v) {
            (Some(k), Some(v)) if k == v => masks[*v].clone(),
            (_, Some(v)) => format!("{}!key", masks[*v]),
            (_, None) => "?".to_string(),
        })
        .collect();
    t.sort();
    s.push_str(&t.join(","));
    s.push_str(" res=");
    let rk: Vec<char> = F::RES_KINDS.chars().collect();
    let r: Vec<String> = res
        .iter()
        .enumerate()
        .map(|(i, v)| if rk[i] == 'z' { "z".to_string() } else { v.to_string() })
        .collect();
    s.push_str(&r.join(","));
    if dup > 0 || seen != rows.len() {
        write!(s, " extra=dup{}-unseen{}", dup, rows.len() - seen).unwrap();
    }
    s
}

impl<F: Family + 'static> Interp<F> {
    pub fn new(out: Box<dyn std::io::Write>) -> Self {
        Interp {
            worlds: (0..4).map(|_| None).collect(),
            out,
            case_name: String::new(),
            issued: vec![vec![]; 4],
            ops_run: 0,
            twin: None,
            twin_pending: None,
            fresh_copy: None,
            op_hist: HashMap::new(),
            stats: HashMap::new(),
            alloc_base: (0, 0, 0, 0),
        }
    }

    pub fn line(&mut self, s: &str) {
        self.out.write_all(s.as_bytes()).unwrap();
        self.out.write_all(b"\n").unwrap();
    }

    pub fn flush(&mut self) {
        self.out.flush().unwrap();
    }

    pub fn start_case(&mut self, name: &str) {
        self.case_name = name.to_string();
        for w in self.worlds.iter_mut() {
            *w = None;
        }
        for i in self.issued.iter_mut() {
            i.clear();
        }
        reset_ledger();
        self.alloc_base = crate::alloc_audit::snapshot();
        let l = format!("case {}", name);
        self.line(&l);
        let l = format!("registry {} {}", F::N, F::KINDS);
        self.line(&l);
        let l = format!("resources {}", if F::RES_KINDS.is_empty() { "-" } else { F::RES_KINDS });
        self.line(&l);
    }

    /// Drop every world and check that the ledger is empty.
    pub fn end_case(&mut self) {
        for w in 0..self.worlds.len() {
            if self.worlds[w].is_some() {
                self.exec(w, &Op::Drop);
            }
        }
        let live = live_count();
        if live != 0 {
            let l = format!("X harness case={} oracle=ledger-leak live-values-after-all-worlds-dropped={}", self.case_name, live);
            self.line(&l);
        }
        // allocator audit: everything obtained while the library ran is returned once every world
        // is dropped; no layout mismatch, no double free
        let now = crate::alloc_audit::snapshot();
        let b = self.alloc_base;
        if now.0 != b.0 || now.1 != b.1 {
            let l = format!("X harness case={} oracle=alloc leak: {} blocks / {} bytes obtained during library calls are still allocated after every world was dropped", self.case_name, now.0 - b.0, now.1 - b.1);
            self.line(&l);
        }
        if now.2 != b.2 {
            let l = format!("X harness case={} oracle=alloc {} deallocations/reallocations with a size or alignment different from the allocation's", self.case_name, now.2 - b.2);
            self.line(&l);
        }
        if now.3 != b.3 {
            let l = format!("X harness case={} oracle=alloc {} double frees", self.case_name, now.3 - b.3);
            self.line(&l);
        }
        self.flush();
    }

    fn bump(&mut self, k: &str) {
        *self.stats.entry(k.to_string()).or_insert(0) += 1;
    }

    fn clear_order(&self, w: usize) -> String {
        match &self.worlds[w] {
            Some(world) => {
                let d = F::dump(world);
                let masks: Vec<String> = d.archetypes.iter().map(|a| mask_of_bytes(F::N, &a.identifier)).collect();
                fmt_list(&masks)
            }
            None => "-".to_string(),
        }
    }

    /// Execute one op on the real world(s); writes the op line (before running), the result line
    /// and the dumps of every live world.
    pub fn exec(&mut self, w: usize, op: &Op) -> String {
        if let Op::Serde { src, rows, e, mutation, .. } = op {
            // the real serialization (possibly mutated) becomes an explicit `de` op
            return match crate::serde_ops::build_de::<F>(self, *src, *rows, *e, mutation) {
                Some(de) => self.exec(w, &de),
                None => self.exec(w, &Op::Len),
            };
        }
        if let Op::Raw(name, args) = op {
            if name == "de" && args.len() == 4 {
                if let (Ok(src), Ok(e)) = (args[2].parse::<usize>(), args[1].parse::<u64>()) {
                    // an unmutated round trip of world `src`: the tokens are what `src` serializes to
                    // NOW (a replay whose history was shrunk may carry the tokens of another state)
                    match crate::serde_ops::build_de::<F>(self, src, args[0] == "rows", e, &[]) {
                        Some(Op::Raw(_, fresh)) => {
                            if fresh[3] != args[3] {
                                return self.exec(w, &Op::Raw("de".into(), fresh));
                            }
                        }
                        _ => return self.exec(w, &Op::Len),
                    }
                }
            }
        }
        let order = if matches!(op, Op::Clear) { self.clear_order(w) } else { String::new() };
        let line = op.render(w, &order);
        self.line(&line);
        self.flush();
        self.ops_run += 1;
        take_drops();
        take_drops();
        let was = crate::alloc_audit::set_in_lib(true);
        let result = catch_unwind(AssertUnwindSafe(|| self.exec_inner(w, op)));
        crate::alloc_audit::set_in_lib(was);
        let drops = take_drops();
        // C06: a round-tripped world "from then on behaves identically to the original under any
        // further operations (same identifiers issued …)": while a world and its round-tripped copy
        // receive the same operations in lock step, the identifiers they are handed must be equal
        {
            let key: Option<String> = match op {
                Op::Extend { shape, rows } => Some(format!("extend {:?} {}", shape, rows.len())),
                Op::Insert { shape, .. } => Some(format!("insert {:?}", shape)),
                Op::Clear => Some("clear".into()),
                Op::Remove(id) => Some(format!("remove {}", fmt_id(*id))),
                Op::Shrink => Some("shrink".into()),
                _ => None,
            };
            let res_s: Option<&String> = match &result { Ok(Some(r)) => Some(r), _ => None };
            let ids: Option<String> = res_s.and_then(|r| r.split_whitespace().find_map(|t| t.strip_prefix("ids=").or_else(|| t.strip_prefix("id=")).map(|x| x.to_string())));
            let mut new_twin = None;
            if let Op::Raw(name, args) = op {
                if name == "de" && args.len() == 4 {
                    if let (Ok(src), Some(r)) = (args[2].parse::<usize>(), res_s) {
                        if r.starts_with("ok eq=1") && src != w {
                            new_twin = Some((src, w));
                        }
                    }
                }
            }
            let writes_w = !matches!(op, Op::Eq(_) | Op::Len | Op::Probe(_));
            // C10 / C16 / C06: a copy that nobody has touched yet compares equal to its source
            let made: Option<(usize, &'static str)> = match op {
                Op::Clone { src, .. } if res_s.map_or(false, |r| r.starts_with("ok")) => Some((*src, "clone")),
                // (not `clone_from`: C10 asks a clone_from result to hold the source's entities, not to
                // compare equal — tables the destination had before stay, empty, and `==` sees them)
                _ => new_twin.map(|(s0, _)| (s0, "a serde round trip")),
            };
            if let Some((s0, how)) = made {
                self.fresh_copy = if s0 != w { Some((s0, w, how)) } else { None };
            } else if let Some((a, b, how)) = self.fresh_copy {
                if let Op::Eq(o) = op {
                    if (w == a && *o == b) || (w == b && *o == a) {
                        if let Some(r) = res_s {
                            if r.contains("eq=0") {
                                ledger_error(format!("oracle=eq world {} was made from world {} by {} and neither was written since, yet they do not compare equal", b, a, how));
                            }
                        }
                    }
                } else if (w == a || w == b) && writes_w {
                    self.fresh_copy = None;
                }
            }
            if new_twin.is_some() {
                self.twin = new_twin;
                self.twin_pending = None;
            } else if let Some((a, b)) = self.twin {
                if (w == a || w == b) && writes_w {
                    match (self.twin_pending.take(), key) {
                        (None, Some(k)) => self.twin_pending = Some((w, k, ids)),
                        (Some((pw, pk, pids)), Some(k)) if pw != w && pk == k => {
                            if let (Some(x), Some(y)) = (&pids, &ids) {
                                if x != y {
                                    ledger_error(format!("oracle=lockstep world {} and its round-tripped copy {} received the same operations, then `{}` issued [{}] in one and [{}] in the other", a, b, k, x, y));
                                }
                            }
                        }
                        _ => self.twin = None,
                    }
                }
            }
        }
        let r = match result {
            Ok(Some(mut r)) => {
                if r.contains("drops=@") {
                    r = r.replace("drops=@", &format!("drops={}", fmt_drops(&drops)));
                } else if !drops.is_empty() {
                    r.push_str(&format!(" unexpected-drops={}", fmt_drops(&drops)));
                }
                r
            }
            Ok(None) => "bad-op".to_string(),
            Err(_) => "panicked".to_string(),
        };
        disarm();
        let l = format!("r {}", r);
        self.line(&l);
        for i in 0..self.worlds.len() {
            if self.worlds[i].is_some() {
                let d = catch_unwind(AssertUnwindSafe(|| render_dump::<F>(self.worlds[i].as_mut().unwrap())));
                let l = match d {
                    Ok(d) => format!("d {} {}", i, d),
                    Err(_) => format!("d {} dump-panicked", i),
                };
                self.line(&l);
            }
        }
        for e in take_errors() {
            let l = if e.starts_with("oracle=") {
                format!("X harness case={} {}", self.case_name, e)
            } else {
                format!("X harness case={} oracle=ledger {}", self.case_name, e)
            };
            self.line(&l);
        }
        take_drops();
        r
    }

    fn exec_inner(&mut self, w: usize, op: &Op) -> Option<String> {
        if w >= self.worlds.len() {
            return None;
        }
        match op {
            Op::New { res } => {
                if res.len() != F::RES_KINDS.len() {
                    return None;
                }
                let old = self.worlds[w].take();
                drop(old);
                self.worlds[w] = Some(F::new_world(res));
                no_lib(|| self.issued[w].clear());
                return Some("ok drops=@".into());
            }
            Op::Clone { src, e } => {
                if *src >= self.worlds.len() || *src == w {
                    return None;
                }
                if self.worlds[*src].is_none() {
                    return Some("no-world".into());
                }
                EPOCH.store(*e, Ordering::SeqCst);
                let c = F::clone_world(self.worlds[*src].as_ref().unwrap());
                let old = self.worlds[w].take();
                drop(old);
                self.worlds[w] = Some(c);
                no_lib(|| self.issued[w] = self.issued[*src].clone());
                return Some("ok drops=@".into());
            }
            Op::CloneFrom { src, e } => {
                if *src >= self.worlds.len() || *src == w {
                    return None;
                }
                if self.worlds[*src].is_none() || self.worlds[w].is_none() {
                    return Some("no-world".into());
                }
                EPOCH.store(*e, Ordering::SeqCst);
                let (dst, srcw) = pair_mut(&mut self.worlds, w, *src);
                F::clone_from(dst.as_mut().unwrap(), srcw.as_ref().unwrap());
                no_lib(|| {
                    let mut merged = self.issued[*src].clone();
                    merged.extend(self.issued[w].iter().cloned());
                    // keep the bookkeeping linear: repeated clone_from between the same worlds
                    // would otherwise double this list every time
                    merged.sort();
                    merged.dedup();
                    self.issued[w] = merged;
                });
                return Some("ok drops=@".into());
            }
            Op::Eq(o) => {
                if *o >= self.worlds.len() {
                    return None;
                }
                if self.worlds[*o].is_none() || self.worlds[w].is_none() {
                    return Some("no-world".into());
                }
                let (r, rev) = if *o == w {
                    let a = self.worlds[w].as_ref().unwrap();
                    (F::eq(a, a), F::eq(a, a))
                } else {
                    let (a, b) = pair_mut(&mut self.worlds, w, *o);
                    (F::eq(a.as_ref().unwrap(), b.as_ref().unwrap()), F::eq(b.as_ref().unwrap(), a.as_ref().unwrap()))
                };
                return Some(format!("ok eq={} rev={}", r as u8, rev as u8));
            }
            Op::Raw(name, args) if name == "de" => {
                return crate::serde_ops::exec_de::<F>(self, w, args);
            }
            Op::Drop => {
                if self.worlds[w].is_none() {
                    return Some("no-world".into());
                }
                let old = self.worlds[w].take();
                drop(old);
                return Some("ok drops=@".into());
            }
            _ => {}
        }
        let world = match self.worlds[w].as_mut() {
            Some(w) => w,
            None => return Some("no-world".into()),
        };
        match op {
            Op::Insert { shape, ids } => {
                if shape.len() != ids.len() {
                    return None;
                }
                let id = F::insert(world, shape, ids)?;
                let p = id.verif_parts();
                no_lib(|| self.issued[w].push(p));
                Some(format!("ok id={}", fmt_id(p)))
            }
            Op::Extend { shape, rows } => {
                if rows.iter().any(|r| r.len() != shape.len()) {
                    return None;
                }
                let ids = F::extend(world, shape, rows)?;
                let ps: Vec<Id> = ids.iter().map(|i| i.verif_parts()).collect();
                no_lib(|| self.issued[w].extend(ps.iter().cloned()));
                Some(format!("ok ids={}", ps.iter().map(|p| fmt_id(*p)).collect::<Vec<_>>().join(",")))
            }
            Op::Remove(id) => {
                F::remove(world, mk_ident(*id));
                Some("ok drops=@".into())
            }
            Op::Clear => {
                F::clear(world);
                Some("ok drops=@".into())
            }
            Op::Add(id, c, v) => match F::add(world, mk_ident(*id), *c, *v)? {
                true => Some("ok drops=@".into()),
                false => Some("none".into()),
            },
            Op::Del(id, c) => match F::del(world, mk_ident(*id), *c)? {
                true => Some("ok drops=@".into()),
                false => Some("none".into()),
            },
            Op::Write(id, c, v) => match F::write(world, mk_ident(*id), *c, *v)? {
                true => Some("ok drops=@".into()),
                false => Some("none".into()),
            },
            Op::Chain(id, steps) => match F::chain(world, mk_ident(*id), steps)? {
                Some(reads) => Some(format!("ok drops=@ reads={}", if reads.is_empty() { "-".to_string() } else { reads.iter().map(|r| match r { Some(v) => v.clone(), None => "n".to_string() }).collect::<Vec<_>>().join(",") })),
                None => Some("none".into()),
            },
            Op::Reserve { shape, n } => {
                if F::reserve(world, shape, *n) {
                    Some("ok".into())
                } else {
                    None
                }
            }
            Op::Shrink => {
                F::shrink(world);
                Some("ok".into())
            }
            Op::Probe(id) => {
                let c = F::contains(world, mk_ident(*id));
                let e = F::has_entry(world, mk_ident(*id));
                Some(format!("ok contains={} entry={}", c as u8, e as u8))
            }
            Op::Len => Some(format!("ok len={} empty={}", F::len(world), F::is_empty(world) as u8)),
            Op::Raw(name, args) => crate::raw_ops::exec_raw::<F>(self, w, name, args),
            _ => None,
        }
    }
}

pub fn pair_mut<T>(v: &mut [T], a: usize, b: usize) -> (&mut T, &mut T) {
    assert!(a != b);
    if a < b {
        let (x, y) = v.split_at_mut(b);
        (&mut x[a], &mut y[0])
    } else {
        let (x, y) = v.split_at_mut(a);
        (&mut y[0], &mut x[b])
    }
}

// ------------------------------------------------------------------------------------------
// Generator
// ------------------------------------------------------------------------------------------

pub struct GenCfg {
    pub ops: usize,
    pub profile: String,
}

pub struct Gen {
    pub rng: Rng,
    pub next_val: u64,
    pub next_epoch: u64,
}

impl Gen {
    pub fn val(&mut self) -> u64 {
        self.next_val += 1;
        self.next_val
    }
    pub fn epoch(&mut self) -> u64 {
        self.next_epoch += 1;
        self.next_epoch
    }
}

/// Free-list length of a world, read from the hook (used to aim batches at the free list).
fn free_len<F: Family>(w: &F::W) -> usize {
    F::dump(w).free.len()
}

pub fn run_case<F: Family>(it: &mut Interp<F>, name: &str, seed: u64, cfg: &GenCfg) {
    let mut g = Gen { rng: Rng::new(seed), next_val: 0, next_epoch: 0 };
    it.start_case(name);
    let nres = F::RES_KINDS.len();
    let shapes = F::shapes();
    // a small working set of shapes per case so archetypes collide and fill up
    let nwork = 2 + g.rng.below(5) as usize;
    let work: Vec<&[u8]> = (0..nwork).map(|_| shapes[g.rng.below(shapes.len() as u64) as usize]).collect();
    let res: Vec<u64> = (0..nres).map(|_| g.val()).collect();
    it.exec(0, &Op::New { res });
    let multi = !cfg.profile.contains("single");
    let serde_on = cfg.profile.contains("serde");
    // an entity without components (its table's identifier is all zeroes) in a third of the cases
    if g.rng.below(3) == 0 && shapes.iter().any(|s| s.is_empty()) {
        it.exec(0, &Op::Insert { shape: vec![], ids: vec![] });
    }
    // "slot churn" (C02): one slot's generation counter driven far up — case 7 of every run goes past
    // 2^16 reuses of one slot (a counter narrower than the identifier's would wrap), one case in
    // twelve a few dozen
    if shapes.iter().any(|s| s.is_empty()) {
        let big = name.rsplit('-').next().map(|k| k == "7").unwrap_or(false);
        if big || g.rng.below(12) == 0 {
            it.exec(0, &Op::Insert { shape: vec![], ids: vec![] });
            if let Some(id) = it.issued[0].last().cloned() {
                let n = if big { 66_000 } else { 1 + g.rng.below(40) };
                it.exec(0, &Op::Raw("churn".into(), vec![fmt_id(id), n.to_string()]));
                it.bump(if big { "churn-big" } else { "churn" });
            }
        }
    }
    for _ in 0..cfg.ops {
        let w = if !multi {
            0
        } else {
            let r = g.rng.below(100);
            if r < 65 { 0 } else if r < 88 { 1 } else { 2 }
        };
        if it.worlds[w].is_none() {
            // populate an empty slot: new, clone or round trip of world 0
            let r = g.rng.below(3);
            let op = if r == 0 || it.worlds[0].is_none() || w == 0 {
                Op::New { res: (0..nres).map(|_| g.val()).collect() }
            } else if r == 1 || !serde_on {
                Op::Clone { src: 0, e: g.epoch() }
            } else {
                Op::Serde { src: 0, rows: g.rng.below(2) == 0, e: g.epoch(), front: "tokens".into(), mutation: vec![] }
            };
            it.exec(w, &op);
            continue;
        }
        let pick_shape = |g: &mut Gen| -> Vec<u8> {
            if g.rng.below(10) < 8 {
                work[g.rng.below(work.len() as u64) as usize].to_vec()
            } else {
                shapes[g.rng.below(shapes.len() as u64) as usize].to_vec()
            }
        };
        let pick_id = |g: &mut Gen, it: &Interp<F>| -> Id {
            let iss = &it.issued[w];
            if iss.is_empty() || g.rng.below(40) == 0 {
                // an identifier never issued
                (g.rng.below(6) as usize + iss.len(), g.rng.below(3))
            } else if g.rng.below(4) == 0 {
                // any identifier ever issued (often stale)
                iss[g.rng.below(iss.len() as u64) as usize]
            } else {
                // prefer a live one
                let wd = it.worlds[w].as_ref().unwrap();
                for _ in 0..6 {
                    let id = iss[g.rng.below(iss.len() as u64) as usize];
                    if F::contains(wd, mk_ident(id)) {
                        return id;
                    }
                }
                iss[g.rng.below(iss.len() as u64) as usize]
            }
        };
        // "twin" probe (C16/C10): make `o` a copy of `w`, change one value of `w`, compare
        if multi && g.rng.below(100) < 3 {
            let o = (w + 1 + g.rng.below(2) as usize) % 3;
            let rows = F::rows(it.worlds[w].as_mut().unwrap());
            let cand: Vec<(Id, usize)> = rows.iter().flat_map(|(id, vals)| vals.iter().enumerate().filter(|(c, v)| v.is_some() && F::KINDS.as_bytes()[*c] != b'z').map(move |(c, _)| (*id, c))).collect();
            if !cand.is_empty() {
                let (id, c) = cand[g.rng.below(cand.len() as u64) as usize];
                let e = g.epoch();
                if g.rng.below(2) == 0 || !serde_on {
                    it.exec(o, &Op::Clone { src: w, e });
                } else {
                    it.exec(o, &Op::Serde { src: w, rows: g.rng.below(2) == 0, e, front: "tokens".into(), mutation: vec![] });
                }
                it.exec(w, &Op::Eq(o));
                let v = g.val();
                it.exec(w, &Op::Write(id, c, v));
                it.exec(w, &Op::Eq(o));
                it.bump("twin-probe");
                continue;
            }
        }
        // malformed input: in the `mutate` profile one op in twelve is a mutated round trip on top of
        // the share the op mix gives
        if multi && serde_on && cfg.profile.contains("mutate") && g.rng.below(12) == 0 {
            let src = g.rng.below(3) as usize;
            if it.worlds[src].is_some() && src != w {
                let mutation = vec![format!("seed={}", g.rng.next() % 1_000_000)];
                it.exec(w, &Op::Serde { src, rows: g.rng.below(2) == 0, e: g.epoch(), front: "tokens".into(), mutation });
                *it.op_hist.entry("serde").or_insert(0) += 1;
                continue;
            }
        }
        // "drained" (C10/C06/C16): a world that lost all its entities and was then shrunk has no table
        // left but still carries slot generations and a free queue; copy it, compare, use both
        if multi && g.rng.below(100) < 2 {
            it.exec(w, &Op::Clear);
            it.exec(w, &Op::Shrink);
            let o = (w + 1 + g.rng.below(2) as usize) % 3;
            let e = g.epoch();
            match g.rng.below(if serde_on { 3 } else { 2 }) {
                0 => { it.exec(o, &Op::Clone { src: w, e }); }
                1 => { if it.worlds[o].is_some() { it.exec(o, &Op::CloneFrom { src: w, e }); } else { it.exec(o, &Op::Clone { src: w, e }); } }
                _ => { it.exec(o, &Op::Serde { src: w, rows: g.rng.below(2) == 0, e, front: "tokens".into(), mutation: vec![] }); }
            }
            it.exec(w, &Op::Eq(o));
            let shape = { let mut sh = pick_shape(&mut g); if sh.is_empty() { sh = work.iter().find(|x| !x.is_empty()).map(|x| x.to_vec()).unwrap_or(sh); } sh };
            let n = if shape.is_empty() { 0 } else { 1 + g.rng.below(4) as usize };
            let rows: Vec<Vec<u64>> = (0..n).map(|_| shape.iter().map(|_| g.val()).collect()).collect();
            it.exec(w, &Op::Extend { shape: shape.clone(), rows });
            if it.worlds[o].is_some() {
                let rows: Vec<Vec<u64>> = (0..n).map(|_| shape.iter().map(|_| g.val()).collect()).collect();
                it.exec(o, &Op::Extend { shape, rows });
                it.exec(w, &Op::Eq(o));
            }
            it.bump("drained");
            continue;
        }
        // slot churn in the middle of a history: with other slots free, the rounds rotate through the
        // free ring
        if g.rng.below(100) < 1 && shapes.iter().any(|s| s.is_empty()) {
            it.exec(w, &Op::Insert { shape: vec![], ids: vec![] });
            if let Some(id) = it.issued[w].last().cloned() {
                it.exec(w, &Op::Raw("churn".into(), vec![fmt_id(id), (1 + g.rng.below(25)).to_string()]));
                it.bump("churn");
            }
            continue;
        }
        // "ring churn" (C01/C02/C06/C10): rotate the allocator's free ring by alternating removals and
        // insertions (its contents then wrap around the end of the buffer), optionally copy the world
        // (a copy's free list is contiguous), then aim a batch at the free list of both
        if g.rng.below(100) < 3 {
            let live: Vec<Id> = F::rows(it.worlds[w].as_mut().unwrap()).iter().map(|(id, _)| *id).collect();
            if live.len() >= 4 {
                let k = 2 + g.rng.below(3) as usize;
                for id in live.iter().take(k.min(live.len() - 1)) {
                    it.exec(w, &Op::Remove(*id));
                }
                let turns = 1 + g.rng.below(5);
                for _ in 0..turns {
                    let shape = pick_shape(&mut g);
                    let ids = shape.iter().map(|_| g.val()).collect();
                    it.exec(w, &Op::Insert { shape, ids });
                    let live: Vec<Id> = F::rows(it.worlds[w].as_mut().unwrap()).iter().map(|(id, _)| *id).collect();
                    if let Some(id) = live.get(g.rng.below(live.len().max(1) as u64) as usize) {
                        it.exec(w, &Op::Remove(*id));
                    }
                }
                let o = (w + 1 + g.rng.below(2) as usize) % 3;
                let copied = multi && g.rng.below(3) != 0;
                let mut round_tripped = false;
                if copied {
                    let e = g.epoch();
                    match g.rng.below(if serde_on { 4 } else { 2 }) {
                        0 => { it.exec(o, &Op::Clone { src: w, e }); }
                        1 => { if it.worlds[o].is_some() { it.exec(o, &Op::CloneFrom { src: w, e }); } else { it.exec(o, &Op::Clone { src: w, e }); } }
                        _ => {
                            let r = it.exec(o, &Op::Serde { src: w, rows: g.rng.below(2) == 0, e, front: "tokens".into(), mutation: vec![] });
                            round_tripped = r.starts_with("ok eq=1");
                        }
                    }
                }
                // sometimes both are cleared first: the order in which `clear` visits the tables differs
                // between a world and its copy (the table is keyed by addresses)
                if g.rng.below(3) == 0 {
                    it.exec(w, &Op::Clear);
                    if copied && it.worlds[o].is_some() {
                        it.exec(o, &Op::Clear);
                    }
                    it.bump("ring-churn:clear");
                }
                let fl = free_len::<F>(it.worlds[w].as_ref().unwrap());
                let shape = { let mut sh = pick_shape(&mut g); if sh.is_empty() { sh = work.iter().find(|x| !x.is_empty()).map(|x| x.to_vec()).unwrap_or(sh); } sh };
                let n = if shape.is_empty() { 0 } else { (fl + g.rng.below(3) as usize).saturating_sub(g.rng.below(2) as usize).min(12) };
                let rows: Vec<Vec<u64>> = (0..n).map(|_| shape.iter().map(|_| g.val()).collect()).collect();
                let r1 = it.exec(w, &Op::Extend { shape: shape.clone(), rows });
                if copied && it.worlds[o].is_some() {
                    let rows: Vec<Vec<u64>> = (0..n).map(|_| shape.iter().map(|_| g.val()).collect()).collect();
                    let r2 = it.exec(o, &Op::Extend { shape, rows });
                    // (the executor compares the identifiers of two consecutive equal batches into worlds
                    // that compared equal: oracle=lockstep)
                    let _ = (&r1, &r2, round_tripped);
                    it.exec(w, &Op::Eq(o));
                }
                it.bump("ring-churn");
                continue;
            }
        }
        let query_on = cfg.profile.contains("query");
        let r = if query_on && g.rng.below(100) < 45 { 200 + g.rng.below(100) } else { g.rng.below(130) };
        if cfg.profile.contains("sched") && F::NAME == "Reg4" && g.rng.below(100) < 22 {
            let all = crate::gen_sched::schedules();
            let s = all[g.rng.below(all.len() as u64) as usize].0;
            // a third of the time the schedule runs on a purpose-built SPARSE world: a fresh world
            // holding two to four tables chosen among, for every task, the components its views /
            // entry views / `has` filters name, alone or united with another task's.  Which tasks may
            // run together is decided per table, and one extra table often hides a wrong decision.
            if g.rng.below(3) == 0 {
                let comps_of = |t: &str| -> Vec<u8> {
                    let mut c: Vec<u8> = Vec::new();
                    let f: Vec<&str> = t.split(':').collect();
                    for field in [f.get(1), f.get(2), f.get(4)].into_iter().flatten() {
                        for tok in field.split(|ch| ch == ',' || ch == '_') {
                            let digits: String = tok.chars().filter(|ch| ch.is_ascii_digit()).collect();
                            if tok.starts_with("not") || digits.is_empty() { continue; }
                            if let Ok(k) = digits.parse::<u8>() { if (k as usize) < F::N && !c.contains(&k) { c.push(k); } }
                        }
                    }
                    c
                };
                let tasks: Vec<Vec<u8>> = s.split('|').map(comps_of).collect();
                let mut cand: Vec<Vec<u8>> = Vec::new();
                for (i, a) in tasks.iter().enumerate() {
                    if !a.is_empty() { cand.push(a.clone()); }
                    for b in tasks.iter().skip(i + 1) {
                        let mut u = a.clone();
                        for k in b { if !u.contains(k) { u.push(*k); } }
                        if !u.is_empty() { cand.push(u.clone()); cand.push(u); }   // unions twice as likely
                    }
                }
                if !cand.is_empty() {
                    it.exec(w, &Op::New { res: (0..nres).map(|_| g.val()).collect() });
                    let k = 2 + g.rng.below(3) as usize;
                    for _ in 0..k {
                        let sh = cand[g.rng.below(cand.len() as u64) as usize].clone();
                        for _ in 0..(1 + g.rng.below(2)) {
                            let ids = sh.iter().map(|_| g.val()).collect();
                            it.exec(w, &Op::Insert { shape: sh.clone(), ids });
                        }
                    }
                    it.bump("sched:sparse-world");
                }
            }
            let e = g.epoch();
            *it.op_hist.entry("sched").or_insert(0) += 1;
            let r = it.exec(w, &Op::Raw("sched".into(), vec![s.to_string(), e.to_string(), "2".to_string()]));
            let nph = r.split("phases=").nth(1).map(|p| p.split('/').count()).unwrap_or(0);
            let nst = r.split("stages=").nth(1).and_then(|p| p.split(' ').next()).map(|p| p.split('/').count()).unwrap_or(0);
            it.bump(if nph < nst { "sched:add-ons" } else { "sched:no-add-ons" });
            continue;
        }
        if cfg.profile.contains("par") && g.rng.below(100) < 35 {
            let qs = F::par_queries();
            let q = &qs[g.rng.below(qs.len() as u64) as usize];
            let has_mut = q.0.split(',').any(|v| v.starts_with('m') || v.starts_with("om"));
            let threads = [1u64, 2, 3, 8, 16][g.rng.below(5) as usize];
            let e = if has_mut && g.rng.below(2) == 0 { g.epoch().to_string() } else { "-".to_string() };
            *it.op_hist.entry("parq").or_insert(0) += 1;
            let r = it.exec(w, &Op::Raw("parq".into(), vec![q.0.to_string(), q.1.to_string(), threads.to_string(), g.rng.below(3).to_string(), e]));
            let nrows = r.split_whitespace().find_map(|t| t.strip_prefix("n=")).and_then(|v| v.parse::<u64>().ok()).unwrap_or(0);
            it.bump(if nrows == 0 { "parq:empty" } else if nrows < 3 { "parq:1-2" } else { "parq:3+" });
            continue;
        }
        let res_on = cfg.profile.contains("res") && nres > 0;
        let op = if res_on && g.rng.below(100) < 25 {
            if g.rng.below(3) == 0 {
                Op::Raw("res".into(), vec!["set".into(), g.rng.below(nres as u64).to_string(), g.val().to_string()])
            } else {
                let k = g.rng.below(nres as u64 + 1) as usize;
                let mut ps: Vec<usize> = (0..nres).collect();
                for i in 0..ps.len() { let j = i + g.rng.below((ps.len() - i) as u64) as usize; ps.swap(i, j); }
                let mut any_mut = false;
                let d: Vec<String> = ps[..k].iter().map(|p| { let m = g.rng.below(2) == 0; any_mut |= m; format!("{}{}", p, if m { "m" } else { "r" }) }).collect();
                if k == 3 && (ps[..3] == [1, 2, 0] || ps[..3] == [2, 0, 1]) { ps.swap(0, 1); }
                let d: Vec<String> = ps[..k].iter().zip(d.iter()).map(|(p, old)| format!("{}{}", p, &old[old.len() - 1..])).collect();
                let e = if any_mut && g.rng.below(2) == 0 { g.epoch().to_string() } else { "-".to_string() };
                Op::Raw("res".into(), vec!["view".into(), if d.is_empty() { "-".into() } else { d.join(",") }, e])
            }
        } else if r >= 200 {
            let r = r - 200;
            if r < 60 {
                let qs = F::queries();
                let q = &qs[g.rng.below(qs.len() as u64) as usize];
                let has_mut = q.0.split(',').any(|v| v.starts_with('m') || v.starts_with("om"));
                let mode = match g.rng.below(4) { 0 => "next", 1 => "fold", 2 => "mix1", _ => "mix2" };
                let e = if has_mut && g.rng.below(2) == 0 { g.epoch().to_string() } else { "-".to_string() };
                Op::Raw("q".into(), vec![q.0.to_string(), q.1.to_string(), mode.to_string(), e])
            } else if r < 80 {
                let qs = F::entryqs();
                let q = &qs[g.rng.below(qs.len() as u64) as usize];
                let id = pick_id(&mut g, it);
                Op::Raw("entryq".into(), vec![fmt_id(id), q.0.to_string(), q.1.to_string()])
            } else {
                let qs = F::entries();
                let q = &qs[g.rng.below(qs.len() as u64) as usize];
                let id = pick_id(&mut g, it);
                Op::Raw("entries".into(), vec![q.0.to_string(), q.1.to_string(), q.2.to_string(), fmt_id(id), q.3.to_string(), q.4.to_string()])
            }
        } else if r < 20 {
            let shape = pick_shape(&mut g);
            let ids = shape.iter().map(|_| g.val()).collect();
            Op::Insert { shape, ids }
        } else if r < 34 {
            let shape = pick_shape(&mut g);
            let fl = free_len::<F>(it.worlds[w].as_ref().unwrap());
            let n = if shape.is_empty() {
                0
            } else {
                match g.rng.below(8) {
                    0 => 0,
                    1 => 1,
                    2 => fl.saturating_sub(1),
                    3 => fl,
                    4 => fl + 1,
                    5 => fl / 2,
                    _ => g.rng.below(6) as usize,
                }
                .min(9) + if cfg.profile.contains("par") && g.rng.below(3) == 0 { 7 + g.rng.below(30) as usize } else { 0 }
            };
            let key = if n == 0 { "extend:n=0" } else if n < fl { "extend:n<free" } else if n == fl { "extend:n=free" } else { "extend:n>free" };
            it.bump(key);
            let rows = (0..n).map(|_| shape.iter().map(|_| g.val()).collect()).collect();
            Op::Extend { shape, rows }
        } else if r < 54 {
            Op::Remove(pick_id(&mut g, it))
        } else if r < 56 {
            Op::Clear
        } else if r < 59 {
            // several operations through ONE entry handle (location cached in the handle)
            let id = pick_id(&mut g, it);
            let n = 2 + g.rng.below(4) as usize;
            let steps = (0..n).map(|_| { let k = [0u8, 0, 1, 1, 2, 3, 3][g.rng.below(7) as usize]; (k, g.rng.below(F::N.max(1) as u64) as usize, if k == 0 || k == 2 { g.val() } else { 0 }) }).collect();
            it.bump("chain");
            Op::Chain(id, steps)
        } else if r < 66 {
            let id = pick_id(&mut g, it);
            Op::Add(id, g.rng.below(F::N.max(1) as u64) as usize, g.val())
        } else if r < 76 {
            let id = pick_id(&mut g, it);
            Op::Del(id, g.rng.below(F::N.max(1) as u64) as usize)
        } else if r < 82 {
            let id = pick_id(&mut g, it);
            Op::Write(id, g.rng.below(F::N.max(1) as u64) as usize, g.val())
        } else if r < 84 {
            Op::Reserve { shape: pick_shape(&mut g), n: g.rng.below(20) as usize }
        } else if r < 88 {
            Op::Shrink
        } else if r < 96 {
            Op::Probe(pick_id(&mut g, it))
        } else if r < 98 {
            Op::Len
        } else if multi && r < 103 {
            let src = (w + 1 + g.rng.below(2) as usize) % 3;
            if it.worlds[src].is_some() { Op::Clone { src, e: g.epoch() } } else { Op::Len }
        } else if multi && r < 108 {
            let src = (w + 1 + g.rng.below(2) as usize) % 3;
            if it.worlds[src].is_some() { Op::CloneFrom { src, e: g.epoch() } } else { Op::Len }
        } else if multi && r < 114 {
            let o = g.rng.below(3) as usize;
            if it.worlds[o].is_some() { Op::Eq(o) } else { Op::Eq(w) }
        } else if multi && r < 122 {
            let src = g.rng.below(3) as usize;
            if serde_on && it.worlds[src].is_some() && src != w {
                let mutation = if cfg.profile.contains("mutate") && g.rng.below(10) < 8 { vec![format!("seed={}", g.rng.next() % 1_000_000)] } else { vec![] };
                Op::Serde { src, rows: g.rng.below(2) == 0, e: g.epoch(), front: "tokens".into(), mutation }
            } else {
                Op::Len
            }
        } else if multi && r < 123 {
            Op::Drop
        } else {
            let shape = pick_shape(&mut g);
            let ids = shape.iter().map(|_| g.val()).collect();
            Op::Insert { shape, ids }
        };
        if F::N == 0 && matches!(op, Op::Add(..) | Op::Del(..) | Op::Write(..) | Op::Chain(..)) {
            continue;
        }
        let name: &'static str = match &op {
            Op::New { .. } => "new",
            Op::Insert { .. } => "insert",
            Op::Extend { .. } => "extend",
            Op::Remove(_) => "remove",
            Op::Clear => "clear",
            Op::Add(..) => "add",
            Op::Del(..) => "del",
            Op::Write(..) => "write",
            Op::Chain(..) => "chain",
            Op::Reserve { .. } => "reserve",
            Op::Shrink => "shrink",
            Op::Clone { .. } => "clone",
            Op::CloneFrom { .. } => "clonefrom",
            Op::Drop => "drop",
            Op::Eq(_) => "eq",
            Op::Probe(_) => "probe",
            Op::Len => "len",
            Op::Serde { .. } => "serde",
            Op::Raw(n, _) => match n.as_str() { "q" => "q", "entryq" => "entryq", "entries" => "entries", "parq" => "parq", "res" => "res", "de" => "de", "churn" => "churn", _ => "raw" },
        };
        *it.op_hist.entry(name).or_insert(0) += 1;
        let res = it.exec(w, &op);
        // branch statistics
        match &op {
            Op::Raw(n, a) if n == "q" => {
                let nrows = res.split_whitespace().find_map(|t| t.strip_prefix("n=")).and_then(|v| v.parse::<u64>().ok()).unwrap_or(0);
                it.bump(if nrows == 0 { "q:empty" } else if nrows == 1 { "q:one" } else { "q:many" });
                it.bump(if a[2] == "fold" { "q:fold" } else { "q:next" });
                if a[3] != "-" { it.bump("q:write"); }
            }
            Op::Raw(n, _) if n == "entryq" || n == "entries" => {
                let k = format!("{}:{}", n, res.split_whitespace().next().unwrap_or("?"));
                it.bump(&k);
            }
            Op::Remove(_) | Op::Add(..) | Op::Del(..) | Op::Write(..) => {
                let k = format!("{}:{}", name, if res.starts_with("ok drops=") && res.len() > 9 { "drops" } else if res.starts_with("ok") { "ok-nodrop" } else { "none" });
                it.bump(&k);
            }
            _ => {}
        }
    }
    it.end_case();
}
