#!/bin/sh
# usage: tools/regress_seeds.sh <seeds, e.g. "1 2 3"> [ids…]  — each seeded change against its property's quick check under several seeds
cd /verif
seeds=$1; shift
ids="$@"; [ -z "$ids" ] && ids=$(ls seeded)
for id in $ids; do
  p=${id%%-*}
  cd /repo && git status --short | grep -q . && { echo "repo dirty"; exit 2; }
  git -C /repo apply /verif/seeded/$id/patch.diff || { echo "$id patch does not apply"; continue; }
  cd /verif
  res=""
  for s in $seeds; do
    VERIF_SEED=$s ./check $p --tier quick > /tmp/rs_$$.out 2>&1
    d=$(grep -c "^VIOLATION property=$p" /tmp/rs_$$.out)
    n=$(grep -c "no-failing-input-found" /tmp/rs_$$.out)
    res="$res seed$s=$d/$n"
  done
  git -C /repo checkout -- .
  echo "$id$res"
done
rm -f /tmp/rs_$$.out
