#!/bin/sh
# usage: tools/confirm_seeded.sh <src-dir-with-patch.diff+demo.rs+meta.json> <id> <check-property>
# Confirms in a scratch worktree: patch applies, crate builds with all features, existing suite passes,
# demo fails with the patch and passes without; then runs ./check against /repo with the patch applied.
src=$1; id=$2; prop=$3
wt=/tmp/wt/confirm
[ -d $wt ] || git -C /repo worktree add -q --detach $wt HEAD
cd $wt && git checkout -q --detach $(git -C /repo rev-parse HEAD) && git checkout -- . && rm -f tests/seeded_demo.rs
export CARGO_NET_OFFLINE=true
feat="--features serde,rayon"
git apply $src/patch.diff || { echo "$id: PATCH DOES NOT APPLY"; exit 1; }
cp $src/demo.rs tests/seeded_demo.rs
cargo test --offline $feat --test seeded_demo >/tmp/confirm_demo_with.log 2>&1; with=$?
rm tests/seeded_demo.rs
cargo test --offline >/tmp/confirm_suite.log 2>&1; suite=$?
cargo build --offline $feat >/dev/null 2>&1; build=$?
git checkout -- .
cp $src/demo.rs tests/seeded_demo.rs
cargo test --offline $feat --test seeded_demo >/tmp/confirm_demo_without.log 2>&1; without=$?
rm tests/seeded_demo.rs
echo "$id: demo_with_patch_rc=$with (want !=0) suite_rc=$suite (want 0) build_all_features_rc=$build (want 0) demo_without_rc=$without (want 0)"
if [ $with -ne 0 ] && [ $suite -eq 0 ] && [ $build -eq 0 ] && [ $without -eq 0 ]; then
  mkdir -p /verif/seeded/$id
  cp $src/patch.diff $src/demo.rs /verif/seeded/$id/
  out=$(/verif/tools/try_seeded.sh $src $prop 2>&1)
  echo "$out"
  det=$(echo "$out" | grep -c VIOLATION)
  python3 - "$src/meta.json" "/verif/seeded/$id/meta.json" "$id" "$prop" "$det" <<'PY'
import json,sys
src,dst,id_,prop,det=sys.argv[1:]
try: m=json.load(open(src))
except Exception: m={}
m.update({"id":id_,"breaks_property":m.get("property",prop),"checked_with":"./check %s --tier quick"%prop,
 "detected_by_check": det!="0",
 "confirmed_by":"tools/confirm_seeded.sh: patch applies to HEAD; cargo build --offline --features serde,rayon ok; cargo test --offline (pinned suite) passes with the patch; demo (tests/seeded_demo.rs) fails with the patch and passes without"})
json.dump(m,open(dst,"w"),indent=1)
PY
else
  echo "$id: NOT CONFIRMED"
fi
