/-
  C16 — Equality between worlds is sound.

  `World.eqWorld` mirrors `world/impl_eq.rs` + `archetypes/impl_eq.rs` + `Archetype::component_eq`
  + `Slot`/`Location` `PartialEq` (which dereferences both identifier pointers: a handle that does
  not resolve is `Out.ub`).  Values compare by `Val.eqv` (same component type, same base identity:
  the `PartialEq` of the harness's component types).

  The theorems hold for all worlds satisfying the invariant, hence (by `run_inv`) for every pair of
  reachable worlds.  That a clone and a serde round trip compare equal to the original is C10 / C06.
-/
import BroodModel.Lemmas.Eq

namespace Brood

/-- Comparing two worlds never reaches a dangling identifier pointer. -/
theorem C16_no_ub {a b : World} (ha : Inv a) (hb : Inv b) : ∃ r, World.eqWorld a b = .ok r :=
  eqWorld_ok ha hb

/-- **Reflexive.** -/
theorem C16_refl {w : World} (hi : Inv w) : World.eqWorld w w = .ok true := eqWorld_refl hi

/-- **Symmetric** (as a Boolean: equal both ways or unequal both ways). -/
theorem C16_symm {a b : World} (ha : Inv a) (hb : Inv b) : World.eqWorld a b = World.eqWorld b a :=
  eqWorld_symm ha hb

/-- **Sound**: equal worlds hold the same live identifiers with equivalent component values, the
same number of entities, and equivalent resources. -/
theorem C16_sound {a b : World} (ha : Inv a) (hb : Inv b) (h : World.eqWorld a b = .ok true) :
    a.len = b.len ∧ rowEqv a.res b.res = true ∧ ∀ id, entEqv (a.entity id) (b.entity id) = true :=
  eqWorld_sound ha hb h

/-- **Any difference is detected**: if some identifier is live in one world only, or maps to
values that are not equivalent, or the resources differ, or the entity counts differ, the worlds
compare unequal. -/
theorem C16_detects {a b : World} (ha : Inv a) (hb : Inv b)
    (hdiff : (∃ id, entEqv (a.entity id) (b.entity id) = false) ∨ rowEqv a.res b.res = false ∨
      a.len ≠ b.len) : World.eqWorld a b = .ok false := by
  obtain ⟨r, hr⟩ := eqWorld_ok ha hb
  cases r with
  | false => exact hr
  | true =>
    obtain ⟨h1, h2, h3⟩ := eqWorld_sound ha hb hr
    rcases hdiff with ⟨id, hd⟩ | hd | hd
    · rw [h3 id] at hd; cases hd
    · rw [h2] at hd; cases hd
    · exact absurd h1 hd

/-- The same for every pair of reachable worlds. -/
theorem C16_reachable (n : Nat) (res res' : List Val) (ops ops' : List Op) {a b : World}
    (ea : run (World.init n res) ops = .ok a) (eb : run (World.init n res') ops' = .ok b) :
    World.eqWorld a a = .ok true ∧ World.eqWorld a b = World.eqWorld b a ∧
    (World.eqWorld a b = .ok true →
      a.len = b.len ∧ rowEqv a.res b.res = true ∧ ∀ id, entEqv (a.entity id) (b.entity id) = true) := by
  have ha := run_inv (inv_init n res) ops ea
  have hb := run_inv (inv_init n res') ops' eb
  exact ⟨eqWorld_refl ha, eqWorld_symm ha hb, eqWorld_sound ha hb⟩

/-- Non-vacuity: two worlds built by different histories that hold the same map compare equal;
changing one value makes them unequal. -/
example :
    let a := run (World.init 2 []) [.insert [0] [⟨0, 1⟩], .insert [1] [⟨1, 2⟩], .remove ⟨0, 0⟩, .insert [0] [⟨0, 3⟩]]
    let b := run (World.init 2 []) [.insert [0] [⟨0, 1⟩], .insert [1] [⟨1, 2⟩], .remove ⟨0, 0⟩, .insert [0] [⟨0, 3⟩],
      .write ⟨1, 0⟩ 1 ⟨1, 2⟩]
    let c := run (World.init 2 []) [.insert [0] [⟨0, 1⟩], .insert [1] [⟨1, 2⟩], .remove ⟨0, 0⟩, .insert [0] [⟨0, 3⟩],
      .write ⟨1, 0⟩ 1 ⟨1, 9⟩]
    (match a, b, c with
     | .ok a, .ok b, .ok c =>
       (match World.eqWorld a b, World.eqWorld a c with
        | .ok r1, .ok r2 => some (r1, r2)
        | _, _ => none)
     | _, _, _ => none) = some (true, false) := by decide

end Brood

#print axioms Brood.C16_no_ub
#print axioms Brood.C16_refl
#print axioms Brood.C16_symm
#print axioms Brood.C16_sound
#print axioms Brood.C16_detects
#print axioms Brood.C16_reachable
