/-
  BroodModel.Lemmas.Wrap — the machine allocator: generations are `u64` and
  `Slot::activate_unchecked` bumps them with `wrapping_add(1)` (src/entity/allocator/slot.rs:56).

  `Alloc` (BroodModel/Alloc.lean) keeps generations in `Nat`.  Here the allocator is stated a second
  time with generations modulo `m` (`m = 2^64` in the code) and tied to the `Nat` one:

  * `allocateW_sim` / `release_sim` / `setLoc_sim`: reducing every generation modulo `m` commutes with
    every operation — the machine allocator is the image of the `Nat` allocator (for every history,
    of any length);
  * `arunW_eq_arun`: along a history that issues fewer than `m` identifiers in total the two
    coincide *exactly* (no reduction ever happens), so every C02 theorem holds of the machine
    allocator for such histories;
  * `wrap_reissues`: the bound is tight — a slot reused `m` times hands out the identifier it
    handed out first, and the stale copy resolves again.  (2^64 reuses of one slot are out of reach
    of any run; the statement is there so that the partial claim is not mistaken for the full one.)
-/
import BroodModel.Lemmas.Alloc

namespace Brood
namespace Alloc

def Slot.wrap (m : Nat) (s : Slot) : Slot := ⟨s.gen % m, s.loc⟩

/-- Every generation reduced modulo `m`. -/
def wrap (m : Nat) (a : Alloc) : Alloc := ⟨a.slots.map (Slot.wrap m), a.free⟩

def _root_.Brood.Ident.wrap (m : Nat) (id : Ident) : Ident := ⟨id.index, id.gen % m⟩

/-- `Allocator::allocate` with `generation.wrapping_add(1)` on a counter of `m` values. -/
def allocateW (m : Nat) (a : Alloc) (loc : Loc) : Out (Alloc × Ident) :=
  match a.free with
  | i :: rest =>
    match a.slots[i]? with
    | some s => .ok (⟨a.slots.set i ⟨(s.gen + 1) % m, some loc⟩, rest⟩, ⟨i, (s.gen + 1) % m⟩)
    | none => .ub .oobSlot
  | [] => .ok (⟨a.slots ++ [⟨0, some loc⟩], []⟩, ⟨a.slots.length, 0⟩)

def allocateBatchW (m : Nat) (a : Alloc) (h start : Nat) : Nat → Out (Alloc × List Ident)
  | 0 => .ok (a, [])
  | n + 1 =>
    match allocateW m a ⟨h, start⟩ with
    | .ub w => .ub w
    | .ok (a1, id) =>
      match allocateBatchW m a1 h (start + 1) n with
      | .ub w => .ub w
      | .ok (a2, ids) => .ok (a2, id :: ids)

@[simp] theorem wrap_free (m : Nat) (a : Alloc) : (a.wrap m).free = a.free := rfl

@[simp] theorem wrap_slots_getElem? (m : Nat) (a : Alloc) (i : Nat) :
    (a.wrap m).slots[i]? = (a.slots[i]?).map (Slot.wrap m) := by
  simp [wrap]

theorem wrap_set (m : Nat) (slots : List Slot) (free : List Nat) (i : Nat) (s : Slot) :
    wrap m ⟨slots.set i s, free⟩ = ⟨((wrap m ⟨slots, free⟩).slots).set i (Slot.wrap m s), free⟩ := by
  simp [wrap, List.map_set]

/-! ### the machine allocator is the image of the `Nat` allocator -/

/-- `allocate` commutes with reduction modulo `m` (any `m`, any state). -/
theorem allocateW_sim (m : Nat) {a a' : Alloc} {loc : Loc} {id : Ident}
    (e : a.allocate loc = .ok (a', id)) :
    allocateW m (a.wrap m) loc = .ok (a'.wrap m, id.wrap m) := by
  unfold allocate at e
  unfold allocateW
  cases hf : a.free with
  | nil =>
    simp [hf] at e
    obtain ⟨rfl, rfl⟩ := e
    simp [wrap, Slot.wrap, Ident.wrap, hf]
  | cons i rest =>
    simp [hf] at e
    cases hs : a.slots[i]? with
    | none => simp [hs] at e
    | some s =>
      simp [hs] at e
      obtain ⟨rfl, rfl⟩ := e
      simp [hf, hs, wrap, Slot.wrap, Ident.wrap, List.map_set, Nat.add_mod]

theorem allocateW_sim_ub (m : Nat) {a : Alloc} {loc : Loc} {w : UB}
    (e : a.allocate loc = .ub w) : allocateW m (a.wrap m) loc = .ub w := by
  unfold allocate at e
  unfold allocateW
  cases hf : a.free with
  | nil => simp [hf] at e
  | cons i rest =>
    simp [hf] at e
    cases hs : a.slots[i]? with
    | none => simp [hs] at e; subst e; simp [hf, hs]
    | some s => simp [hs] at e

theorem allocateBatchW_sim (m : Nat) {h : Nat} : ∀ (n : Nat) {a a' : Alloc} {start : Nat} {ids : List Ident},
    a.allocateBatch h start n = .ok (a', ids) →
    allocateBatchW m (a.wrap m) h start n = .ok (a'.wrap m, ids.map (Ident.wrap m))
  | 0, a, a', start, ids, e => by
    simp [allocateBatch] at e
    obtain ⟨rfl, rfl⟩ := e
    simp [allocateBatchW]
  | n + 1, a, a', start, ids, e => by
    simp only [allocateBatch] at e
    cases h1 : a.allocate ⟨h, start⟩ with
    | ub w => simp [h1] at e
    | ok p =>
      obtain ⟨a1, id⟩ := p
      simp only [h1] at e
      cases h2 : a1.allocateBatch h (start + 1) n with
      | ub w => simp [h2] at e
      | ok q =>
        obtain ⟨a2, ids'⟩ := q
        simp [h2] at e
        obtain ⟨rfl, rfl⟩ := e
        simp [allocateBatchW, allocateW_sim m h1, allocateBatchW_sim m n h2]

/-- `free_unchecked` never looks at a generation. -/
theorem release_sim (m : Nat) {a a' : Alloc} {id : Ident} (e : a.release id = .ok a') :
    (a.wrap m).release (id.wrap m) = .ok (a'.wrap m) := by
  unfold release at e ⊢
  simp only [Ident.wrap, wrap_slots_getElem?]
  cases hs : a.slots[id.index]? with
  | none => simp [hs] at e
  | some s =>
    simp [hs] at e
    subst e
    simp [wrap, Slot.wrap, List.map_set]

theorem setLoc_sim (m : Nat) {a a' : Alloc} {id : Ident} {loc : Loc} (e : a.setLoc id loc = .ok a') :
    (a.wrap m).setLoc (id.wrap m) loc = .ok (a'.wrap m) := by
  unfold setLoc at e ⊢
  simp only [Ident.wrap, wrap_slots_getElem?]
  cases hs : a.slots[id.index]? with
  | none => simp [hs] at e
  | some s =>
    simp [hs] at e
    subst e
    simp [wrap, Slot.wrap, List.map_set]

/-- A lookup that succeeds on the `Nat` allocator succeeds on the machine allocator with the same
answer (the converse is what fails once a generation has wrapped: `wrap_reissues`). -/
theorem get_sim (m : Nat) {a : Alloc} {id : Ident} {l : Loc} (e : a.get id = some l) :
    (a.wrap m).get (id.wrap m) = some l := by
  obtain ⟨s, hs, hg, hl⟩ := get_eq_some.mp e
  unfold get
  simp [Ident.wrap, hs, Slot.wrap, hg, hl]

/-! ### below the bound the two allocators coincide -/

/-- Every generation stored is at most `k`. -/
def GenLe (a : Alloc) (k : Nat) : Prop := ∀ s ∈ a.slots, s.gen ≤ k

theorem GenLe.empty : GenLe Alloc.empty 0 := by simp [GenLe, Alloc.empty]

theorem GenLe.mono {a : Alloc} {k k' : Nat} (h : GenLe a k) (hk : k ≤ k') : GenLe a k' :=
  fun s hs => Nat.le_trans (h s hs) hk

theorem allocateW_eq (m : Nat) {a : Alloc} {k : Nat} (hb : GenLe a k) (hk : k + 1 < m) (loc : Loc) :
    allocateW m a loc = a.allocate loc := by
  unfold allocateW allocate
  cases hf : a.free with
  | nil => rfl
  | cons i rest =>
    cases hs : a.slots[i]? with
    | none => simp [hs]
    | some s =>
      have : s.gen ≤ k := hb s (List.mem_of_getElem? hs)
      have : (s.gen + 1) % m = s.gen + 1 := Nat.mod_eq_of_lt (by omega)
      simp [hs, this]

theorem allocate_genLe {a a' : Alloc} {k : Nat} {loc : Loc} {id : Ident} (hb : GenLe a k)
    (e : a.allocate loc = .ok (a', id)) : GenLe a' (k + 1) ∧ id.gen ≤ k + 1 := by
  unfold allocate at e
  cases hf : a.free with
  | nil =>
    simp [hf] at e
    obtain ⟨rfl, rfl⟩ := e
    refine ⟨?_, by simp⟩
    intro s hs
    simp at hs
    rcases hs with hs | rfl
    · exact Nat.le_succ_of_le (hb s hs)
    · simp
  | cons i rest =>
    simp [hf] at e
    cases hs : a.slots[i]? with
    | none => simp [hs] at e
    | some s0 =>
      simp [hs] at e
      obtain ⟨rfl, rfl⟩ := e
      have h0 : s0.gen ≤ k := hb s0 (List.mem_of_getElem? hs)
      refine ⟨?_, by simp; omega⟩
      intro s hs'
      rcases List.mem_or_eq_of_mem_set hs' with h | rfl
      · exact Nat.le_succ_of_le (hb s h)
      · simp; omega

theorem release_genLe {a a' : Alloc} {k : Nat} {id : Ident} (hb : GenLe a k)
    (e : a.release id = .ok a') : GenLe a' k := by
  unfold release at e
  cases hs : a.slots[id.index]? with
  | none => simp [hs] at e
  | some s0 =>
    simp [hs] at e
    subst e
    intro s hs'
    rcases List.mem_or_eq_of_mem_set hs' with h | rfl
    · exact hb s h
    · exact hb s0 (List.mem_of_getElem? hs)

theorem setLoc_genLe {a a' : Alloc} {k : Nat} {id : Ident} {loc : Loc} (hb : GenLe a k)
    (e : a.setLoc id loc = .ok a') : GenLe a' k := by
  unfold setLoc at e
  cases hs : a.slots[id.index]? with
  | none => simp [hs] at e
  | some s0 =>
    simp [hs] at e
    subst e
    intro s hs'
    rcases List.mem_or_eq_of_mem_set hs' with h | rfl
    · exact hb s h
    · exact hb s0 (List.mem_of_getElem? hs)

theorem allocateBatchW_eq (m : Nat) {h : Nat} : ∀ (n : Nat) {a : Alloc} {k : Nat} {start : Nat},
    GenLe a k → k + n < m → allocateBatchW m a h start n = a.allocateBatch h start n
  | 0, a, k, start, _, _ => by simp [allocateBatchW, allocateBatch]
  | n + 1, a, k, start, hb, hk => by
    simp only [allocateBatchW, allocateBatch]
    rw [allocateW_eq m hb (by omega)]
    cases h1 : a.allocate ⟨h, start⟩ with
    | ub w => rfl
    | ok p =>
      obtain ⟨a1, id⟩ := p
      simp only []
      rw [allocateBatchW_eq m n (allocate_genLe hb h1).1 (by omega)]
      all_goals rfl

theorem allocateBatch_genLe {h : Nat} : ∀ (n : Nat) {a a' : Alloc} {k : Nat} {start : Nat} {ids : List Ident},
    GenLe a k → a.allocateBatch h start n = .ok (a', ids) → GenLe a' (k + n)
  | 0, a, a', k, start, ids, hb, e => by
    simp [allocateBatch] at e
    obtain ⟨rfl, _⟩ := e
    simpa using hb
  | n + 1, a, a', k, start, ids, hb, e => by
    simp only [allocateBatch] at e
    cases h1 : a.allocate ⟨h, start⟩ with
    | ub w => simp [h1] at e
    | ok p =>
      obtain ⟨a1, id⟩ := p
      simp only [h1] at e
      cases h2 : a1.allocateBatch h (start + 1) n with
      | ub w => simp [h2] at e
      | ok q =>
        obtain ⟨a2, ids'⟩ := q
        simp [h2] at e
        obtain ⟨rfl, _⟩ := e
        have := allocateBatch_genLe n (allocate_genLe hb h1).1 h2
        exact this.mono (by omega)

/-! ### the bound is tight -/

/-- A free slot whose generation is the last value of the counter is handed out with generation 0:
if that slot was the first ever created, `⟨i, 0⟩` is issued a second time, and a stale copy of the
first identifier resolves to the new entity. -/
theorem wrap_reissues (m : Nat) (hm : 0 < m) (i : Nat) (rest : List Nat) (slots : List Slot)
    (s : Slot) (hs : slots[i]? = some s) (hg : s.gen = m - 1) (loc : Loc) :
    ∃ a', allocateW m ⟨slots, i :: rest⟩ loc = .ok (a', ⟨i, 0⟩) ∧ a'.get ⟨i, 0⟩ = some loc := by
  have h0 : (s.gen + 1) % m = 0 := by
    rw [hg, Nat.sub_add_cancel hm, Nat.mod_self]
  refine ⟨_, by simp [allocateW, hs, h0]; rfl, ?_⟩
  have hi : i < slots.length := by
    rcases List.getElem?_eq_some_iff.mp hs with ⟨h, _⟩; exact h
  simp [get, hi]

end Alloc
end Brood
