#!/usr/bin/env python3
"""Translator: /repo/src -> lean/BroodModel/Generated/Tables.lean (DESIGN §5.1).

The parts of brood that are declarative tables written as trait impls (or tiny match tables) are
re-extracted from the current source on every run and written as Lean literals; the theorems in
lean/BroodModel/Props about them are then re-checked by the kernel against what the code says now.

A table whose shape cannot be parsed is an error (never silently defaulted): the script exits 1 and
the check reports the broken obligation.  The extraction report lists file, line and text of each
extracted item and is copied into the evidence.
"""
import argparse
import json
import os
import re
import sys

REPORT = {"items": [], "errors": []}


def strip_comments(text):
    out = []
    for line in text.splitlines():
        i = line.find("//")
        out.append(line if i < 0 else line[:i])
    return "\n".join(out)


def cut_tests(text):
    i = text.find("#[cfg(test)]")
    return text if i < 0 else text[:i]


def norm_lifetimes(text):
    """Lifetime names carry no meaning for the tables: every named lifetime becomes `'a`
    (`'static` and `'_` are kept), so renaming one is not reported as a change of the table."""
    return re.sub(r"'(?!static\b|_\b)[a-z_][A-Za-z0-9_]*\b(?!')", "'a", text)


def read(repo, rel):
    p = os.path.join(repo, "src", rel)
    return norm_lifetimes(cut_tests(open(p).read()))


def lineno(text, pos):
    return text.count("\n", 0, pos) + 1


def item(table, rel, line, text, value):
    REPORT["items"].append({"table": table, "file": "src/" + rel, "line": line, "text": " ".join(text.split())[:200], "value": value})


def err(msg):
    REPORT["errors"].append(msg)


VK = {"&'a T": "ref", "&'a mut T": "mut", "Option<&'a T>": "oref", "Option<&'a mut T>": "omut"}
VKC = {"&'a Component": "ref", "&'a mut Component": "mut", "Option<&'a Component>": "oref",
       "Option<&'a mut Component>": "omut", "entity::Identifier": "ident"}


def impl_blocks(text):
    """Yield (start, block_text) for each top-level `impl`/`unsafe impl` item."""
    for m in re.finditer(r"^(unsafe )?impl\b", text, flags=re.M):
        start = m.start()
        i = text.find("{", start)
        if i < 0:
            continue
        depth, j = 0, i
        while j < len(text):
            if text[j] == "{":
                depth += 1
            elif text[j] == "}":
                depth -= 1
                if depth == 0:
                    break
            j += 1
        yield start, text[start:j + 1]


def verifier_table(repo):
    rel = "system/schedule/claim/verifier.rs"
    raw = read(repo, rel)
    text = strip_comments(raw)
    rows = []
    null_decision = None
    ident_next = False
    for start, b in impl_blocks(text):
        flat = " ".join(b.split())
        if "Verifier<" not in flat:
            continue
        ln = lineno(text, start)
        m = re.search(r"Verifier<'a, R, C, Null, Null> for view::Null \{ type Decision = decision::(\w+);", flat)
        if m:
            null_decision = m.group(1)
            item("verifierTable", rel, ln, flat, {"null": null_decision})
            continue
        m = re.search(r"Verifier<'a, R, C, I, P> for \(entity::Identifier, U\) where U: Verifier<'a, R, C, I, P>,? \{ type Decision = <U as Verifier<'a, R, C, I, P>>::Decision;", flat)
        if m:
            ident_next = True
            item("verifierTable", rel, ln, flat, {"ident": "next"})
            continue
        m = re.search(r"Verifier<'a, R, C, \(I, IS\), \((\w+), P\)> for \((.+?), U\) where (R|C): Get<(.+?), I>, U: Verifier<'a, R, C, IS, P>,? \{ type Decision = (.+?); \}", flat)
        if not m:
            err("verifier.rs:%d: impl shape not recognised: %s" % (ln, flat[:160]))
            continue
        tag, new, who, old, dec = m.groups()
        if new not in VK:
            err("verifier.rs:%d: unknown new view kind %r" % (ln, new)); continue
        if who == "R":
            if old != "T":
                err("verifier.rs:%d: registry-side Get on %r" % (ln, old)); continue
            oldk = "notPresent"
        else:
            if old not in VK:
                err("verifier.rs:%d: unknown old view kind %r" % (ln, old)); continue
            oldk = VK[old]
        if dec == "decision::Cut":
            d = "cut"
        elif dec == "<U as Verifier<'a, R, C, IS, P>>::Decision":
            d = "next"
        else:
            err("verifier.rs:%d: unknown decision %r" % (ln, dec)); continue
        rows.append((VK[new], oldk, d, tag))
        item("verifierTable", rel, ln, flat, {"new": VK[new], "old": oldk, "dec": d, "tag": tag})
    if null_decision is None:
        err("verifier.rs: no impl for view::Null")
    if not ident_next:
        err("verifier.rs: no pass-through impl for entity::Identifier")
    return rows, null_decision or "Cut"


def merger_table(repo):
    rel = "system/schedule/claim/merger.rs"
    text = strip_comments(read(repo, rel))
    rows = []
    for m in re.finditer(r"impl Merger for \((\w+), (\w+)\) \{\s*type Decision = (\w+);\s*\}", text):
        rows.append(tuple(x.lower() for x in m.groups()))
        item("mergerTable", rel, lineno(text, m.start()), m.group(0), rows[-1])
    if len(rows) == 0:
        err("merger.rs: no Merger impls found")
    return rows


def check_table(repo):
    """claim/mod.rs: Null => Append; Check<Cut> => Cut; Check<Append> => rest of the claims."""
    rel = "system/schedule/claim/mod.rs"
    text = " ".join(strip_comments(read(repo, rel)).split())
    null_append = bool(re.search(r"Claims<'_, V, Null, Null, R, Null> for Null \{ type Decision = decision::Append; \}", text))
    cut_cut = bool(re.search(r"Check<'_, decision::Cut, V, Null, Null, R, Null> for T \{ type Decision = decision::Cut; \}", text))
    app_rest = bool(re.search(r"Check<'a, decision::Append, V, I, P, R, RI> for \(C, T\) where T: Claims<'a, V, I, P, R, RI>,? \{ type Decision = <T as Claims<'a, V, I, P, R, RI>>::Decision; \}", text))
    item("checkTable", rel, 0, "Claims for Null / Check<Cut> / Check<Append>", [null_append, cut_cut, app_rest])
    if not (null_append and cut_cut and app_rest):
        err("claim/mod.rs: Claims/Check impls not in the expected shape: null_append=%s cut_cut=%s append_rest=%s" % (null_append, cut_cut, app_rest))
    return null_append, cut_cut, app_rest


def claim_try_merge(repo):
    rel = "query/view/claim.rs"
    text = strip_comments(read(repo, rel))
    m = re.search(r"fn try_merge\(self, other: Self\) -> Option<Self> \{\s*match self \{(.*?)\n        \}\n    \}", text, flags=re.S)
    names = ["None", "Immutable", "Mutable"]
    table = {}
    if not m:
        err("claim.rs: Claim::try_merge not found")
        return []
    body = m.group(1)
    arms = re.split(r"\n\s{12}Self::(\w+) =>", "\n" + body)
    # arms = ['', name1, body1, name2, body2, ...]
    it = iter(arms[1:])
    for name, abody in zip(it, it):
        flat = " ".join(abody.split()).rstrip(",")
        def ev(other):
            if flat == "Some(other)":
                return other
            mm = re.match(r"\{ if matches!\(other, Self::(\w+)\) \{ None \} else \{ Some\(self\) \} \}", flat)
            if mm:
                return None if other == mm.group(1) else name
            mm = re.match(r"\{ if matches!\(other, Self::(\w+)\) \{ Some\(self\) \} else \{ None \} \}", flat)
            if mm:
                return name if other == mm.group(1) else None
            raise ValueError(flat)
        try:
            for o in names:
                table[(name, o)] = ev(o)
        except ValueError as e:
            err("claim.rs: arm for %s not recognised: %s" % (name, e))
        item("claimTryMerge", rel, lineno(text, m.start()), "Self::%s => %s" % (name, flat), {o: table.get((name, o)) for o in names})
    rows = []
    for a in names:
        for b in names:
            if (a, b) not in table:
                err("claim.rs: no arm for %s" % a)
                return []
            rows.append((a, b, table[(a, b)]))
    return rows


def subviewable_table(repo):
    rel = "query/view/subset.rs"
    text = strip_comments(read(repo, rel))
    rows = []
    for start, b in impl_blocks(text):
        flat = " ".join(b.split())
        m = re.search(r"SubViewable<'a, (.+?), index::Index> for \((.+?), Views\)", flat)
        if not m:
            continue
        sub, sup = m.groups()
        if sub not in VKC or sup not in VKC:
            err("subset.rs:%d: unknown view kinds %r / %r" % (lineno(text, start), sub, sup)); continue
        how = "assume_init" if "assume_init()" in flat else ""
        if "unwrap_unchecked()" in flat:
            how += "+unwrap_unchecked"
        if "get_unchecked(indices.0)" in flat:
            how += "+bit-test"
        rows.append((VKC[sub], VKC[sup], how))
        item("subViewable", rel, lineno(text, start), flat[:160], rows[-1])
    if not rows:
        err("subset.rs: no SubViewable impls found")
    return rows


def view_filter_table(repo):
    """registry/contains/filter/sealed.rs: which views test the identifier bit when used as filters."""
    rel = "registry/contains/filter/sealed.rs"
    text = strip_comments(read(repo, rel))
    kinds = {"&C": "ref", "&mut C": "mut", "Option<&C_>": "oref", "Option<&mut C_>": "omut",
             "entity::Identifier": "ident", "Has<C>": "has", "None": "none", "view::Null": "vnull"}
    rows = {}
    for start, b in impl_blocks(text):
        flat = " ".join(b.split())
        m = re.search(r"Sealed<(.+?), (Contained|Null)> for", flat)
        if not m or m.group(1) not in kinds:
            continue
        k = kinds[m.group(1)]
        if re.search(r"unsafe \{ identifier\.get_unchecked\(R_::LEN - R::LEN - 1\) \}", flat):
            rows[k] = True
        elif re.search(r"-> bool where R_: Registry,? \{ true \}", flat):
            rows[k] = False
        else:
            err("filter/sealed.rs:%d: body of %s not recognised" % (lineno(text, start), m.group(1)))
            continue
        item("viewFilter", rel, lineno(text, start), flat[:140], {k: rows[k]})
    comb = {}
    flat_all = " ".join(text.split())
    comb["and"] = "<R as Sealed<F0, I0>>::filter(identifier) && <R as Sealed<F1, I1>>::filter(identifier)" in flat_all
    comb["or"] = "<R as Sealed<F0, I0>>::filter(identifier) || <R as Sealed<F1, I1>>::filter(identifier)" in flat_all
    comb["not"] = "!<R as Sealed<F, I>>::filter(identifier)" in flat_all
    comb["list_is_and"] = "<Self as Sealed<And<F, FS>, And<I, IS>>>::filter(identifier)" in flat_all
    item("filterCombinators", rel, 0, "And / Or / Not / (F, FS)", comb)
    for k in ("ref", "mut", "oref", "omut", "ident", "has", "none", "vnull"):
        if k not in rows:
            err("filter/sealed.rs: no base impl found for %s" % k)
    for k, v in comb.items():
        if not v:
            err("filter/sealed.rs: combinator %s not in the expected shape" % k)
    return rows, comb


def send_sync_impls(repo):
    out = []
    for root, _, files in os.walk(os.path.join(repo, "src")):
        for f in sorted(files):
            if not f.endswith(".rs") or f == "verif.rs":
                continue
            p = os.path.join(root, f)
            rel = os.path.relpath(p, os.path.join(repo, "src"))
            text = strip_comments(norm_lifetimes(cut_tests(open(p).read())))
            for m in re.finditer(r"unsafe impl\s*<(.*?)>\s*(Send|Sync)\s+for\s+([\w:]+)\s*<(.*?)>\s*(where(.*?))?\{\s*\}", text, flags=re.S):
                generics, tr, ty, _args, _w, where = m.groups()
                bounds = []
                for part in re.split(r",\s*(?=[\w:<>']+\s*:)", " ".join((where or "").split())):
                    part = part.strip().rstrip(",")
                    if ":" in part:
                        lhs, rhs = part.split(":", 1)
                        for b in rhs.split("+"):
                            bounds.append((lhs.strip(), b.strip()))
                # bounds written inline in the generics
                for g in re.split(r",\s*", " ".join(generics.split())):
                    if ":" in g and not g.startswith("'"):
                        lhs, rhs = g.split(":", 1)
                        for b in rhs.split("+"):
                            bounds.append((lhs.strip(), b.strip()))
                out.append((ty, tr, bounds, rel))
                item("sendSyncImpls", rel, lineno(text, m.start()), m.group(0), {"type": ty, "trait": tr, "bounds": bounds})
    if not out:
        err("no unsafe Send/Sync impls found")
    return out


def entry_query_sigs(repo):
    """Is the lifetime of the views returned by `query` the lifetime of the `&mut self` borrow?"""
    out = []
    for rel in ("world/entry.rs", "query/entries.rs"):
        text = strip_comments(read(repo, rel))
        for m in re.finditer(r"pub fn query<(.*?)>\(\s*&(('\w+) )?mut self,.*?\)\s*->\s*Option<(\w+)>\s*where(.*?)\{", text, flags=re.S):
            generics, _, self_lt, ret, where = m.groups()
            mm = re.search(re.escape(ret) + r":[^,]*?view::Views<('\w+)>", " ".join(where.split()))
            views_lt = mm.group(1) if mm else None
            declared = [g.strip() for g in generics.split(",")]
            tied = bool(self_lt) and views_lt == self_lt and self_lt in declared
            out.append((rel, tied, self_lt or "(elided)", views_lt or "?"))
            item("entryQuerySigs", rel, lineno(text, m.start()), m.group(0)[:200], {"tied_to_self_borrow": tied, "self": self_lt, "views": views_lt})
    if len(out) != 2:
        err("entry query signatures: expected 2 `pub fn query`, found %d" % len(out))
    return out


def fn_bodies(text):
    """Yield (name, start, body) for every fn item (brace matched)."""
    for m in re.finditer(r"\bfn\s+(\w+)\s*[<(]", text):
        i = text.find("{", m.end())
        semi = text.find(";", m.end())
        if i < 0 or (0 <= semi < i):
            continue
        depth, j = 0, i
        while j < len(text):
            if text[j] == "{":
                depth += 1
            elif text[j] == "}":
                depth -= 1
                if depth == 0:
                    break
            j += 1
        yield m.group(1), m.start(), text[i:j + 1]


def world_ctor_graph(repo):
    """Functions under src/world that build a `World` by struct literal, and the call edges among
    the constructors; which of them run `assert_no_duplicates`."""
    lits, calls, asserts = [], {}, {}
    wdir = os.path.join(repo, "src", "world")
    for f in sorted(os.listdir(wdir)):
        if not f.endswith(".rs") or f == "verif.rs":
            continue
        rel = "world/" + f
        text = strip_comments(read(repo, rel))
        for name, start, body in fn_bodies(text):
            flat = " ".join(body.split())
            key = "%s::%s" % (f[:-3], name)
            has_lit = bool(re.search(r"\b(Self|World)\s*\{\s*archetypes\b", flat))
            if has_lit:
                lits.append(key)
                item("worldCtorGraph", rel, lineno(text, start), "fn %s … struct literal" % name, {"literal_in": key})
            cs = [c for c in ("from_raw_parts", "with_resources", "new") if re.search(r"\b(Self|World)::%s\(" % c, flat) or re.search(r"\bWorld::<[^>]*>::%s\(" % c, flat)]
            if cs:
                calls[key] = cs
            asserts[key] = "assert_no_duplicates(" in flat
    return lits, calls, asserts


def batch_ctor(repo):
    rel = "entities/mod.rs"
    text = " ".join(strip_comments(read(repo, rel)).split())
    new_checks = bool(re.search(r"pub fn new\(entities: Entities\) -> Self \{ assert!\(entities\.check_len\(\)\); unsafe \{ Self::new_unchecked\(entities\) \} \}", text))
    unchecked_unsafe = "pub unsafe fn new_unchecked(entities: Entities) -> Self" in text
    item("batchCtor", rel, 0, "Batch::new / new_unchecked", {"new_asserts_check_len": new_checks, "new_unchecked_is_unsafe": unchecked_unsafe})
    rel2 = "entities/sealed/length.rs"
    t2 = " ".join(strip_comments(read(repo, rel2)).split())
    head = bool(re.search(r"fn check_len\(&self\) -> bool \{ self\.1\.check_len_against\(self\.component_len\(\)\) \}", t2))
    m = re.search(r"impl<C, E> Length for \(Vec<C>, E\).*?fn check_len_against\(&self, len: usize\) -> bool \{ (.*?) \}", t2)
    body = m.group(1) if m else ""
    compares = "self.component_len() == len" in body or "self.0.len() == len" in body
    recurses = "self.1.check_len_against(len)" in body and "&&" in body
    null_true = bool(re.search(r"impl Length for Null \{.*?fn check_len\(&self\) -> bool \{ true \} fn check_len_against\(&self, _len: usize\) -> bool \{ true \}", t2))
    item("checkLen", rel2, 0, body, {"check_len_uses_first_column": head, "compares": compares, "recurses": recurses, "null_true": null_true})
    return new_checks, unchecked_unsafe, head, compares, recurses, null_true


def assert_nodup(repo):
    rel = "registry/sealed/assertions.rs"
    t = " ".join(strip_comments(read(repo, rel)).split())
    inserts = "assert!(components.insert(TypeId::of::<C>()));" in t
    recurses = "R::assert_no_duplicates(components);" in t
    item("assertNoDuplicates", rel, 0, "impl Assertions for (C, R)", {"asserts_insert": inserts, "recurses": recurses})
    return inserts, recurses


def generation_counter(repo):
    """The per-slot generation counter (C02): its width in the slot and in the identifier, its start
    value and how a reuse bumps it.  Anything but `wrapping_add(1)` on the slot's own field, or a
    cast between the two, is a shape this extractor does not understand."""
    rel = "entity/allocator/slot.rs"
    raw = strip_comments(read(repo, rel))
    t = " ".join(raw.split())
    m = re.search(r"pub\(crate\) struct Slot<R>.*?\{ pub\(crate\) generation: (u(\d+)|usize), ", t)
    if not m:
        err("slot.rs: `generation` field of Slot not found in the expected shape")
        return 0, 0, 0, 0
    slot_bits = 64 if m.group(1) == "usize" else int(m.group(2))
    m0 = re.search(r"fn new\(location: Location<R>\) -> Self \{ Self \{ generation: (\d+), location: Some\(location\),? \} \}", t)
    if not m0:
        err("slot.rs: Slot::new does not have the shape `Self { generation: <literal>, location: Some(location) }`")
    start = int(m0.group(1)) if m0 else 0
    bumps = re.findall(r"self\.generation = ([^;]*);|self\.generation (\+=|-=) ([^;]*);", t)
    mb = re.search(r"unsafe fn activate_unchecked\(&mut self, location: Location<R>\) \{ self\.generation = self\.generation\.wrapping_add\((\d+)\); self\.location = Some\(location\); \}", t)
    if not mb or len(bumps) != 1:
        err("slot.rs: the generation is not bumped by exactly one `self.generation = self.generation.wrapping_add(<n>)` in activate_unchecked (%d assignments found)" % len(bumps))
    step = int(mb.group(1)) if mb else 0
    item("generationCounter", rel, lineno(raw, raw.find("generation:")), "Slot.generation / Slot::new / activate_unchecked", {"slot_bits": slot_bits, "start": start, "wrapping_add": step})
    rel2 = "entity/identifier/mod.rs"
    raw2 = strip_comments(read(repo, rel2))
    t2 = " ".join(raw2.split())
    m2 = re.search(r"pub struct Identifier \{ pub\(crate\) index: usize, pub\(crate\) generation: (u(\d+)|usize),? \}", t2)
    if not m2:
        err("identifier/mod.rs: `generation` field of entity::Identifier not found in the expected shape")
        return slot_bits, 0, start, step
    id_bits = 64 if m2.group(1) == "usize" else int(m2.group(2))
    item("generationCounter", rel2, lineno(raw2, raw2.find("generation:")), "entity::Identifier.generation", {"identifier_bits": id_bits})
    # a cast of a generation anywhere in the allocator would make the two widths differ in effect
    for rel3 in ("entity/allocator/mod.rs", "entity/allocator/slot.rs", "entity/allocator/impl_serde.rs", "entity/identifier/mod.rs"):
        t3 = " ".join(strip_comments(read(repo, rel3)).split())
        if re.search(r"generation\)? as (u\d+|usize)|generation\.(try_)?into\(\)|from\([a-z_.]*generation\)", t3):
            err("%s: a generation is converted between integer types; the counter's effective width is not what the field types say" % rel3)
    return slot_bits, id_bits, start, step


def lean_bool(b):
    return "true" if b else "false"


def lean_str(s):
    return '"' + s.replace("\\", "\\\\").replace('"', '\\"') + '"'


def main():
    ap = argparse.ArgumentParser()
    ap.add_argument("--repo", default="/repo")
    ap.add_argument("--out", required=True)
    ap.add_argument("--report")
    a = ap.parse_args()
    os.makedirs(a.out, exist_ok=True)

    vrows, vnull = verifier_table(a.repo)
    mrows = merger_table(a.repo)
    null_append, cut_cut, app_rest = check_table(a.repo)
    crows = claim_try_merge(a.repo)
    srows = subviewable_table(a.repo)
    frows, fcomb = view_filter_table(a.repo)
    ssi = send_sync_impls(a.repo)
    eqs = entry_query_sigs(a.repo)
    lits, calls, asserts = world_ctor_graph(a.repo)
    bnew, bunsafe, clhead, clcmp, clrec, clnull = batch_ctor(a.repo)
    ains, arec = assert_nodup(a.repo)
    gen_slot, gen_id, gen_start, gen_step = generation_counter(a.repo)

    L = []
    L.append("/- @generated by translator/translate.py from /repo/src — do not edit; regenerated on every check -/")
    L.append("import BroodModel.Static")
    L.append("namespace Brood.Generated")
    L.append("open Brood.Static")
    L.append("")
    L.append("/-- src/system/schedule/claim/verifier.rs: (new view kind, kind under which the component is already claimed, decision) -/")
    L.append("def verifierTable : List VRow := [")
    L.append(",\n".join("  ⟨.%s, %s, .%s⟩" % (n, ".notPresent" if o == "notPresent" else "(.claimed .%s)" % o, d) for n, o, d, _ in vrows))
    L.append("]")
    L.append("def verifierNull : D2 := .%s" % vnull.lower())
    L.append("")
    L.append("/-- src/system/schedule/claim/merger.rs -/")
    L.append("def mergerTable : List (D2 × D2 × D2) := [" + ", ".join("(.%s, .%s, .%s)" % r for r in mrows) + "]")
    L.append("/-- src/system/schedule/claim/mod.rs: Null ⇒ Append; Check<Cut> ⇒ Cut; Check<Append> ⇒ rest -/")
    L.append("def checkShape : Bool × Bool × Bool := (%s, %s, %s)" % (lean_bool(null_append), lean_bool(cut_cut), lean_bool(app_rest)))
    L.append("")
    L.append("/-- src/query/view/claim.rs `Claim::try_merge` -/")
    cl = {"None": ".none", "Immutable": ".immutable", "Mutable": ".mutable"}
    L.append("def claimTryMerge : List (Cl × Cl × Option Cl) := [" + ", ".join("(%s, %s, %s)" % (cl[x], cl[y], "none" if z is None else "some " + cl[z]) for x, y, z in crows) + "]")
    L.append("")
    L.append("/-- src/query/view/subset.rs: (sub-view kind, super-view kind) pairs that have a `SubViewable` impl -/")
    L.append("def subViewableTable : List (VK × VK) := [" + ", ".join("(.%s, .%s)" % (s, p) for s, p, _ in srows) + "]")
    L.append("")
    L.append("/-- src/registry/contains/filter/sealed.rs: does the view / filter atom test the identifier bit? -/")
    L.append("def viewFilterTests : List (String × Bool) := [" + ", ".join("(%s, %s)" % (lean_str(k), lean_bool(v)) for k, v in sorted(frows.items())) + "]")
    L.append("def filterCombinators : List (String × Bool) := [" + ", ".join("(%s, %s)" % (lean_str(k), lean_bool(v)) for k, v in sorted(fcomb.items())) + "]")
    L.append("")
    L.append("/-- every `unsafe impl Send/Sync` under src/: (type, trait, bounds as (parameter, bound)) -/")
    L.append("def sendSyncImpls : List SSImpl := [")
    L.append(",\n".join("  ⟨%s, %s, [%s]⟩" % (lean_str(ty), lean_str(tr), ", ".join("(%s, %s)" % (lean_str(x), lean_str(y)) for x, y in bs)) for ty, tr, bs, _ in ssi))
    L.append("]")
    L.append("")
    L.append("/-- `pub fn query` of world::Entry and query::Entry: is the returned views' lifetime the `&mut self` borrow? -/")
    L.append("def entryQuerySigs : List (String × Bool) := [" + ", ".join("(%s, %s)" % (lean_str(r), lean_bool(t)) for r, t, _, _ in eqs) + "]")
    L.append("")
    L.append("/-- src/world/*.rs: functions containing a `World { … }` struct literal; constructor call edges; who asserts -/")
    L.append("def worldLiterals : List String := [" + ", ".join(lean_str(x) for x in lits) + "]")
    L.append("def worldCalls : List (String × List String) := [" + ", ".join("(%s, [%s])" % (lean_str(k), ", ".join(lean_str(c) for c in v)) for k, v in sorted(calls.items())) + "]")
    L.append("def worldAsserts : List (String × Bool) := [" + ", ".join("(%s, %s)" % (lean_str(k), lean_bool(v)) for k, v in sorted(asserts.items())) + "]")
    L.append("/-- src/registry/sealed/assertions.rs: (asserts the insert, recurses) -/")
    L.append("def assertNoDupShape : Bool × Bool := (%s, %s)" % (lean_bool(ains), lean_bool(arec)))
    L.append("/-- src/entities/mod.rs + sealed/length.rs: (Batch::new asserts check_len, new_unchecked is unsafe, check_len compares against the first column, check_len_against compares, recurses, Null is true) -/")
    L.append("def batchShape : List Bool := [%s]" % ", ".join(lean_bool(x) for x in (bnew, bunsafe, clhead, clcmp, clrec, clnull)))
    L.append("/-- src/entity/allocator/slot.rs + src/entity/identifier/mod.rs: (bits of Slot.generation, bits of Identifier.generation, value in Slot::new, n of `wrapping_add(n)` in activate_unchecked) -/")
    L.append("def genCounter : Nat × Nat × Nat × Nat := (%d, %d, %d, %d)" % (gen_slot, gen_id, gen_start, gen_step))
    L.append("")
    L.append("end Brood.Generated")
    text = "\n".join(L) + "\n"
    path = os.path.join(a.out, "Tables.lean")
    try:
        same = open(path).read() == text
    except FileNotFoundError:
        same = False
    if not same:
        open(path, "w").write(text)
    if a.report:
        json.dump(REPORT, open(a.report, "w"), indent=1)
    for e in REPORT["errors"]:
        print("translator error:", e, file=sys.stderr)
    print("translator: %d items, %d errors -> %s" % (len(REPORT["items"]), len(REPORT["errors"]), path))
    return 1 if REPORT["errors"] else 0


if __name__ == "__main__":
    sys.exit(main())
