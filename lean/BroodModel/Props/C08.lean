/-
  C08 — Tasks that may touch the same data never run concurrently.

  Static part (proved for every schedule): the generated verifier table cuts whenever one side of a
  shared component or resource is mutable; hence every group the greedy stager produces is
  pairwise compatible.  Dynamic part: `Claim::try_merge` (generated 3×3 table) succeeds only when
  there is no write/any overlap, so an add-on is accepted only against claims it does not conflict
  with.  PARTIAL: that the stage's claim map holds the merge of *all* running tasks' claims for an
  archetype (`addClaims`) is modelled and compared with the real fork/join log by the
  correspondence check, not yet proved; tasks are atomic in the model (instruction-level
  interleavings of data-race-free tasks are the Rust memory model's business).
-/
import BroodModel.Lemmas.Sched

namespace Brood
open Static Generated

/-- **Soundness of the conflict table**: whenever the new view or the existing claim on the same
component is mutable, the verifier cuts. -/
theorem C08_verifier_sound (new : VK) (old : Old) (h : new ≠ .ident) (ho : old ≠ .claimed .ident)
    (hc : conflictKinds new old = true) : lookupV verifierTable new old = some .cut := by
  rw [verifier_table_exact new old h ho]; simp [hc]

/-- The merger cuts as soon as either the component or the resource decision cuts. -/
theorem C08_merger_sound (a b : D2) (h : a = .cut ∨ b = .cut) : lookupM mergerTable a b = some .cut := by
  rw [merger_table_exact]
  cases a <;> cases b <;> simp at h ⊢

/-- **Run-time merge is sound**: `Claim::try_merge` yields a claim only when neither side writes
what the other touches. -/
theorem C08_try_merge_sound (a b c : Cl) (h : tryMergeCl claimTryMerge a b = some c) :
    a.conflicts b = false := by
  have := try_merge_exact a b
  rw [h] at this
  simpa using this.symm

/-- …and it remembers a write: the merged claim is mutable iff one of the two was. -/
theorem C08_try_merge_keeps_writes (a b c : Cl) (h : tryMergeCl claimTryMerge a b = some c) :
    c = .mutable ↔ (a = .mutable ∨ b = .mutable) :=
  (try_merge_result a b c h).1

/-- **Every group of every schedule is pairwise compatible**: no task of a group conflicts, on a
component or a resource, with a task placed in the group before it. -/
theorem C08_stages_compatible (ts : List Task) :
    ∀ g ∈ stages verifierTable mergerTable ts, Compatible g :=
  stagesAux_compatible ts [] (by intro i hi; simp at hi)

/-- Non-vacuity: reader then writer of one component are never grouped, also through entry views. -/
example :
    (stages verifierTable mergerTable
      [⟨[.ref 1], .none, [], []⟩, ⟨[.ident], .none, [.omut 1], []⟩]).length = 2 := by decide

example :
    (stages verifierTable mergerTable
      [⟨[], .none, [], [(0, false)]⟩, ⟨[], .none, [], [(0, true)]⟩]).length = 2 := by decide

end Brood

#print axioms Brood.C08_verifier_sound
#print axioms Brood.C08_merger_sound
#print axioms Brood.C08_try_merge_sound
#print axioms Brood.C08_try_merge_keeps_writes
#print axioms Brood.C08_stages_compatible
