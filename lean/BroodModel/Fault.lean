/-
  BroodModel.Fault — panic (unwinding) semantics of the column loops (C17).

  An archetype's columns are `Vec`s rebuilt from raw parts around a *shared* length.  When user
  code panics inside a column loop, what later code sees is decided by (a) which columns the loop
  had already processed and (b) whether the shared length had already been updated.  `Vec::clear`
  / `truncate` set the vector's own length first and then drop the elements; if one element's
  `Drop` panics the remaining elements of *that* vector are still dropped while unwinding.
-/
import BroodModel.World

namespace Brood

/-- Memory-level view of one archetype after an interrupted operation: the shared length the
archetype still records, and per column the values that are still *physically present and
considered live by that length* (a later `from_raw_parts(ptr, length, cap)` will treat the first
`length` slots as live values). -/
structure RawArch where
  length : Nat
  cols : List (List Val)
deriving Repr

/-- What `drop(archetype)` (`free_components`) drops: the first `length` slots of every column. -/
def RawArch.dropAll (a : RawArch) : List Val := a.cols.flatMap (fun c => c.take a.length)

/-- `Archetype::clear` as written: `clear_components` loops over the columns dropping every
value, and only afterwards `self.length = 0`.  A `Drop` panic while clearing column `j` unwinds
out of the loop: columns `0..=j` have been dropped (the panicking vector finishes dropping its
elements during unwinding), the shared length is unchanged and the slots still hold the old bits.
Returns the values dropped by the operation and the state left behind. -/
def clearFault (cols : List (List Val)) (j : Nat) : List Val × RawArch :=
  ((cols.take (j + 1)).flatten, ⟨(cols.headD []).length, cols⟩)

/-- The repaired order: `self.length = 0` *before* the column loop. -/
def clearFaultLengthFirst (cols : List (List Val)) (j : Nat) : List Val × RawArch :=
  ((cols.take (j + 1)).flatten, ⟨0, cols⟩)

/-- No identity is dropped twice. -/
def NoDoubleDrop (drops : List Val) : Prop := drops.Nodup

/-- Is an (operation, callback) pair panic safe *by construction of the code path* (read-only
traversals, detached values built before being installed, cleanup paths of deserialization)? The
pairs outside this table are the recorded findings. -/
def faultSafe (op cb : String) : Bool :=
  match cb with
  | "PartialEq" | "Debug" | "Serialize" | "Body" => true       -- read-only / caller's own code
  | "Deserialize" => true                                        -- partially built columns are freed or leaked
  | "Clone" => op == "clone"                                     -- the clone is detached until returned
  | "Drop" =>
    -- a value's Drop panicking: safe where the value has already left the columns, and in
    -- `clear` since the length-first repair; `remove` and `clone_from` are recorded findings
    op == "drop" || op == "add-overwrite" || op == "write" || op == "del" || op == "add-move" ||
    op == "extend" || op == "clear"
  | _ => false

end Brood
