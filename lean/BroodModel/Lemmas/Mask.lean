/-
  Lemmas about component masks: `comps` (the components present, in registry order), `count`,
  `colIndex` (the "bit walk"), `set`, `ofShape` and the canonical ordering of a written entity.
-/
import BroodModel.World

set_option linter.unusedSimpArgs false
set_option linter.unusedVariables false

namespace Brood

theorem range_succ_eq (n : Nat) : List.range (n + 1) = 0 :: (List.range n).map (· + 1) := by
  rw [List.range_succ_eq_map]

theorem map_eraseIdx {α β} (f : α → β) (l : List α) (k : Nat) :
    (l.eraseIdx k).map f = (l.map f).eraseIdx k := by
  simp [List.eraseIdx_eq_take_drop_succ, List.map_take, List.map_drop]

theorem comps_nil : Mask.comps [] = [] := rfl

theorem comps_cons (b : Bool) (m : Mask) :
    Mask.comps (b :: m) = (if b then [0] else []) ++ (Mask.comps m).map (· + 1) := by
  unfold Mask.comps
  simp only [List.length_cons, range_succ_eq, List.filter_cons, List.filter_map]
  have h0 : Mask.has (b :: m) 0 = b := by simp [Mask.has]
  have hs : ((fun c => Mask.has (b :: m) c) ∘ fun x => x + 1) = fun c => Mask.has m c := by
    funext c; simp [Mask.has]
  rw [h0, hs]
  cases b <;> simp

theorem count_cons (b : Bool) (m : Mask) : Mask.count (b :: m) = (if b then 1 else 0) + Mask.count m := by
  unfold Mask.count
  cases b <;> simp [List.count_cons] <;> omega

theorem comps_length (m : Mask) : m.comps.length = m.count := by
  induction m with
  | nil => rfl
  | cons b m ih => rw [comps_cons, count_cons]; cases b <;> simp [ih] <;> omega

theorem mem_comps {m : Mask} {c : Nat} : c ∈ m.comps ↔ m.has c = true := by
  unfold Mask.comps
  simp only [List.mem_filter, List.mem_range]
  constructor
  · exact fun h => h.2
  · intro h
    refine ⟨?_, h⟩
    unfold Mask.has at h
    by_cases hc : c < m.length
    · exact hc
    · simp [List.getD, List.getElem?_eq_none (Nat.le_of_not_lt hc)] at h

theorem has_lt {m : Mask} {c : Nat} (h : m.has c = true) : c < m.length := by
  have := mem_comps.mpr h
  unfold Mask.comps at this
  simp only [List.mem_filter, List.mem_range] at this
  exact this.1

theorem comps_sorted (m : Mask) : m.comps.Pairwise (· < ·) := by
  induction m with
  | nil => simp [comps_nil]
  | cons b m ih =>
    rw [comps_cons]
    have hm : ((Mask.comps m).map (· + 1)).Pairwise (· < ·) := by
      rw [List.pairwise_map]
      exact ih.imp (by intro a b h; omega)
    cases b
    · simpa using hm
    · simp only [if_true, List.singleton_append, List.pairwise_cons]
      refine ⟨?_, hm⟩
      intro x hx
      obtain ⟨y, _, rfl⟩ := List.mem_map.mp hx
      omega

theorem comps_nodup (m : Mask) : m.comps.Nodup :=
  (comps_sorted m).imp (by intro a b h; omega)

theorem colIndex_zero (m : Mask) : colIndex m 0 = 0 := by simp [colIndex]

theorem colIndex_cons_succ (b : Bool) (m : Mask) (c : Nat) :
    colIndex (b :: m) (c + 1) = (if b then 1 else 0) + colIndex m c := by
  unfold colIndex
  cases b <;> simp [List.take_succ_cons, List.count_cons] <;> omega

theorem has_cons_zero (b : Bool) (m : Mask) : Mask.has (b :: m) 0 = b := by simp [Mask.has]

theorem has_cons_succ (b : Bool) (m : Mask) (c : Nat) : Mask.has (b :: m) (c + 1) = Mask.has m c := by
  simp [Mask.has]

/-- The bit walk finds the column of a present component. -/
theorem colIndex_comps {m : Mask} {c : Nat} (h : m.has c = true) : m.comps[colIndex m c]? = some c := by
  induction m generalizing c with
  | nil => simp [Mask.has] at h
  | cons b m ih =>
    cases c with
    | zero =>
      rw [has_cons_zero] at h; subst h
      simp [comps_cons, colIndex_zero]
    | succ c =>
      rw [has_cons_succ] at h
      rw [comps_cons, colIndex_cons_succ]
      cases b
      · simp [ih h]
      · simp only [if_true, List.singleton_append]
        rw [show 1 + colIndex m c = colIndex m c + 1 by omega, List.getElem?_cons_succ]
        simp [ih h]

theorem colIndex_lt_count {m : Mask} {c : Nat} (h : m.has c = true) : colIndex m c < m.count := by
  have := colIndex_comps h
  rw [← comps_length]
  exact (List.getElem?_eq_some_iff.mp this).1

theorem colIndex_le_count (m : Mask) (c : Nat) : colIndex m c ≤ m.count := by
  unfold colIndex Mask.count
  exact (List.take_sublist c m).count_le true

/-! ### `set` -/

theorem set_cons_zero (b b' : Bool) (m : Mask) : (b :: m : Mask).set 0 b' = b' :: m := rfl
theorem set_cons_succ (b b' : Bool) (m : Mask) (c : Nat) : (b :: m : Mask).set (c + 1) b' = b :: m.set c b' := rfl

theorem colIndex_set (m : Mask) (c : Nat) (b : Bool) : colIndex (m.set c b) c = colIndex m c := by
  unfold colIndex
  congr 1
  exact List.take_set_of_le (Nat.le_refl c)

theorem has_set {m : Mask} {c c' : Nat} {b : Bool} (hc : c < m.length) :
    Mask.has (m.set c b) c' = if c' = c then b else Mask.has m c' := by
  unfold Mask.has
  by_cases h : c' = c
  · subst h; simp [List.getD, List.getElem?_set, hc]
  · simp [List.getD, List.getElem?_set, h, Ne.symm h]

/-- Adding a component inserts it at its bit-walk position. -/
theorem comps_set_true {m : Mask} {c : Nat} (hc : c < m.length) (h : m.has c = false) :
    Mask.comps (m.set c true) = World.insertAt m.comps (colIndex m c) c := by
  induction m generalizing c with
  | nil => simp at hc
  | cons b m ih =>
    cases c with
    | zero =>
      rw [has_cons_zero] at h; subst h
      simp [set_cons_zero, comps_cons, colIndex_zero, World.insertAt]
    | succ c =>
      rw [has_cons_succ] at h
      have hc' : c < m.length := by simpa using hc
      rw [set_cons_succ, comps_cons, comps_cons, ih hc' h, colIndex_cons_succ]
      cases b
      · simp [World.insertAt, List.map_take, List.map_drop]
      · simp only [if_true, List.singleton_append, World.insertAt]
        rw [show 1 + colIndex m c = colIndex m c + 1 by omega]
        simp [List.take_succ_cons, List.drop_succ_cons, List.map_take, List.map_drop]

/-- Removing a component erases its bit-walk position. -/
theorem comps_set_false {m : Mask} {c : Nat} (h : m.has c = true) :
    Mask.comps (m.set c false) = m.comps.eraseIdx (colIndex m c) := by
  induction m generalizing c with
  | nil => simp [Mask.has] at h
  | cons b m ih =>
    cases c with
    | zero =>
      rw [has_cons_zero] at h; subst h
      simp [set_cons_zero, comps_cons, colIndex_zero]
    | succ c =>
      rw [has_cons_succ] at h
      rw [set_cons_succ, comps_cons, comps_cons, ih h, colIndex_cons_succ]
      cases b
      · simp [map_eraseIdx]
      · simp only [if_true, List.singleton_append]
        rw [show 1 + colIndex m c = colIndex m c + 1 by omega]
        simp [List.eraseIdx_cons_succ, map_eraseIdx]

theorem count_set_true {m : Mask} {c : Nat} (hc : c < m.length) (h : m.has c = false) :
    Mask.count (m.set c true) = m.count + 1 := by
  rw [← comps_length, ← comps_length, comps_set_true hc h]
  have := colIndex_le_count m c
  rw [← comps_length] at this
  simp [World.insertAt]; omega

theorem count_set_false {m : Mask} {c : Nat} (h : m.has c = true) :
    Mask.count (m.set c false) + 1 = m.count := by
  rw [← comps_length, ← comps_length, comps_set_false h]
  have := colIndex_lt_count h
  rw [← comps_length] at this
  rw [List.length_eraseIdx]; simp [this]; omega

/-! ### `ofShape` and the canonical order of a written entity -/

theorem ofShape_length (n : Nat) (shape : List Nat) : (Mask.ofShape n shape).length = n := by
  simp [Mask.ofShape]

theorem ofShape_has {n : Nat} {shape : List Nat} {c : Nat} :
    (Mask.ofShape n shape).has c = (decide (c < n) && shape.contains c) := by
  unfold Mask.has Mask.ofShape
  by_cases h : c < n
  · simp [List.getD, h]
  · simp [List.getD, h, List.getElem?_eq_none]

theorem ofShape_comps (n : Nat) (shape : List Nat) :
    (Mask.ofShape n shape).comps = (List.range n).filter (fun c => shape.contains c) := by
  unfold Mask.comps
  rw [ofShape_length]
  apply List.filter_congr
  intro c hc
  rw [ofShape_has]
  simp [List.mem_range.mp hc]

/-- Looking a present component up in the written entity finds a value of that type. -/
theorem lookup_zip_ty {shape : List Nat} {vals : List Val} (h : vals.map (·.ty) = shape) {c : Nat} :
    (∀ v, (List.zip shape vals).lookup c = some v → v.ty = c ∧ shape.contains c = true) ∧
    (shape.contains c = true → ∃ v, (List.zip shape vals).lookup c = some v) := by
  induction shape generalizing vals with
  | nil => simp
  | cons s ss ih =>
    cases vals with
    | nil => simp at h
    | cons v vs =>
      simp only [List.map_cons, List.cons.injEq] at h
      obtain ⟨hv, hvs⟩ := h
      simp only [List.zip_cons_cons, List.lookup_cons]
      by_cases hcs : c = s
      · subst hcs
        simp [hv]
      · have : (c == s) = false := by simpa using hcs
        simp only [this]
        obtain ⟨i1, i2⟩ := ih hvs
        refine ⟨?_, ?_⟩
        · intro v' hv'
          obtain ⟨h1, h2⟩ := i1 v' hv'
          exact ⟨h1, by simp only [List.contains_cons, this, Bool.false_or]; exact h2⟩
        · intro hc
          simp only [List.contains_cons, this, Bool.false_or] at hc
          exact i2 hc

/-- `Registry::canonical`: the written values re-ordered to registry order have exactly the types
of the table's columns. -/
theorem canonVals_tys {n : Nat} {shape : List Nat} {vals : List Val}
    (h : World.shapeOk n shape vals = true) :
    (World.canonVals n shape vals).map (·.ty) = (Mask.ofShape n shape).comps := by
  unfold World.shapeOk at h
  simp only [Bool.and_eq_true, beq_iff_eq] at h
  obtain ⟨_, hty⟩ := h
  rw [ofShape_comps]
  unfold World.canonVals
  generalize List.range n = l
  induction l with
  | nil => rfl
  | cons c l ih =>
    obtain ⟨i1, i2⟩ := lookup_zip_ty (c := c) hty
    simp only [List.filterMap_cons, List.filter_cons]
    cases hl : (List.zip shape vals).lookup c with
    | none =>
      have : shape.contains c = false := by
        cases hc : shape.contains c with
        | false => rfl
        | true => obtain ⟨v, hv⟩ := i2 hc; rw [hl] at hv; cases hv
      simp only [this, Bool.false_eq_true, if_false, ih]
    | some v =>
      obtain ⟨hv, this⟩ := i1 v hl
      simp only [this, if_true, List.map_cons, hv, ih]

end Brood
