/-
  `World::clear` preserves the invariant, for every order in which the table iterator may visit
  the archetypes (any permutation of the tables).
-/
import BroodModel.Lemmas.World

set_option linter.unusedSimpArgs false
set_option linter.unusedVariables false

namespace Brood
open Alloc

/-- All identifiers stored in the world, table by table, row by row. -/
def World.stored (w : World) : List Ident := w.archs.flatMap (·.ids)

theorem mem_stored {w : World} {y : Ident} (h : y ∈ w.stored) :
    ∃ a ∈ w.archs, ∃ r : Nat, a.ids[r]? = some y := by
  obtain ⟨a, ha, hy⟩ := List.mem_flatMap.mp h
  obtain ⟨r, hr⟩ := List.getElem?_of_mem hy
  exact ⟨a, ha, r, hr⟩

/-- Stored identifiers occupy pairwise distinct slots. -/
theorem Inv.stored_pairwise {w : World} (hi : Inv w) :
    w.stored.Pairwise (fun x y => x.index ≠ y.index) := by
  unfold World.stored
  rw [List.pairwise_flatMap]
  constructor
  · intro a ha
    rw [List.pairwise_iff_getElem]
    intro i j hi' hj hij e
    have h1 := (hi.archOk ha).rows i a.ids[i] (List.getElem?_eq_getElem hi')
    have h2 := (hi.archOk ha).rows j a.ids[j] (List.getElem?_eq_getElem hj)
    rw [e, h2] at h1
    simp at h1
    omega
  · have hh : w.archs.Pairwise (fun a b => a.handle ≠ b.handle) := by
      have := hi.handles_nodup
      rw [List.Nodup, List.pairwise_map] at this
      exact this
    apply hh.imp_of_mem
    intro a b ha hb hab x hx y hy e
    obtain ⟨r, hr⟩ := List.getElem?_of_mem hx
    obtain ⟨q, hq⟩ := List.getElem?_of_mem hy
    have h1 := (hi.archOk ha).rows r x hr
    have h2 := (hi.archOk hb).rows q y hq
    rw [e, h2] at h1
    simp at h1
    exact hab h1.2.1.symm

/-- `freeAll` in closed form: every listed identifier's slot is retired, in list order. -/
theorem freeAll_spec (ids : List Ident) (al : Alloc)
    (hex : ∀ y ∈ ids, ∃ s, al.slots[y.index]? = some s) :
    ∃ al', World.freeAll al ids = .ok al' ∧ al'.free = al.free ++ ids.map (·.index) ∧
      al'.slots.length = al.slots.length ∧
      ∀ j, al'.slots[j]? =
        if j ∈ ids.map (·.index) then (al.slots[j]?).map (fun s => ⟨s.gen, none⟩) else al.slots[j]? := by
  induction ids generalizing al with
  | nil => exact ⟨al, rfl, by simp, rfl, by simp⟩
  | cons y ys ih =>
    obtain ⟨s, hs⟩ := hex y (by simp)
    have hlt : y.index < al.slots.length := (List.getElem?_eq_some_iff.mp hs).1
    have hrel : al.release y = .ok ⟨al.slots.set y.index ⟨s.gen, none⟩, al.free ++ [y.index]⟩ := by
      simp [Alloc.release, hs]
    have hex' : ∀ z ∈ ys, ∃ t, (al.slots.set y.index ⟨s.gen, none⟩)[z.index]? = some t := by
      intro z hz
      obtain ⟨t, ht⟩ := hex z (by simp [hz])
      by_cases hzy : z.index = y.index
      · exact ⟨⟨s.gen, none⟩, by simp [hzy, hlt]⟩
      · exact ⟨t, by rw [List.getElem?_set_ne (Ne.symm hzy)]; exact ht⟩
    obtain ⟨al', h1, h2, h3, h4⟩ := ih ⟨al.slots.set y.index ⟨s.gen, none⟩, al.free ++ [y.index]⟩ hex'
    refine ⟨al', by simp [World.freeAll, hrel, h1], by simp [h2], by simp [h3], ?_⟩
    intro j
    rw [h4 j]
    simp only [List.map_cons, List.mem_cons]
    by_cases hjy : j = y.index
    · subst hjy
      have hset : (al.slots.set y.index ⟨s.gen, none⟩)[y.index]? = some ⟨s.gen, none⟩ :=
        List.getElem?_set_self hlt
      by_cases hjm : y.index ∈ ys.map (·.index)
      · simp only [hjm, if_true, true_or, hset, hs, Option.map_some]
      · simp only [hjm, if_false, true_or, if_true, hset, hs, Option.map_some]
    · have hset : (al.slots.set y.index ⟨s.gen, none⟩)[j]? = al.slots[j]? :=
        List.getElem?_set_ne (Ne.symm hjy)
      by_cases hjm : j ∈ ys.map (·.index)
      · simp only [hjm, if_true, or_true, hset]
      · simp only [hjm, if_false, hjy, or_self, hset]

/-- `clear` over an explicit visiting list. -/
def World.clearWith (w : World) (visit : List Arch) : Out (World × List Val) :=
  match World.freeAll w.alloc (visit.flatMap (·.ids)) with
  | .ub e => .ub e
  | .ok al =>
    .ok ({ w with archs := w.archs.map Arch.cleared, alloc := al, len := 0 }, visit.flatMap Arch.values)

theorem clear_eq_clearWith (w : World) (order : List Mask) :
    w.clearRaw order = w.clearWith (w.visitOrder order) := rfl

/-- `clear` = the column loop followed by sorting the slots it freed. -/
theorem clear_eq {w w' : World} {order : List Mask} {drops : List Val}
    (e : w.clear order = .ok (w', drops)) :
    ∃ w1, w.clearRaw order = .ok (w1, drops) ∧
      w' = { w1 with alloc := World.sortFreeFrom w1.alloc w.alloc.free.length } := by
  unfold World.clear at e
  cases h : w.clearRaw order with
  | ub x => simp [h] at e
  | ok p =>
    obtain ⟨w1, d1⟩ := p
    simp only [h, Out.ok.injEq, Prod.mk.injEq] at e
    obtain ⟨rfl, rfl⟩ := e
    exact ⟨w1, rfl, rfl⟩

theorem clear_of_raw {w w1 : World} {order : List Mask} {drops : List Val}
    (e : w.clearRaw order = .ok (w1, drops)) :
    w.clear order = .ok ({ w1 with alloc := World.sortFreeFrom w1.alloc w.alloc.free.length }, drops) := by
  unfold World.clear; rw [e]

theorem find_map_cleared (l : List Arch) (hd : Nat) :
    (l.map Arch.cleared).find? (fun a => a.handle == hd) = (l.find? (fun a => a.handle == hd)).map Arch.cleared := by
  induction l with
  | nil => rfl
  | cons b bs ih =>
    simp only [List.map_cons, List.find?_cons]
    have : (Arch.cleared b).handle = b.handle := rfl
    rw [this]
    cases h : b.handle == hd with
    | true => simp
    | false => simpa using ih

/-- **`clear` preserves the invariant**, whatever order (a permutation of the tables) the table
iterator visits the archetypes in — and never reaches an unchecked access. -/
theorem clearWith_inv {w : World} (hi : Inv w) {visit : List Arch} (hp : visit.Perm w.archs) :
    ∃ w' drops, w.clearWith visit = .ok (w', drops) ∧ Inv w' := by
  have hperm : (visit.flatMap (·.ids)).Perm w.stored := List.Perm.flatMap_right _ hp
  have hex : ∀ y ∈ visit.flatMap (·.ids), ∃ s, w.alloc.slots[y.index]? = some s := by
    intro y hy
    obtain ⟨a, ha, r, hr⟩ := mem_stored (hperm.mem_iff.mp hy)
    exact ⟨_, (hi.archOk ha).rows r y hr⟩
  obtain ⟨al', h1, h2, h3, h4⟩ := freeAll_spec _ w.alloc hex
  refine ⟨{ w with archs := w.archs.map Arch.cleared, alloc := al', len := 0 },
    visit.flatMap Arch.values, by simp [World.clearWith, h1], ?_⟩
  -- membership in the freed list = being stored
  have hmem : ∀ j, j ∈ (visit.flatMap (·.ids)).map (·.index) ↔ ∃ y ∈ w.stored, y.index = j := by
    intro j
    simp only [List.mem_map]
    constructor
    · rintro ⟨y, hy, rfl⟩; exact ⟨y, hperm.mem_iff.mp hy, rfl⟩
    · rintro ⟨y, hy, rfl⟩; exact ⟨y, hperm.mem_iff.mpr hy, rfl⟩
  have hstored_active : ∀ y ∈ w.stored, ∃ l, w.alloc.slots[y.index]? = some ⟨y.gen, some l⟩ := by
    intro y hy
    obtain ⟨a, ha, r, hr⟩ := mem_stored hy
    exact ⟨_, (hi.archOk ha).rows r y hr⟩
  have hfind : ∀ hd, ({ w with archs := w.archs.map Arch.cleared, alloc := al', len := 0 } : World).findArch hd =
      (w.findArch hd).map Arch.cleared := fun hd => find_map_cleared w.archs hd
  refine
    { free_nodup := ?_, free_inactive := ?_, slots := ?_, archs := ?_, masks_nodup := ?_,
      handles_nodup := ?_, typeIds := ?_, typeIds_nodup := hi.typeIds_nodup, foreign := ?_, len := ?_ }
  · show al'.free.Nodup
    rw [h2, List.nodup_append]
    refine ⟨hi.free_nodup, ?_, ?_⟩
    · have : ((visit.flatMap (·.ids)).map (·.index)).Perm (w.stored.map (·.index)) := hperm.map _
      rw [this.nodup_iff, List.Nodup, List.pairwise_map]
      exact hi.stored_pairwise
    · intro x hx y hy hxy
      subst hxy
      obtain ⟨z, hz, hzi⟩ := (hmem x).mp hy
      obtain ⟨l, hl⟩ := hstored_active z hz
      obtain ⟨t, ht, htl⟩ := hi.ainv.inactive x hx
      rw [← hzi, hl] at ht; cases ht; simp at htl
  · intro i hif
    show (al'.slots[i]?).map (·.loc) = some none
    rw [h2] at hif
    rw [h4 i]
    rcases List.mem_append.mp hif with hfo | hfn
    · have hin := hi.free_inactive i hfo
      by_cases hm : i ∈ (visit.flatMap (·.ids)).map (·.index)
      · simp only [hm, if_true]
        cases hs : w.alloc.slots[i]? with
        | none => simp [hs] at hin
        | some s => simp
      · simp only [hm, if_false]; exact hin
    · simp only [hfn, if_true]
      obtain ⟨z, hz, hzi⟩ := (hmem i).mp hfn
      obtain ⟨l, hl⟩ := hstored_active z hz
      rw [← hzi, hl]; simp
  · intro i hlt
    have hlt0 : i < w.alloc.slots.length := by
      have : i < al'.slots.length := hlt
      omega
    apply slotOk_iff.mpr
    intro s hs
    have hs' : al'.slots[i]? = some s := hs
    rw [h4 i] at hs'
    show (s.loc = none → i ∈ al'.free) ∧ (∀ l, s.loc = some l → ∃ b, _ ∧ _ ∧ i ∉ al'.free)
    by_cases hm : i ∈ (visit.flatMap (·.ids)).map (·.index)
    · simp only [hm, if_true] at hs'
      cases hs0 : w.alloc.slots[i]? with
      | none => simp [hs0] at hs'
      | some s0 =>
        simp [hs0] at hs'
        subst hs'
        exact ⟨fun _ => by rw [h2]; exact List.mem_append_right _ hm, fun l hl => by simp at hl⟩
    · simp only [hm, if_false] at hs'
      obtain ⟨hnone, hsome⟩ := (slotOk_iff.mp (hi.slots i hlt0)) s hs'
      refine ⟨fun hn => by rw [h2]; exact List.mem_append_left _ (hnone hn), ?_⟩
      intro l hl
      -- an active slot belongs to a stored identifier, hence was freed: contradiction
      exfalso
      obtain ⟨b, hb, hbrow, _⟩ := hsome l hl
      apply hm
      apply (hmem i).mpr
      refine ⟨⟨i, s.gen⟩, ?_, rfl⟩
      exact List.mem_flatMap.mpr ⟨b, (findArch_some hb).1, List.mem_of_getElem? hbrow⟩
  · intro x hx
    obtain ⟨a, ha, rfl⟩ := List.mem_map.mp (hx : x ∈ w.archs.map Arch.cleared)
    have ok := hi.archOk ha
    apply archOk_iff.mpr
    refine
      { mask_len := ok.mask_len, handle_lt := ok.handle_lt, cols_len := by simp [Arch.cleared, ok.cols_len],
        cols_all_len := ?_, cols_ok := ?_, rows := ?_, foreign := ok.foreign }
    · intro c hc
      simp only [Arch.cleared, List.mem_map] at hc
      obtain ⟨_, _, rfl⟩ := hc; rfl
    · intro k c ty hc _
      simp only [Arch.cleared, List.getElem?_map] at hc
      cases hk : a.cols[k]? with
      | none => simp [hk] at hc
      | some c0 => simp [hk] at hc; subst hc; exact ⟨rfl, by simp⟩
    · intro r id hr
      simp [Arch.cleared] at hr
  · show ((w.archs.map Arch.cleared).map (·.mask)).Nodup
    have : (w.archs.map Arch.cleared).map (·.mask) = w.archs.map (·.mask) := by
      rw [List.map_map]; rfl
    rw [this]; exact hi.masks_nodup
  · show ((w.archs.map Arch.cleared).map (·.handle)).Nodup
    have : (w.archs.map Arch.cleared).map (·.handle) = w.archs.map (·.handle) := by
      rw [List.map_map]; rfl
    rw [this]; exact hi.handles_nodup
  · intro p hp'
    have := hi.typeIds p hp'
    unfold lookupOk at this ⊢
    rw [hfind]
    cases hf : w.findArch p.2 with
    | none => simp [hf] at this
    | some a => simpa [hf, Arch.cleared] using this
  · intro p hp'
    have := hi.foreign p hp'
    unfold lookupOk at this ⊢
    rw [hfind]
    cases hf : w.findArch p.2 with
    | none => simp [hf] at this
    | some a => simpa [hf, Arch.cleared] using this
  · show 0 = ((w.archs.map Arch.cleared).map (·.ids.length)).sum
    have : (w.archs.map Arch.cleared).map (·.ids.length) = w.archs.map (fun _ => 0) := by
      rw [List.map_map]; rfl
    rw [this]
    have hz : ∀ l : List Arch, (l.map (fun _ => 0)).sum = 0 := by
      intro l
      induction l with
      | nil => rfl
      | cons _ _ ih => rw [List.map_cons, List.sum_cons, ih]
    exact (hz _).symm

end Brood

namespace Brood

/-- The column loop preserves the invariant and never fails, for every observed table order. -/
theorem clearRaw_inv {w : World} (hi : Inv w) (order : List Mask) :
    ∃ w' drops, w.clearRaw order = .ok (w', drops) ∧ Inv w' := by
  rw [clear_eq_clearWith]
  exact clearWith_inv hi (List.mergeSort_perm _ _)

/-- Sorting a suffix of the free queue permutes it. -/
theorem sortFreeFrom_perm (a : Alloc) (n : Nat) : (World.sortFreeFrom a n).free.Perm a.free := by
  unfold World.sortFreeFrom
  simp only
  have h1 : ((a.free.drop n).mergeSort (fun x y => decide (x ≤ y))).Perm (a.free.drop n) := List.mergeSort_perm _ _
  have h2 : (a.free.take n ++ (a.free.drop n).mergeSort (fun x y => decide (x ≤ y))).Perm (a.free.take n ++ a.free.drop n) :=
    List.Perm.append_left _ h1
  rwa [List.take_append_drop] at h2

/-- **The invariant does not depend on the order of the free queue.** -/
theorem inv_perm_free {w : World} (hi : Inv w) {free' : List Nat} (hp : free'.Perm w.alloc.free) :
    Inv { w with alloc := { w.alloc with free := free' } } := by
  have hfind : ∀ hd, ({ w with alloc := { w.alloc with free := free' } } : World).findArch hd = w.findArch hd :=
    fun _ => rfl
  refine
    { free_nodup := hp.nodup_iff.mpr hi.free_nodup
      free_inactive := fun i hif => hi.free_inactive i (hp.mem_iff.mp hif)
      slots := ?_, archs := ?_, masks_nodup := hi.masks_nodup, handles_nodup := hi.handles_nodup
      typeIds := hi.typeIds, typeIds_nodup := hi.typeIds_nodup, foreign := hi.foreign, len := hi.len }
  · intro i hlt
    apply slotOk_iff.mpr
    intro s hs
    obtain ⟨h1, h2⟩ := (slotOk_iff.mp (hi.slots i hlt)) s hs
    refine ⟨fun hn => hp.mem_iff.mpr (h1 hn), ?_⟩
    intro l hl
    obtain ⟨a, ha, hrow, hnf⟩ := h2 l hl
    exact ⟨a, ha, hrow, fun hc => hnf (hp.mem_iff.mp hc)⟩
  · intro a ha
    exact hi.archs a ha

/-- Sorting two permutations of one list of slot indices gives the same list. -/
theorem mergeSort_eq_of_perm {l1 l2 : List Nat} (hp : l1.Perm l2) :
    l1.mergeSort (fun x y => decide (x ≤ y)) = l2.mergeSort (fun x y => decide (x ≤ y)) := by
  have htr : ∀ a b c : Nat, decide (a ≤ b) = true → decide (b ≤ c) = true → decide (a ≤ c) = true := by
    intro a b c h1 h2; simp at *; omega
  have htot : ∀ a b : Nat, (decide (a ≤ b) || decide (b ≤ a)) = true := by
    intro a b; simp; omega
  apply List.Perm.eq_of_pairwise (le := fun a b => decide (a ≤ b) = true)
  · intro a b _ _ h1 h2; simp at h1 h2; omega
  · exact List.pairwise_mergeSort htr htot l1
  · exact List.pairwise_mergeSort htr htot l2
  · exact ((List.mergeSort_perm l1 _).trans hp).trans (List.mergeSort_perm l2 _).symm

/-- **The allocator left by `clear` does not depend on the order the tables are visited in**: two
observed table orders give the same slots and the same free queue — so the identifiers issued
afterwards are the same. -/
theorem clear_alloc_order_independent {w : World} (hi : Inv w) (o1 o2 : List Mask)
    {w1 w2 : World} {d1 d2 : List Val} (e1 : w.clear o1 = .ok (w1, d1)) (e2 : w.clear o2 = .ok (w2, d2)) :
    w1.alloc = w2.alloc ∧ w1.archs = w2.archs ∧ w1.len = w2.len ∧ w1.res = w2.res := by
  obtain ⟨x1, r1, rfl⟩ := clear_eq e1
  obtain ⟨x2, r2, rfl⟩ := clear_eq e2
  rw [clear_eq_clearWith] at r1 r2
  have hp1 : (w.visitOrder o1).Perm w.archs := List.mergeSort_perm _ _
  have hp2 : (w.visitOrder o2).Perm w.archs := List.mergeSort_perm _ _
  have hperm1 : ((w.visitOrder o1).flatMap (·.ids)).Perm w.stored := List.Perm.flatMap_right _ hp1
  have hperm2 : ((w.visitOrder o2).flatMap (·.ids)).Perm w.stored := List.Perm.flatMap_right _ hp2
  have hex : ∀ (v : List Arch), (v.flatMap (·.ids)).Perm w.stored →
      ∀ y ∈ v.flatMap (·.ids), ∃ s, w.alloc.slots[y.index]? = some s := by
    intro v hpv y hy
    obtain ⟨a, ha, r, hr⟩ := mem_stored (hpv.mem_iff.mp hy)
    exact ⟨_, (hi.archOk ha).rows r y hr⟩
  obtain ⟨al1, f1, g1, l1, s1⟩ := freeAll_spec _ w.alloc (hex _ hperm1)
  obtain ⟨al2, f2, g2, l2, s2⟩ := freeAll_spec _ w.alloc (hex _ hperm2)
  simp only [World.clearWith, f1, f2, Out.ok.injEq, Prod.mk.injEq] at r1 r2
  obtain ⟨rfl, _⟩ := r1
  obtain ⟨rfl, _⟩ := r2
  refine ⟨?_, rfl, rfl, rfl⟩
  show World.sortFreeFrom al1 w.alloc.free.length = World.sortFreeFrom al2 w.alloc.free.length
  have hidx : (((w.visitOrder o1).flatMap (·.ids)).map (·.index)).Perm (((w.visitOrder o2).flatMap (·.ids)).map (·.index)) :=
    (hperm1.trans hperm2.symm).map _
  have hslots : al1.slots = al2.slots := by
    apply List.ext_getElem?
    intro j
    rw [s1 j, s2 j]
    have : (j ∈ ((w.visitOrder o1).flatMap (·.ids)).map (·.index)) ↔ (j ∈ ((w.visitOrder o2).flatMap (·.ids)).map (·.index)) :=
      hidx.mem_iff
    by_cases hj : j ∈ ((w.visitOrder o1).flatMap (·.ids)).map (·.index)
    · simp only [hj, this.mp hj, if_true]
    · have hj2 : ¬ j ∈ ((w.visitOrder o2).flatMap (·.ids)).map (·.index) := fun h => hj (this.mpr h)
      simp only [hj, hj2, if_false]
  unfold World.sortFreeFrom
  rw [g1, g2, List.take_left, List.take_left, List.drop_left, List.drop_left, mergeSort_eq_of_perm hidx]
  cases al1; cases al2
  simp only at hslots ⊢
  subst hslots
  rfl

/-- **`World::clear` preserves the invariant and never fails**, for every observed table order. -/
theorem clear_inv {w : World} (hi : Inv w) (order : List Mask) :
    ∃ w' drops, w.clear order = .ok (w', drops) ∧ Inv w' := by
  obtain ⟨w1, d, h1, hi1⟩ := clearRaw_inv hi order
  exact ⟨_, d, clear_of_raw h1, inv_perm_free hi1 (sortFreeFrom_perm _ _)⟩

end Brood
