#!/bin/sh
# usage: tools/regress_seeded.sh [ids…]   — runs the owning property's quick check against every seeded change
cd /verif
ids="$@"; [ -z "$ids" ] && ids=$(ls seeded)
for id in $ids; do
  p=${id%%-*}
  out=$(tools/try_seeded.sh /verif/seeded/$id $p 2>&1)
  det=$(echo "$out" | grep -c "^VIOLATION property=$p")
  nf=$(echo "$out" | grep -c "no-failing-input-found")
  echo "$id detected=$det no_input=$nf $(echo "$out" | grep -E 'does not apply|repo dirty' | head -1)"
done
