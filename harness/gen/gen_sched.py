#!/usr/bin/env python3
"""Generate the typed schedule family (DESIGN Appendix B) over the Reg4 family: every schedule is
a list of System / ParSystem tasks with views, filter, resource views and entry views; each task
is its own Rust type with an order-sensitive body (writes depend on what was read, accumulators,
entry-view writes), a run counter and start/end events in the fork/join log."""
import random
import sys

N = 4
NRES = 3
KINDS = "szlh"


def vt(v, lt="'a"):
    k, c = v
    if k == "id":
        return "entity::Identifier"
    return {"r": f"&{lt} C{c}", "m": f"&{lt} mut C{c}", "or": f"Option<&{lt} C{c}>", "om": f"Option<&{lt} mut C{c}>"}[k]


def vtok(v):
    k, c = v
    return "id" if k == "id" else f"{k}{c}"


def views_ty(vs):
    return "Views!(" + ", ".join(vt(v) for v in vs) + ")"


def res_ty(rs):
    return "Views!(" + ", ".join((f"&'a mut R{p}" if m else f"&'a R{p}") for p, m in rs) + ")"


def toks(vs):
    return ",".join(vtok(v) for v in vs) if vs else "-"


def res_toks(rs):
    return ",".join(f"{p}{'m' if m else 'r'}" for p, m in rs) if rs else "-"


def task_desc(t):
    return f"{'P' if t['par'] else 'S'}:{toks(t['views'])}:{'_'.join(t['ftoks'])}:{res_toks(t['res'])}:{toks(t['entry'])}"


def gen_filter(rnd, depth=0):
    r = rnd.random()
    if depth >= 2 or r < 0.55:
        if rnd.random() < 0.5:
            return "filter::None", ["none"]
        c = rnd.randrange(N)
        return f"filter::Has<C{c}>", [f"has{c}"]
    if r < 0.7:
        t, k = gen_filter(rnd, depth + 1)
        return f"filter::Not<{t}>", ["not"] + k
    a, ka = gen_filter(rnd, depth + 1)
    b, kb = gen_filter(rnd, depth + 1)
    if r < 0.85:
        return f"filter::And<{a}, {b}>", ["and"] + ka + kb
    return f"filter::Or<{a}, {b}>", ["or"] + ka + kb


def rand_task(rnd, par=None):
    comps = list(range(N))
    rnd.shuffle(comps)
    nv = rnd.randint(0, 2)
    vcs = comps[:nv]
    views = [(rnd.choice(["r", "m", "or", "om"]), c) for c in vcs]
    if rnd.random() < 0.4:
        views.insert(rnd.randint(0, len(views)), ("id", None))
    ne = rnd.randint(0, 2) if rnd.random() < 0.5 else 0
    ecs = comps[nv:nv + ne]
    entry = [(rnd.choice(["r", "m", "or", "om"]), c) for c in ecs]
    nr = rnd.randint(0, 2) if rnd.random() < 0.6 else 0
    rps = rnd.sample(range(NRES), nr)
    res = [(p, rnd.random() < 0.5) for p in sorted(rps)]
    ft, ftoks = gen_filter(rnd)
    return dict(views=views, entry=entry, res=res, ft=ft, ftoks=ftoks, par=(rnd.random() < 0.35) if par is None else par)


def simple(views=(), entry=(), res=(), par=False):
    return dict(views=list(views), entry=list(entry), res=list(res), ft="filter::None", ftoks=["none"], par=par)


def family():
    rnd = random.Random(4242)
    out = []
    kinds = ["r", "m", "or", "om"]
    # pairs of view kinds on the same component: views/views and views/entry views
    # (the family is kept small: every schedule type costs ~8 s of rustc trait solving)
    for k1, k2 in [("r", "r"), ("r", "m"), ("m", "r"), ("or", "om"), ("om", "or"), ("or", "or"), ("m", "om")]:
        out.append([simple(views=[(k1, 0)]), simple(views=[(k2, 0)])])
    for k1, k2 in [("r", "or"), ("r", "om"), ("m", "r"), ("or", "m")]:
        out.append([simple(views=[(k1, 2), ("id", None)]), simple(views=[("id", None)], entry=[(k2, 2)])])
    # the same component viewed immutably through the views *and* the entry views (view::Merge `Both`)
    for k1, k2 in [("or", "or"), ("r", "or"), ("or", "r"), ("r", "r")]:
        out.append([simple(views=[(k1, 0)], entry=[(k2, 0)]), simple(views=[("r", 0)])])
    # different components: must share a stage
    out.append([simple(views=[("m", 0)]), simple(views=[("m", 2)]), simple(views=[("m", 3)])])
    # resources
    out.append([simple(res=[(0, False)]), simple(res=[(0, False)])])
    out.append([simple(res=[(0, False)]), simple(res=[(0, True)])])
    out.append([simple(views=[("r", 0)], res=[(1, True)]), simple(views=[("r", 0)], res=[(2, True)])])
    # the duplicate-key shape: two tasks of one stage match the same table, the next stage writes
    out.append([simple(views=[("r", 0)]), simple(views=[("r", 2)]), simple(views=[("m", 2)])])
    out.append([simple(views=[("r", 0)]), simple(views=[("r", 2)]), simple(views=[("m", 0)])])
    out.append([simple(views=[("r", 0)], par=True), simple(views=[("or", 2)]), simple(views=[("om", 2)], par=True)])
    # statically conflicting, dynamically disjoint (filters / different tables): add-ons
    out.append([dict(simple(views=[("m", 0), ("r", 2)]), ft="filter::Not<filter::Has<C3>>", ftoks=["not", "has3"]),
                dict(simple(views=[("m", 0), ("r", 3)]), ft="filter::Not<filter::Has<C2>>", ftoks=["not", "has2"]),
                simple(views=[("r", 0)])])
    out.append([simple(views=[("m", 0), ("r", 2)]), simple(views=[("m", 0), ("r", 3)]), simple(views=[("m", 2)])])
    out.append([simple(views=[("m", 0)]), simple(views=[("om", 0), ("m", 3)]), simple(views=[("or", 0)]), simple(views=[("r", 3)])])
    # a later stage whose tasks are ALL started early, next to the previous stage (two and three add-ons)
    nh3 = dict(ft="filter::Not<filter::Has<C3>>", ftoks=["not", "has3"])
    h3 = dict(ft="filter::Has<C3>", ftoks=["has3"])
    out.append([dict(simple(views=[("m", 0)]), **h3), dict(simple(views=[("r", 0)]), **nh3), dict(simple(views=[("r", 0)]), **nh3)])
    out.append([dict(simple(views=[("m", 0), ("m", 2)]), **h3), dict(simple(views=[("r", 0)]), **nh3),
                dict(simple(views=[("r", 2)], par=True), **nh3), dict(simple(views=[("or", 0)]), **nh3)])
    out.append([dict(simple(views=[("m", 0)]), ft="filter::Has<C1>", ftoks=["has1"]),
                dict(simple(views=[("m", 0)]), ft="filter::Not<filter::Has<C1>>", ftoks=["not", "has1"]), simple(views=[("r", 2)])])
    # --- schedules aimed at the run-time claim bookkeeping of stage.rs ------------------------------
    # (run-time claim bookkeeping: which claims are recorded per table / resource while a stage runs,
    #  what happens to them when an add-on candidate is turned down, and what a stage that has
    #  already run as add-ons passes on)
    def flt(t, ft, ftoks):
        return dict(t, ft=ft, ftoks=ftoks)
    H = lambda c: (f"filter::Has<C{c}>", [f"has{c}"])
    NH = lambda c: (f"filter::Not<filter::Has<C{c}>>", ["not", f"has{c}"])
    NEVER = ("filter::And<filter::Has<C0>, filter::Not<filter::Has<C0>>>", ["and", "has0", "not", "has0"])
    # a candidate turned down after merging compatibly into a running task's table; a later
    # candidate clashes with that running task on exactly that table
    out.append([simple(views=[("m", 0)]), flt(simple(views=[("m", 2)]), *H(1)), simple(views=[("r", 2)]), simple(views=[("r", 0)])])
    out.append([simple(views=[("m", 1)]), flt(simple(views=[("m", 3)]), *H(0)), simple(views=[("r", 3)]), simple(views=[("or", 1)], par=True)])
    out.append([simple(views=[("m", 0)], par=True), flt(simple(views=[("om", 2)]), *H(3)), simple(views=[("id", None)], entry=[("r", 2)]), simple(views=[("id", None)], entry=[("r", 0)])])
    # candidates turned down / accepted in every order
    out.append([flt(simple(views=[("m", 0)]), *H(3)), simple(views=[("r", 0)]), flt(simple(views=[("r", 0)]), *NH(3))])
    out.append([flt(simple(views=[("m", 0)]), *H(3)), flt(simple(views=[("r", 0)]), *NH(3)), simple(views=[("r", 0)]), flt(simple(views=[("or", 0)]), *NH(3))])
    # a middle stage that is started early as a whole; the stage after it holds independent tasks
    out.append([simple(views=[("m", 0), ("m", 1)]), simple(views=[("m", 0), ("m", 2)]), simple(views=[("m", 2)]), simple(views=[("m", 3)])])
    out.append([flt(simple(views=[("m", 0)]), *H(1)), flt(simple(views=[("m", 0)]), *NH(1)), simple(views=[("r", 0)]), simple(views=[("m", 3)])])
    out.append([flt(simple(views=[("m", 0)]), *H(3)), flt(simple(views=[("m", 0)]), *NH(3)), flt(simple(views=[("m", 0)]), *H(2)), simple(views=[("r", 1)])])
    # a task that views a resource and matches no table (or has no views at all), before / after a
    # stage mate that borrows tables; the next stage conflicts through the resource only
    out.append([flt(simple(views=[("r", 3)], res=[(0, True)]), *NEVER), simple(views=[("m", 0)]), simple(views=[("r", 1)], res=[(0, False)])])
    out.append([simple(views=[("m", 0)]), flt(simple(views=[("r", 3)], res=[(0, True)]), *NEVER), simple(views=[("r", 1)], res=[(0, False)])])
    out.append([simple(res=[(1, True)]), simple(views=[("m", 2)]), simple(views=[("r", 3)], res=[(1, False)]), simple(views=[("r", 1)], res=[(2, True)])])
    out.append([simple(views=[("m", 2)]), simple(res=[(1, False)]), simple(views=[("r", 3)], res=[(1, True)])])
    out.append([flt(simple(views=[("m", 1)], res=[(2, True)]), *NEVER), flt(simple(views=[("m", 0)]), *H(2)), flt(simple(views=[("r", 0)], res=[(2, True)]), *NH(2)), flt(simple(views=[("r", 0)]), *NH(2))])
    # a stage of three or four tasks of different reach that share tables pairwise; the next stage
    # conflicts with exactly one of them on exactly one table
    out.append([simple(views=[("m", 0)]), simple(views=[("m", 1)]), simple(views=[("r", 2)]), simple(views=[("r", 0)]), simple(views=[("r", 1)])])
    out.append([simple(views=[("m", 0)]), simple(views=[("m", 1)]), simple(views=[("or", 2), ("r", 3)]), simple(views=[("r", 1)]), simple(views=[("r", 0)])])
    out.append([simple(views=[("m", 2)]), simple(views=[("m", 3)]), simple(views=[("r", 0)], par=True), simple(views=[("r", 1)]), simple(views=[("r", 3)]), simple(views=[("r", 2)])])
    while len(out) < 67:
        k = rnd.randint(2, 4)
        out.append([rand_task(rnd) for _ in range(k)])
    return out


def row_pat(vs, prefix="v"):
    names = [f"{prefix}{i}" for i in range(len(vs))]
    return names, "result!(" + ", ".join(names) + ")"


def body_views(vs, names, mk_id):
    """code computing `row` (sum of identities read) and then writing through mutable views"""
    reads = []
    writes = []
    for v, nm in zip(vs, names):
        k, c = v
        if k == "id":
            reads.append(f"({nm}.verif_parts().0 as u64 + 1)")
        elif k in ("r", "m"):
            reads.append(f"({nm}.ident() % EPOCH_BASE)")
        else:
            reads.append(f"({nm}.as_ref().map(|x| x.ident() % EPOCH_BASE).unwrap_or(7))")
    for v, nm in zip(vs, names):
        k, c = v
        if k == "m":
            writes.append(f"let old = {nm}.ident(); *{nm} = C{c}::mk({mk_id});")
        elif k == "om":
            writes.append(f"if let Some(x) = {nm} {{ let old = x.ident(); *x = C{c}::mk({mk_id}); }}")
    row = " + ".join(reads) if reads else "1"
    return row, " ".join(writes)


def emit_schedule(w, si, tasks):
    for ti, t in enumerate(tasks):
        name = f"T{si}_{ti}"
        w.append(f"pub struct {name} {{ pub st: SysState }}")
        trait = "ParSystem" if t["par"] else "System"
        iter_bound = "ParallelIterator" if t["par"] else "Iterator"
        w.append(f"impl {trait} for {name} {{")
        w.append(f"    type Filter = {t['ft']};")
        w.append(f"    type Views<'a> = {views_ty(t['views'])};")
        w.append(f"    type ResourceViews<'a> = {res_ty(t['res'])};")
        w.append(f"    type EntryViews<'a> = {views_ty(t['entry'])};")
        w.append("    fn run<'a, R, S, I, E>(&mut self, mut qr: Result<'a, R, S, I, Self::ResourceViews<'a>, Self::EntryViews<'a>, E>)")
        w.append(f"    where R: ContainsViews<'a, Self::EntryViews<'a>, E>, I: {iter_bound}<Item = Self::Views<'a>> {{")
        w.append("        let id = self.st.id;")
        w.append("        schedule::verif::log(id);")
        w.append("        self.st.runs += 1;")
        rnames = [f"r{i}" for i in range(len(t["res"]))]
        w.append("        let result!(" + ", ".join(rnames) + ") = qr.resources;")
        racc = " + ".join(f"({nm}.ident() % EPOCH_BASE)" for nm in rnames) or "0"
        w.append(f"        let racc: u64 = {racc};")
        names, pat = row_pat(t["views"])
        row, writes = body_views(t["views"], names, "newid(old, id, row)")
        if t["par"]:
            w.append("        let acc = AtomicU64::new(0);")
            w.append(f"        qr.iter.for_each(|{pat}| {{ let row: u64 = {row}; acc.fetch_add(mix(row.wrapping_add(racc)), Ordering::Relaxed); {writes} }});")
            w.append("        self.st.acc = self.st.acc.wrapping_mul(1_000_003).wrapping_add(acc.load(Ordering::Relaxed));")
        else:
            w.append("        let mut acc: u64 = 0;")
            w.append(f"        for {pat} in qr.iter {{ let row: u64 = {row}; acc = acc.wrapping_add(mix(row.wrapping_add(racc))); {writes} }}")
            w.append("        self.st.acc = self.st.acc.wrapping_mul(1_000_003).wrapping_add(acc);")
        if t["entry"]:
            enames, epat = row_pat(t["entry"], "e")
            erow, ewrites = body_views(t["entry"], enames, "newid(old, id + 17, row)")
            w.append("        let mut eacc: u64 = 0;")
            w.append("        for target in self.st.targets.iter() {")
            w.append("            if let Some(mut entry) = qr.entries.entry(*target) {")
            w.append(f"                if let Some({epat}) = entry.query(Query::<{views_ty(t['entry'])}>::new()) {{ let row: u64 = {erow}; eacc = eacc.wrapping_add(mix(row)); {ewrites} }}")
            w.append("            }")
            w.append("        }")
            w.append("        self.st.acc = self.st.acc.wrapping_mul(31).wrapping_add(eacc);")
        for (p, m), nm in zip(t["res"], rnames):
            if m:
                w.append(f"        {{ let old = {nm}.ident(); *{nm} = R{p}::mk(newid(old, id, racc)); }}")
        w.append("        schedule::verif::log(id + 1000);")
        w.append("    }")
        w.append("}")
    n = len(tasks)
    w.append(f"fn run_s{si}(w: &mut W, mode: SchedMode, targets: &[entity::Identifier]) -> SchedOut {{")
    for ti, t in enumerate(tasks):
        w.append(f"    let mut t{ti} = T{si}_{ti} {{ st: SysState::new({ti}, targets) }};")
    w.append("    let mut stages = String::new();")
    w.append("    match mode {")
    w.append("        SchedMode::Sequential => {")
    for ti, t in enumerate(tasks):
        call = "run_par_system" if t["par"] else "run_system"
        w.append(f"            w.{call}(&mut t{ti});")
    w.append("        }")
    w.append("        SchedMode::Schedule => {")
    sched = ", ".join((f"task::ParSystem(t{ti})" if t["par"] else f"task::System(t{ti})") for ti, t in enumerate(tasks))
    w.append(f"            let mut s = schedule!({sched});")
    w.append("            stages = stages_name::<_, _>(&s).to_string();")
    w.append("            w.run_schedule(&mut s);")
    pat = "_"
    for ti, t in reversed(list(enumerate(tasks))):
        pat = f"({'task::ParSystem' if t['par'] else 'task::System'}(u{ti}), {pat})"
    w.append(f"            let {pat} = s;")
    w.append("            return SchedOut { states: vec![" + ", ".join(f"(u{ti}.st.acc, u{ti}.st.runs)" for ti in range(n)) + "], stages };")
    w.append("        }")
    w.append("    }")
    w.append("    SchedOut { states: vec![" + ", ".join(f"(t{ti}.st.acc, t{ti}.st.runs)" for ti in range(n)) + "], stages }")
    w.append("}")


HEADER = ["// @generated by gen/gen_sched.py — do not edit",
          "#![allow(unused_variables, unused_mut, unused_imports, unused_assignments, non_camel_case_types, clippy::all)]",
          "use hcore::comps::*;",
          "use hcore::gen_reg4::*;",
          "use hcore::sched_types::*;",
          "use brood::{entity, query::{filter, result, Result, Views}, registry::ContainsViews, system::{schedule, schedule::task, ParSystem, System}, Query};",
          "use rayon::iter::ParallelIterator;",
          "use std::sync::atomic::{AtomicU64, Ordering};",
          "fn mix(x: u64) -> u64 { let y = x.wrapping_mul(0x9E37_79B9_7F4A_7C15); (y ^ (y >> 29)).wrapping_mul(31) }",
          "fn newid(old: u64, id: u64, row: u64) -> u64 { (old % EPOCH_BASE).wrapping_mul(3).wrapping_add(id).wrapping_add(row) % (EPOCH_BASE / 2) + 1 }"]

NSHARDS = 14


def write_if_changed(path, text):
    import os
    try:
        if open(path).read() == text:
            return
    except FileNotFoundError:
        pass
    os.makedirs(os.path.dirname(path), exist_ok=True)
    open(path, "w").write(text)


def main():
    import os
    out = sys.argv[1]
    harness = os.path.dirname(os.path.dirname(os.path.abspath(__file__)))
    fam = family()
    # longest-processing-time assignment: cost grows quickly with the number of tasks
    order = sorted(range(len(fam)), key=lambda i: -len(fam[i]) ** 3)
    loads = [0] * NSHARDS
    shards = [[] for _ in range(NSHARDS)]
    for i in order:
        k = loads.index(min(loads))
        shards[k].append(i)
        loads[k] += len(fam[i]) ** 3
    for k, idxs in enumerate(shards):
        w = list(HEADER)
        for si in sorted(idxs):
            emit_schedule(w, si, fam[si])
        w.append("pub const SCHEDULES: &[(&str, SchedFn)] = &[")
        for si in sorted(idxs):
            desc = "|".join(task_desc(t) for t in fam[si])
            w.append(f'    ("{desc}", run_s{si}),')
        w.append("];")
        d = os.path.join(harness, "shards", f"s{k}")
        write_if_changed(os.path.join(d, "src", "lib.rs"), "\n".join(w) + "\n")
        write_if_changed(os.path.join(d, "Cargo.toml"), f"""[package]
name = "shard{k}"
version = "0.1.0"
edition = "2021"
publish = false

[dependencies]
brood = {{ path = "/repo", features = ["serde", "rayon"] }}
hcore = {{ path = "../../hcore" }}
rayon = "1.6.0"
""")
    agg = ["// @generated by gen/gen_sched.py — do not edit",
           "use crate::sched_types::SchedFn;",
           "pub fn schedules() -> Vec<(&'static str, SchedFn)> {",
           "    let mut v: Vec<(&'static str, SchedFn)> = Vec::new();"]
    for k in range(NSHARDS):
        agg.append(f"    v.extend(shard{k}::SCHEDULES.iter().cloned());")
    agg += ["    v", "}"]
    open(out, "w").write("\n".join(agg) + "\n")
    print("schedules:", len(fam), "in", NSHARDS, "shards ->", out)


if __name__ == "__main__":
    main()
