/-
  Step-level interleavings (C07 / C08): the tasks of a phase are not atomic.  Each task is a
  *program* — a list of steps — and a run of a phase is any interleaving of the programs of its
  tasks (every task's own steps in program order, steps of different tasks in any order).  If
  steps of tasks that may run together commute (which the footprint semantics gives: a step of a
  task touches only cells the task claims), every interleaving ends in the same state as running
  the tasks one after the other.
-/
import BroodModel.Lemmas.SchedSem

set_option linter.unusedSimpArgs false
set_option linter.unusedVariables false

namespace Brood
open Static Generated

section generic
variable {α σ ι : Type} [DecidableEq ι] (ap : α → σ → σ) (own : α → ι)

/-- Moving an element to the front over elements it commutes with. -/
theorem runSeq_move_front (x : α) (pre post : List α)
    (hc : ∀ b ∈ pre, ∀ s, ap x (ap b s) = ap b (ap x s)) (s : σ) :
    runSeq ap (pre ++ x :: post) s = runSeq ap (x :: (pre ++ post)) s := by
  induction pre generalizing s with
  | nil => rfl
  | cons b pre ih =>
    simp only [List.cons_append, runSeq_cons]
    rw [ih (fun b' hb' => hc b' (by simp [hb'])) (ap b s)]
    simp only [runSeq_cons]
    rw [hc b (by simp) s]

/-- A list whose first element owned by `o` is `x`: it splits around `x` with no `o`-owned
element before. -/
theorem split_first_owned (o : ι) (x : α) (t : List α) :
    ∀ l : List α, l.filter (fun a => own a = o) = x :: t →
      ∃ pre post, l = pre ++ x :: post ∧ (∀ b ∈ pre, own b ≠ o) ∧ post.filter (fun a => own a = o) = t := by
  intro l
  induction l with
  | nil => intro h; simp at h
  | cons a l ih =>
    intro h
    by_cases ha : own a = o
    · simp only [List.filter_cons, ha, decide_true, if_true] at h
      injection h with h1 h2
      exact ⟨[], l, by simp [h1], by simp, h2⟩
    · simp only [List.filter_cons, ha, decide_false, Bool.false_eq_true, if_false] at h
      obtain ⟨pre, post, hl, hpre, hpost⟩ := ih h
      refine ⟨a :: pre, post, by simp [hl], ?_, hpost⟩
      intro b hb
      rcases List.mem_cons.mp hb with rfl | hb
      · exact ha
      · exact hpre b hb

/-- **Interleavings.**  Two step lists that agree, owner by owner, on the sequence of steps of that
owner end in the same state, provided steps of different owners commute. -/
theorem runSeq_interleave :
    ∀ (l' l : List α),
      (∀ o, l'.filter (fun a => own a = o) = l.filter (fun a => own a = o)) →
      (∀ a ∈ l, ∀ b ∈ l, own a ≠ own b → ∀ s, ap a (ap b s) = ap b (ap a s)) →
      ∀ s, runSeq ap l' s = runSeq ap l s := by
  intro l'
  induction l' with
  | nil =>
    intro l hf _ s
    cases l with
    | nil => rfl
    | cons a l =>
      have := hf (own a)
      simp at this
  | cons x t ih =>
    intro l hf hc s
    have hx := hf (own x)
    simp only [List.filter_cons, decide_true, if_true] at hx
    obtain ⟨pre, post, hl, hpre, hpost⟩ := split_first_owned own (own x) x (t.filter (fun a => own a = own x)) l hx.symm
    subst hl
    have hxmem : x ∈ pre ++ x :: post := by simp
    rw [runSeq_move_front ap x pre post
      (fun b hb s' => hc x hxmem b (by simp [hb]) (fun h => hpre b hb h.symm) s')]
    simp only [runSeq_cons]
    apply ih (pre ++ post)
    · intro o
      have ho := hf o
      by_cases hxo : own x = o
      · subst hxo
        have hprenil : pre.filter (fun a => own a = own x) = [] := by
          rw [List.filter_eq_nil_iff]
          intro b hb
          simpa using hpre b hb
        simp only [List.filter_append, hprenil, List.nil_append]
        exact hpost.symm
      · simp only [List.filter_cons, hxo, decide_false, Bool.false_eq_true, if_false,
          List.filter_append] at ho ⊢
        exact ho
    · intro a ha b hb hne s'
      exact hc a (by
        rcases List.mem_append.mp ha with h | h
        · simp [h]
        · simp [h]) b (by
        rcases List.mem_append.mp hb with h | h
        · simp [h]
        · simp [h]) hne s'

end generic

/-! ### phases whose tasks are programs -/

section programs
variable {Γ σ : Type}

/-- A step `(i, γ)` of a trace of phase `p`: step `γ` executed on behalf of the `i`-th task. -/
def apI (apG : Task → Γ → σ → σ) (p : List Task) (x : Nat × Γ) (s : σ) : σ :=
  match p[x.1]? with
  | some t => apG t x.2 s
  | none => s

/-- A task run to completion: its steps in program order. -/
def apProg (apG : Task → Γ → σ → σ) (prog : Task → List Γ) (t : Task) (s : σ) : σ :=
  runSeq (apG t) (prog t) s

/-- The trace that runs the tasks `ts` one after the other (`base`: position of the first). -/
def seqTrace (prog : Task → List Γ) : List Task → Nat → List (Nat × Γ)
  | [], _ => []
  | t :: ts, base => (prog t).map (fun γ => (base, γ)) ++ seqTrace prog ts (base + 1)

/-- `tr` is an interleaving of the programs of the tasks of phase `p`: for every position `i`, the
steps of `tr` owned by `i` are, in order, the program of the `i`-th task (none when there is no
such task). -/
def IsInterleaving (prog : Task → List Γ) (p : List Task) (tr : List (Nat × Γ)) : Prop :=
  ∀ i, (tr.filter (fun x => x.1 = i)).map (·.2) = ((p[i]?).map prog).getD []

theorem runSeq_map_base (apG : Task → Γ → σ → σ) (p : List Task) (i : Nat) (t : Task) (hi : p[i]? = some t)
    (l : List Γ) (s : σ) : runSeq (apI apG p) (l.map (fun γ => (i, γ))) s = runSeq (apG t) l s := by
  induction l generalizing s with
  | nil => rfl
  | cons γ l ih =>
    simp only [List.map_cons, runSeq_cons]
    rw [show apI apG p (i, γ) s = apG t γ s by simp [apI, hi]]
    exact ih _

theorem seqTrace_run (apG : Task → Γ → σ → σ) (prog : Task → List Γ) :
    ∀ (ts pre : List Task) (s : σ),
      runSeq (apI apG (pre ++ ts)) (seqTrace prog ts pre.length) s = runSeq (apProg apG prog) ts s := by
  intro ts
  induction ts with
  | nil => intro pre s; rfl
  | cons t ts ih =>
    intro pre s
    simp only [seqTrace, runSeq_append, runSeq_cons]
    have hi : (pre ++ t :: ts)[pre.length]? = some t := by simp
    rw [runSeq_map_base apG (pre ++ t :: ts) pre.length t hi]
    have := ih (pre ++ [t]) (runSeq (apG t) (prog t) s)
    simp only [List.append_assoc, List.singleton_append, List.length_append, List.length_cons,
      List.length_nil, Nat.zero_add] at this
    rw [this]
    rfl

theorem seqTrace_filter (prog : Task → List Γ) :
    ∀ (ts : List Task) (base i : Nat),
      (seqTrace prog ts base).filter (fun x => x.1 = i) =
        if base ≤ i then (((ts[i - base]?).map prog).getD []).map (fun γ => (i, γ)) else [] := by
  intro ts
  induction ts with
  | nil => intro base i; simp [seqTrace]
  | cons t ts ih =>
    intro base i
    simp only [seqTrace, List.filter_append, ih]
    by_cases hb : base = i
    · subst hb
      have h1 : ((prog t).map (fun γ => (base, γ))).filter (fun x => x.1 = base) = (prog t).map (fun γ => (base, γ)) := by
        rw [List.filter_eq_self]
        intro x hx
        obtain ⟨γ, _, rfl⟩ := List.mem_map.mp hx
        simp
      rw [h1]
      have h2 : ¬ base + 1 ≤ base := by omega
      simp [h2]
    · have h1 : ((prog t).map (fun γ => (base, γ))).filter (fun x => x.1 = i) = [] := by
        rw [List.filter_eq_nil_iff]
        intro x hx
        obtain ⟨γ, _, rfl⟩ := List.mem_map.mp hx
        simpa using hb
      rw [h1, List.nil_append]
      by_cases hle : base ≤ i
      · have h2 : base + 1 ≤ i := by omega
        have h3 : i - base = (i - (base + 1)) + 1 := by omega
        simp only [h2, hle, if_true]
        rw [h3, List.getElem?_cons_succ]
      · have h2 : ¬ base + 1 ≤ i := by omega
        simp [h2, hle]

/-- A list of pairs all owned by `i` is determined by its second components. -/
theorem owned_eq_map (i : Nat) : ∀ (l : List (Nat × Γ)), (∀ x ∈ l, x.1 = i) → l = (l.map (·.2)).map (fun γ => (i, γ)) := by
  intro l
  induction l with
  | nil => intro _; rfl
  | cons x l ih =>
    intro h
    have hx := h x (by simp)
    simp only [List.map_cons]
    rw [← ih (fun y hy => h y (by simp [hy]))]
    cases x
    simp at hx
    subst hx
    rfl

/-- **Every interleaving of a pairwise compatible phase equals the tasks run one by one.** -/
theorem interleaving_seq (apG : Task → Γ → σ → σ) (prog : Task → List Γ) (R : Task → Task → Prop)
    (hcomm : ∀ u t, R u t → ∀ a b s, apG u a (apG t b s) = apG t b (apG u a s))
    (p : List Task) (hpw : p.Pairwise R) (hsym : ∀ {a b}, R a b → R b a)
    (tr : List (Nat × Γ)) (hi : IsInterleaving prog p tr) (s : σ) :
    runSeq (apI apG p) tr s = runSeq (apProg apG prog) p s := by
  rw [← seqTrace_run apG prog p [] s]
  simp only [List.nil_append, List.length_nil]
  apply runSeq_interleave (apI apG p) (fun x : Nat × Γ => x.1)
  · intro o
    rw [seqTrace_filter]
    simp only [Nat.zero_le, if_true, Nat.sub_zero]
    rw [owned_eq_map o (tr.filter (fun x => x.1 = o)) (by
      intro x hx
      simpa using (List.mem_filter.mp hx).2)]
    rw [hi o]
  · intro a ha b hb hne s'
    -- both steps belong to tasks of the phase
    have hmem : ∀ x ∈ seqTrace prog p 0, ∃ t, p[x.1]? = some t := by
      intro x hx
      have hx' : x ∈ (seqTrace prog p 0).filter (fun y => y.1 = x.1) := by
        simp [List.mem_filter, hx]
      rw [seqTrace_filter] at hx'
      simp only [Nat.zero_le, if_true, Nat.sub_zero] at hx'
      cases hp : p[x.1]? with
      | none => simp [hp] at hx'
      | some t => exact ⟨t, rfl⟩
    obtain ⟨u, hu⟩ := hmem a ha
    obtain ⟨t, ht⟩ := hmem b hb
    have hR : R u t := by
      have hau : a.1 < p.length := by
        rcases Nat.lt_or_ge a.1 p.length with h | h
        · exact h
        · rw [List.getElem?_eq_none h] at hu; cases hu
      have hbt : b.1 < p.length := by
        rcases Nat.lt_or_ge b.1 p.length with h | h
        · exact h
        · rw [List.getElem?_eq_none h] at ht; cases ht
      have hu' : p[a.1] = u := by
        rw [List.getElem?_eq_getElem hau] at hu; exact Option.some.inj hu
      have ht' : p[b.1] = t := by
        rw [List.getElem?_eq_getElem hbt] at ht; exact Option.some.inj ht
      rcases Nat.lt_or_ge a.1 b.1 with h | h
      · have := List.pairwise_iff_getElem.mp hpw a.1 b.1 hau hbt h
        rw [hu', ht'] at this; exact this
      · have hlt : b.1 < a.1 := by omega
        have := List.pairwise_iff_getElem.mp hpw b.1 a.1 hbt hau hlt
        rw [hu', ht'] at this; exact hsym this
    simp only [apI, hu, ht]
    exact hcomm u t hR a.2 b.2 s'

end programs


/-! ### whole schedules: one trace per phase -/

section schedules
variable {Γ σ : Type}

/-- One trace per phase, each an interleaving of the programs of that phase's tasks. -/
inductive TracesOf (prog : Task → List Γ) : List (List (Nat × Γ)) → List (List Task) → Prop
  | nil : TracesOf prog [] []
  | cons {tr : List (Nat × Γ)} {p : List Task} {trs : List (List (Nat × Γ))} {ps : List (List Task)} :
      IsInterleaving prog p tr → TracesOf prog trs ps → TracesOf prog (tr :: trs) (p :: ps)

/-- Run the traces phase after phase. -/
def runTraces (apG : Task → Γ → σ → σ) : List (List (Nat × Γ)) → List (List Task) → σ → σ
  | tr :: trs, p :: ps, s => runTraces apG trs ps (runSeq (apI apG p) tr s)
  | _, _, s => s

theorem traces_seq (apG : Task → Γ → σ → σ) (prog : Task → List Γ) (R : Task → Task → Prop)
    (hcomm : ∀ u t, R u t → ∀ a b s, apG u a (apG t b s) = apG t b (apG u a s))
    (hsym : ∀ {a b}, R a b → R b a) :
    ∀ (trs : List (List (Nat × Γ))) (ps : List (List Task)), TracesOf prog trs ps →
      (∀ p ∈ ps, p.Pairwise R) → ∀ s, runTraces apG trs ps s = runSeq (apProg apG prog) ps.flatten s := by
  intro trs ps h
  induction h with
  | nil => intro _ s; rfl
  | @cons tr p trs ps hi _ ih =>
    intro hpw s
    simp only [runTraces, List.flatten_cons, runSeq_append]
    rw [interleaving_seq apG prog R hcomm p (hpw p (by simp)) hsym tr hi s]
    exact ih (fun q hq => hpw q (by simp [hq])) _

/-- A step that commutes with every step of a program commutes with the program. -/
theorem step_comm_list {β : Type} (fa : σ → σ) (g : β → σ → σ) (m : List β)
    (h : ∀ b ∈ m, ∀ s, fa (g b s) = g b (fa s)) (s : σ) :
    fa (runSeq g m s) = runSeq g m (fa s) := by
  induction m generalizing s with
  | nil => rfl
  | cons b m ihm =>
    simp only [runSeq_cons]
    rw [ihm (fun b' hb' => h b' (by simp [hb'])), h b (by simp)]

/-- Programs whose steps commute pairwise commute as wholes. -/
theorem runSeq_comm_lists {α β : Type} (f : α → σ → σ) (g : β → σ → σ) (l : List α) (m : List β)
    (h : ∀ a ∈ l, ∀ b ∈ m, ∀ s, f a (g b s) = g b (f a s)) (s : σ) :
    runSeq f l (runSeq g m s) = runSeq g m (runSeq f l s) := by
  induction l generalizing s with
  | nil => rfl
  | cons a l ih =>
    simp only [runSeq_cons]
    rw [step_comm_list (f a) g m (fun b hb => h a (by simp) b hb)]
    exact ih (fun a' ha' b hb => h a' (by simp [ha']) b hb) _

theorem phasePerm_refl : ∀ l : List (List Task), PhasePerm l l
  | [] => .nil
  | p :: ps => .cons (List.Perm.refl p) (phasePerm_refl ps)

/-- Every phase the stage runner produces is pairwise conflict free. -/
theorem phaseTasks_pairwise {n nres : Nat} {masks : List Mask} (hm : masks.Nodup) :
    ∀ (sts : List (List Task)) (hasRun : List Bool),
      (∀ st ∈ sts, Compatible st ∧ ∀ t ∈ st, t.WF) →
      ∀ p ∈ phaseTasks n nres masks sts hasRun, p.Pairwise (fun a b => TaskOk n nres masks b a) := by
  intro sts
  induction sts with
  | nil => intro hasRun _ p hp; simp [phaseTasks] at hp
  | cons st rest ih =>
    intro hasRun hst p hp
    simp only [phaseTasks, List.mem_cons] at hp
    obtain ⟨hc, hwf⟩ := hst st (by simp)
    rcases hp with rfl | hp
    · exact runStage_phase_safe (n := n) (nres := nres) hm st (rest.headD []) hasRun hc hwf
    · exact ih _ (fun x hx => hst x (by simp [hx])) p hp

/-- **Step-level sequential equivalence.**  Tasks are programs (lists of steps); a run of the
schedule is, phase after phase, ANY interleaving of the programs of the phase's tasks.  If steps of
tasks that may run together commute, the run ends in the same state as running every task to
completion, one after the other, in declared order. -/
theorem schedule_interleaving_equiv (apG : Task → Γ → σ → σ) (prog : Task → List Γ)
    {n nres : Nat} {masks : List Mask} (hm : masks.Nodup)
    (hcomm : ∀ u t, TaskOk n nres masks u t → ∀ a b s, apG u a (apG t b s) = apG t b (apG u a s))
    (sts : List (List Task)) (hasRun : List Bool)
    (hst : ∀ st ∈ sts, Compatible st ∧ ∀ t ∈ st, t.WF) (hl : hasRun.length = (sts.headD []).length)
    (trs : List (List (Nat × Γ))) (htr : TracesOf prog trs (phaseTasks n nres masks sts hasRun)) (s : σ) :
    runTraces apG trs (phaseTasks n nres masks sts hasRun)
        (runSeq (apProg apG prog) (accepted (sts.headD []) hasRun) s) =
      runSeq (apProg apG prog) sts.flatten s := by
  rw [traces_seq apG prog (fun a b => TaskOk n nres masks b a)
    (fun u t h a b s' => hcomm u t (taskOk_symm h) a b s') (fun h => taskOk_symm h) trs _ htr
    (phaseTasks_pairwise hm sts hasRun hst)]
  have := phases_seq_equiv (apProg apG prog) hm
    (fun u t h s' => runSeq_comm_lists (apG u) (apG t) (prog u) (prog t)
      (fun a _ b _ s'' => hcomm u t h a b s'') s')
    sts hasRun _ hst hl (phasePerm_refl _) s
  rw [runSeq_append] at this
  exact this

end schedules

end Brood
