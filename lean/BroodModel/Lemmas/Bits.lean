/-
  Byte packing of archetype identifiers: `unpack ∘ pack = id`, and the padding bits of a packed
  mask are zero (the check of `archetype/identifier/impl_serde.rs` accepts what `pack` produces).
-/
import BroodModel.Basic

set_option linter.unusedSimpArgs false
set_option linter.unusedVariables false

namespace Brood

theorem bitsToNat_lt (l : List Bool) : bitsToNat l < 2 ^ l.length := by
  induction l with
  | nil => simp [bitsToNat]
  | cons b bs ih =>
    simp only [bitsToNat, List.length_cons, Nat.pow_succ]
    cases b <;> simp <;> omega

theorem bitsToNat_bit (l : List Bool) (i : Nat) :
    bitsToNat l / 2 ^ i % 2 = if l.getD i false then 1 else 0 := by
  induction l generalizing i with
  | nil => simp [bitsToNat, List.getD]
  | cons b bs ih =>
    cases i with
    | zero =>
      simp only [bitsToNat, Nat.pow_zero, Nat.div_one, List.getD, List.getElem?_cons_zero, Option.getD_some]
      cases b <;> simp <;> omega
    | succ i =>
      have h := ih i
      have hg : (b :: bs).getD (i + 1) false = bs.getD i false := by simp [List.getD]
      rw [hg, ← h]
      simp only [bitsToNat, Nat.pow_succ]
      rw [Nat.mul_comm (2 ^ i) 2, ← Nat.div_div_eq_div_mul]
      congr 2
      cases b <;> simp <;> omega

theorem pack_length (m : Mask) : (Mask.pack m).length = (m.length + 7) / 8 := by
  simp [Mask.pack]

theorem pack_getElem? (m : Mask) (k : Nat) (hk : k < (m.length + 7) / 8) :
    (Mask.pack m)[k]? = some (bitsToNat ((m.drop (8 * k)).take 8)) := by
  unfold Mask.pack
  rw [List.getElem?_map, List.getElem?_range hk]; rfl

theorem bitAt_pack (m : Mask) (c : Nat) (hc : c < m.length) : bitAt (Mask.pack m) c = m.getD c false := by
  unfold bitAt
  have hk : c / 8 < (m.length + 7) / 8 := by omega
  have hget : (Mask.pack m).getD (c / 8) 0 = bitsToNat ((m.drop (8 * (c / 8))).take 8) := by
    simp [List.getD, pack_getElem? m (c / 8) hk]
  rw [hget, bitsToNat_bit]
  have hlt : c % 8 < 8 := Nat.mod_lt _ (by omega)
  have : ((m.drop (8 * (c / 8))).take 8).getD (c % 8) false = m.getD c false := by
    simp only [List.getD, List.getElem?_take, hlt, if_true, List.getElem?_drop]
    congr 2
    omega
  rw [this]
  cases m.getD c false <;> simp

/-- `unpack ∘ pack = id` on masks of the registry's length. -/
theorem unpack_pack (m : Mask) : Mask.unpack m.length (Mask.pack m) = m := by
  unfold Mask.unpack
  apply List.ext_getElem?
  intro c
  rw [List.getElem?_map]
  by_cases hc : c < m.length
  · rw [List.getElem?_range hc, List.getElem?_eq_getElem hc]
    simp only [Option.map_some, Option.some.injEq]
    rw [bitAt_pack m c hc]
    simp [List.getD, List.getElem?_eq_getElem hc]
  · simp [List.getElem?_eq_none, hc]

/-- A value of fewer than `k` bits has no bit in the padding mask `(255 << k) % 256`. -/
theorem and_padding_zero : ∀ k : Fin 8, ∀ x : Fin 128, x.val < 2 ^ k.val →
    x.val &&& ((255 <<< k.val) % 256) = 0 := by decide +kernel

/-- The padding bits of the last byte of a packed mask are zero. -/
theorem pack_padding (m : Mask) (hn : m.length % 8 ≠ 0) :
    ((Mask.pack m).getD ((m.length + 7) / 8 - 1) 0) &&& ((255 <<< (m.length % 8)) % 256) = 0 := by
  have hk : (m.length + 7) / 8 - 1 < (m.length + 7) / 8 := by omega
  have hget : (Mask.pack m).getD ((m.length + 7) / 8 - 1) 0 =
      bitsToNat ((m.drop (8 * ((m.length + 7) / 8 - 1))).take 8) := by
    simp [List.getD, pack_getElem? m _ hk]
  rw [hget]
  have hlen : ((m.drop (8 * ((m.length + 7) / 8 - 1))).take 8).length = m.length % 8 := by
    simp only [List.length_take, List.length_drop]
    omega
  have hlt := bitsToNat_lt ((m.drop (8 * ((m.length + 7) / 8 - 1))).take 8)
  rw [hlen] at hlt
  have hk8 : m.length % 8 < 8 := Nat.mod_lt _ (by omega)
  have hx : bitsToNat ((m.drop (8 * ((m.length + 7) / 8 - 1))).take 8) < 128 := by
    have : 2 ^ (m.length % 8) ≤ 2 ^ 7 := Nat.pow_le_pow_right (by omega) (by omega)
    omega
  exact and_padding_zero ⟨m.length % 8, hk8⟩ ⟨_, hx⟩ hlt

end Brood
