/-
  BroodModel.Programs — a small grammar of *programs* against brood's public API (C14), the
  verdict the type system must give (`accepts`, computed from the tables the translator extracts
  from the source: `unsafe impl Send/Sync` bounds, entry-query signatures, the `SubViewable` impl
  table) and what the property demands (`Sound`).
-/
import BroodModel.Generated.Tables

namespace Brood
open Static Generated

/-- Payload component type of a thread-crossing program. -/
inductive Payload
  | plain        -- Send + Sync
  | notSync      -- `Cell<u32>`: Send, !Sync
  | notSend      -- `Rc<u32>`: !Send, !Sync
  | syncNotSend  -- a struct owning a `MutexGuard<'static, u32>`: Sync, !Send
deriving DecidableEq, Repr, Inhabited

def Payload.send : Payload → Bool
  | .notSend => false
  | .syncNotSend => false
  | _ => true

def Payload.sync : Payload → Bool
  | .plain => true
  | .syncNotSend => true
  | _ => false

/-- Thread-crossing API uses. -/
inductive Cross
  | worldSend        -- move a World into another thread
  | worldSync        -- share &World with another thread
  | iterSend         -- move a query's result::Iter over `&P` into another thread
  | entriesSend      -- move a query's Entries (entry views `&P`) into another thread
  | entriesSync      -- share &Entries (entry views `&P`) with another thread
  | iterSendMut      -- move a query's result::Iter over `&mut P` into another thread
  | entriesSendMut   -- move a query's Entries (entry views `&mut P`) into another thread
  | parRef           -- par_query over `&P`
  | parMut           -- par_query over `&mut P`
  | schedViews       -- schedule task whose views are `&P`
  | schedRes         -- schedule task whose resource views are `&P`
  | schedEntry       -- schedule System task whose entry views are `&P`
  | schedParEntry    -- schedule ParSystem task whose entry views are `&P`
deriving DecidableEq, Repr, Inhabited

inductive Prog
  | views2 (k1 k2 : VK) (same : Bool)          -- two views in one query
  | entryViews (k1 k2 : VK) (same : Bool)      -- a view and an entry view
  | views2Id (k1 k2 : VK) (same : Bool)        -- the same behind an `entity::Identifier` view
  | entryViewsId (inEntry : Bool) (k1 k2 : VK) (same : Bool)
      -- a view and an entry view, an `entity::Identifier` first in the views / in the entry views
  | subView (sub sup : VK)                     -- Entries: sub-view of a declared entry view
  | worldEntry2 (k1 k2 : VK)                   -- World::entry(..).query twice, both results held
  | entriesEntry2 (k1 k2 : VK)                 -- Entries::entry(..).query twice, both results held
  | resViews (m1 m2 : Bool) (same : Bool)      -- two resource views
  | outside (how : Nat)                        -- a component outside the registry
  | dupEntity                                  -- entity!(A, A)
  | cross (c : Cross) (p : Payload)
deriving DecidableEq, Repr, Inhabited

def implHas (ty tr param bound : String) : Bool :=
  sendSyncImpls.any (fun i => i.ty == ty && i.tr == tr && i.has param bound)

def implExists (ty tr : String) : Bool := sendSyncImpls.any (fun i => i.ty == ty && i.tr == tr)

/-- The verdict of an `unsafe impl <tr> for <ty>` whose views parameter carries the payload behind
`&P` (`mutView = false`) or `&mut P`: `&P: Send ⇔ P: Sync`, `&mut P: Send ⇔ P: Send`, and both are
`Sync` iff `P: Sync`.  An impl without a bound on its views accepts everything. -/
def viewsBound (ty tr : String) (mutView : Bool) (p : Payload) : Bool :=
  if implHas ty tr "Views" "Send" then (if mutView then p.send else p.sync)
  else if implHas ty tr "Views" "Sync" then p.sync
  else implExists ty tr

def sigTied (file : String) : Bool := (entryQuerySigs.lookup file).getD false

/-- The verdict of the type system, as determined by the impls and signatures in the source. -/
def accepts : Prog → Bool
  | .views2 _ _ same => !same                     -- a registry component is consumed by one view
  | .entryViews k1 k2 same => !same || (!k1.isMut && !k2.isMut)   -- `view::Disjoint`
  | .views2Id _ _ same => !same
  | .entryViewsId _ k1 k2 same => !same || (!k1.isMut && !k2.isMut)
  | .subView sub sup => subViewableTable.contains (sub, sup)
  | .worldEntry2 _ _ => !sigTied "world/entry.rs"   -- tied to the `&mut self` borrow ⇒ second call rejected
  | .entriesEntry2 _ _ => !sigTied "query/entries.rs"
  | .resViews _ _ same => !same
  | .outside _ => false
  | .dupEntity => false
  | .cross c p =>
    match c with
    | .worldSend => if implHas "World" "Send" "Registry" "Send" then p.send else implExists "World" "Send"
    | .worldSync => if implHas "World" "Sync" "Registry" "Sync" then p.sync else implExists "World" "Sync"
    | .iterSend => viewsBound "Iter" "Send" false p
    | .entriesSend => viewsBound "Entries" "Send" false p
    | .entriesSync => viewsBound "Entries" "Sync" false p
    | .iterSendMut => viewsBound "Iter" "Send" true p
    | .entriesSendMut => viewsBound "Entries" "Send" true p
    | .parRef => p.sync                -- `ParView for &C where C: Sync`
    | .parMut => p.send                -- `ParView for &mut C where C: Send`
    | .schedViews => p.sync            -- `Task: Views: Send`
    | .schedRes => p.sync
    | .schedEntry => p.sync
    | .schedParEntry => p.sync

/-- What the property demands of an accepted program. -/
def Sound : Prog → Bool
  | .views2 k1 k2 same => !(same && (k1.isMut || k2.isMut))
  | .entryViews k1 k2 same => !(same && (k1.isMut || k2.isMut))
  | .views2Id k1 k2 same => !(same && (k1.isMut || k2.isMut))
  | .entryViewsId _ k1 k2 same => !(same && (k1.isMut || k2.isMut))
  | .subView sub sup => !sub.isMut || sup.isMut        -- no `&mut` out of a shared view
  | .worldEntry2 k1 k2 => !(k1.isMut || k2.isMut)
  | .entriesEntry2 k1 k2 => !(k1.isMut || k2.isMut)
  | .resViews m1 m2 same => !(same && (m1 || m2))
  | .outside _ => false
  | .dupEntity => false
  | .cross c p =>
    match c with
    | .worldSend => p.send
    | .parMut => p.send
    | .iterSendMut => p.send                            -- a `&mut P` reaches another thread
    | .entriesSendMut => p.send
    | _ => p.sync                                       -- a `&P` reaches another thread

def allVK : List VK := [.ref, .mut, .oref, .omut]
def allPayload : List Payload := [.plain, .notSync, .notSend, .syncNotSend]
def allCross : List Cross :=
  [.worldSend, .worldSync, .iterSend, .entriesSend, .entriesSync, .iterSendMut, .entriesSendMut,
   .parRef, .parMut, .schedViews, .schedRes, .schedEntry, .schedParEntry]

/-- The whole program family (every pair of view kinds in every position, every thread-crossing
API with every payload), each conflicting program next to its conflict-free twin. -/
def family : List Prog :=
  (allVK.flatMap fun a => allVK.flatMap fun b => [Prog.views2 a b true, .views2 a b false]) ++
  (allVK.flatMap fun a => allVK.flatMap fun b => [Prog.entryViews a b true, .entryViews a b false]) ++
  (allVK.flatMap fun a => allVK.flatMap fun b => [Prog.views2Id a b true, .views2Id a b false]) ++
  ([false, true].flatMap fun e => allVK.flatMap fun a => allVK.flatMap fun b =>
    [Prog.entryViewsId e a b true, .entryViewsId e a b false]) ++
  (allVK.flatMap fun a => allVK.map fun b => Prog.subView a b) ++
  (allVK.flatMap fun a => allVK.map fun b => Prog.worldEntry2 a b) ++
  (allVK.flatMap fun a => allVK.map fun b => Prog.entriesEntry2 a b) ++
  ([false, true].flatMap fun a => [false, true].flatMap fun b => [Prog.resViews a b true, .resViews a b false]) ++
  [.outside 0, .outside 1, .outside 2, .dupEntity] ++
  (allCross.flatMap fun c => allPayload.map fun p => Prog.cross c p)

def _root_.Brood.Static.VK.tok : VK → String
  | .ref => "r" | .mut => "m" | .oref => "or" | .omut => "om" | .ident => "id"

def Payload.tok : Payload → String
  | .plain => "plain" | .notSync => "notsync" | .notSend => "notsend" | .syncNotSend => "syncnotsend"

def Cross.tok : Cross → String
  | .worldSend => "world_send" | .worldSync => "world_sync" | .iterSend => "iter_send"
  | .entriesSend => "entries_send" | .entriesSync => "entries_sync"
  | .iterSendMut => "iter_send_mut" | .entriesSendMut => "entries_send_mut" | .parRef => "par_ref"
  | .parMut => "par_mut" | .schedViews => "sched_views" | .schedRes => "sched_res"
  | .schedEntry => "sched_entry" | .schedParEntry => "sched_par_entry"

def Prog.tok : Prog → String
  | .views2 a b s => s!"views2 {a.tok} {b.tok} {if s then "same" else "diff"}"
  | .entryViews a b s => s!"entryviews {a.tok} {b.tok} {if s then "same" else "diff"}"
  | .views2Id a b s => s!"views2id {a.tok} {b.tok} {if s then "same" else "diff"}"
  | .entryViewsId e a b s => s!"entryviewsid {if e then "e" else "v"} {a.tok} {b.tok} {if s then "same" else "diff"}"
  | .subView a b => s!"subview {a.tok} {b.tok}"
  | .worldEntry2 a b => s!"worldentry2 {a.tok} {b.tok}"
  | .entriesEntry2 a b => s!"entriesentry2 {a.tok} {b.tok}"
  | .resViews a b s => s!"resviews {if a then "m" else "r"} {if b then "m" else "r"} {if s then "same" else "diff"}"
  | .outside h => s!"outside {h}"
  | .dupEntity => "dupentity"
  | .cross c p => s!"cross {c.tok} {p.tok}"

def findProg (s : String) : Option Prog := family.find? (fun p => p.tok == s)

end Brood
