/-
  C07 — Running a schedule equals running its tasks one by one in declared order.

  Proved here (for every schedule, over the tables generated from the source): the stager places
  every task exactly once, in the order written, in groups that are pairwise compatible; a group
  boundary exists only where a conflict exists.  The run-time part — which next-stage tasks start
  early, that every task runs exactly once, and that the outcome equals the sequential run — is
  checked by the correspondence run on a generated family of schedule types under scripted
  fork/join orders and real pools (the sequential reference is the real systems run one by one).

  Run time (`Lemmas/SchedDyn`, `Lemmas/SchedSem`): `phaseTasks` is the stage runner of stage.rs
  as lists of tasks — per stage, the tasks not yet run plus the next-stage tasks the add-on check
  starts early.  `C07_sequential_equivalence`: for every schedule of well-formed tasks, every set
  of archetypes, and every task semantics that respects the tasks' claims (`apTask`: a cell changes
  only if claimed mutably, new values depend only on claimed cells), running the phases one after
  the other — the tasks of a phase in ANY order — ends in the same state as running the tasks one
  by one in declared order; every task runs exactly once (`C07_each_task_once`).
  Tasks are not atomic: `C07_interleaving_equivalence` takes every task as a *program* (a list of
  steps, each a claim-respecting state transformer) and a run as, phase after phase, ANY
  interleaving of the programs of the phase's tasks (`IsInterleaving`: each task's steps in program
  order, steps of different tasks in any order); the final state is that of the declared-order
  sequential run (`Lemmas/Interleave`).
  PARTIAL: steps are atomic and sequentially consistent (for data-race-free bodies that is the Rust
  memory model's guarantee, not proved here), and that the real systems respect their claims is
  C03/C14; the model's phases are compared with the real fork/join log by the correspondence check.
-/
import BroodModel.Lemmas.Interleave

namespace Brood
open Static Generated

/-- Every task of the schedule is staged exactly once, in the order written. -/
theorem C07_staged_once (ts : List Task) :
    (stages verifierTable mergerTable ts).flatten = ts := stages_flatten _ _ ts

/-- No stage is empty (so no fork/join nest is created for nothing). -/
theorem C07_no_empty_stage (ts : List Task) :
    ∀ g ∈ stages verifierTable mergerTable ts, g ≠ [] := stagesAux_nonempty _ _ ts []

/-- Tasks sharing a stage have compatible claims: none writes what another accesses. -/
theorem C07_stage_mates_compatible (ts : List Task) :
    ∀ g ∈ stages verifierTable mergerTable ts, Compatible g :=
  stagesAux_compatible ts [] (by intro i hi; simp at hi)

/-- The number of staged tasks is the number of tasks. -/
theorem C07_count (ts : List Task) :
    ((stages verifierTable mergerTable ts).map List.length).sum = ts.length := by
  have := congrArg List.length (C07_staged_once ts)
  simpa [List.length_flatten] using this

example : (stages verifierTable mergerTable
    [⟨[.ref 0], .none, [], []⟩, ⟨[.ref 2], .none, [], []⟩, ⟨[.mut 2], .none, [], []⟩]).map List.length = [2, 1] := by decide

/-- **Running a schedule equals running its tasks one by one in declared order.** -/
theorem C07_sequential_equivalence {n nres : Nat} {masks : List Mask} (hm : masks.Nodup)
    (g : Task → (SCell → Nat) → SCell → Nat) (ts : List Task) (hwf : ∀ t ∈ ts, t.WF)
    (perms : List (List Task))
    (hp : PhasePerm perms (phaseTasks n nres masks (stages verifierTable mergerTable ts)
      (((stages verifierTable mergerTable ts).headD []).map (fun _ => false))))
    (s : SCell → Nat) :
    runSeq (apTask n nres masks g) perms.flatten s = runSeq (apTask n nres masks g) ts s := by
  have hst : ∀ st ∈ stages verifierTable mergerTable ts, Compatible st ∧ ∀ t ∈ st, t.WF := by
    intro st hs
    refine ⟨C07_stage_mates_compatible ts st hs, ?_⟩
    intro t ht
    apply hwf
    have := stages_flatten verifierTable mergerTable ts
    have hm' : t ∈ (stages verifierTable mergerTable ts).flatten := List.mem_flatten.mpr ⟨st, hs, ht⟩
    rw [this] at hm'; exact hm'
  have := phases_seq_equiv (apTask n nres masks g) hm
    (fun u t h s => apTask_comm n nres masks g h s)
    (stages verifierTable mergerTable ts) _ perms hst (by simp) hp s
  rw [accepted_all_false, List.nil_append, stages_flatten] at this
  exact this

/-- A step of a task under the footprint semantics: any transformer `γ` restricted to the task's
claims (cells change only where claimed mutably; new values depend only on claimed cells). -/
def apStep (n nres : Nat) (masks : List Mask) (t : Task) (γ : (SCell → Nat) → SCell → Nat)
    (s : SCell → Nat) : SCell → Nat :=
  apTask n nres masks (fun _ => γ) t s

/-- **Running a schedule equals running its tasks one by one — at step granularity.**  Every task
is a program `prog t` of claim-respecting steps; `trs` gives, for each phase of the stage runner,
an arbitrary interleaving of the programs of that phase's tasks.  The final state is the one of
the declared-order sequential run of the whole tasks. -/
theorem C07_interleaving_equivalence {n nres : Nat} {masks : List Mask} (hm : masks.Nodup)
    (prog : Task → List ((SCell → Nat) → SCell → Nat)) (ts : List Task) (hwf : ∀ t ∈ ts, t.WF)
    (trs : List (List (Nat × ((SCell → Nat) → SCell → Nat))))
    (htr : TracesOf prog trs (phaseTasks n nres masks (stages verifierTable mergerTable ts)
      (((stages verifierTable mergerTable ts).headD []).map (fun _ => false))))
    (s : SCell → Nat) :
    runTraces (apStep n nres masks) trs (phaseTasks n nres masks (stages verifierTable mergerTable ts)
      (((stages verifierTable mergerTable ts).headD []).map (fun _ => false))) s =
      runSeq (apProg (apStep n nres masks) prog) ts s := by
  have hst : ∀ st ∈ stages verifierTable mergerTable ts, Compatible st ∧ ∀ t ∈ st, t.WF := by
    intro st hs
    refine ⟨C07_stage_mates_compatible ts st hs, ?_⟩
    intro t ht
    apply hwf
    have := stages_flatten verifierTable mergerTable ts
    have hm' : t ∈ (stages verifierTable mergerTable ts).flatten := List.mem_flatten.mpr ⟨st, hs, ht⟩
    rw [this] at hm'; exact hm'
  have := schedule_interleaving_equiv (apStep n nres masks) prog hm
    (fun u t h a b s' => apTask_comm2 n nres masks (fun _ => a) (fun _ => b) h s')
    (stages verifierTable mergerTable ts) _ hst (by simp) trs htr s
  rw [accepted_all_false] at this
  rw [stages_flatten] at this
  exact this

/-- The premise is satisfiable by genuinely interleaved traces: two tasks of two steps each, the
steps alternating and the second task finishing first. -/
example (t0 t1 : Task) : IsInterleaving (fun _ => [1, 2]) [t0, t1] [(0, 1), (1, 1), (1, 2), (0, 2)] := by
  intro i
  match i with
  | 0 => simp
  | 1 => simp
  | i + 2 => simp

/-- The phases the driver prints and the correspondence check compares with the real fork/join log
(`phases`, as `(stage, position)` pairs) name exactly the tasks of `phaseTasks`. -/
theorem C07_phases_name_these_tasks (n nres : Nat) (masks : List Mask) (sts : List (List Task)) :
    (phases claimTryMerge n nres masks sts).map (fun ph => ph.filterMap (idxTask sts 0)) =
      phaseTasks n nres masks sts ((sts.headD []).map (fun _ => false)) :=
  runStages_tasks n nres masks sts 0 _ (by simp)

/-- Every task runs exactly once: the phases, flattened, are a permutation of the tasks. -/
theorem C07_each_task_once {n nres : Nat} {masks : List Mask} :
    ∀ (sts : List (List Task)) (hasRun : List Bool), hasRun.length = (sts.headD []).length →
      (accepted (sts.headD []) hasRun ++ (phaseTasks n nres masks sts hasRun).flatten).Perm sts.flatten := by
  intro sts
  induction sts with
  | nil => intro hasRun _; simp [phaseTasks, accepted]
  | cons st rest ih =>
    intro hasRun hl
    simp only [List.headD_cons] at hl ⊢
    simp only [phaseTasks, List.flatten_cons]
    have h1 := accepted_running_perm st hasRun hl
    have h2 := ih (runStage claimTryMerge n nres masks st hasRun (rest.headD [])).2
      (runStage_flags_length n nres masks st hasRun (rest.headD []))
    rw [← List.append_assoc, ← List.append_assoc]
    rw [List.append_assoc (accepted st hasRun ++ runningOf st hasRun)]
    exact h1.append h2


end Brood

#print axioms Brood.C07_staged_once
#print axioms Brood.C07_no_empty_stage
#print axioms Brood.C07_stage_mates_compatible
#print axioms Brood.C07_count
#print axioms Brood.C07_sequential_equivalence
#print axioms Brood.C07_interleaving_equivalence
#print axioms Brood.C07_each_task_once
#print axioms Brood.C07_phases_name_these_tasks
