/-
  C06 — Serialize then deserialize reproduces the world exactly.

  `Serde.serialize` / `Serde.deserialize` are token-level models of brood's `Serialize` /
  `Deserialize` impls (row-wise when human readable, column-wise otherwise).  A round trip re-tags
  every value with the epoch of the operation (`retag`: same component type, same base identity,
  own ledger identity) and gives the tables fresh handles (buffer addresses).

  Proved for **every** world satisfying the invariant — hence every reachable world, every clone
  and every world that was itself deserialized (C13) — whose resources are typed by position
  (`ResOk`) and whose zero-sized values carry no identity (`ZOk`; both hold of every world the
  harness builds and are decidable): in both encodings, for every epoch and handle base, the
  round trip succeeds, yields a world satisfying the invariant, which compares equal to the
  original (both ways), holds the same live identifiers with equivalent values, the same `len`
  and equivalent resources, issues the same identifier on the next insertion, and keeps behaving
  like any valid world under further operations — including being serialized again.

  Not a theorem: iteration order of later queries (hash order in the code, creation order in the
  model) — "up to iteration order" in the property; the correspondence check compares sorted rows.
-/
import BroodModel.Lemmas.RoundTrip
import BroodModel.Props.C04
import BroodModel.Props.C15
import BroodModel.Lemmas.AllocAbs
import BroodModel.Lemmas.Lockstep

namespace Brood
open Serde

/-- The full statement of the round-trip property for one world. -/
def RoundTrips (k : Kinds) (hr : Bool) (e next : Nat) (w : World) : Prop :=
  ∃ w', deserialize k hr w.n w.res.length e next (serialize hr w) = .ok w' ∧ Inv w' ∧
    World.eqWorld w w' = .ok true ∧ World.eqWorld w' w = .ok true ∧ w'.len = w.len ∧
    rowEqv w.res w'.res = true ∧ ∀ id, entEqv (w.entity id) (w'.entity id) = true

/-- **Serialize then deserialize succeeds and reproduces the world**, both encodings. -/
theorem C06_roundtrip {w : World} (hi : Inv w) (hres : ResOk w) {k : Kinds} (hz : ZOk k w)
    (hr : Bool) (e next : Nat) : RoundTrips k hr e next w := by
  obtain ⟨w', h1, h2, h3⟩ := roundtrip_eq hi hres hz hr e next
  obtain ⟨s1, s2, s3⟩ := eqWorld_sound hi h2 h3
  exact ⟨w', h1, h2, h3, eqWorld_true_symm hi h2 h3, s1.symm, s2, s3⟩

/-- The same for every reachable world (any history, cloned or deserialized worlds included). -/
theorem C06_roundtrip_reachable (n : Nat) (res : List Val) (ops : List Op) {w : World}
    (h : run (World.init n res) ops = .ok w) (hres : ResOk w) {k : Kinds} (hz : ZOk k w)
    (hr : Bool) (e next : Nat) : RoundTrips k hr e next w :=
  C06_roundtrip (run_inv (inv_init n res) ops h) hres hz hr e next

/-- **Same identifiers issued afterwards**: worlds that compare equal allocate the same identifier
for the next entity (same free queue, same slot generations, same slot count). -/
theorem C06_same_next_identifier {a b : World} (ha : Inv a) (hb : Inv b)
    (heq : World.eqWorld a b = .ok true) (la lb : Loc) :
    (match a.alloc.allocate la, b.alloc.allocate lb with
     | .ok (_, i), .ok (_, j) => i = j
     | _, _ => False) := by
  obtain ⟨_, _, _, h4, h5, _⟩ := (eqWorld_true_iff ha hb).mp heq
  obtain ⟨hlen, hpt⟩ := slotsEqv_true _ _ h4
  unfold Alloc.allocate
  rw [← h5]
  cases hf : a.alloc.free with
  | nil => simp [hlen]
  | cons i rest =>
    have hif : i ∈ a.alloc.free := by rw [hf]; simp
    obtain ⟨s, hs, _⟩ := ha.ainv.inactive i hif
    have hlt : i < b.alloc.slots.length := by rw [← hlen]; exact (List.getElem?_eq_some_iff.mp hs).1
    have ht : b.alloc.slots[i]? = some b.alloc.slots[i] := List.getElem?_eq_getElem hlt
    generalize b.alloc.slots[i] = t at ht
    have hst := hpt i s t hs ht
    have hg : s.gen = t.gen := by
      unfold World.slotEqv at hst
      by_cases hg : s.gen ≠ t.gen
      · rw [if_pos hg] at hst; cases hst
      · simpa using hg
    simp [hs, ht, hg]

/-- **The result keeps behaving like a valid world**: every admissible history continued on it
runs to completion and keeps the invariant; in particular it can be serialized and deserialized
again ("a world that was itself deserialized … still serializes to something deserializable"). -/
theorem C06_result_behaves {w w' : World} {k : Kinds} {hr : Bool} {e next : Nat}
    (h : deserialize k hr w.n w.res.length e next (serialize hr w) = .ok w') (ops : List Op)
    (hwt : ∀ op ∈ ops, op.wt w'.n) : ∃ w'', run w' ops = .ok w'' ∧ Inv w'' := by
  obtain ⟨w'', r1, r2, _⟩ := run_total (deserialize_inv h) ops hwt
  exact ⟨w'', r1, r2⟩

/-- **`clear` keeps a world and its copy in step.**  The allocator `World::clear` leaves behind —
slots and free queue, hence every identifier issued afterwards — does not depend on the order in
which the table iterator visits the archetypes (an order that differs between a world and its
round-tripped or cloned copy, the table being keyed by the address of each archetype's
identifier): the slots freed by one `clear` are put in ascending order.  Before repair 0564c68 the
free queue kept the visiting order, and a world and its copy issued different identifiers after
`clear()`. -/
theorem C06_clear_order_independent {w : World} (hi : Inv w) (o1 o2 : List Mask)
    {w1 w2 : World} {d1 d2 : List Val} (e1 : w.clear o1 = .ok (w1, d1)) (e2 : w.clear o2 = .ok (w2, d2)) :
    w1.alloc = w2.alloc ∧ w1.archs = w2.archs ∧ w1.len = w2.len ∧ w1.res = w2.res :=
  clear_alloc_order_independent hi o1 o2 e1 e2

/-- Free queue of the world an operation returns. -/
def freeAfter : Out (World × List Val) → Option (List Nat)
  | .ok (a, _) => some a.alloc.free
  | .ub _ => none

/-- Two tables of one entity each. -/
def twoTables : World :=
  ⟨2, [⟨0, [true, false], [⟨0, 0⟩], [[⟨0, 1⟩]]⟩, ⟨1, [false, true], [⟨1, 0⟩], [[⟨1, 2⟩]]⟩],
    [], [([true, false], 0), ([false, true], 1)], ⟨[⟨0, some ⟨0, 0⟩⟩, ⟨0, some ⟨1, 0⟩⟩], []⟩, 2, [], 2⟩

/-- The column loop alone does depend on the order (`clearWith`: the loop over an explicit visiting
list): the two tables, visited in the two possible orders, leave different free queues — which is
what the real code did before the repair; `C06_clear_order_independent` is about `clear`. -/
example :
    freeAfter (twoTables.clearWith twoTables.archs) = some [0, 1] ∧
    freeAfter (twoTables.clearWith twoTables.archs.reverse) = some [1, 0] ∧ Inv twoTables := by
  decide

/-- **From then on it behaves identically: the same identifiers are issued, for ever.**  A world
and its round-tripped copy that receive the same operations (any history; `clear` visiting each
world's tables in whatever order they happen to be stored) are handed exactly the same
identifiers.  What decides the identifiers is only the allocator abstraction (`Alloc.abs`:
generation and in-use bit per slot, the free queue), which every operation transforms as a
function of itself (`step_abs`), and which a round trip preserves. -/
theorem C06_lockstep {w : World} (hi : Inv w) (hres : ResOk w) {k : Kinds} (hz : ZOk k w)
    (hr : Bool) (e next : Nat) (opsa opsb : List Op) (hops : opsa.map Op.forget = opsb.map Op.forget) :
    ∃ w', deserialize k hr w.n w.res.length e next (serialize hr w) = .ok w' ∧
      ∀ {a b : World} {ia ib : List Ident}, runIssued w opsa = .ok (a, ia) → runIssued w' opsb = .ok (b, ib) →
        ia = ib ∧ a.alloc.abs = b.alloc.abs := by
  obtain ⟨w', h1, h2, h3, _⟩ := C06_roundtrip hi hres hz hr e next
  refine ⟨w', h1, ?_⟩
  intro a b ia ib ra rb
  exact lockstep_run opsa opsb hops hi h2 (eqWorld_abs hi h2 h3) ra rb

/-- **"… and from then on behaves identically to the original under any further operations (same
identifiers issued, same query results up to iteration order)."**  A world and its round-tripped
copy that receive the same admissible operations — any history; `clear` in whatever order each
world's table is visited — are issued the same identifiers AND keep holding the same map from
identifiers to component values (values equal up to the component types' `PartialEq`); every query
result is a function of that map (`C03_query_exact`). -/
theorem C06_lockstep_full {w : World} (hi : Inv w) (hres : ResOk w) {k : Kinds} (hz : ZOk k w)
    (hr : Bool) (e next : Nat) (opsa opsb : List Op) (hops : opsa.map Op.forget = opsb.map Op.forget)
    (hwt : ∀ op ∈ opsa, op.wt w.n) :
    ∃ w', deserialize k hr w.n w.res.length e next (serialize hr w) = .ok w' ∧
      ∀ {a b : World} {ia ib : List Ident}, runIssued w opsa = .ok (a, ia) → runIssued w' opsb = .ok (b, ib) →
        ia = ib ∧ a.alloc.abs = b.alloc.abs ∧ ∀ id, entEqv (a.entity id) (b.entity id) = true := by
  obtain ⟨w', h1, h2, h3, _, _, _, h7⟩ := C06_roundtrip hi hres hz hr e next
  obtain ⟨al, _, hde⟩ := roundtrip_ok hi hres k hr e next
  have hn : w.n = w'.n := by
    rw [hde] at h1
    simp only [Except.ok.injEq] at h1
    rw [← h1]; rfl
  refine ⟨w', h1, ?_⟩
  intro a b ia ib ra rb
  obtain ⟨r1, t⟩ := twin_run opsa opsb hops hi h2 ⟨hn, eqWorld_abs hi h2 h3, h7⟩ hwt ra rb
  exact ⟨r1, t.abs, t.map⟩

/-- The same for any two worlds that compare equal (a world and its clone, for instance). -/
theorem C06_equal_worlds_lockstep {x y : World} (hx : Inv x) (hy : Inv y)
    (heq : World.eqWorld x y = .ok true) (opsa opsb : List Op) (hops : opsa.map Op.forget = opsb.map Op.forget)
    {a b : World} {ia ib : List Ident} (ra : runIssued x opsa = .ok (a, ia)) (rb : runIssued y opsb = .ok (b, ib)) :
    ia = ib ∧ a.alloc.abs = b.alloc.abs :=
  lockstep_run opsa opsb hops hx hy (eqWorld_abs hx hy heq) ra rb

/-- Non-vacuity: on `twoTables`, "clear, then insert two entities" issues the identifiers of the
two freed slots in ascending order, generation 1. -/
example : opAbs twoTables.alloc.abs (.clear []) = (⟨[(0, false), (0, false)], [0, 1]⟩, []) ∧
    (opAbs ⟨[(0, false), (0, false)], [0, 1]⟩ (.extend [0] [[⟨0, 5⟩], [⟨0, 6⟩]])).2 = [⟨0, 1⟩, ⟨1, 1⟩] := by
  decide

/-! ### the hypotheses hold along histories -/

/-- No single-world operation touches a resource (C15), so `ResOk` is kept. -/
theorem step_res {w w' : World} {op : Op} (e : step w op = .ok w') : w'.res = w.res := by
  cases op with
  | insert shape vals => obtain ⟨_, h⟩ := fstOut_ok e; exact C15_insert_frame h
  | extend shape rows => obtain ⟨_, h⟩ := fstOut_ok e; exact C15_extend_frame h
  | remove id => obtain ⟨_, h⟩ := fstOut_ok e; exact C15_remove_frame h
  | clear order => obtain ⟨_, h⟩ := fstOut_ok e; exact C15_clear_frame h
  | add id c v => obtain ⟨_, h⟩ := fstOut_ok e; exact C15_entry_add_frame h
  | del id c => obtain ⟨_, h⟩ := fstOut_ok e; exact C15_entry_remove_frame h
  | write id c v => obtain ⟨_, h⟩ := fstOut_ok e; exact C15_write_frame h
  | reserve shape => exact C15_reserve_frame e
  | shrink => simp [step] at e; subst e; rfl

/-- A history touches no resource. -/
theorem runIssued_res : ∀ (ops : List Op) {w w' : World} {ids : List Ident},
    runIssued w ops = .ok (w', ids) → w'.res = w.res := by
  intro ops
  induction ops with
  | nil => intro w w' ids h; simp [runIssued] at h; rw [← h.1]
  | cons op ops ih =>
    intro w w' ids h
    simp only [runIssued] at h
    cases hs : step w op with
    | ub x => simp [hs] at h
    | ok w1 =>
      simp only [hs] at h
      cases hr : runIssued w1 ops with
      | ub x => simp [hr] at h
      | ok p =>
        obtain ⟨w2, i2⟩ := p
        simp only [hr, Out.ok.injEq, Prod.mk.injEq] at h
        obtain ⟨rfl, _⟩ := h
        rw [ih hr, step_res hs]

theorem runIssued_inv : ∀ (ops : List Op) {w w' : World} {ids : List Ident}, Inv w →
    runIssued w ops = .ok (w', ids) → Inv w' := by
  intro ops
  induction ops with
  | nil => intro w w' ids hi h; simp [runIssued] at h; rw [← h.1]; exact hi
  | cons op ops ih =>
    intro w w' ids hi h
    simp only [runIssued] at h
    cases hs : step w op with
    | ub x => simp [hs] at h
    | ok w1 =>
      simp only [hs] at h
      cases hr : runIssued w1 ops with
      | ub x => simp [hr] at h
      | ok p =>
        obtain ⟨w2, i2⟩ := p
        simp only [hr, Out.ok.injEq, Prod.mk.injEq] at h
        obtain ⟨rfl, _⟩ := h
        exact ih (step_inv hi hs) hr

/-- The lock-step statement with `len()` and the resources included. -/
theorem C06_lockstep_len_res {w : World} (hi : Inv w) (hres : ResOk w) {k : Kinds} (hz : ZOk k w)
    (hr : Bool) (e next : Nat) (opsa opsb : List Op) (hops : opsa.map Op.forget = opsb.map Op.forget)
    (hwt : ∀ op ∈ opsa, op.wt w.n) :
    ∃ w', deserialize k hr w.n w.res.length e next (serialize hr w) = .ok w' ∧
      ∀ {a b : World} {ia ib : List Ident}, runIssued w opsa = .ok (a, ia) → runIssued w' opsb = .ok (b, ib) →
        ia = ib ∧ a.len = b.len ∧ rowEqv a.res b.res = true ∧
          ∀ id, entEqv (a.entity id) (b.entity id) = true := by
  obtain ⟨w', h1, h2, h3, _, _, h6, h7⟩ := C06_roundtrip hi hres hz hr e next
  obtain ⟨al, _, hde⟩ := roundtrip_ok hi hres k hr e next
  have hn : w.n = w'.n := by
    rw [hde] at h1
    simp only [Except.ok.injEq] at h1
    rw [← h1]; rfl
  refine ⟨w', h1, ?_⟩
  intro a b ia ib ra rb
  obtain ⟨r1, t⟩ := twin_run opsa opsb hops hi h2 ⟨hn, eqWorld_abs hi h2 h3, h7⟩ hwt ra rb
  refine ⟨r1, twin_len (runIssued_inv opsa hi ra) (runIssued_inv opsb h2 rb) t, ?_, t.map⟩
  rw [runIssued_res opsa ra, runIssued_res opsb rb]
  exact h6

/-- … "same query results up to iteration order": after the same operations, every query returns,
for the original and for the round-tripped copy, the views of the same entities with equivalent
values (each row of one result has its counterpart in the other; by symmetry of the lock-step
relation also the other way round). -/
theorem C06_lockstep_queries {w : World} (hi : Inv w) (hres : ResOk w) {k : Kinds} (hz : ZOk k w)
    (hr : Bool) (e next : Nat) (opsa opsb : List Op) (hops : opsa.map Op.forget = opsb.map Op.forget)
    (hwt : ∀ op ∈ opsa, op.wt w.n) :
    ∃ w', deserialize k hr w.n w.res.length e next (serialize hr w) = .ok w' ∧
      ∀ {a b : World} {ia ib : List Ident}, runIssued w opsa = .ok (a, ia) → runIssued w' opsb = .ok (b, ib) →
        ∀ (vs : List View) (f : Filter), ∃ ra rb, a.query vs f = .ok ra ∧ b.query vs f = .ok rb ∧
          ∀ row ∈ ra, ∃ id vals vals', a.entity id = some vals ∧ b.entity id = some vals' ∧
            rowEqv vals vals' = true ∧ row = vs.map (Spec.cellOf ⟨id, vals⟩) ∧
            vs.map (Spec.cellOf ⟨id, vals'⟩) ∈ rb := by
  obtain ⟨w', h1, h2, h3, _, _, _, h7⟩ := C06_roundtrip hi hres hz hr e next
  obtain ⟨al, _, hde⟩ := roundtrip_ok hi hres k hr e next
  have hn : w.n = w'.n := by
    rw [hde] at h1
    simp only [Except.ok.injEq] at h1
    rw [← h1]; rfl
  refine ⟨w', h1, ?_⟩
  intro a b ia ib ra rb vs f
  obtain ⟨_, t⟩ := twin_run opsa opsb hops hi h2 ⟨hn, eqWorld_abs hi h2 h3, h7⟩ hwt ra rb
  exact twin_query (runIssued_inv opsa hi ra) (runIssued_inv opsb h2 rb) t vs f

/-- **Values produced by deserialization are owned independently** (C04): the round-tripped world
owns exactly one re-tagged copy per value of the original, in the same order — nothing shared,
nothing missing, nothing extra. -/
theorem C06_roundtrip_owns_copies {w : World} (hi : Inv w) (hres : ResOk w) (k : Kinds) (hr : Bool)
    (e next : Nat) :
    ∃ w', deserialize k hr w.n w.res.length e next (serialize hr w) = .ok w' ∧
      w'.values = w.values.map (retag k e) := by
  obtain ⟨al, _, hde⟩ := roundtrip_ok hi hres k hr e next
  refine ⟨_, hde, ?_⟩
  unfold World.values assemble
  simp only [List.map_append]
  congr 1
  have key : ∀ (l : List Arch) (h : Nat),
      (retagArchs k e h l).flatMap Arch.values = (l.flatMap Arch.values).map (retag k e) := by
    intro l
    induction l with
    | nil => intro h; rfl
    | cons a l ih =>
      intro h
      simp only [retagArchs, List.flatMap_cons, List.map_append, ih]
      congr 1
      simp only [Arch.values, retagArch, List.map_flatten]
  exact key _ _

/-- … and conversely: every row the copy's query returns has its counterpart in the original's. -/
theorem C06_lockstep_queries_rev {w : World} (hi : Inv w) (hres : ResOk w) {k : Kinds} (hz : ZOk k w)
    (hr : Bool) (e next : Nat) (opsa opsb : List Op) (hops : opsa.map Op.forget = opsb.map Op.forget)
    (hwt : ∀ op ∈ opsa, op.wt w.n) :
    ∃ w', deserialize k hr w.n w.res.length e next (serialize hr w) = .ok w' ∧
      ∀ {a b : World} {ia ib : List Ident}, runIssued w opsa = .ok (a, ia) → runIssued w' opsb = .ok (b, ib) →
        ∀ (vs : List View) (f : Filter), ∃ rb ra, b.query vs f = .ok rb ∧ a.query vs f = .ok ra ∧
          ∀ row ∈ rb, ∃ id vals vals', b.entity id = some vals ∧ a.entity id = some vals' ∧
            rowEqv vals vals' = true ∧ row = vs.map (Spec.cellOf ⟨id, vals⟩) ∧
            vs.map (Spec.cellOf ⟨id, vals'⟩) ∈ ra := by
  obtain ⟨w', h1, h2, h3, _, _, _, h7⟩ := C06_roundtrip hi hres hz hr e next
  obtain ⟨al, _, hde⟩ := roundtrip_ok hi hres k hr e next
  have hn : w.n = w'.n := by
    rw [hde] at h1
    simp only [Except.ok.injEq] at h1
    rw [← h1]; rfl
  refine ⟨w', h1, ?_⟩
  intro a b ia ib ra rb vs f
  obtain ⟨_, t⟩ := twin_run opsa opsb hops hi h2 ⟨hn, eqWorld_abs hi h2 h3, h7⟩ hwt ra rb
  exact twin_query (runIssued_inv opsb h2 rb) (runIssued_inv opsa hi ra) t.symm vs f

/-- A value that may be stored: zero-sized kinds carry no identity. -/
def ZVal (k : Kinds) (v : Val) : Prop := k.kindOf v.ty = 'z' → v.base = 0

/-- Every value a step leaves in the world was there before or was moved in by the step. -/
theorem stepD_values_subset {w w' : World} (hi : Inv w) {op : Op} (hwt : op.wt w.n) {d i : List Val}
    (e : stepD w op = .ok (w', d, i)) : ∀ x ∈ w'.values, x ∈ w.values ∨ x ∈ i := by
  intro x hx
  have hc := C04_step x hi hwt e
  rw [World.cnt_eq, World.cnt_eq] at hc
  have hpos : 0 < w'.values.count x := List.count_pos_iff.mpr hx
  by_cases h1 : x ∈ w.values
  · exact Or.inl h1
  · right
    have h0 : w.values.count x = 0 := List.count_eq_zero.mpr h1
    have : 0 < i.count x := by omega
    exact List.count_pos_iff.mp this

/-- **Every world of every history round-trips**: start from resources typed by position, move
in only values whose zero-sized kinds carry no identity — then after any history of admissible
operations the world serializes and deserializes, in both encodings, to a world equal to it. -/
theorem C06_roundtrip_history (k : Kinds) (ops : List Op) :
    ∀ {w w' : World} {d i : List Val}, Inv w → ResOk w → ZOk k w → (∀ op ∈ ops, op.wt w.n) →
      runD w ops = .ok (w', d, i) → (∀ v ∈ i, ZVal k v) →
      ∀ (hr : Bool) (e next : Nat), RoundTrips k hr e next w' := by
  induction ops with
  | nil =>
    intro w w' d i hi hres hz _ h _ hr e next
    simp [runD] at h; obtain ⟨rfl, _, _⟩ := h
    exact C06_roundtrip hi hres hz hr e next
  | cons op ops ih =>
    intro w w' d i hi hres hz hwt h hiv hr e next
    simp only [runD] at h
    cases h1 : stepD w op with
    | ub y => simp [h1] at h
    | ok p =>
      obtain ⟨w1, d1, i1⟩ := p
      simp only [h1] at h
      cases h2 : runD w1 ops with
      | ub y => simp [h2] at h
      | ok q =>
        obtain ⟨w2, d2, i2⟩ := q
        simp only [h2, Out.ok.injEq, Prod.mk.injEq] at h
        obtain ⟨rfl, rfl, rfl⟩ := h
        have hs := stepD_step h1
        have hi1 := step_inv hi hs
        have hres1 : ResOk w1 := by
          unfold ResOk at hres ⊢
          rw [step_res hs]; exact hres
        have hz1 : ZOk k w1 := by
          intro v hv
          rcases stepD_values_subset hi (hwt op (by simp)) h1 v hv with h' | h'
          · exact hz v h'
          · exact hiv v (by simp [h'])
        exact ih hi1 hres1 hz1 (fun o ho => by rw [step_n hi hs]; exact hwt o (by simp [ho])) h2
          (fun v hv => hiv v (by simp [hv])) hr e next

/-- A round trip preserves what the next round trip needs (`ResOk`, `ZOk` for non-zero-sized
kinds is about base identities, which `retag` keeps). -/
theorem C06_retag_keeps (k : Kinds) (e : Nat) (v : Val) :
    (retag k e v).ty = v.ty ∧ (k.kindOf v.ty = 'z' → (retag k e v).base = 0) ∧
    (k.kindOf v.ty ≠ 'z' → (retag k e v).base = v.base) := by
  unfold retag
  refine ⟨by split <;> rfl, ?_, ?_⟩
  · intro hz; simp [hz, Val.base]
  · intro hz
    have : (k.kindOf v.ty == 'z') = false := by simpa using hz
    simp [this, Val.base, epochBase]

/-- Non-vacuity + test by kernel evaluation: a reachable world with two tables, a freed slot and a
reused slot round-trips in both encodings and compares equal; its hypotheses hold. -/
example :
    (match run (World.init 3 [⟨100, 7⟩])
        [.insert [1, 0] [⟨1, 11⟩, ⟨0, 10⟩], .insert [2] [⟨2, 20⟩], .insert [2] [⟨2, 21⟩], .remove ⟨1, 0⟩,
         .insert [0] [⟨0, 12⟩], .remove ⟨0, 0⟩] with
     | .ok w =>
       [true, false].map (fun hr =>
         match deserialize ⟨['s', 's', 's'], ['s']⟩ hr 3 1 1 50 (serialize hr w) with
         | .ok w' => (match World.eqWorld w w' with | .ok r => r | .ub _ => false) && w'.len == w.len
         | .error _ => false)
     | .ub _ => []) = [true, true] := by decide +kernel

end Brood

#print axioms Brood.C06_roundtrip
#print axioms Brood.C06_roundtrip_reachable
#print axioms Brood.C06_same_next_identifier
#print axioms Brood.C06_result_behaves
#print axioms Brood.C06_retag_keeps
#print axioms Brood.C06_roundtrip_history
#print axioms Brood.C06_clear_order_independent
#print axioms Brood.C06_lockstep
#print axioms Brood.C06_equal_worlds_lockstep
#print axioms Brood.C06_lockstep_full
#print axioms Brood.C06_lockstep_len_res
#print axioms Brood.C06_lockstep_queries
#print axioms Brood.C06_roundtrip_owns_copies
#print axioms Brood.C06_lockstep_queries_rev
