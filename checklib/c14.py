"""C14: the program family as Rust sources, compiled with rustc against the current brood build.

Each program of lean/BroodModel/Programs.lean's `family` (identified by its token string) is
instantiated as a small Rust file; rustc's verdict (compiled / rejected, with the error codes) is
written as a `prog <token> <verdict>` line for the Lean driver, which compares it with `accepts`
(computed from the tables extracted from the source) and with `Sound`.
"""
import concurrent.futures
import glob
import os
import re
import subprocess

from . import common as C

VIEW = {"r": "&{t}", "m": "&mut {t}", "or": "Option<&{t}>", "om": "Option<&mut {t}>"}

PRELUDE = """#![allow(unused, unused_mut, dead_code)]
use brood::{entity, entities, query::{filter, result, Result, Views}, registry::ContainsViews, resources, system::{schedule, schedule::task, ParSystem, System}, Query, Registry, Resources, World};
use std::{cell::Cell, rc::Rc};
pub struct A(pub u32);
pub struct B(pub u32);
pub struct X(pub u32);
fn keep<T>(_t: T) {}
"""

PAYLOAD = {"plain": "pub struct P(pub u32);", "notsync": "pub struct P(pub Cell<u32>);", "notsend": "pub struct P(pub Rc<u32>);",
           # Sync but not Send: a value owning a lock guard
           "syncnotsend": "static M: std::sync::Mutex<u32> = std::sync::Mutex::new(1);\npub struct P(pub std::sync::MutexGuard<'static, u32>);"}
PNEW = {"plain": "P(1)", "notsync": "P(Cell::new(1))", "notsend": "P(Rc::new(1))", "syncnotsend": "P(M.lock().unwrap())"}


def v(kind, ty, lt=""):
    s = VIEW[kind].format(t=ty)
    return s.replace("&", "&" + lt + " ") if lt else s


def system_impl(name, trait, views, res, entry):
    bound = "rayon::iter::ParallelIterator" if trait == "ParSystem" else "Iterator"
    return f"""
struct {name};
impl {trait} for {name} {{
    type Filter = filter::None;
    type Views<'a> = Views!({views});
    type ResourceViews<'a> = Views!({res});
    type EntryViews<'a> = Views!({entry});
    fn run<'a, R, S, I, E>(&mut self, query_result: Result<'a, R, S, I, Self::ResourceViews<'a>, Self::EntryViews<'a>, E>)
    where R: ContainsViews<'a, Self::EntryViews<'a>, E>, I: {bound}<Item = Self::Views<'a>> {{}}
}}
"""


def source(tok):
    t = tok.split()
    k = t[0]
    body = ""
    extra = ""
    if k == "views2":
        other = "A" if t[3] == "same" else "B"
        body = f"""let mut w = World::<Registry!(A, B)>::new(); w.insert(entity!(A(1), B(2)));
    for result!(x, y) in w.query(Query::<Views!({v(t[1], 'A')}, {v(t[2], other)})>::new()).iter {{ keep((x, y)); }}"""
    elif k == "entryviews":
        other = "A" if t[3] == "same" else "B"
        body = f"""let mut w = World::<Registry!(A, B)>::new(); w.insert(entity!(A(1), B(2)));
    let r = w.query(Query::<Views!({v(t[1], 'A')}), filter::None, Views!(), Views!({v(t[2], other)})>::new());
    keep(r.iter); keep(r.entries);"""
    elif k == "views2id":
        other = "A" if t[3] == "same" else "B"
        body = f"""let mut w = World::<Registry!(A, B)>::new(); w.insert(entity!(A(1), B(2)));
    for result!(i, x, y) in w.query(Query::<Views!(entity::Identifier, {v(t[1], 'A')}, {v(t[2], other)})>::new()).iter {{ keep((i, x, y)); }}"""
    elif k == "entryviewsid":
        other = "A" if t[4] == "same" else "B"
        vs = f"entity::Identifier, {v(t[2], 'A')}" if t[1] == "v" else v(t[2], 'A')
        es = f"entity::Identifier, {v(t[3], other)}" if t[1] == "e" else v(t[3], other)
        body = f"""let mut w = World::<Registry!(A, B)>::new(); w.insert(entity!(A(1), B(2)));
    let r = w.query(Query::<Views!({vs}), filter::None, Views!(), Views!({es})>::new());
    keep(r.iter); keep(r.entries);"""
    elif k == "subview":
        body = f"""let mut w = World::<Registry!(A, B)>::new(); let id = w.insert(entity!(A(1), B(2)));
    let mut r = w.query(Query::<Views!(), filter::None, Views!(), Views!({v(t[2], 'A')})>::new());
    if let Some(mut e) = r.entries.entry(id) {{ if let Some(result!(x)) = e.query(Query::<Views!({v(t[1], 'A')})>::new()) {{ keep(x); }} }}"""
    elif k == "worldentry2":
        body = f"""let mut w = World::<Registry!(A, B)>::new(); let id = w.insert(entity!(A(1), B(2)));
    let mut e = w.entry(id).unwrap();
    let a = e.query(Query::<Views!({v(t[1], 'A')})>::new());
    let b = e.query(Query::<Views!({v(t[2], 'A')})>::new());
    keep(a); keep(b);"""
    elif k == "entriesentry2":
        body = f"""let mut w = World::<Registry!(A, B)>::new(); let id = w.insert(entity!(A(1), B(2)));
    let mut r = w.query(Query::<Views!(), filter::None, Views!(), Views!(&mut A)>::new());
    let mut e = r.entries.entry(id).unwrap();
    let a = e.query(Query::<Views!({v(t[1], 'A')})>::new());
    let b = e.query(Query::<Views!({v(t[2], 'A')})>::new());
    keep(a); keep(b);"""
    elif k == "resviews":
        other = "A" if t[3] == "same" else "B"
        m = {"r": "&", "m": "&mut "}
        body = f"""let mut w = World::<Registry!(), Resources!(A, B)>::with_resources(resources!(A(1), B(2)));
    let result!(x, y) = w.view_resources::<Views!({m[t[1]]}A, {m[t[2]]}{other}), _>(); keep((x, y));"""
    elif k == "outside":
        how = int(t[1])
        if how == 0:
            body = "let mut w = World::<Registry!(A, B)>::new(); w.insert(entity!(A(1), X(3)));"
        elif how == 1:
            body = "let mut w = World::<Registry!(A, B)>::new(); for result!(x) in w.query(Query::<Views!(&X)>::new()).iter { keep(x); }"
        else:
            body = "let mut w = World::<Registry!(A, B)>::new(); let id = w.insert(entity!(A(1))); w.entry(id).unwrap().add(X(3));"
    elif k == "dupentity":
        body = "let mut w = World::<Registry!(A, B)>::new(); w.insert(entity!(A(1), A(2)));"
    elif k == "cross":
        c, p = t[1], t[2]
        extra = PAYLOAD[p]
        new = PNEW[p]
        if c == "world_send":
            body = f"let mut w = World::<Registry!(P)>::new(); w.insert(entity!({new})); std::thread::scope(|s| {{ s.spawn(move || {{ keep(w); }}); }});"
        elif c == "world_sync":
            body = f"let mut w = World::<Registry!(P)>::new(); w.insert(entity!({new})); let wr = &w; std::thread::scope(|s| {{ s.spawn(move || {{ keep(wr.len()); }}); }});"
        elif c == "iter_send":
            body = f"let mut w = World::<Registry!(P)>::new(); w.insert(entity!({new})); let it = w.query(Query::<Views!(&P)>::new()).iter; std::thread::scope(|s| {{ s.spawn(move || {{ for result!(p) in it {{ keep(p); }} }}); }});"
        elif c == "entries_send":
            body = f"let mut w = World::<Registry!(P)>::new(); let id = w.insert(entity!({new})); let r = w.query(Query::<Views!(), filter::None, Views!(), Views!(&P)>::new()); let mut en = r.entries; std::thread::scope(|s| {{ s.spawn(move || {{ if let Some(mut e) = en.entry(id) {{ keep(e.query(Query::<Views!(&P)>::new())); }} }}); }});"
        elif c == "iter_send_mut":
            body = f"let mut w = World::<Registry!(P)>::new(); w.insert(entity!({new})); let it = w.query(Query::<Views!(&mut P)>::new()).iter; std::thread::scope(|s| {{ s.spawn(move || {{ for result!(p) in it {{ keep(p); }} }}); }});"
        elif c == "entries_send_mut":
            body = f"let mut w = World::<Registry!(P)>::new(); let id = w.insert(entity!({new})); let r = w.query(Query::<Views!(), filter::None, Views!(), Views!(&mut P)>::new()); let mut en = r.entries; std::thread::scope(|s| {{ s.spawn(move || {{ if let Some(mut e) = en.entry(id) {{ keep(e.query(Query::<Views!(&mut P)>::new())); }} }}); }});"
        elif c == "entries_sync":
            body = f"let mut w = World::<Registry!(P)>::new(); let id = w.insert(entity!({new})); let r = w.query(Query::<Views!(), filter::None, Views!(), Views!(&P)>::new()); let en = r.entries; let er = &en; std::thread::scope(|s| {{ s.spawn(move || {{ keep(er); }}); }});"
        elif c == "par_ref":
            body = f"use rayon::iter::ParallelIterator; let mut w = World::<Registry!(P)>::new(); w.insert(entity!({new})); w.par_query(Query::<Views!(&P)>::new()).iter.for_each(|result!(p)| {{ keep(p); }});"
        elif c == "par_mut":
            body = f"use rayon::iter::ParallelIterator; let mut w = World::<Registry!(P)>::new(); w.insert(entity!({new})); w.par_query(Query::<Views!(&mut P)>::new()).iter.for_each(|result!(p)| {{ keep(p); }});"
        elif c == "sched_views":
            extra += system_impl("Sy", "System", "&'a P", "", "")
            body = f"let mut w = World::<Registry!(P)>::new(); w.insert(entity!({new})); let mut s = schedule!(task::System(Sy)); w.run_schedule(&mut s);"
        elif c == "sched_res":
            extra += system_impl("Sy", "System", "", "&'a P", "")
            body = f"let mut w = World::<Registry!(A), Resources!(P)>::with_resources(resources!({new})); let mut s = schedule!(task::System(Sy)); w.run_schedule(&mut s);"
        elif c == "sched_entry":
            extra += system_impl("Sy", "System", "", "", "&'a P")
            body = f"let mut w = World::<Registry!(P)>::new(); w.insert(entity!({new})); let mut s = schedule!(task::System(Sy)); w.run_schedule(&mut s);"
        elif c == "sched_par_entry":
            extra += system_impl("Sy", "ParSystem", "", "", "&'a P")
            body = f"let mut w = World::<Registry!(P)>::new(); w.insert(entity!({new})); let mut s = schedule!(task::ParSystem(Sy)); w.run_schedule(&mut s);"
    return PRELUDE + extra + "\nfn main() {\n    " + body + "\n}\n"


def newest(pattern):
    c = glob.glob(pattern)
    return max(c, key=os.path.getmtime) if c else None


def family_tokens():
    """The family is defined in Lean; ask Lean for the token strings."""
    src = os.path.join(C.WORK, "c14_family.lean")
    open(src, "w").write("import BroodModel.Programs\nopen Brood\n#eval IO.println (String.intercalate \"\\n\" (family.map Prog.tok))\n")
    rc, out, err = C.run(["lake", "env", "lean", src], cwd=C.LEAN, timeout=600)
    return [l.strip() for l in out.splitlines() if l.strip() and not l.startswith("warning")]


def compile_one(args):
    tok, idx, deps, brood, rayon, outdir = args
    src = os.path.join(outdir, "p%03d.rs" % idx)
    open(src, "w").write(source(tok))
    cmd = ["rustc", "--edition", "2021", "--crate-type", "bin", "--emit=metadata", "--crate-name", "p%03d" % idx,
           "--out-dir", outdir, "-L", "dependency=" + deps, "--extern", "brood=" + brood, "--extern", "rayon=" + rayon,
           "-A", "warnings", "--cap-lints", "allow", src]
    p = subprocess.run(cmd, stdout=subprocess.PIPE, stderr=subprocess.PIPE, text=True)
    codes = sorted(set(re.findall(r"error\[(E\d+)\]", p.stderr)))
    return tok, p.returncode == 0, codes, src, p.stderr[-600:]


def run_family(trace_path):
    """Compile every program; write the trace for the driver. Returns (n programs, details)."""
    deps = os.path.join(C.HARNESS, "target", "debug", "deps")
    brood = newest(os.path.join(deps, "libbrood-*.rlib"))
    rayon = newest(os.path.join(deps, "librayon-*.rlib"))
    if not brood or not rayon:
        raise RuntimeError("brood / rayon rlib not found under " + deps)
    outdir = os.path.join(C.WORK, "c14")
    os.makedirs(outdir, exist_ok=True)
    toks = family_tokens()
    jobs = [(t, i, deps, brood, rayon, outdir) for i, t in enumerate(toks)]
    with concurrent.futures.ThreadPoolExecutor(max_workers=16) as ex:
        res = list(ex.map(compile_one, jobs))
    details = {}
    with open(trace_path, "w") as f:
        f.write("case c14-programs\n")
        for tok, ok, codes, src, err in res:
            f.write("prog %s | %s %s\n" % (tok, "compiled" if ok else "rejected", ",".join(codes) or "-"))
            details[tok] = {"compiled": ok, "codes": codes, "source": src, "stderr": err}
    return len(res), details
