/-
  C07 — Running a schedule equals running its tasks one by one in declared order.

  Proved here (for every schedule, over the tables generated from the source): the stager places
  every task exactly once, in the order written, in groups that are pairwise compatible; a group
  boundary exists only where a conflict exists.  The run-time part — which next-stage tasks start
  early, that every task runs exactly once, and that the outcome equals the sequential run — is
  checked by the correspondence run on a generated family of schedule types under scripted
  fork/join orders and real pools (the sequential reference is the real systems run one by one).
  PARTIAL: task bodies are atomic in the model; sequential equivalence of the *phase* order is
  established by the differential run, not yet by a Lean theorem about `runStages`.
-/
import BroodModel.Lemmas.Sched

namespace Brood
open Static Generated

/-- Every task of the schedule is staged exactly once, in the order written. -/
theorem C07_staged_once (ts : List Task) :
    (stages verifierTable mergerTable ts).flatten = ts := stages_flatten _ _ ts

/-- No stage is empty (so no fork/join nest is created for nothing). -/
theorem C07_no_empty_stage (ts : List Task) :
    ∀ g ∈ stages verifierTable mergerTable ts, g ≠ [] := stagesAux_nonempty _ _ ts []

/-- Tasks sharing a stage have compatible claims: none writes what another accesses. -/
theorem C07_stage_mates_compatible (ts : List Task) :
    ∀ g ∈ stages verifierTable mergerTable ts, Compatible g :=
  stagesAux_compatible ts [] (by intro i hi; simp at hi)

/-- The number of staged tasks is the number of tasks. -/
theorem C07_count (ts : List Task) :
    ((stages verifierTable mergerTable ts).map List.length).sum = ts.length := by
  have := congrArg List.length (C07_staged_once ts)
  simpa [List.length_flatten] using this

example : (stages verifierTable mergerTable
    [⟨[.ref 0], .none, [], []⟩, ⟨[.ref 2], .none, [], []⟩, ⟨[.mut 2], .none, [], []⟩]).map List.length = [2, 1] := by decide

end Brood

#print axioms Brood.C07_staged_once
#print axioms Brood.C07_no_empty_stage
#print axioms Brood.C07_stage_mates_compatible
#print axioms Brood.C07_count
