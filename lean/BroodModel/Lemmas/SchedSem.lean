/-
  Sequential equivalence of schedules (C07), semantically: if tasks that may run together
  (`TaskOk`: no shared resource / component of a common archetype claimed mutably by one and at
  all by the other) commute — which is what "a task touches only what its views claim" means —
  then every execution the stage runner can produce (phase after phase, the atomic tasks of a
  phase in any order) ends in the same state as running the tasks one by one in declared order.
-/
import BroodModel.Lemmas.SchedDyn

set_option linter.unusedSimpArgs false
set_option linter.unusedVariables false

namespace Brood
open Static Generated

section generic
variable {α σ : Type} (ap : α → σ → σ)

/-- Run tasks one after the other. -/
def runSeq (l : List α) (s : σ) : σ := l.foldl (fun s t => ap t s) s

theorem runSeq_append (l m : List α) (s : σ) : runSeq ap (l ++ m) s = runSeq ap m (runSeq ap l s) := by
  simp [runSeq, List.foldl_append]

theorem runSeq_cons (a : α) (l : List α) (s : σ) : runSeq ap (a :: l) s = runSeq ap l (ap a s) := rfl

/-- Reordering a list whose elements pairwise commute does not change the result. -/
theorem runSeq_perm {R : α → α → Prop} (hsym : ∀ {a b}, R a b → R b a)
    (hcomm : ∀ a b, R a b → ∀ s, ap a (ap b s) = ap b (ap a s)) {l l' : List α} (hp : l.Perm l')
    (hpw : l.Pairwise R) : ∀ s, runSeq ap l s = runSeq ap l' s := by
  induction hp with
  | nil => intro s; rfl
  | cons a _ ih =>
    intro s
    rw [List.pairwise_cons] at hpw
    simp only [runSeq_cons]
    exact ih hpw.2 _
  | swap a b l =>
    intro s
    rw [List.pairwise_cons, List.pairwise_cons] at hpw
    simp only [runSeq_cons]
    have hab : R b a := hpw.1 a (by simp)
    rw [hcomm a b (hsym hab)]
  | trans h1 h2 ih1 ih2 =>
    intro s
    rw [ih1 hpw, ih2 ((h1.pairwise_iff (fun h => hsym h)).mp hpw)]

end generic

/-! ### phases as task lists -/

/-- The tasks of a stage that have not been run early. -/
def runningOf (st : List Task) (hasRun : List Bool) : List Task :=
  ((List.zip st hasRun).filter (fun p => !p.2)).map (·.1)

/-- The phases of `runStages`, as lists of tasks: the not-yet-run tasks of the stage followed by
the next-stage tasks started early. -/
def phaseTasks (n nres : Nat) (masks : List Mask) : List (List Task) → List Bool → List (List Task)
  | [], _ => []
  | st :: rest, hasRun =>
    (runningOf st hasRun ++
        accepted (rest.headD []) (runStage claimTryMerge n nres masks st hasRun (rest.headD [])).2) ::
      phaseTasks n nres masks rest (runStage claimTryMerge n nres masks st hasRun (rest.headD [])).2

theorem addOns_length (n nres : Nat) (masks : List Mask) (next : List Task) :
    ∀ (cm : ClaimMap) (rc : List Cl), (addOns claimTryMerge n nres masks next cm rc).length = next.length := by
  induction next with
  | nil => intro cm rc; rfl
  | cons t ts ih =>
    intro cm rc
    simp only [addOns]
    split
    · split <;> simp [ih]
    · simp [ih]

theorem runStage_flags_length (n nres : Nat) (masks : List Mask) (st : List Task) (hasRun : List Bool)
    (next : List Task) : (runStage claimTryMerge n nres masks st hasRun next).2.length = next.length := by
  unfold runStage
  simp only []
  split
  · simp
  · exact addOns_length n nres masks next _ _

/-- The tasks run early and the tasks still to run are, together, the stage. -/
theorem accepted_running_perm (st : List Task) :
    ∀ hasRun : List Bool, hasRun.length = st.length → (accepted st hasRun ++ runningOf st hasRun).Perm st := by
  induction st with
  | nil => intro hasRun _; simp [accepted, runningOf]
  | cons t ts ih =>
    intro hasRun hl
    cases hasRun with
    | nil => simp at hl
    | cons b bs =>
      have ih' := ih bs (by simpa using hl)
      cases b with
      | true =>
        simp only [accepted, if_true, runningOf, List.zip_cons_cons, List.filter_cons, Bool.not_true,
          Bool.false_eq_true, if_false, List.cons_append]
        exact List.Perm.cons t ih'
      | false =>
        simp only [accepted, Bool.false_eq_true, if_false, runningOf, List.zip_cons_cons,
          List.filter_cons, Bool.not_false, if_true, List.map_cons]
        exact (List.perm_middle).trans (List.Perm.cons t ih')

/-- `perms` lists the same phases, the tasks of each phase in some order. -/
inductive PhasePerm : List (List Task) → List (List Task) → Prop
  | nil : PhasePerm [] []
  | cons {p q : List Task} {ps qs : List (List Task)} : p.Perm q → PhasePerm ps qs → PhasePerm (p :: ps) (q :: qs)

theorem taskOk_symm {n nres : Nat} {masks : List Mask} {u t : Task} (h : TaskOk n nres masks u t) :
    TaskOk n nres masks t u :=
  ⟨by rw [vecOk_comm]; exact h.1, fun k hk h1 h2 => by rw [vecOk_comm]; exact h.2 k hk h2 h1⟩

/-- **Sequential equivalence.**  `sts` are the stages of a schedule (each statically compatible,
tasks well formed), `hasRun` marks the tasks of the first stage that already ran early.  Then
running those early tasks and afterwards the phases of `phaseTasks` — the tasks of each phase in
*any* order — gives the same state as running all the tasks in declared order. -/
theorem phases_seq_equiv {σ : Type} (ap : Task → σ → σ) {n nres : Nat} {masks : List Mask}
    (hm : masks.Nodup)
    (hcomm : ∀ u t, TaskOk n nres masks u t → ∀ s, ap u (ap t s) = ap t (ap u s)) :
    ∀ (sts : List (List Task)) (hasRun : List Bool) (perms : List (List Task)),
      (∀ st ∈ sts, Compatible st ∧ ∀ t ∈ st, t.WF) → hasRun.length = (sts.headD []).length →
      PhasePerm perms (phaseTasks n nres masks sts hasRun) →
      ∀ s, runSeq ap (accepted (sts.headD []) hasRun ++ perms.flatten) s = runSeq ap sts.flatten s := by
  intro sts
  induction sts with
  | nil =>
    intro hasRun perms _ _ hf s
    simp only [phaseTasks] at hf
    cases hf
    simp [accepted, runSeq]
  | cons st rest ih =>
    intro hasRun perms hst hl hf s
    simp only [phaseTasks] at hf
    cases hf with
    | cons hp1 hps =>
      rename_i p1 ps
      simp only [List.headD_cons] at hl ⊢
      obtain ⟨hc, hwf⟩ := hst st (by simp)
      -- the phase is pairwise conflict free, so its tasks may be taken in the canonical order
      have hphase := runStage_phase_safe (n := n) (nres := nres) hm st (rest.headD []) hasRun hc hwf
      have hsym : ∀ {a b : Task}, TaskOk n nres masks b a → TaskOk n nres masks a b := fun h => taskOk_symm h
      have h1 : ∀ s', runSeq ap p1 s' = runSeq ap
          (runningOf st hasRun ++ accepted (rest.headD [])
            (runStage claimTryMerge n nres masks st hasRun (rest.headD [])).2) s' := by
        intro s'
        exact (runSeq_perm ap (R := fun a b => TaskOk n nres masks b a) (fun h => taskOk_symm h)
          (fun a b h => hcomm a b (taskOk_symm h)) hp1.symm hphase s').symm
      -- the stage itself: early tasks first, then the rest, is a reordering of the stage
      have hstage : ∀ s', runSeq ap (accepted st hasRun ++ runningOf st hasRun) s' = runSeq ap st s' := by
        intro s'
        have hpw := compatible_pairwise n nres masks hc hwf
        have hperm := accepted_running_perm st hasRun hl
        exact (runSeq_perm ap (R := fun a b => TaskOk n nres masks b a) (fun h => taskOk_symm h)
          (fun a b h => hcomm a b (taskOk_symm h)) hperm.symm hpw s').symm
      -- the remaining stages, by induction
      have hrest := ih (runStage claimTryMerge n nres masks st hasRun (rest.headD [])).2 ps
        (fun x hx => hst x (by simp [hx]))
        (runStage_flags_length n nres masks st hasRun (rest.headD []))
        hps
      simp only [List.flatten_cons, runSeq_append]
      rw [h1, runSeq_append]
      have := hrest (runSeq ap (runningOf st hasRun) (runSeq ap (accepted st hasRun) s))
      rw [runSeq_append] at this
      rw [this, ← runSeq_append ap (accepted st hasRun) (runningOf st hasRun), hstage]

/-! ### a footprint semantics of tasks: claims are all a task touches -/

/-- A cell of the world a task can touch: component `c` of the entities of archetype `k`, or
resource `p`. -/
inductive SCell
  | comp (k : Mask) (c : Nat)
  | res (p : Nat)
deriving DecidableEq

/-- The claim a task holds on a cell (`none`: it cannot touch it). -/
def Task.claimSCell (n nres : Nat) (masks : List Mask) (t : Task) : SCell → Cl
  | .comp k c => if masks.contains k && t.matchesArch k then (t.claimVec n).getD c .none else .none
  | .res p => (t.resVec nres).getD p .none

/-- A task as a state transformer that respects its claims: a cell changes only if the task
claims it mutably, and its new value depends only on the cells the task claims. -/
def apTask (n nres : Nat) (masks : List Mask) (g : Task → (SCell → Nat) → SCell → Nat)
    (t : Task) (s : SCell → Nat) : SCell → Nat :=
  fun cell =>
    if t.claimSCell n nres masks cell = .mutable then
      g t (fun c => if t.claimSCell n nres masks c = .none then 0 else s c) cell
    else s cell

theorem vecOk_getD {a b : List Cl} (h : vecOk a b = true) (hl : a.length = b.length) (i : Nat) :
    (a.getD i .none).conflicts (b.getD i .none) = false := by
  unfold vecOk at h
  by_cases hi : i < a.length
  · have hib : i < b.length := by omega
    have hz : (List.zipWith Cl.conflicts a b)[i]? = some ((a[i]).conflicts (b[i])) := by
      rw [List.getElem?_zipWith, List.getElem?_eq_getElem hi, List.getElem?_eq_getElem hib]
    have := List.all_eq_true.mp h _ (List.mem_of_getElem? hz)
    simp only [List.getD, List.getElem?_eq_getElem hi, List.getElem?_eq_getElem hib, Option.getD_some]
    simpa using this
  · have hib : ¬ i < b.length := by omega
    have h1 : a[i]? = none := by rw [List.getElem?_eq_none]; omega
    have h2 : b[i]? = none := by rw [List.getElem?_eq_none]; omega
    simp only [List.getD, h1, h2, Option.getD_none]
    rfl

/-- Tasks that may run together hold non-conflicting claims on every cell. -/
theorem taskOk_cells {n nres : Nat} {masks : List Mask} {u t : Task} (h : TaskOk n nres masks u t)
    (cell : SCell) : (u.claimSCell n nres masks cell).conflicts (t.claimSCell n nres masks cell) = false := by
  cases cell with
  | res p =>
    exact vecOk_getD h.1 (by rw [resVec_length, resVec_length]) p
  | comp k c =>
    unfold Task.claimSCell
    by_cases hu : (masks.contains k && u.matchesArch k) = true
    · by_cases ht : (masks.contains k && t.matchesArch k) = true
      · simp only [hu, ht, if_true]
        simp only [Bool.and_eq_true] at hu ht
        exact vecOk_getD (h.2 k (by simpa using hu.1) hu.2 ht.2) (by rw [claimVec_length, claimVec_length]) c
      · have ht' : (masks.contains k && t.matchesArch k) = false := by
          cases hb : (masks.contains k && t.matchesArch k) with
          | false => rfl
          | true => exact absurd hb ht
        simp only [ht', Bool.false_eq_true, if_false]
        exact conflicts_none _
    · have hu' : (masks.contains k && u.matchesArch k) = false := by
        cases hb : (masks.contains k && u.matchesArch k) with
        | false => rfl
        | true => exact absurd hb hu
      simp only [hu', Bool.false_eq_true, if_false]
      rw [conflicts_comm]; exact conflicts_none _

/-- **Claim-respecting tasks that may run together commute** (each with its own behaviour). -/
theorem apTask_comm2 (n nres : Nat) (masks : List Mask) (g1 g2 : Task → (SCell → Nat) → SCell → Nat)
    {u t : Task} (h : TaskOk n nres masks u t) (s : SCell → Nat) :
    apTask n nres masks g1 u (apTask n nres masks g2 t s) = apTask n nres masks g2 t (apTask n nres masks g1 u s) := by
  have hc := taskOk_cells h
  -- what either task reads is untouched by the other
  have hread_u : ∀ c, u.claimSCell n nres masks c ≠ .none → apTask n nres masks g2 t s c = s c := by
    intro c hne
    unfold apTask
    have := hc c
    cases hu : u.claimSCell n nres masks c with
    | none => exact absurd hu hne
    | immutable => rw [hu] at this; cases ht : t.claimSCell n nres masks c <;> simp_all [Cl.conflicts]
    | mutable => rw [hu] at this; cases ht : t.claimSCell n nres masks c <;> simp_all [Cl.conflicts]
  have hread_t : ∀ c, t.claimSCell n nres masks c ≠ .none → apTask n nres masks g1 u s c = s c := by
    intro c hne
    unfold apTask
    have := hc c
    cases ht : t.claimSCell n nres masks c with
    | none => exact absurd ht hne
    | immutable => rw [ht] at this; cases hu : u.claimSCell n nres masks c <;> simp_all [Cl.conflicts]
    | mutable => rw [ht] at this; cases hu : u.claimSCell n nres masks c <;> simp_all [Cl.conflicts]
  have hview_u : (fun c => if u.claimSCell n nres masks c = .none then 0 else apTask n nres masks g2 t s c) =
      (fun c => if u.claimSCell n nres masks c = .none then 0 else s c) := by
    funext c
    by_cases hn : u.claimSCell n nres masks c = .none
    · simp [hn]
    · simp [hn, hread_u c hn]
  have hview_t : (fun c => if t.claimSCell n nres masks c = .none then 0 else apTask n nres masks g1 u s c) =
      (fun c => if t.claimSCell n nres masks c = .none then 0 else s c) := by
    funext c
    by_cases hn : t.claimSCell n nres masks c = .none
    · simp [hn]
    · simp [hn, hread_t c hn]
  funext cell
  show (if u.claimSCell n nres masks cell = .mutable then
      g1 u (fun c => if u.claimSCell n nres masks c = .none then 0 else apTask n nres masks g2 t s c) cell
    else apTask n nres masks g2 t s cell) =
    (if t.claimSCell n nres masks cell = .mutable then
      g2 t (fun c => if t.claimSCell n nres masks c = .none then 0 else apTask n nres masks g1 u s c) cell
    else apTask n nres masks g1 u s cell)
  rw [hview_u, hview_t]
  have hcc := hc cell
  by_cases hu : u.claimSCell n nres masks cell = .mutable
  · have ht : t.claimSCell n nres masks cell = .none := by
      rw [hu] at hcc; cases htc : t.claimSCell n nres masks cell <;> simp_all [Cl.conflicts]
    simp only [hu, if_true, ht]
    unfold apTask
    simp [hu]
  · by_cases ht : t.claimSCell n nres masks cell = .mutable
    · have hun : u.claimSCell n nres masks cell = .none := by
        rw [ht] at hcc; cases huc : u.claimSCell n nres masks cell <;> simp_all [Cl.conflicts]
      simp only [hu, if_false, ht, if_true]
      unfold apTask
      simp [ht]
    · simp only [hu, ht, if_false]
      unfold apTask
      simp [hu, ht]

theorem apTask_comm (n nres : Nat) (masks : List Mask) (g : Task → (SCell → Nat) → SCell → Nat)
    {u t : Task} (h : TaskOk n nres masks u t) (s : SCell → Nat) :
    apTask n nres masks g u (apTask n nres masks g t s) = apTask n nres masks g t (apTask n nres masks g u s) :=
  apTask_comm2 n nres masks g g h s

/-! ### the index form of the phases (what the driver prints) names exactly these tasks -/

/-- The task an index pair `(stage, position)` of `runStages` names (`base`: number of the first
stage of `sts`). -/
def idxTask (sts : List (List Task)) (base : Nat) (p : Nat × Nat) : Option Task :=
  if p.1 < base then none else (sts[p.1 - base]?).bind (fun st => st[p.2]?)

theorem zip_range_filter {α} (l : List α) :
    ∀ (bs : List Bool) (off : Nat) (f : Nat → Option α), (∀ i, i < l.length → f (off + i) = l[i]?) →
      bs.length = l.length →
      ((List.zip (List.range' off l.length) bs).filter (·.2)).filterMap (fun p => f p.1) =
        ((List.zip l bs).filter (·.2)).map (·.1) := by
  induction l with
  | nil => intro bs off f _ _; simp
  | cons x xs ih =>
    intro bs off f hf hl
    cases bs with
    | nil => simp at hl
    | cons b bs =>
      have h0 : f off = some x := by simpa using hf 0 (by simp)
      have hrest := ih bs (off + 1) f (by
        intro i hi
        have := hf (i + 1) (by simpa using hi)
        rw [show off + 1 + i = off + (i + 1) by omega]
        simpa using this) (by simpa using hl)
      simp only [List.length_cons, List.range'_succ, List.zip_cons_cons, List.filter_cons]
      cases b with
      | true => simp [h0, hrest]
      | false => simpa using hrest

theorem zip_filter_accepted (next : List Task) :
    ∀ flags : List Bool, ((List.zip next flags).filter (·.2)).map (·.1) = accepted next flags := by
  induction next with
  | nil => intro flags; simp [accepted]
  | cons t ts ih =>
    intro flags
    cases flags with
    | nil => simp [accepted]
    | cons b bs => cases b <;> simp [accepted, List.filter_cons, ih bs]

theorem zip_ran_running (st : List Task) :
    ∀ hasRun : List Bool, hasRun.length = st.length →
      ((List.zip st ((List.zip st hasRun).map (fun p => !p.2))).filter (·.2)).map (·.1) = runningOf st hasRun := by
  induction st with
  | nil => intro hasRun _; simp [runningOf]
  | cons t ts ih =>
    intro hasRun hl
    cases hasRun with
    | nil => simp at hl
    | cons b bs =>
      have := ih bs (by simpa using hl)
      unfold runningOf at this ⊢
      cases b <;> simp [List.filter_cons, this]

theorem runStage_ran (n nres : Nat) (masks : List Mask) (st : List Task) (hasRun : List Bool) (next : List Task) :
    (runStage claimTryMerge n nres masks st hasRun next).1 = (List.zip st hasRun).map (fun p => !p.2) := by
  unfold runStage
  simp only []
  split <;> rfl

theorem filterMap_congr'' {α β} {f g : α → Option β} {l : List α} (h : ∀ x ∈ l, f x = g x) :
    l.filterMap f = l.filterMap g := by
  induction l with
  | nil => rfl
  | cons x xs ih =>
    simp only [List.filterMap_cons, h x (by simp)]
    rw [ih (fun y hy => h y (by simp [hy]))]

theorem runStages_idx_ge (n nres : Nat) (masks : List Mask) :
    ∀ (sts : List (List Task)) (k : Nat) (hasRun : List Bool),
      ∀ ph ∈ runStages claimTryMerge n nres masks k sts hasRun, ∀ p ∈ ph, k ≤ p.1 := by
  intro sts
  induction sts with
  | nil => intro k hasRun ph hph; simp [runStages] at hph
  | cons st rest ih =>
    intro k hasRun ph hph p hp
    simp only [runStages, List.mem_cons] at hph
    rcases hph with rfl | hph
    · rcases List.mem_append.mp hp with hp | hp
      · obtain ⟨q, _, rfl⟩ := List.mem_map.mp hp; simp
      · obtain ⟨q, _, rfl⟩ := List.mem_map.mp hp; simp
    · have := ih (k + 1) _ ph hph p hp
      omega

/-- **The index pairs of `runStages` name exactly the tasks of `phaseTasks`.** -/
theorem runStages_tasks (n nres : Nat) (masks : List Mask) :
    ∀ (sts : List (List Task)) (k : Nat) (hasRun : List Bool), hasRun.length = (sts.headD []).length →
      (runStages claimTryMerge n nres masks k sts hasRun).map (fun ph => ph.filterMap (idxTask sts k)) =
        phaseTasks n nres masks sts hasRun := by
  intro sts
  induction sts with
  | nil => intro k hasRun _; rfl
  | cons st rest ih =>
    intro k hasRun hl
    simp only [List.headD_cons] at hl
    simp only [runStages, phaseTasks, List.map_cons]
    congr 1
    · -- this phase
      rw [List.filterMap_append]
      congr 1
      · rw [runStage_ran]
        simp only [List.filterMap_map]
        have hlen : ((List.zip st hasRun).map (fun p => !p.2)).length = st.length := by simp [hl]
        have := zip_range_filter st ((List.zip st hasRun).map (fun p => !p.2)) 0
          (fun i => idxTask (st :: rest) k (k, i)) (by
            intro i hi
            simp [idxTask]) hlen
        rw [← zip_ran_running st hasRun hl, ← this, List.range_eq_range']
        rfl
      · simp only [List.filterMap_map]
        have hfl := runStage_flags_length n nres masks st hasRun (rest.headD [])
        have := zip_range_filter (rest.headD []) (runStage claimTryMerge n nres masks st hasRun (rest.headD [])).2 0
          (fun i => idxTask (st :: rest) k (k + 1, i)) (by
            intro i hi
            cases rest with
            | nil => simp at hi
            | cons r rs =>
              simp [idxTask]
              intro h; omega) hfl
        rw [← zip_filter_accepted, ← this, List.range_eq_range']
        rfl
    · -- the remaining phases: indices shift by one stage
      rw [← ih (k + 1) _ (runStage_flags_length n nres masks st hasRun (rest.headD []))]
      apply List.map_congr_left
      intro ph hph
      apply filterMap_congr''
      intro p hp
      -- every index of a later phase names stage `k + 1` or later
      have hge := runStages_idx_ge n nres masks rest (k + 1) _ ph hph p hp
      unfold idxTask
      have h1 : ¬ p.1 < k := by omega
      have h2 : ¬ p.1 < k + 1 := by omega
      simp only [h1, h2, if_false]
      have : p.1 - k = (p.1 - (k + 1)) + 1 := by omega
      rw [this, List.getElem?_cons_succ]

end Brood
