/-
  C11 — Deserializing untrusted input yields an error or a fully valid world.

  `Serde.deserialize` is a token-level model of `World::deserialize` and every visitor under it
  (archetypes sequence with the unique-identifier check, archetype newtype with its identifier
  bytes + padding check, row-wise and column-wise bodies, entity identifiers as struct or
  sequence, the allocator's `from_serialized_parts` with its four rejection reasons, resources)
  over `serde_assert`'s token vocabulary and framing rules.  The correspondence check feeds the
  very token stream the real deserializer reads — well-formed or mutated — to this model and
  compares verdict (ok / error kind) and resulting world.

  The theorem quantifies over **every** token list, both encodings, every registry size and every
  resource count: no assumption that the input came from `serialize`.

  Not modelled (decided on the real code by the harness's drop ledger and allocator audit): the
  values and buffers a *failing* deserialization has already built when it bails out.
-/
import BroodModel.Lemmas.DeInv

namespace Brood
open Serde

/-- **Error or fully valid world**, for every token stream. -/
theorem C11_error_or_valid (k : Kinds) (hr : Bool) (n nres e next : Nat) (toks : List Tok) :
    (∃ err, deserialize k hr n nres e next toks = .error err) ∨
    (∃ w, deserialize k hr n nres e next toks = .ok w ∧ Inv w) := by
  cases h : deserialize k hr n nres e next toks with
  | error err => exact Or.inl ⟨err, rfl⟩
  | ok w => exact Or.inr ⟨w, rfl, deserialize_inv h⟩

/-- In an accepted world every identifier resolves to exactly one entity: a stored identifier is
live at exactly the row that stores it, no identifier is stored twice, and `len()` is the number
of stored identifiers. -/
theorem C11_identifiers_resolve {k : Kinds} {hr : Bool} {n nres e next : Nat} {toks : List Tok}
    {w : World} (h : deserialize k hr n nres e next toks = .ok w) :
    (∀ a ∈ w.archs, ∀ (r : Nat) (id : Ident), a.ids[r]? = some id →
      w.alloc.get id = some ⟨a.handle, r⟩) ∧
    (∀ a ∈ w.archs, ∀ b ∈ w.archs, ∀ (r q : Nat) (id : Ident), a.ids[r]? = some id →
      b.ids[q]? = some id → a.handle = b.handle ∧ r = q) ∧
    w.stored.Nodup ∧ w.stored.length = w.len := by
  have hi := deserialize_inv h
  refine ⟨fun a ha r id hr' => hi.row_live ha hr', ?_, (len_counts_entities hi).1,
    (len_counts_entities hi).2.1⟩
  intro a ha b hb r q id h1 h2
  exact hi.rows_injective ha hb h1 h2

/-- **An accepted world never misbehaves later**: every admissible history continued on it runs
to completion without reaching an unchecked access with a violated precondition, and keeps the
invariant; it compares equal to itself and can be cloned. -/
theorem C11_accepted_world_behaves {k : Kinds} {hr : Bool} {n nres e next : Nat} {toks : List Tok}
    {w : World} (h : deserialize k hr n nres e next toks = .ok w) (ops : List Op)
    (hwt : ∀ op ∈ ops, op.wt w.n) :
    (∃ w', run w ops = .ok w' ∧ Inv w') ∧ World.eqWorld w w = .ok true ∧
    (∀ e' next', ∃ c, w.clone e' next' = .ok c ∧ Inv c) := by
  have hi := deserialize_inv h
  obtain ⟨w', r1, r2, _⟩ := run_total hi ops hwt
  refine ⟨⟨w', r1, r2⟩, eqWorld_refl hi, ?_⟩
  intro e' next'
  obtain ⟨c, c1, c2, _⟩ := clone_spec hi e' next'
  exact ⟨c, c1, c2⟩

/-- Every rejection reason of `from_serialized_parts` is a real rejection: slots named twice, out
of range or never named cannot be accepted (the accepted allocator covers each slot exactly
once). -/
theorem C11_allocator_parts {length : Nat} {free : List Ident} {archs : List Arch} {al : Alloc}
    (h : fromParts length free archs = .ok al) :
    (free.map (·.index)).Nodup ∧
    (∀ id l, (id, l) ∈ rowsOf archs → id.index ∉ free.map (·.index)) ∧
    (∀ (i : Nat) (s : Slot), al.slots[i]? = some s →
      (∃ f ∈ free, f.index = i ∧ s = ⟨f.gen, none⟩) ∨
      (∃ id l, (id, l) ∈ rowsOf archs ∧ id.index = i ∧ s = ⟨id.gen, some l⟩)) :=
  let p := fromParts_spec h
  ⟨p.free_nodup, p.row_not_free, p.cover⟩

/-- Non-vacuity (acceptance): the serialization of a reachable world is accepted, both encodings. -/
example :
    (match run (World.init 3 []) [.insert [1, 0] [⟨1, 11⟩, ⟨0, 10⟩], .insert [2] [⟨2, 20⟩], .remove ⟨0, 0⟩] with
     | .ok w =>
       ((deserialize ⟨['s', 's', 's'], []⟩ true 3 0 1 0 (serialize true w)).toOption.isSome,
        (deserialize ⟨['s', 's', 's'], []⟩ false 3 0 1 0 (serialize false w)).toOption.isSome)
     | .ub _ => (false, false)) = (true, true) := by decide +kernel

/-- Non-vacuity (rejection): an identifier stored twice, a freed index that is also stored. -/
example :
    let dup : List Tok :=
      [.tupB 3, .seqB (some 1), .newtype "Archetype", .tupB 3, .tupB 1, .u8 1, .tupE, .u64 2,
       .tupB 2,
         .tupB 2, .structB "Identifier" 2, .field "index", .u64 0, .field "generation", .u64 0, .structE, .u64 5, .tupE,
         .tupB 2, .structB "Identifier" 2, .field "index", .u64 0, .field "generation", .u64 0, .structE, .u64 6, .tupE,
       .tupE, .tupE, .seqE,
       .structB "Allocator" 2, .field "length", .u64 1, .field "free", .seqB (some 0), .seqE, .structE,
       .tupB 0, .tupE, .tupE]
    (deserialize ⟨['s'], []⟩ true 1 0 1 0 dup).toOption.isSome = false := by decide +kernel

end Brood

#print axioms Brood.C11_error_or_valid
#print axioms Brood.C11_identifiers_resolve
#print axioms Brood.C11_accepted_world_behaves
#print axioms Brood.C11_allocator_parts
