/-
  BroodModel.Fault — panic (unwinding) semantics of the column loops (C17).

  An archetype's columns are `Vec`s rebuilt from raw parts around a *shared* length.  When user
  code panics inside a column loop, what later code sees is decided by (a) which columns the loop
  had already processed and (b) whether the shared length had already been updated.  `Vec::clear`
  / `truncate` set the vector's own length first and then drop the elements; if one element's
  `Drop` panics the remaining elements of *that* vector are still dropped while unwinding.
-/
import BroodModel.World

namespace Brood

/-- Memory-level view of one archetype after an interrupted operation: the shared length the
archetype still records, and per column the values that are still *physically present and
considered live by that length* (a later `from_raw_parts(ptr, length, cap)` will treat the first
`length` slots as live values). -/
structure RawArch where
  length : Nat
  cols : List (List Val)
deriving Repr

/-- What `drop(archetype)` (`free_components`) drops: the first `length` slots of every column. -/
def RawArch.dropAll (a : RawArch) : List Val := a.cols.flatMap (fun c => c.take a.length)

/-- `Archetype::clear` as written: `clear_components` loops over the columns dropping every
value, and only afterwards `self.length = 0`.  A `Drop` panic while clearing column `j` unwinds
out of the loop: columns `0..=j` have been dropped (the panicking vector finishes dropping its
elements during unwinding), the shared length is unchanged and the slots still hold the old bits.
Returns the values dropped by the operation and the state left behind. -/
def clearFault (cols : List (List Val)) (j : Nat) : List Val × RawArch :=
  ((cols.take (j + 1)).flatten, ⟨(cols.headD []).length, cols⟩)

/-- The repaired order: `self.length = 0` *before* the column loop. -/
def clearFaultLengthFirst (cols : List (List Val)) (j : Nat) : List Val × RawArch :=
  ((cols.take (j + 1)).flatten, ⟨0, cols⟩)

/-- `Archetype::remove_row_unchecked(index)` as written: per column, `swap_remove(index)` on a
`Vec` rebuilt around the shared length, the removed value dropped at once; the identifier column
and `self.length -= 1` come after the column loop.  A `Drop` panic on the value removed from column
`j` unwinds out of the loop: in columns `0..=j` the last value has been copied into slot `index`
(the last slot still holds its bits), the shared length is unchanged.  Returns the values dropped
by the operation and the state left behind. -/
def removeFault (cols : List (List Val)) (index j : Nat) : List Val × RawArch :=
  ((cols.take (j + 1)).filterMap (fun c => c[index]?),
   ⟨(cols.headD []).length,
    (cols.take (j + 1)).map (fun c => match c.getLast? with
      | some l => c.set index l
      | none => c) ++ cols.drop (j + 1)⟩)

/-- `Archetype::clone_from` as written: per column, `Vec::clone_from` on a `Vec` rebuilt around the
destination's shared length — it first truncates the destination column to the source's length
(dropping the cut-off values), then clones element by element —, the raw parts written back, and
only after the column loop `self.length = source.length`.  A `Clone` panic at the first element of
column `j` unwinds out of the loop: columns `0..j` hold the clones followed by the stale bits of
their cut-off tail, column `j` has lost its tail, the shared length is still the destination's.
Returns the values dropped by the operation and the state left behind. -/
def cloneFromFault (e : Nat) (dst src : List (List Val)) (j : Nat) : List Val × RawArch :=
  let done := (dst.take j).zip (src.take j)
  (done.flatMap (fun p => p.1) ++ ((dst.drop j).headD []).drop ((src.drop j).headD []).length,
   ⟨(dst.headD []).length,
    done.map (fun p => p.2.map (cloneVal e) ++ p.1.drop p.2.length) ++ dst.drop j⟩)

/-- No identity is dropped twice. -/
def NoDoubleDrop (drops : List Val) : Prop := drops.Nodup

/-- Is an (operation, callback) pair panic safe *by construction of the code path* (read-only
traversals, detached values built before being installed, cleanup paths of deserialization)? The
pairs outside this table are the recorded findings. -/
def faultSafe (op cb : String) : Bool :=
  match cb with
  | "PartialEq" | "Debug" | "Serialize" | "Body" => true       -- read-only / caller's own code
  | "Deserialize" => true                                        -- partially built columns are freed or leaked
  | "Clone" =>
    -- the clone is detached until returned; `clone_from` into tables that neither shrink nor
    -- reallocate (a cleared world with capacity, a world with the same rows) only leaks
    op == "clone" || op == "clonefrom-cleared" || op == "clonefrom-same"
  | "Drop" =>
    -- a value's Drop panicking: safe where the value has already left the columns, and in
    -- `clear` since the length-first repair; `remove` and `clone_from` are recorded findings
    op == "drop" || op == "add-overwrite" || op == "write" || op == "del" || op == "add-move" ||
    op == "extend" || op == "clear" || op == "clonefrom-cleared" || op == "clonefrom-same"
  | _ => false

end Brood
