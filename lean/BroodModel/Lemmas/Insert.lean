/-
  `World::insert` / `reserve` / table creation preserve the invariant (C13).
-/
import BroodModel.Lemmas.World

set_option linter.unusedSimpArgs false
set_option linter.unusedVariables false

namespace Brood
open Alloc

theorem lookupH_none {l : List (Mask × Nat)} {m : Mask} (h : lookupH l m = none) :
    ∀ p ∈ l, p.1 ≠ m := by
  unfold lookupH at h
  cases hf : l.find? (fun p => p.1 == m) with
  | some p => simp [hf] at h
  | none =>
    intro p hp e
    have := List.find?_eq_none.mp hf p hp
    simp [e] at this

theorem lookupH_some {l : List (Mask × Nat)} {m : Mask} {hd : Nat} (h : lookupH l m = some hd) :
    (m, hd) ∈ l := by
  unfold lookupH at h
  cases hf : l.find? (fun p => p.1 == m) with
  | none => simp [hf] at h
  | some p =>
    simp [hf] at h
    have hm := List.mem_of_find?_eq_some hf
    have hk : p.1 = m := by simpa using List.find?_some hf
    rw [← hk, ← h]
    exact hm

/-- `lookupOk` only depends on what `findArch` returns for the entry's handle. -/
theorem lookupOk_congr {w w' : World} {p : Mask × Nat} (h : w'.findArch p.2 = w.findArch p.2) :
    lookupOk w' p = lookupOk w p := by
  unfold lookupOk; rw [h]

theorem slotOk_congr {w w' : World} {i : Nat} (ha : w'.alloc = w.alloc)
    (hf : ∀ hd a, w.findArch hd = some a → w'.findArch hd = some a) (h : slotOk w i = true) :
    slotOk w' i = true := by
  apply slotOk_iff.mpr
  intro s hs
  rw [ha] at hs
  obtain ⟨h1, h2⟩ := (slotOk_iff.mp h) s hs
  refine ⟨fun hn => by rw [ha]; exact h1 hn, fun l hl => ?_⟩
  obtain ⟨a, hfa, hrow, hfree⟩ := h2 l hl
  exact ⟨a, hf _ _ hfa, hrow, by rw [ha]; exact hfree⟩

theorem find_append_of_some {l m : List Arch} {hd : Nat} {a : Arch}
    (h : l.find? (fun x => x.handle == hd) = some a) :
    (l ++ m).find? (fun x => x.handle == hd) = some a := by
  rw [List.find?_append, h]; rfl

theorem replicate_zipWith_colOk (k : Nat) (tys : List Nat) :
    (List.zipWith (colOk 0) (List.replicate k ([] : List Val)) tys).all id = true := by
  rw [zipWith_all_iff]
  intro j x y hx hy
  have : x = [] := by
    have := List.getElem?_replicate (a := ([] : List Val)) (n := k) (i := j)
    rw [this] at hx
    split at hx <;> simp_all
  subst this
  simp [colOk]

theorem find_none_of_handles_lt {l : List Arch} {n : Nat} (h : ∀ a ∈ l, a.handle < n) :
    l.find? (fun x => x.handle == n) = none := by
  apply List.find?_eq_none.mpr
  intro a ha
  have := h a ha
  simp; omega

/-- The world after a fresh, empty table for component set `m` has been created. -/
def withNewArch (w : World) (m : Mask) (addTy : Bool) : World :=
  { w with archs := w.archs ++ [Arch.new w.next m],
           foreign := w.foreign ++ [(m, w.next)],
           typeIds := if addTy then w.typeIds ++ [(m, w.next)] else w.typeIds,
           next := w.next + 1 }

theorem findArch_withNewArch_old {w : World} {m : Mask} {b : Bool} {hd : Nat} {a : Arch}
    (h : w.findArch hd = some a) : (withNewArch w m b).findArch hd = some a :=
  find_append_of_some h

theorem findArch_withNewArch_new {w : World} (hi : Inv w) (m : Mask) (b : Bool) :
    (withNewArch w m b).findArch w.next = some (Arch.new w.next m) := by
  unfold World.findArch withNewArch
  simp only
  rw [List.find?_append, find_none_of_handles_lt (fun a ha => (hi.archOk ha).handle_lt)]
  simp [Arch.new]

/-- **Creating a table preserves the invariant**, provided no table for that component set exists
yet (which the lookup by identifier bytes guarantees). -/
theorem withNewArch_inv {w : World} (hi : Inv w) {m : Mask} (hm : m.length = w.n)
    (hnew : ∀ a ∈ w.archs, a.mask ≠ m) (addTy : Bool)
    (hty : addTy = true → ∀ p ∈ w.typeIds, p.1 ≠ m) : Inv (withNewArch w m addTy) := by
  have hold : ∀ hd a, w.findArch hd = some a → (withNewArch w m addTy).findArch hd = some a :=
    fun hd a h => findArch_withNewArch_old h
  have hnewf := findArch_withNewArch_new hi m addTy
  refine
    { free_nodup := hi.free_nodup, free_inactive := hi.free_inactive, slots := ?_, archs := ?_,
      masks_nodup := ?_, handles_nodup := ?_, typeIds := ?_, typeIds_nodup := ?_, foreign := ?_,
      len := ?_ }
  · intro i hlt
    exact slotOk_congr (w := w) (w' := withNewArch w m addTy) rfl hold (hi.slots i hlt)
  · intro x hx
    apply archOk_iff.mpr
    have hx' : x ∈ w.archs ∨ x = Arch.new w.next m := by
      have : x ∈ w.archs ++ [Arch.new w.next m] := hx
      simpa using this
    rcases hx' with hxo | rfl
    · have ok := hi.archOk hxo
      exact
        { mask_len := ok.mask_len, handle_lt := Nat.lt_succ_of_lt ok.handle_lt, cols_len := ok.cols_len,
          cols_all_len := ok.cols_all_len, cols_ok := ok.cols_ok, rows := ok.rows,
          foreign := List.mem_append_left _ ok.foreign }
    · refine
        { mask_len := hm, handle_lt := Nat.lt_succ_self _, cols_len := by simp [Arch.new],
          cols_all_len := ?_, cols_ok := ?_, rows := ?_, foreign := ?_ }
      · intro c hc
        simp only [Arch.new, List.mem_replicate] at hc
        rw [hc.2]; rfl
      · intro k c ty hc _
        have : c = [] := by
          simp only [Arch.new] at hc
          rw [List.getElem?_replicate] at hc
          split at hc <;> simp_all
        subst this
        exact ⟨rfl, by simp⟩
      · intro r id hr
        simp [Arch.new] at hr
      · show (m, w.next) ∈ w.foreign ++ [(m, w.next)]
        simp
  · show ((w.archs ++ [Arch.new w.next m]).map (·.mask)).Nodup
    rw [List.map_append, List.nodup_append]
    refine ⟨hi.masks_nodup, by simp, ?_⟩
    intro x hx y hy hxy
    simp [Arch.new] at hy
    subst hy
    obtain ⟨a, ha, rfl⟩ := List.mem_map.mp hx
    exact hnew a ha hxy
  · show ((w.archs ++ [Arch.new w.next m]).map (·.handle)).Nodup
    rw [List.map_append, List.nodup_append]
    refine ⟨hi.handles_nodup, by simp, ?_⟩
    intro x hx y hy hxy
    simp [Arch.new] at hy
    subst hy
    obtain ⟨a, ha, rfl⟩ := List.mem_map.mp hx
    have := (hi.archOk ha).handle_lt
    omega
  · intro p hp
    have hp' : p ∈ w.typeIds ∨ (addTy = true ∧ p = (m, w.next)) := by
      have : p ∈ (if addTy then w.typeIds ++ [(m, w.next)] else w.typeIds) := hp
      cases addTy with
      | false => left; simpa using this
      | true =>
        simp only [if_true, List.mem_append, List.mem_singleton] at this
        rcases this with h1 | h1
        · exact Or.inl h1
        · exact Or.inr ⟨rfl, h1⟩
    rcases hp' with hpo | ⟨_, rfl⟩
    · have := hi.typeIds p hpo
      unfold lookupOk at this ⊢
      cases hf : w.findArch p.2 with
      | none => simp [hf] at this
      | some a => rw [hold _ _ hf]; simpa [hf] using this
    · unfold lookupOk
      rw [hnewf]; simp [Arch.new]
  · show ((if addTy then w.typeIds ++ [(m, w.next)] else w.typeIds).map (·.1)).Nodup
    cases addTy with
    | false => exact hi.typeIds_nodup
    | true =>
      simp only [if_true, List.map_append, List.map_cons, List.map_nil]
      rw [List.nodup_append]
      refine ⟨hi.typeIds_nodup, by simp, ?_⟩
      intro x hx y hy hxy
      simp at hy
      subst hy
      obtain ⟨p, hp, rfl⟩ := List.mem_map.mp hx
      exact hty rfl p hp hxy
  · intro p hp
    have hp' : p ∈ w.foreign ∨ p = (m, w.next) := by
      have : p ∈ w.foreign ++ [(m, w.next)] := hp
      simpa using this
    rcases hp' with hpo | rfl
    · have := hi.foreign p hpo
      unfold lookupOk at this ⊢
      cases hf : w.findArch p.2 with
      | none => simp [hf] at this
      | some a => rw [hold _ _ hf]; simpa [hf] using this
    · unfold lookupOk
      rw [hnewf]; simp [Arch.new]
  · show w.len = ((w.archs ++ [Arch.new w.next m]).map (·.ids.length)).sum
    simp [Arch.new, hi.len]

/-- What finding-or-creating a table guarantees. -/
structure ArchFor (w w1 : World) (m : Mask) (hd : Nat) : Prop where
  inv : Inv w1
  alloc : w1.alloc = w.alloc
  len : w1.len = w.len
  n : w1.n = w.n
  res : w1.res = w.res
  old : ∀ h a, w.findArch h = some a → w1.findArch h = some a
  found : ∃ a, w1.findArch hd = some a ∧ a.mask = m ∧ (a ∈ w.archs ∨ a = Arch.new w.next m)

theorem no_arch_of_foreign_none {w : World} (hi : Inv w) {m : Mask} (h : lookupH w.foreign m = none) :
    ∀ a ∈ w.archs, a.mask ≠ m := by
  intro a ha
  exact lookupH_none h _ (hi.archOk ha).foreign

theorem lookup_mask {w : World} {p : Mask × Nat} (h : lookupOk w p = true) :
    ∃ a, w.findArch p.2 = some a ∧ a.mask = p.1 := by
  unfold lookupOk at h
  cases hf : w.findArch p.2 with
  | none => simp [hf] at h
  | some a => exact ⟨a, rfl, by simpa [hf] using h⟩

/-- `get_mut_or_insert_new_for_entity` preserves the invariant and returns the table of `m`. -/
theorem archForEntity_inv {w w1 : World} {m : Mask} {hd : Nat} (hi : Inv w) (hm : m.length = w.n)
    (e : w.archForEntity m = .ok (w1, hd)) : ArchFor w w1 m hd := by
  unfold World.archForEntity at e
  cases ht : lookupH w.typeIds m with
  | some h1 =>
    simp only [ht] at e
    obtain ⟨a, hfa, hma⟩ := lookup_mask (hi.typeIds _ (lookupH_some ht))
    simp only [hfa] at e
    simp only [Out.ok.injEq, Prod.mk.injEq] at e
    obtain ⟨rfl, rfl⟩ := e
    exact ⟨hi, rfl, rfl, rfl, rfl, fun _ _ h => h, a, hfa, hma, Or.inl (findArch_some hfa).1⟩
  | none =>
    simp only [ht] at e
    cases hf : lookupH w.foreign m with
    | some h1 =>
      simp only [hf] at e
      obtain ⟨a, hfa, hma⟩ := lookup_mask (hi.foreign _ (lookupH_some hf))
      simp only [hfa] at e
      simp only [Out.ok.injEq, Prod.mk.injEq] at e
      obtain ⟨rfl, rfl⟩ := e
      refine ⟨?_, rfl, rfl, rfl, rfl, fun _ _ h => h, a, hfa, hma, Or.inl (findArch_some hfa).1⟩
      -- only the type-id table grew
      exact
        { free_nodup := hi.free_nodup, free_inactive := hi.free_inactive, slots := hi.slots,
          archs := hi.archs, masks_nodup := hi.masks_nodup, handles_nodup := hi.handles_nodup,
          typeIds := by
            intro p hp
            have hp' : p ∈ w.typeIds ∨ p = (m, h1) := by
              have : p ∈ w.typeIds ++ [(m, h1)] := hp
              simpa using this
            rcases hp' with hpo | rfl
            · exact hi.typeIds p hpo
            · exact hi.foreign _ (lookupH_some hf),
          typeIds_nodup := by
            show ((w.typeIds ++ [(m, h1)]).map (·.1)).Nodup
            rw [List.map_append, List.nodup_append]
            refine ⟨hi.typeIds_nodup, by simp, ?_⟩
            intro x hx y hy hxy
            simp at hy; subst hy
            obtain ⟨p, hp, rfl⟩ := List.mem_map.mp hx
            exact lookupH_none ht p hp hxy,
          foreign := hi.foreign, len := hi.len }
    | none =>
      simp only [hf] at e
      simp only [Out.ok.injEq, Prod.mk.injEq] at e
      obtain ⟨rfl, rfl⟩ := e
      have hinv := withNewArch_inv hi hm (no_arch_of_foreign_none hi hf) true (fun _ => lookupH_none ht)
      have heq : withNewArch w m true =
          { w with archs := w.archs ++ [Arch.new w.next m], foreign := w.foreign ++ [(m, w.next)],
                   typeIds := w.typeIds ++ [(m, w.next)], next := w.next + 1 } := by
        simp [withNewArch]
      rw [heq] at hinv
      refine ⟨hinv, rfl, rfl, rfl, rfl, ?_, Arch.new w.next m, ?_, rfl, Or.inr rfl⟩
      · intro h a hfa
        have := findArch_withNewArch_old (m := m) (b := true) hfa
        rw [heq] at this; exact this
      · have := findArch_withNewArch_new hi m true
        rw [heq] at this; exact this

/-- `get_mut_or_insert_new` (lookup by identifier bytes) preserves the invariant. -/
theorem archForMask_inv {w w1 : World} {m : Mask} {hd : Nat} (hi : Inv w) (hm : m.length = w.n)
    (e : w.archForMask m = .ok (w1, hd)) : ArchFor w w1 m hd := by
  unfold World.archForMask at e
  cases hf : lookupH w.foreign m with
  | some h1 =>
    simp only [hf] at e
    obtain ⟨a, hfa, hma⟩ := lookup_mask (hi.foreign _ (lookupH_some hf))
    simp only [hfa] at e
    simp only [Out.ok.injEq, Prod.mk.injEq] at e
    obtain ⟨rfl, rfl⟩ := e
    exact ⟨hi, rfl, rfl, rfl, rfl, fun _ _ h => h, a, hfa, hma, Or.inl (findArch_some hfa).1⟩
  | none =>
    simp only [hf] at e
    simp only [Out.ok.injEq, Prod.mk.injEq] at e
    obtain ⟨rfl, rfl⟩ := e
    have hinv := withNewArch_inv hi hm (no_arch_of_foreign_none hi hf) false (fun h => by cases h)
    have heq : withNewArch w m false =
        { w with archs := w.archs ++ [Arch.new w.next m], foreign := w.foreign ++ [(m, w.next)],
                 next := w.next + 1 } := by
      simp [withNewArch]
    rw [heq] at hinv
    refine ⟨hinv, rfl, rfl, rfl, rfl, ?_, Arch.new w.next m, ?_, rfl, Or.inr rfl⟩
    · intro h a hfa
      have := findArch_withNewArch_old (m := m) (b := false) hfa
      rw [heq] at this; exact this
    · have := findArch_withNewArch_new hi m false
      rw [heq] at this; exact this

/-- `World::reserve` preserves the invariant. -/
theorem reserve_inv {w w' : World} {shape : List Nat} (hi : Inv w)
    (e : w.reserve shape = .ok w') : Inv w' := by
  unfold World.reserve at e
  cases h1 : w.archForEntity (Mask.ofShape w.n shape) with
  | ub x => simp [h1] at e
  | ok p =>
    obtain ⟨w1, hd⟩ := p
    simp [h1] at e
    subst e
    exact (archForEntity_inv hi (by simp [Mask.ofShape]) h1).inv

/-- What `allocate` does to the slots and the free queue, in lookup form. -/
structure AllocSpec (a a' : Alloc) (loc : Loc) (id : Ident) : Prop where
  slots : ∀ j, a'.slots[j]? = if j = id.index then some ⟨id.gen, some loc⟩ else a.slots[j]?
  free : ∀ j, j ∈ a'.free ↔ (j ∈ a.free ∧ j ≠ id.index)
  nodup : a'.free.Nodup
  was_inactive : ∀ s, a.slots[id.index]? = some s → s.loc = none
  len : a'.slots.length = max a.slots.length (id.index + 1)

theorem allocate_spec {a a' : Alloc} {loc : Loc} {id : Ident} (hi : AInv a)
    (e : a.allocate loc = .ok (a', id)) : AllocSpec a a' loc id := by
  rcases allocate_cases e with ⟨hf, rfl, rfl⟩ | ⟨i, rest, s, hf, hs, rfl, rfl⟩
  · refine ⟨?_, ?_, List.nodup_nil, ?_, by simp⟩
    · intro j
      by_cases hj : j = a.slots.length
      · subst hj; simp
      · simp only [hj, if_false]
        by_cases hlt : j < a.slots.length
        · rw [List.getElem?_append_left hlt]
        · have : a.slots.length < j := by omega
          rw [List.getElem?_eq_none (by simp; omega), List.getElem?_eq_none (by omega)]
    · intro j; simp [hf]
    · intro s hs
      have := (List.getElem?_eq_some_iff.mp hs).1
      simp at this
  · have hnd := hi.nodup
    rw [hf] at hnd
    have hi_notin : i ∉ rest := (List.nodup_cons.mp hnd).1
    have hilt : i < a.slots.length := (List.getElem?_eq_some_iff.mp hs).1
    refine ⟨?_, ?_, (List.nodup_cons.mp hnd).2, ?_, ?_⟩
    · intro j
      by_cases hj : j = i
      · subst hj; simp [hilt]
      · simp only [hj, if_false]
        rw [List.getElem?_set_ne (Ne.symm hj)]
    · intro j
      simp only [hf, List.mem_cons]
      constructor
      · intro hjr
        exact ⟨Or.inr hjr, fun e2 => hi_notin (e2 ▸ hjr)⟩
      · rintro ⟨hj | hj, hne⟩
        · exact absurd hj hne
        · exact hj
    · intro s' hs'
      obtain ⟨t, ht, htl⟩ := hi.inactive i (by simp [hf])
      simp only at hs'
      rw [ht] at hs'; cases hs'; exact htl
    · simp; omega

/-- Appending a row to table `a` for a freshly allocated identifier preserves the invariant. -/
theorem pushRow_inv_spec {w : World} (hi : Inv w) {a a' : Arch} {hd : Nat} (hfa : w.findArch hd = some a)
    {al : Alloc} {id : Ident} {cv : List Val}
    (sp : AllocSpec w.alloc al ⟨hd, a.ids.length⟩ id)
    (hp : a.pushRow cv id = .ok a') :
    Inv { (w.setArch a') with alloc := al, len := w.len + 1 } := by
  obtain ⟨ham, hah⟩ := findArch_some hfa
  subst hah
  have ok := hi.archOk ham
  -- shape of a'
  unfold Arch.pushRow at hp
  by_cases h1 : cv.map (·.ty) ≠ a.mask.comps
  · simp [h1] at hp
  · simp only [h1, if_false] at hp
    by_cases h2 : cv.length ≠ a.cols.length
    · simp [h2] at hp
    · simp only [h2, if_false, Out.ok.injEq] at hp
      subst hp
      have htys : cv.map (·.ty) = a.mask.comps := by simpa using h1
      have hcvlen : cv.length = a.cols.length := by simpa using h2
      -- notation
      have hids : ∀ q, (a.ids ++ [id])[q]? =
          if q < a.ids.length then a.ids[q]? else if q = a.ids.length then some id else none := by
        intro q
        by_cases hq : q < a.ids.length
        · simp [hq, List.getElem?_append_left hq]
        · by_cases hq2 : q = a.ids.length
          · subst hq2; simp
          · simp only [hq, hq2, if_false]
            rw [List.getElem?_eq_none]; simp; omega
      -- a stored identifier is never the fresh one
      have hstored_ne : ∀ (b : Arch), b ∈ w.archs → ∀ (q : Nat) (y : Ident), b.ids[q]? = some y → y.index ≠ id.index := by
        intro b hb q y hy e2
        have hs := (hi.archOk hb).rows q y hy
        rw [e2] at hs
        have := sp.was_inactive _ hs
        simp at this
      have hfind_same : (w.setArch { a with ids := a.ids ++ [id], cols := List.zipWith (fun c v => c ++ [v]) a.cols cv }).findArch a.handle
          = some { a with ids := a.ids ++ [id], cols := List.zipWith (fun c v => c ++ [v]) a.cols cv } :=
        findArch_setArch_same w _ hfa
      have hfind_ne : ∀ h, h ≠ a.handle →
          (w.setArch { a with ids := a.ids ++ [id], cols := List.zipWith (fun c v => c ++ [v]) a.cols cv }).findArch h = w.findArch h :=
        fun h hne => findArch_setArch_ne w _ hne
      refine
        { free_nodup := sp.nodup, free_inactive := ?_, slots := ?_, archs := ?_, masks_nodup := ?_,
          handles_nodup := ?_, typeIds := ?_, typeIds_nodup := hi.typeIds_nodup, foreign := ?_, len := ?_ }
      · intro i hif
        have hif' := (sp.free i).mp hif
        show (al.slots[i]?).map (·.loc) = some none
        rw [sp.slots i]
        simp only [hif'.2, if_false]
        exact hi.free_inactive i hif'.1
      · intro i hlt
        apply slotOk_iff.mpr
        intro s hs
        have hs' : al.slots[i]? = some s := hs
        rw [sp.slots i] at hs'
        show (s.loc = none → i ∈ al.free) ∧ (∀ l, s.loc = some l → ∃ b,
          (w.setArch { a with ids := a.ids ++ [id], cols := List.zipWith (fun c v => c ++ [v]) a.cols cv }).findArch l.arch = some b ∧
          b.ids[l.row]? = some ⟨i, s.gen⟩ ∧ i ∉ al.free)
        by_cases hii : i = id.index
        · simp only [hii, if_true, Option.some.injEq] at hs'
          subst hs'
          refine ⟨fun hn => by simp at hn, ?_⟩
          intro l hl
          simp only [Option.some.injEq] at hl
          subst hl
          refine ⟨_, hfind_same, ?_, ?_⟩
          · show (a.ids ++ [id])[a.ids.length]? = some ⟨i, id.gen⟩
            rw [hids]; simp [hii]
          · intro hmem
            exact ((sp.free i).mp hmem).2 hii
        · simp only [hii, if_false] at hs'
          have hi0 : i < w.alloc.slots.length := (List.getElem?_eq_some_iff.mp hs').1
          obtain ⟨hnone, hsome⟩ := (slotOk_iff.mp (hi.slots i hi0)) s hs'
          refine ⟨fun hn => (sp.free i).mpr ⟨hnone hn, hii⟩, ?_⟩
          intro l hl
          obtain ⟨b, hb, hbrow, hbfree⟩ := hsome l hl
          have hnf : i ∉ al.free := fun hm => hbfree ((sp.free i).mp hm).1
          by_cases hla : l.arch = a.handle
          · have hba : b = a := by rw [hla, hfa] at hb; exact (Option.some.inj hb).symm
            rw [hba] at hbrow
            have hrl : l.row < a.ids.length := (List.getElem?_eq_some_iff.mp hbrow).1
            refine ⟨_, by rw [hla]; exact hfind_same, ?_, hnf⟩
            show (a.ids ++ [id])[l.row]? = some ⟨i, s.gen⟩
            rw [hids, if_pos hrl]; exact hbrow
          · exact ⟨b, by rw [hfind_ne _ hla]; exact hb, hbrow, hnf⟩
      · intro x hx
        apply archOk_iff.mpr
        rcases mem_replaceH (hx : x ∈ replaceH w.archs _) with rfl | ⟨hxm, hxne⟩
        · refine
            { mask_len := ok.mask_len, handle_lt := ok.handle_lt, cols_len := ?_, cols_all_len := ?_,
              cols_ok := ?_, rows := ?_, foreign := ok.foreign }
          · show (List.zipWith (fun c v => c ++ [v]) a.cols cv).length = a.mask.count
            rw [List.length_zipWith, hcvlen, Nat.min_self]; exact ok.cols_len
          · intro c hc
            show c.length = (a.ids ++ [id]).length
            obtain ⟨k, hk⟩ := List.getElem?_of_mem hc
            rw [List.getElem?_zipWith] at hk
            cases hck : a.cols[k]? with
            | none => simp [hck] at hk
            | some c0 =>
              cases hvk : cv[k]? with
              | none => simp [hck, hvk] at hk
              | some v =>
                simp [hck, hvk] at hk
                subst hk
                have := ok.cols_all_len c0 (List.mem_of_getElem? hck)
                simp [this]
          · intro k c ty hc hty
            show c.length = (a.ids ++ [id]).length ∧ ∀ v ∈ c, v.ty = ty
            have hc' : (List.zipWith (fun c v => c ++ [v]) a.cols cv)[k]? = some c := hc
            rw [List.getElem?_zipWith] at hc'
            cases hck : a.cols[k]? with
            | none => simp [hck] at hc'
            | some c0 =>
              cases hvk : cv[k]? with
              | none => simp [hck, hvk] at hc'
              | some v =>
                simp [hck, hvk] at hc'
                subst hc'
                obtain ⟨hl, hty0⟩ := ok.cols_ok k c0 ty hck hty
                have hvty : v.ty = ty := by
                  have : (cv.map (·.ty))[k]? = some v.ty := by simp [hvk]
                  rw [htys, hty] at this
                  exact (Option.some.inj this).symm
                refine ⟨by simp [hl], ?_⟩
                intro x hx
                simp at hx
                rcases hx with hx | rfl
                · exact hty0 x hx
                · exact hvty
          · intro q y hq
            show al.slots[y.index]? = some ⟨y.gen, some ⟨a.handle, q⟩⟩
            have hq' : (a.ids ++ [id])[q]? = some y := hq
            rw [hids] at hq'
            by_cases hql : q < a.ids.length
            · simp only [hql, if_true] at hq'
              rw [sp.slots, if_neg (hstored_ne a ham q y hq')]
              exact ok.rows q y hq'
            · simp only [hql, if_false] at hq'
              by_cases hqe : q = a.ids.length
              · simp only [hqe, if_true, Option.some.injEq] at hq'
                subst hq'
                rw [sp.slots]; simp [hqe]
              · simp [hqe] at hq'
        · have okx := hi.archOk hxm
          refine
            { mask_len := okx.mask_len, handle_lt := okx.handle_lt, cols_len := okx.cols_len,
              cols_all_len := okx.cols_all_len, cols_ok := okx.cols_ok, rows := ?_, foreign := okx.foreign }
          intro q y hq
          show al.slots[y.index]? = some ⟨y.gen, some ⟨x.handle, q⟩⟩
          rw [sp.slots, if_neg (hstored_ne x hxm q y hq)]
          exact okx.rows q y hq
      · show ((replaceH w.archs _).map (·.mask)).Nodup
        rw [replaceH_masks (a := a)
          (a' := { a with ids := a.ids ++ [id], cols := List.zipWith (fun c v => c ++ [v]) a.cols cv })
          hi.handles_nodup ham rfl rfl]
        exact hi.masks_nodup
      · show ((replaceH w.archs _).map (·.handle)).Nodup
        rw [replaceH_handles]
        exact hi.handles_nodup
      · intro p hp
        have := hi.typeIds p hp
        unfold lookupOk at this ⊢
        show (match (w.setArch _).findArch p.2 with | some b => b.mask == p.1 | none => false) = true
        by_cases hp2 : p.2 = a.handle
        · rw [hp2, hfind_same]; rw [hp2, hfa] at this; exact this
        · rw [hfind_ne _ hp2]; exact this
      · intro p hp
        have := hi.foreign p hp
        unfold lookupOk at this ⊢
        show (match (w.setArch _).findArch p.2 with | some b => b.mask == p.1 | none => false) = true
        by_cases hp2 : p.2 = a.handle
        · rw [hp2, hfind_same]; rw [hp2, hfa] at this; exact this
        · rw [hfind_ne _ hp2]; exact this
      · show w.len + 1 = ((replaceH w.archs _).map (·.ids.length)).sum
        have hsum := replaceH_len_sum (a := a)
          (a' := { a with ids := a.ids ++ [id], cols := List.zipWith (fun c v => c ++ [v]) a.cols cv })
          hi.handles_nodup ham rfl
        simp only [List.length_append, List.length_singleton] at hsum
        rw [hi.len]; omega

theorem pushRow_inv {w : World} (hi : Inv w) {a a' : Arch} {hd : Nat} (hfa : w.findArch hd = some a)
    {al : Alloc} {id : Ident} {cv : List Val}
    (hal : w.alloc.allocate ⟨hd, a.ids.length⟩ = .ok (al, id))
    (hp : a.pushRow cv id = .ok a') :
    Inv { (w.setArch a') with alloc := al, len := w.len + 1 } :=
  pushRow_inv_spec hi hfa (allocate_spec hi.ainv hal) hp

/-- **`insert` preserves the invariant** (C13): whichever way the table is found (by entity type,
by identifier bytes, or created) and whether the identifier reuses a freed slot or a new one. -/
theorem insert_inv {w w' : World} {shape : List Nat} {vals : List Val} {id : Ident} (hi : Inv w)
    (e : w.insert shape vals = .ok (w', id)) : Inv w' := by
  unfold World.insert at e
  cases h1 : w.archForEntity (Mask.ofShape w.n shape) with
  | ub x => simp [h1] at e
  | ok p =>
    obtain ⟨w1, hd⟩ := p
    have af := archForEntity_inv hi (by simp [Mask.ofShape]) h1
    simp only [h1] at e
    cases h2 : w1.getArch hd with
    | ub x => simp [h2] at e
    | ok a =>
      have hfa : w1.findArch hd = some a := by
        unfold World.getArch at h2
        cases hf : w1.findArch hd with
        | none => simp [hf] at h2
        | some b => simp [hf] at h2; subst h2; rfl
      simp only [h2] at e
      cases h3 : w1.alloc.allocate ⟨hd, a.ids.length⟩ with
      | ub x => simp [h3] at e
      | ok q =>
        obtain ⟨al, nid⟩ := q
        simp only [h3] at e
        cases h4 : a.pushRow (World.canonVals w.n shape vals) nid with
        | ub x => simp [h4] at e
        | ok a' =>
          simp only [h4, Out.ok.injEq, Prod.mk.injEq] at e
          obtain ⟨rfl, rfl⟩ := e
          exact pushRow_inv af.inv hfa h3 h4

end Brood
