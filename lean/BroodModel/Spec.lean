/-
  BroodModel.Spec — layer L0: the reference a user has in mind.  A world is a finite map from
  live identifiers to component sets (plus resources).  Fresh identifiers are *chosen by the
  implementation*: the spec accepts any identifier never issued before in that world's lifetime.

  The driver runs this spec on the *real* results (the identifiers the real code returned) and
  compares `abs` of every real dump with it: an oracle that is independent of the L1 model and of
  every storage policy (slot reuse order, row order, table layout).
-/
import BroodModel.Query

namespace Brood

structure Ent where
  id : Ident
  /-- component values, sorted by component position -/
  vals : List Val
deriving DecidableEq, Repr, Inhabited

structure Spec where
  ents : List Ent
  res : List Val
  /-- ghost: every identifier ever issued in this world's lifetime -/
  issued : List Ident
deriving Repr, Inhabited

namespace Spec

def empty (res : List Val) : Spec := ⟨[], res, []⟩

def find (s : Spec) (id : Ident) : Option Ent := s.ents.find? (fun e => e.id == id)

def contains (s : Spec) (id : Ident) : Bool := s.ents.any (fun e => e.id == id)

def insertVal (v : Val) : List Val → List Val
  | [] => [v]
  | x :: xs => if v.ty < x.ty then v :: x :: xs else if v.ty = x.ty then v :: xs else x :: insertVal v xs

def sortVals (vs : List Val) : List Val := vs.foldr insertVal []

/-- `insert`: the implementation chose `id`; it must be fresh for the whole history. -/
def insert (s : Spec) (id : Ident) (vals : List Val) : Option Spec :=
  if s.issued.contains id then none
  else some { s with ents := s.ents ++ [⟨id, sortVals vals⟩], issued := id :: s.issued }

def extend (s : Spec) : List Ident → List (List Val) → Option Spec
  | [], [] => some s
  | id :: ids, r :: rs =>
    match s.insert id r with
    | some s' => extend s' ids rs
    | none => none
  | _, _ => none

def remove (s : Spec) (id : Ident) : Spec := { s with ents := s.ents.filter (fun e => !(e.id == id)) }

def clear (s : Spec) : Spec := { s with ents := [] }

def modify (s : Spec) (id : Ident) (f : List Val → List Val) : Spec :=
  { s with ents := s.ents.map (fun e => if e.id == id then ⟨e.id, f e.vals⟩ else e) }

/-- `Entry::add`: set component `c` (replacing a present value). -/
def add (s : Spec) (id : Ident) (v : Val) : Spec := s.modify id (insertVal v)

/-- `Entry::remove`. -/
def del (s : Spec) (id : Ident) (c : Nat) : Spec := s.modify id (fun vs => vs.filter (fun v => v.ty ≠ c))

/-- write through a mutable view: only if the component is present. -/
def write (s : Spec) (id : Ident) (v : Val) : Spec :=
  s.modify id (fun vs => if vs.any (fun x => x.ty == v.ty) then insertVal v vs else vs)

def copy (s : Spec) (e : Nat) : Spec :=
  { ents := s.ents.map (fun x => ⟨x.id, x.vals.map (cloneVal e)⟩), res := s.res.map (cloneVal e),
    issued := s.issued }

def maskOf (n : Nat) (vs : List Val) : Mask := (List.range n).map (fun c => vs.any (fun v => v.ty == c))

/-- Which entities a query must return and with which cells. -/
def cellOf (e : Ent) : View → Cell
  | .ident => .id e.id
  | .ref c | .mut c | .oref c | .omut c =>
    match e.vals.find? (fun v => v.ty == c) with
    | some v => .val v
    | none => .absent

def query (n : Nat) (s : Spec) (vs : List View) (f : Filter) : List (List Cell) :=
  (s.ents.filter (fun e => specMatches vs f (maskOf n e.vals))).map (fun e => vs.map (cellOf e))

/-- Writing through every mutable view of a query. -/
def queryWrite (n : Nat) (s : Spec) (vs : List View) (f : Filter) (ep : Nat) : Spec :=
  let cs := (vs.filter View.isMut).filterMap View.comp?
  { s with ents := s.ents.map (fun e =>
      if specMatches vs f (maskOf n e.vals) then
        ⟨e.id, e.vals.map (fun v => if cs.contains v.ty then cloneVal ep v else v)⟩
      else e) }

def entStr (k : Kinds) (e : Ent) : String :=
  s!"{e.id.index}.{e.id.gen}:" ++ String.intercalate "," (e.vals.map (dropStr k))

/-- Canonical text of the map (sorted by identifier text). -/
def render (k : Kinds) (s : Spec) : String :=
  String.intercalate ";" (sortStrings (s.ents.map (entStr k)))

end Spec

/-- `abs`: the map an L1 world (or a parsed real dump) denotes — every row of every table. -/
def World.abs (w : World) : List Ent :=
  w.archs.flatMap (fun a =>
    (List.range a.ids.length).filterMap (fun r =>
      match a.ids[r]? with
      | some id => some ⟨id, Spec.sortVals (a.cols.filterMap (fun c => c[r]?))⟩
      | none => none))

def World.absStr (k : Kinds) (w : World) : String :=
  String.intercalate ";" (sortStrings (w.abs.map (Spec.entStr k)))

end Brood
