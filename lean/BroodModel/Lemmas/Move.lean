/-
  Shape changes (`Entry::add` of a new component, `Entry::remove`) preserve the invariant: the row
  is popped (swap-remove with location fix-up), the target table is found or created by identifier
  bytes, the row is pushed there and the entity's slot is re-pointed.  The identifier stays live
  and keeps its generation throughout.
-/
import BroodModel.Lemmas.Remove
import BroodModel.Lemmas.Insert
import BroodModel.Lemmas.Write

set_option linter.unusedSimpArgs false
set_option linter.unusedVariables false

namespace Brood
open Alloc

/-- Allocator after `pop_row_unchecked`: only the moved last row's slot is updated. -/
def fixAlloc (al : Alloc) (last : Ident) (h r len : Nat) : Alloc :=
  ⟨if r < len - 1 then al.slots.set last.index ⟨last.gen, some ⟨h, r⟩⟩ else al.slots, al.free⟩

theorem removeAlloc_eq_fix (al : Alloc) (id last : Ident) (h r len : Nat) :
    removeAlloc al id last h r len =
      ⟨(fixAlloc al last h r len).slots.set id.index ⟨id.gen, none⟩, al.free ++ [id.index]⟩ := rfl

/-- `takeRowAt` in closed form under the invariant. -/
theorem takeRowAt_eq {w : World} (h : Inv w) {id : Ident} {a : Arch} {r : Nat} (la : LiveAt w id a r)
    {last : Ident} (hlast : a.ids[a.ids.length - 1]? = some last) :
    w.takeRowAt a.handle r =
      .ok ({ (w.setArch (removedArch a r)) with alloc := fixAlloc w.alloc last a.handle r a.ids.length },
           a.cols.filterMap (fun c => c[r]?), id) := by
  have hslot_last : w.alloc.slots[last.index]? = some ⟨last.gen, some ⟨a.handle, a.ids.length - 1⟩⟩ :=
    la.ok.rows _ last hlast
  unfold World.takeRowAt World.getArch
  simp only [la.find, Out.ofOption_some, takeRow_ok la.ok la.row]
  by_cases hmid : r < a.ids.length - 1
  · simp only [hmid, if_true, getLast?_of_getElem? hlast]
    simp [Alloc.setRow, hslot_last, fixAlloc, hmid]
  · simp [hmid, fixAlloc]

/-- `archForMask` ignores the allocator and `len`. -/
theorem archForMask_frame {u : World} {m : Mask} {u2 : World} {hd : Nat} (al : Alloc) (ln : Nat)
    (e : u.archForMask m = .ok (u2, hd)) :
    ({ u with alloc := al, len := ln } : World).archForMask m = .ok ({ u2 with alloc := al, len := ln }, hd) ∧
      u2.alloc = u.alloc ∧ u2.len = u.len := by
  unfold World.archForMask at e ⊢
  have hf : ∀ h, ({ u with alloc := al, len := ln } : World).findArch h = u.findArch h := fun _ => rfl
  simp only [hf]
  cases hl : lookupH u.foreign m with
  | some h1 =>
    simp only [hl] at e ⊢
    cases hfa : u.findArch h1 with
    | none => simp [hfa] at e
    | some a =>
      simp only [hfa, Out.ok.injEq, Prod.mk.injEq] at e ⊢
      obtain ⟨rfl, rfl⟩ := e
      exact ⟨⟨rfl, rfl⟩, rfl, rfl⟩
  | none =>
    simp only [hl, Out.ok.injEq, Prod.mk.injEq] at e ⊢
    obtain ⟨rfl, rfl⟩ := e
    exact ⟨⟨rfl, rfl⟩, rfl, rfl⟩

theorem ids_length_le_sum {l : List Arch} {a : Arch} (h : a ∈ l) :
    a.ids.length ≤ (l.map (·.ids.length)).sum := by
  induction l with
  | nil => simp at h
  | cons b bs ih =>
    simp only [List.map_cons, List.sum_cons]
    rcases List.mem_cons.mp h with rfl | hm2
    · omega
    · have := ih hm2; omega

/-- **Moving a live entity's row to another table preserves the invariant.**  `cv` is whatever
row the caller pushes into the target (the popped values with one component added or skipped);
it only has to be accepted by `pushRow` (right number of values, right component types). -/
theorem moveRow_inv {w : World} (hi : Inv w) {id : Ident} {a : Arch} {r : Nat} (la : LiveAt w id a r)
    {last : Ident} (hlast : a.ids[a.ids.length - 1]? = some last)
    {m' : Mask} (hm : m'.length = w.n) {w2 : World} {h' : Nat}
    (hfm : ({ (w.setArch (removedArch a r)) with alloc := fixAlloc w.alloc last a.handle r a.ids.length } : World).archForMask m'
        = .ok (w2, h'))
    {t t' : Arch} (hft : w2.findArch h' = some t) {cv : List Val} (hp : t.pushRow cv id = .ok t')
    {al : Alloc} (hset : w2.alloc.setLoc id ⟨h', t.ids.length⟩ = .ok al) :
    Inv { (w2.setArch t') with alloc := al } := by
  have hr : r < a.ids.length := (List.getElem?_eq_some_iff.mp la.row).1
  -- the world after `remove id` satisfies the invariant
  have hrem := remove_eq hi la hlast
  have hir : Inv ({ (w.setArch (removedArch a r)) with
      alloc := removeAlloc w.alloc id last a.handle r a.ids.length, len := w.len - 1 } : World) :=
    remove_inv hi hrem
  -- the table lookup does not depend on the allocator
  obtain ⟨hfm', hal2, hlen2⟩ := archForMask_frame (removeAlloc w.alloc id last a.handle r a.ids.length) (w.len - 1) hfm
  have af := archForMask_inv hir (by simpa [World.setArch] using hm) hfm'
  have hft' : ({ w2 with alloc := removeAlloc w.alloc id last a.handle r a.ids.length, len := w.len - 1 } : World).findArch h'
      = some t := hft
  -- slot of `id` before and after
  have hslot_id : w.alloc.slots[id.index]? = some ⟨id.gen, some ⟨a.handle, r⟩⟩ := la.ok.rows r id la.row
  have hslot_last : w.alloc.slots[last.index]? = some ⟨last.gen, some ⟨a.handle, a.ids.length - 1⟩⟩ :=
    la.ok.rows _ last hlast
  have hid_lt : id.index < w.alloc.slots.length := (List.getElem?_eq_some_iff.mp hslot_id).1
  have hfix_len : (fixAlloc w.alloc last a.handle r a.ids.length).slots.length = w.alloc.slots.length := by
    simp [fixAlloc]; split <;> simp
  have hfix_id : (fixAlloc w.alloc last a.handle r a.ids.length).slots[id.index]? =
      some ⟨id.gen, some ⟨a.handle, r⟩⟩ := by
    unfold fixAlloc
    by_cases hmid : r < a.ids.length - 1
    · have hne : last.index ≠ id.index := by
        intro e
        rw [e, hslot_id] at hslot_last
        simp at hslot_last; omega
      simp only [hmid, if_true]
      rw [List.getElem?_set_ne hne]; exact hslot_id
    · simp only [hmid, if_false]; exact hslot_id
  have hid_notfree : id.index ∉ w.alloc.free := by
    have := (slotOk_iff.mp (hi.slots _ hid_lt)) _ hslot_id
    obtain ⟨_, _, _, hnf⟩ := this.2 _ rfl
    exact hnf
  -- the final allocator
  have hal : al = ⟨(fixAlloc w.alloc last a.handle r a.ids.length).slots.set id.index
      ⟨id.gen, some ⟨h', t.ids.length⟩⟩, w.alloc.free⟩ := by
    rw [hal2] at hset
    simp only [Alloc.setLoc] at hset
    have : (fixAlloc w.alloc last a.handle r a.ids.length).slots[id.index]? = some ⟨id.gen, some ⟨a.handle, r⟩⟩ := hfix_id
    rw [this] at hset
    simp only [Out.ok.injEq] at hset
    rw [← hset]; rfl
  -- reactivating the retired slot is an `AllocSpec`
  have sp : AllocSpec (removeAlloc w.alloc id last a.handle r a.ids.length) al ⟨h', t.ids.length⟩ id := by
    rw [hal, removeAlloc_eq_fix]
    refine ⟨?_, ?_, hi.free_nodup, ?_, ?_⟩
    · intro j
      by_cases hj : j = id.index
      · subst hj
        simp [hfix_len, hid_lt]
      · simp only [hj, if_false]
        rw [List.getElem?_set_ne (Ne.symm hj), List.getElem?_set_ne (Ne.symm hj)]
    · intro j
      simp only [List.mem_append, List.mem_singleton]
      constructor
      · intro hjf
        exact ⟨Or.inl hjf, fun e => hid_notfree (e ▸ hjf)⟩
      · rintro ⟨hjf | hjf, hne⟩
        · exact hjf
        · exact absurd hjf hne
    · intro s hs
      simp only at hs
      rw [List.getElem?_set_self (by rw [hfix_len]; exact hid_lt)] at hs
      cases hs; rfl
    · simp [hfix_len]
      omega
  have hfinal := pushRow_inv_spec af.inv hft' sp hp
  -- `len`: one row left, one row arrived
  have hlen_pos : 1 ≤ w.len := by
    have hs := hi.len
    have : a.ids.length ≤ (w.archs.map (·.ids.length)).sum := ids_length_le_sum la.mem
    omega
  have hlen : w.len - 1 + 1 = w2.len := by
    rw [hlen2]; simp only [World.setArch]; omega
  show Inv ⟨w2.n, replaceH w2.archs t', w2.typeIds, w2.foreign, al, w2.len, w2.res, w2.next⟩
  rw [← hlen]
  exact hfinal

end Brood

namespace Brood
open Alloc

theorem getArch_ok {w : World} {h : Nat} {a : Arch} (e : w.getArch h = .ok a) : w.findArch h = some a := by
  unfold World.getArch at e
  cases hf : w.findArch h with
  | none => simp [hf] at e
  | some b => simp [hf] at e; subst e; rfl

/-- **`Entry::add` preserves the invariant** (overwrite in place, or move to the table with the
component added — found by identifier bytes or created). -/
theorem entryAdd_inv {w w' : World} {id : Ident} {c : Nat} {v : Val} {res : Option (List Val)}
    (hi : Inv w) (e : w.entryAdd id c v = .ok (w', res)) : Inv w' := by
  unfold World.entryAdd at e
  cases hg : w.alloc.get id with
  | none => simp [hg] at e; obtain ⟨rfl, _⟩ := e; exact hi
  | some loc =>
    simp only [hg] at e
    obtain ⟨a, la, hh⟩ := hi.liveAt hg
    have hga : w.getArch loc.arch = .ok a := by
      unfold World.getArch; rw [← hh, la.find]; rfl
    simp only [hga] at e
    by_cases hc : a.mask.has c
    · -- overwrite in place
      simp only [hc, if_true] at e
      cases hcol : a.cols[colIndex a.mask c]? with
      | none => simp [hcol] at e
      | some col =>
        simp only [hcol] at e
        cases hold : col[loc.row]? with
        | none => simp [hold] at e
        | some old =>
          simp only [hold] at e
          by_cases hbad : old.ty ≠ c ∨ v.ty ≠ c
          · simp [hbad] at e
          · simp only [hbad, if_false, Out.ok.injEq, Prod.mk.injEq] at e
            obtain ⟨rfl, _⟩ := e
            have h1 : old.ty = c := by
              apply Classical.byContradiction; intro h; exact hbad (Or.inl h)
            have h2 : v.ty = c := by
              apply Classical.byContradiction; intro h; exact hbad (Or.inr h)
            exact setCell_inv hi la.mem hcol hold (by rw [h1, h2])
    · -- move to the table with the component added
      simp only [hc, Bool.false_eq_true, if_false] at e
      have hr : loc.row < a.ids.length := (List.getElem?_eq_some_iff.mp la.row).1
      have hne0 : a.ids.length - 1 < a.ids.length := by omega
      have hlast : a.ids[a.ids.length - 1]? = some a.ids[a.ids.length - 1] := List.getElem?_eq_getElem hne0
      rw [← hh, takeRowAt_eq hi la hlast] at e
      simp only at e
      cases hfm : ({ (w.setArch (removedArch a loc.row)) with
          alloc := fixAlloc w.alloc a.ids[a.ids.length - 1] a.handle loc.row a.ids.length } : World).archForMask
          (World.setBit a.mask c true) with
      | ub x => simp [hfm] at e
      | ok p =>
        obtain ⟨w2, h'⟩ := p
        simp only [hfm] at e
        cases hgt : w2.getArch h' with
        | ub x => simp [hgt] at e
        | ok t =>
          simp only [hgt] at e
          cases hp : t.pushRow (World.insertAt (a.cols.filterMap (fun c => c[loc.row]?))
              (colIndex (World.setBit a.mask c true) c) v) id with
          | ub x => simp [hp] at e
          | ok t' =>
            simp only [hp] at e
            cases hset : w2.alloc.setLoc id ⟨h', t.ids.length⟩ with
            | ub x => simp [hset] at e
            | ok al =>
              simp only [hset, Out.ok.injEq, Prod.mk.injEq] at e
              obtain ⟨rfl, _⟩ := e
              exact moveRow_inv hi la hlast (by simp [World.setBit, la.ok.mask_len]) hfm
                (getArch_ok hgt) hp hset

/-- **`Entry::remove` preserves the invariant.** -/
theorem entryRemove_inv {w w' : World} {id : Ident} {c : Nat} {res : Option (List Val)}
    (hi : Inv w) (e : w.entryRemove id c = .ok (w', res)) : Inv w' := by
  unfold World.entryRemove at e
  cases hg : w.alloc.get id with
  | none => simp [hg] at e; obtain ⟨rfl, _⟩ := e; exact hi
  | some loc =>
    simp only [hg] at e
    obtain ⟨a, la, hh⟩ := hi.liveAt hg
    have hga : w.getArch loc.arch = .ok a := by
      unfold World.getArch; rw [← hh, la.find]; rfl
    simp only [hga] at e
    by_cases hc : a.mask.has c
    · simp only [hc, if_true] at e
      have hr : loc.row < a.ids.length := (List.getElem?_eq_some_iff.mp la.row).1
      have hne0 : a.ids.length - 1 < a.ids.length := by omega
      have hlast : a.ids[a.ids.length - 1]? = some a.ids[a.ids.length - 1] := List.getElem?_eq_getElem hne0
      rw [← hh, takeRowAt_eq hi la hlast] at e
      simp only at e
      cases hfm : ({ (w.setArch (removedArch a loc.row)) with
          alloc := fixAlloc w.alloc a.ids[a.ids.length - 1] a.handle loc.row a.ids.length } : World).archForMask
          (World.setBit a.mask c false) with
      | ub x => simp [hfm] at e
      | ok p =>
        obtain ⟨w2, h'⟩ := p
        simp only [hfm] at e
        cases hgt : w2.getArch h' with
        | ub x => simp [hgt] at e
        | ok t =>
          simp only [hgt] at e
          cases hp : t.pushRow ((a.cols.filterMap (fun c => c[loc.row]?)).eraseIdx (colIndex a.mask c)) id with
          | ub x => simp [hp] at e
          | ok t' =>
            simp only [hp] at e
            cases hset : w2.alloc.setLoc id ⟨h', t.ids.length⟩ with
            | ub x => simp [hset] at e
            | ok al =>
              simp only [hset, Out.ok.injEq, Prod.mk.injEq] at e
              obtain ⟨rfl, _⟩ := e
              exact moveRow_inv hi la hlast (by simp [World.setBit, la.ok.mask_len]) hfm
                (getArch_ok hgt) hp hset
    · simp [hc] at e; obtain ⟨rfl, _⟩ := e; exact hi

end Brood
