//! Component / resource types of the harness: four kinds (small, zero-sized, over-aligned, heap
//! owning), each carrying a ledger identity where it has room, each with observing
//! `Drop`/`Clone`/`PartialEq`/`Debug`/`Serialize`/`Deserialize` that can be told to panic at the
//! k-th call.

use serde::{de, Deserialize, Deserializer, Serialize, Serializer};
use std::collections::HashMap;
use std::sync::atomic::{AtomicI64, AtomicU64, Ordering};
use std::sync::Mutex;

pub const EPOCH_BASE: u64 = 1 << 20;

/// Epoch added to identities created by `Clone` / `Deserialize` during the current op.
pub static EPOCH: AtomicU64 = AtomicU64::new(0);

#[derive(Clone, Copy, Debug, PartialEq, Eq)]
#[repr(u8)]
pub enum Callback {
    Drop = 0,
    Clone = 1,
    Eq = 2,
    Debug = 3,
    Serialize = 4,
    Deserialize = 5,
    Body = 6,
}

/// Remaining calls of each callback kind before a panic is injected (-1 = never).
pub static FAULT: [AtomicI64; 7] = [
    AtomicI64::new(-1),
    AtomicI64::new(-1),
    AtomicI64::new(-1),
    AtomicI64::new(-1),
    AtomicI64::new(-1),
    AtomicI64::new(-1),
    AtomicI64::new(-1),
];
/// Number of calls of each callback kind since the last reset.
pub static CALLS: [AtomicU64; 7] = [
    AtomicU64::new(0),
    AtomicU64::new(0),
    AtomicU64::new(0),
    AtomicU64::new(0),
    AtomicU64::new(0),
    AtomicU64::new(0),
    AtomicU64::new(0),
];

pub fn arm(cb: Callback, k: i64) {
    for f in FAULT.iter() {
        f.store(-1, Ordering::SeqCst);
    }
    for c in CALLS.iter() {
        c.store(0, Ordering::SeqCst);
    }
    FAULT[cb as usize].store(k, Ordering::SeqCst);
}

pub fn disarm() {
    for f in FAULT.iter() {
        f.store(-1, Ordering::SeqCst);
    }
}

pub fn calls(cb: Callback) -> u64 {
    CALLS[cb as usize].load(Ordering::SeqCst)
}

/// Called at the start of every user callback; panics when the armed position is reached.
pub fn tick(cb: Callback) {
    CALLS[cb as usize].fetch_add(1, Ordering::SeqCst);
    let f = &FAULT[cb as usize];
    let v = f.load(Ordering::SeqCst);
    if v == 0 {
        f.store(-1, Ordering::SeqCst);
        panic!("injected fault in {:?}", cb);
    } else if v > 0 {
        f.store(v - 1, Ordering::SeqCst);
    }
}

#[derive(Default)]
pub struct Ledger {
    /// live identified values: (tag, id) -> count (must be 0/1)
    pub live: HashMap<(usize, u64), u32>,
    /// live zero-sized values per tag
    pub zst: HashMap<usize, i64>,
    /// drops since the last `take_drops`, as (tag, Some(id)) or (tag, None) for ZSTs
    pub drops: Vec<(usize, Option<u64>)>,
    /// anomalies: double drop, drop of unknown value, checksum failure
    pub errors: Vec<String>,
    pub created: u64,
    pub dropped: u64,
}

pub static LEDGER: Mutex<Option<Ledger>> = Mutex::new(None);

pub fn with_ledger<T>(f: impl FnOnce(&mut Ledger) -> T) -> T {
    // the ledger's own memory is the harness's, not the library's
    let was = crate::alloc_audit::set_in_lib(false);
    let r = {
        let mut g = LEDGER.lock().unwrap_or_else(|e| e.into_inner());
        if g.is_none() {
            *g = Some(Ledger::default());
        }
        f(g.as_mut().unwrap())
    };
    crate::alloc_audit::set_in_lib(was);
    r
}

/// Run harness bookkeeping outside the library-allocation window.
pub fn no_lib<T>(f: impl FnOnce() -> T) -> T {
    let was = crate::alloc_audit::set_in_lib(false);
    let r = f();
    crate::alloc_audit::set_in_lib(was);
    r
}

pub fn reset_ledger() {
    let was = crate::alloc_audit::set_in_lib(false);
    {
        let mut g = LEDGER.lock().unwrap_or_else(|e| e.into_inner());
        *g = Some(Ledger::default());
    }
    crate::alloc_audit::set_in_lib(was);
}

pub fn take_drops() -> Vec<(usize, Option<u64>)> {
    with_ledger(|l| std::mem::take(&mut l.drops))
}

pub fn take_errors() -> Vec<String> {
    with_ledger(|l| std::mem::take(&mut l.errors))
}

fn created(tag: usize, id: Option<u64>) {
    with_ledger(|l| {
        l.created += 1;
        match id {
            Some(id) => {
                let e = l.live.entry((tag, id)).or_insert(0);
                // identities may legitimately repeat (a mutated serialization can carry the same
                // number twice): the ledger is a multiset
                *e += 1;
            }
            None => *l.zst.entry(tag).or_insert(0) += 1,
        }
    })
}

fn dropped(tag: usize, id: Option<u64>) {
    with_ledger(|l| {
        l.dropped += 1;
        l.drops.push((tag, id));
        match id {
            Some(id) => match l.live.get_mut(&(tag, id)) {
                Some(n) if *n > 0 => {
                    *n -= 1;
                    if *n == 0 {
                        l.live.remove(&(tag, id));
                    }
                }
                _ => l.errors.push(format!("double-or-unknown-drop {}:{}", tag, id)),
            },
            None => {
                let e = l.zst.entry(tag).or_insert(0);
                *e -= 1;
                if *e < 0 {
                    l.errors.push(format!("double-or-unknown-drop {}:z", tag));
                    *e = 0;
                }
            }
        }
    })
}

pub fn ledger_error(msg: String) {
    with_ledger(|l| l.errors.push(msg));
}

pub fn live_count() -> usize {
    with_ledger(|l| l.live.len() + l.zst.values().map(|v| *v as usize).sum::<usize>())
}

fn clone_id(id: u64) -> u64 {
    id % EPOCH_BASE + EPOCH.load(Ordering::SeqCst) * EPOCH_BASE
}

pub trait Comp:
    Sized + Clone + PartialEq + std::fmt::Debug + Serialize + for<'de> Deserialize<'de> + Send + Sync + 'static
{
    const TAG: usize;
    const KIND: char;
    fn mk(id: u64) -> Self;
    /// identity (0 for zero-sized kinds); verifies the self-check of the value
    fn ident(&self) -> u64;
}

macro_rules! common_impls {
    ($name:ident, $kind:expr, $has_id:expr) => {
        impl<const T: usize> Drop for $name<T> {
            fn drop(&mut self) {
                // record first, then maybe panic: the value counts as dropped either way
                let id = if $has_id { Some(self.raw_ident()) } else { None };
                dropped(T, id);
                if !std::thread::panicking() {
                    tick(Callback::Drop);
                }
            }
        }
        impl<const T: usize> Clone for $name<T> {
            fn clone(&self) -> Self {
                tick(Callback::Clone);
                Self::mk(clone_id(self.ident()))
            }
        }
        impl<const T: usize> PartialEq for $name<T> {
            fn eq(&self, other: &Self) -> bool {
                tick(Callback::Eq);
                self.ident() % EPOCH_BASE == other.ident() % EPOCH_BASE
            }
        }
        impl<const T: usize> Eq for $name<T> {}
        impl<const T: usize> std::fmt::Debug for $name<T> {
            fn fmt(&self, f: &mut std::fmt::Formatter<'_>) -> std::fmt::Result {
                tick(Callback::Debug);
                write!(f, "{}{}({})", $kind, T, self.ident())
            }
        }
        impl<const T: usize> Serialize for $name<T> {
            fn serialize<Ser: Serializer>(&self, s: Ser) -> Result<Ser::Ok, Ser::Error> {
                tick(Callback::Serialize);
                s.serialize_u64(self.ident())
            }
        }
        impl<'de, const T: usize> Deserialize<'de> for $name<T> {
            fn deserialize<D: Deserializer<'de>>(d: D) -> Result<Self, D::Error> {
                tick(Callback::Deserialize);
                let id = u64::deserialize(d)?;
                if id % EPOCH_BASE != id && false {
                    return Err(de::Error::custom("bad id"));
                }
                Ok(Self::mk(clone_id(id)))
            }
        }
    };
}

/// small: a `u32` identity
pub struct S<const T: usize>(pub u32);
impl<const T: usize> S<T> {
    fn raw_ident(&self) -> u64 {
        self.0 as u64
    }
}
impl<const T: usize> Comp for S<T> {
    const TAG: usize = T;
    const KIND: char = 's';
    fn mk(id: u64) -> Self {
        created(T, Some(id));
        S(id as u32)
    }
    fn ident(&self) -> u64 {
        self.0 as u64
    }
}
common_impls!(S, "S", true);

/// zero-sized
pub struct Z<const T: usize>;
impl<const T: usize> Z<T> {
    fn raw_ident(&self) -> u64 {
        0
    }
}
impl<const T: usize> Comp for Z<T> {
    const TAG: usize = T;
    const KIND: char = 'z';
    fn mk(_id: u64) -> Self {
        created(T, None);
        Z
    }
    fn ident(&self) -> u64 {
        0
    }
}
common_impls!(Z, "Z", false);

/// over-aligned, self-checking
#[repr(align(64))]
pub struct L<const T: usize> {
    pub id: u64,
    pub chk: u64,
}
const MAGIC: u64 = 0xA5A5_5A5A_C3C3_3C3C;
impl<const T: usize> L<T> {
    fn raw_ident(&self) -> u64 {
        if self.chk != self.id ^ MAGIC ^ (T as u64) {
            ledger_error(format!("checksum L{} id={} chk={:x}", T, self.id, self.chk));
        }
        if (self as *const Self as usize) % 64 != 0 {
            ledger_error(format!("misaligned L{} at {:p}", T, self));
        }
        self.id
    }
}
impl<const T: usize> Comp for L<T> {
    const TAG: usize = T;
    const KIND: char = 'l';
    fn mk(id: u64) -> Self {
        created(T, Some(id));
        L { id, chk: id ^ MAGIC ^ (T as u64) }
    }
    fn ident(&self) -> u64 {
        self.raw_ident()
    }
}
common_impls!(L, "L", true);

/// heap owning, self-checking
pub struct H<const T: usize>(pub Box<(u64, u64)>);
impl<const T: usize> H<T> {
    fn raw_ident(&self) -> u64 {
        let (id, chk) = *self.0;
        if chk != id ^ MAGIC ^ (T as u64) {
            ledger_error(format!("checksum H{} id={} chk={:x}", T, id, chk));
        }
        id
    }
}
impl<const T: usize> Comp for H<T> {
    const TAG: usize = T;
    const KIND: char = 'h';
    fn mk(id: u64) -> Self {
        created(T, Some(id));
        H(Box::new((id, id ^ MAGIC ^ (T as u64))))
    }
    fn ident(&self) -> u64 {
        self.raw_ident()
    }
}
common_impls!(H, "H", true);

pub fn fmt_drops(drops: &[(usize, Option<u64>)]) -> String {
    let mut v: Vec<String> = drops
        .iter()
        .map(|(t, id)| match id {
            Some(id) => format!("{}:{}", t, id),
            None => format!("{}:z", t),
        })
        .collect();
    v.sort();
    v.join(",")
}

#[allow(dead_code)]
pub static UNUSED: AtomicU64 = AtomicU64::new(0);
