/-
  Driver — line-protocol driver (DESIGN §5.3, Appendix A).

  Reads a trace written by the Rust harness (`op` lines followed by the real code's `r` result
  line and `d` dump lines), replays every `op` through the model, compares the model's lines with
  the real ones, and evaluates the compiled invariant `Inv` on every *real* dump.

  Output:  `M <line> …`  model/implementation disagreement
           `X <line> …`  an oracle (Inv on the real dump, …) fails on the implementation
           `S …`         summary
-/
import BroodModel.Dump

open Brood

structure St where
  n : Nat := 0
  kinds : Kinds := ⟨[], []⟩
  worlds : List (Option World) := [none, none, none, none]
  next : Nat := 0
  caseName : String := ""
  expected : List String := []
  lineNo : Nat := 0
  ops : Nat := 0
  mismatches : Nat := 0
  oracleFails : Nat := 0
  realDumps : Nat := 0
  diverged : Bool := false
  emit : Bool := false

def parseNats (s : String) : Option (List Nat) :=
  if s == "-" then some [] else (s.splitOn ",").mapM String.toNat?

def parseIdent (s : String) : Option Ident := parseIdentDot s

def parseRows (s : String) : Option (List (List Nat)) :=
  if s == "-" then some [] else (s.splitOn "/").mapM parseNats

def parseMasks (s : String) : Option (List Mask) :=
  if s == "-" then some [] else (s.splitOn ",").mapM parseMask

def St.getW (st : St) (i : Nat) : Option World := (st.worlds.getD i none)

def St.setW (st : St) (i : Nat) (w : Option World) : St :=
  let st := { st with worlds := st.worlds.set i w }
  match w with
  | some w => { st with next := max st.next w.next }
  | none => st

def identsStr (l : List Ident) : String :=
  String.intercalate "," (l.map (fun i => s!"{i.index}.{i.gen}"))

def ubStr (e : UB) : String := s!"UB {repr e}"

/-- A value of component `c`; zero-sized kinds carry no identity (always `0`). -/
def mkVal (k : Kinds) (c i : Nat) : Val := if k.kindOf c == 'z' then ⟨c, 0⟩ else ⟨c, i⟩

def mkVals (k : Kinds) (shape : List Nat) (ids : List Nat) : List Val :=
  List.zipWith (mkVal k) shape ids

/-- Run one op on the model.  Returns the new state and the result text (without the `r `). -/
def runOp (st : St) (wi : Nat) (name : String) (args : List String) : St × String :=
  let k := st.kinds
  let bad := (st, "bad-op")
  let withW (f : World → St × String) : St × String :=
    match st.getW wi with
    | some w => f { w with next := st.next }
    | none => (st, "no-world")
  match name, args with
  | "new", [resIds] =>
    match parseNats resIds with
    | none => bad
    | some ids =>
      let res := List.zipWith (fun p i => mkVal k (resTy p) i) (List.range ids.length) ids
      let drops := match st.getW wi with | some w => w.values | none => []
      (st.setW wi (some { World.init st.n res with next := st.next }), s!"ok drops={dropsStr k drops}")
  | "insert", [shapeS, idsS] =>
    match parseNats shapeS, parseNats idsS with
    | some shape, some ids =>
      if !World.shapeOk st.n shape (mkVals k shape ids) || shape.length ≠ ids.length then bad else
      withW fun w =>
        match w.insert shape (mkVals k shape ids) with
        | .ok (w', id) => (st.setW wi (some w'), s!"ok id={id.index}.{id.gen}")
        | .ub e => (st, ubStr e)
    | _, _ => bad
  | "extend", [shapeS, rowsS] =>
    match parseNats shapeS, parseRows rowsS with
    | some shape, some rows =>
      if rows.any (fun r => !World.shapeOk st.n shape (mkVals k shape r) || r.length ≠ shape.length)
        || !(shape.Nodup && shape.all (· < st.n)) then bad else
      withW fun w =>
        match w.extend shape (rows.map (mkVals k shape)) with
        | .ok (w', ids) => (st.setW wi (some w'), s!"ok ids={identsStr ids}")
        | .ub e => (st, ubStr e)
    | _, _ => bad
  | "remove", [idS] =>
    match parseIdent idS with
    | none => bad
    | some id =>
      withW fun w =>
        match w.remove id with
        | .ok (w', drops) => (st.setW wi (some w'), s!"ok drops={dropsStr k drops}")
        | .ub e => (st, ubStr e)
  | "clear", [orderS] =>
    match parseMasks orderS with
    | none => bad
    | some order =>
      withW fun w =>
        match w.clear order with
        | .ok (w', drops) => (st.setW wi (some w'), s!"ok drops={dropsStr k drops}")
        | .ub e => (st, ubStr e)
  | "add", [idS, cS, vS] =>
    match parseIdent idS, cS.toNat?, vS.toNat? with
    | some id, some c, some v =>
      if c ≥ st.n then bad else
      withW fun w =>
        match w.entryAdd id c (mkVal k c v) with
        | .ok (w', some drops) => (st.setW wi (some w'), s!"ok drops={dropsStr k drops}")
        | .ok (_, none) => (st, "none")
        | .ub e => (st, ubStr e)
    | _, _, _ => bad
  | "del", [idS, cS] =>
    match parseIdent idS, cS.toNat? with
    | some id, some c =>
      if c ≥ st.n then bad else
      withW fun w =>
        match w.entryRemove id c with
        | .ok (w', some drops) => (st.setW wi (some w'), s!"ok drops={dropsStr k drops}")
        | .ok (_, none) => (st, "none")
        | .ub e => (st, ubStr e)
    | _, _ => bad
  | "write", [idS, cS, vS] =>
    match parseIdent idS, cS.toNat?, vS.toNat? with
    | some id, some c, some v =>
      if c ≥ st.n then bad else
      withW fun w =>
        match w.write id c (mkVal k c v) with
        | .ok (w', some drops) => (st.setW wi (some w'), s!"ok drops={dropsStr k drops}")
        | .ok (_, none) => (st, "none")
        | .ub e => (st, ubStr e)
    | _, _, _ => bad
  | "reserve", [shapeS, _n] =>
    match parseNats shapeS with
    | some shape =>
      if !(shape.Nodup && shape.all (· < st.n)) then bad else
      withW fun w =>
        match w.reserve shape with
        | .ok w' => (st.setW wi (some w'), "ok")
        | .ub e => (st, ubStr e)
    | none => bad
  | "shrink", [] =>
    withW fun w => (st.setW wi (some w.shrinkToFit), "ok")
  | "clone", [srcS, eS] =>
    match srcS.toNat?, eS.toNat? with
    | some src, some e =>
      match st.getW src with
      | none => (st, "no-world")
      | some s =>
        let drops := match st.getW wi with | some w => w.values | none => []
        match s.clone e st.next with
        | .ok c => (st.setW wi (some c), s!"ok drops={dropsStr k drops}")
        | .ub e => (st, ubStr e)
    | _, _ => bad
  | "clonefrom", [srcS, eS] =>
    match srcS.toNat?, eS.toNat? with
    | some src, some e =>
      match st.getW src with
      | none => (st, "no-world")
      | some s =>
        withW fun d =>
          match World.cloneFrom d s e with
          | .ok (d', drops) => (st.setW wi (some d'), s!"ok drops={dropsStr k drops}")
          | .ub e => (st, ubStr e)
    | _, _ => bad
  | "drop", [] =>
    match st.getW wi with
    | some w => ({ st with worlds := st.worlds.set wi none }, s!"ok drops={dropsStr k w.values}")
    | none => (st, "no-world")
  | "eq", [oS] =>
    match oS.toNat? with
    | some o =>
      match st.getW wi, st.getW o with
      | some a, some b =>
        match World.eqWorld a b with
        | .ok r => (st, s!"ok eq={if r then 1 else 0}")
        | .ub e => (st, ubStr e)
      | _, _ => (st, "no-world")
    | none => bad
  | "probe", [idS] =>
    match parseIdent idS with
    | some id =>
      withW fun w =>
        (st, s!"ok contains={if w.contains id then 1 else 0} entry={if w.hasEntry id then 1 else 0}")
    | none => bad
  | "len", [] =>
    withW fun w => (st, s!"ok len={w.len} empty={if w.isEmpty then 1 else 0}")
  | _, _ => bad

def dumpsOf (st : St) : List String :=
  (List.zip (List.range st.worlds.length) st.worlds).filterMap (fun (i, w) =>
    match w with
    | some w => some s!"d {i} {w.dump st.kinds}"
    | none => none)

def stepLine (st : St) (line : String) : St × List String :=
  let st := { st with lineNo := st.lineNo + 1 }
  let toks := (line.trimAscii.toString.splitOn " ").filter (· ≠ "")
  match toks with
  | [] => (st, [])
  | "case" :: rest =>
    let out := if st.expected.isEmpty then [] else [s!"M {st.lineNo} case={st.caseName} missing-real-lines={st.expected.length}"]
    ({ st with worlds := [none, none, none, none], next := 0,
               expected := [], diverged := false, caseName := String.intercalate " " rest,
               mismatches := st.mismatches + out.length }, out)
  | ["registry", nS, kindsS] =>
    ({ st with n := nS.toNat?.getD 0, kinds := { st.kinds with comps := kindsS.toList } }, [])
  | ["resources", kindsS] =>
    ({ st with kinds := { st.kinds with res := if kindsS == "-" then [] else kindsS.toList } }, [])
  | "op" :: wS :: name :: args =>
    let out := if st.expected.isEmpty || st.diverged then [] else [s!"M {st.lineNo} case={st.caseName} missing-real-lines={st.expected.length}"]
    let st := { st with mismatches := st.mismatches + out.length, ops := st.ops + 1 }
    match wS.toNat? with
    | none => ({ st with expected := ["r bad-op"] }, out)
    | some wi =>
      let (st', r) := runOp st wi name args
      let exp := s!"r {r}" :: dumpsOf st'
      let emitted := if st.emit then (line :: exp) else []
      ({ st' with expected := exp }, out ++ emitted)
  | tag :: _ =>
    if tag == "r" || tag == "d" then
      -- a line from the implementation: compare with the model's expectation
      let lineT := String.intercalate " " toks
      let (st, out1) :=
        match st.expected with
        | e :: rest =>
          if e == lineT || st.diverged then ({ st with expected := rest }, [])
          else ({ st with expected := rest, mismatches := st.mismatches + 1, diverged := true },
                [s!"M {st.lineNo} case={st.caseName} model=[{e}] real=[{lineT}]"])
        | [] =>
          if st.diverged then (st, []) else
          ({ st with mismatches := st.mismatches + 1, diverged := true },
           [s!"M {st.lineNo} case={st.caseName} model=[] real=[{lineT}]"])
      -- oracle on the implementation: Inv on the real dump
      if tag == "d" then
        match toks with
        | _ :: _ :: rest =>
          let st := { st with realDumps := st.realDumps + 1 }
          match parseDump st.n (String.intercalate " " rest) with
          | none =>
            ({ st with oracleFails := st.oracleFails + 1 },
             out1 ++ [s!"X {st.lineNo} case={st.caseName} oracle=dump-parse real=[{lineT}]"])
          | some rw =>
            if invB rw then (st, out1)
            else ({ st with oracleFails := st.oracleFails + 1 },
                  out1 ++ [s!"X {st.lineNo} case={st.caseName} oracle=Inv failed={invFailures rw} real=[{lineT}]"])
        | _ => (st, out1)
      else (st, out1)
    else if tag == "X" then
      -- an oracle failure detected by the harness itself on the implementation (ledger, …)
      ({ st with oracleFails := st.oracleFails + 1 }, [String.intercalate " " toks])
    else (st, [])

partial def loop (h : IO.FS.Stream) (st : St) : IO St := do
  let line ← h.getLine
  if line.isEmpty then return st
  let (st', out) := stepLine st line
  for o in out do IO.println o
  loop h st'

def main (args : List String) : IO UInt32 := do
  let stdin ← IO.getStdin
  let st ← loop stdin { emit := args.contains "--emit" }
  IO.println s!"S ops={st.ops} mismatches={st.mismatches} oracle_fails={st.oracleFails} real_dumps={st.realDumps}"
  return (if st.mismatches == 0 && st.oracleFails == 0 then 0 else 1)
