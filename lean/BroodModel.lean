import BroodModel.Basic
import BroodModel.Alloc
import BroodModel.World
import BroodModel.Inv
import BroodModel.Dump
