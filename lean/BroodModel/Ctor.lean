/-
  BroodModel.Ctor — the run-time checks at the safe API boundary (C18), parameterised by the shape
  the translator extracts from src/registry/sealed/assertions.rs and src/entities/sealed/length.rs.
-/
import BroodModel.Generated.Tables

namespace Brood
open Static Generated

/-- `Registry::assert_no_duplicates`: walk the registry inserting each type into a set;
`asserts`: the insert's result is asserted; `recurses`: the tail is visited. Returns `true` when
no assertion fires. -/
def assertNoDup (shape : Bool × Bool) : List Nat → List Nat → Bool
  | [], _ => true
  | t :: ts, seen =>
    (if shape.1 then !seen.contains t else true) &&
    (if shape.2 then assertNoDup shape ts (t :: seen) else true)

/-- `Length::check_len` on the list of column lengths, by the extracted shape
`[new asserts, new_unchecked unsafe, head uses first column, compares, recurses, Null is true]`. -/
def checkLenAgainst (compares recurses : Bool) (len : Nat) : List Nat → Bool
  | [] => true
  | c :: cs => (if compares then c == len else true) && (if recurses then checkLenAgainst compares recurses len cs else true)

def checkLen (shape : List Bool) : List Nat → Bool
  | [] => true
  | c :: cs => checkLenAgainst (shape.getD 3 false) (shape.getD 4 false) c cs

end Brood
