/-
  C06 — Serialize then deserialize reproduces the world exactly.

  `Serde.serialize` / `Serde.deserialize` are token-level models of brood's `Serialize` /
  `Deserialize` impls (row-wise when human readable, column-wise otherwise).  A round trip re-tags
  every value with the epoch of the operation (`retag`: same component type, same base identity,
  own ledger identity) and gives the tables fresh handles (buffer addresses).

  Proved for **every** world satisfying the invariant — hence every reachable world, every clone
  and every world that was itself deserialized (C13) — whose resources are typed by position
  (`ResOk`) and whose zero-sized values carry no identity (`ZOk`; both hold of every world the
  harness builds and are decidable): in both encodings, for every epoch and handle base, the
  round trip succeeds, yields a world satisfying the invariant, which compares equal to the
  original (both ways), holds the same live identifiers with equivalent values, the same `len`
  and equivalent resources, issues the same identifier on the next insertion, and keeps behaving
  like any valid world under further operations — including being serialized again.

  Not a theorem: iteration order of later queries (hash order in the code, creation order in the
  model) — "up to iteration order" in the property; the correspondence check compares sorted rows.
-/
import BroodModel.Lemmas.RoundTrip

namespace Brood
open Serde

/-- The full statement of the round-trip property for one world. -/
def RoundTrips (k : Kinds) (hr : Bool) (e next : Nat) (w : World) : Prop :=
  ∃ w', deserialize k hr w.n w.res.length e next (serialize hr w) = .ok w' ∧ Inv w' ∧
    World.eqWorld w w' = .ok true ∧ World.eqWorld w' w = .ok true ∧ w'.len = w.len ∧
    rowEqv w.res w'.res = true ∧ ∀ id, entEqv (w.entity id) (w'.entity id) = true

/-- **Serialize then deserialize succeeds and reproduces the world**, both encodings. -/
theorem C06_roundtrip {w : World} (hi : Inv w) (hres : ResOk w) {k : Kinds} (hz : ZOk k w)
    (hr : Bool) (e next : Nat) : RoundTrips k hr e next w := by
  obtain ⟨w', h1, h2, h3⟩ := roundtrip_eq hi hres hz hr e next
  obtain ⟨s1, s2, s3⟩ := eqWorld_sound hi h2 h3
  exact ⟨w', h1, h2, h3, eqWorld_true_symm hi h2 h3, s1.symm, s2, s3⟩

/-- The same for every reachable world (any history, cloned or deserialized worlds included). -/
theorem C06_roundtrip_reachable (n : Nat) (res : List Val) (ops : List Op) {w : World}
    (h : run (World.init n res) ops = .ok w) (hres : ResOk w) {k : Kinds} (hz : ZOk k w)
    (hr : Bool) (e next : Nat) : RoundTrips k hr e next w :=
  C06_roundtrip (run_inv (inv_init n res) ops h) hres hz hr e next

/-- **Same identifiers issued afterwards**: worlds that compare equal allocate the same identifier
for the next entity (same free queue, same slot generations, same slot count). -/
theorem C06_same_next_identifier {a b : World} (ha : Inv a) (hb : Inv b)
    (heq : World.eqWorld a b = .ok true) (la lb : Loc) :
    (match a.alloc.allocate la, b.alloc.allocate lb with
     | .ok (_, i), .ok (_, j) => i = j
     | _, _ => False) := by
  obtain ⟨_, _, _, h4, h5, _⟩ := (eqWorld_true_iff ha hb).mp heq
  obtain ⟨hlen, hpt⟩ := slotsEqv_true _ _ h4
  unfold Alloc.allocate
  rw [← h5]
  cases hf : a.alloc.free with
  | nil => simp [hlen]
  | cons i rest =>
    have hif : i ∈ a.alloc.free := by rw [hf]; simp
    obtain ⟨s, hs, _⟩ := ha.ainv.inactive i hif
    have hlt : i < b.alloc.slots.length := by rw [← hlen]; exact (List.getElem?_eq_some_iff.mp hs).1
    have ht : b.alloc.slots[i]? = some b.alloc.slots[i] := List.getElem?_eq_getElem hlt
    generalize b.alloc.slots[i] = t at ht
    have hst := hpt i s t hs ht
    have hg : s.gen = t.gen := by
      unfold World.slotEqv at hst
      by_cases hg : s.gen ≠ t.gen
      · rw [if_pos hg] at hst; cases hst
      · simpa using hg
    simp [hs, ht, hg]

/-- **The result keeps behaving like a valid world**: every admissible history continued on it
runs to completion and keeps the invariant; in particular it can be serialized and deserialized
again ("a world that was itself deserialized … still serializes to something deserializable"). -/
theorem C06_result_behaves {w w' : World} {k : Kinds} {hr : Bool} {e next : Nat}
    (h : deserialize k hr w.n w.res.length e next (serialize hr w) = .ok w') (ops : List Op)
    (hwt : ∀ op ∈ ops, op.wt w'.n) : ∃ w'', run w' ops = .ok w'' ∧ Inv w'' := by
  obtain ⟨w'', r1, r2, _⟩ := run_total (deserialize_inv h) ops hwt
  exact ⟨w'', r1, r2⟩

/-- A round trip preserves what the next round trip needs (`ResOk`, `ZOk` for non-zero-sized
kinds is about base identities, which `retag` keeps). -/
theorem C06_retag_keeps (k : Kinds) (e : Nat) (v : Val) :
    (retag k e v).ty = v.ty ∧ (k.kindOf v.ty = 'z' → (retag k e v).base = 0) ∧
    (k.kindOf v.ty ≠ 'z' → (retag k e v).base = v.base) := by
  unfold retag
  refine ⟨by split <;> rfl, ?_, ?_⟩
  · intro hz; simp [hz, Val.base]
  · intro hz
    have : (k.kindOf v.ty == 'z') = false := by simpa using hz
    simp [this, Val.base, epochBase]

/-- Non-vacuity + test by kernel evaluation: a reachable world with two tables, a freed slot and a
reused slot round-trips in both encodings and compares equal; its hypotheses hold. -/
example :
    (match run (World.init 3 [⟨100, 7⟩])
        [.insert [1, 0] [⟨1, 11⟩, ⟨0, 10⟩], .insert [2] [⟨2, 20⟩], .insert [2] [⟨2, 21⟩], .remove ⟨1, 0⟩,
         .insert [0] [⟨0, 12⟩], .remove ⟨0, 0⟩] with
     | .ok w =>
       [true, false].map (fun hr =>
         match deserialize ⟨['s', 's', 's'], ['s']⟩ hr 3 1 1 50 (serialize hr w) with
         | .ok w' => (match World.eqWorld w w' with | .ok r => r | .ub _ => false) && w'.len == w.len
         | .error _ => false)
     | .ub _ => []) = [true, true] := by decide +kernel

end Brood

#print axioms Brood.C06_roundtrip
#print axioms Brood.C06_roundtrip_reachable
#print axioms Brood.C06_same_next_identifier
#print axioms Brood.C06_result_behaves
#print axioms Brood.C06_retag_keeps
