/-
  `par_query`, the mutable accesses it hands out and row-independent updates (C09).

  An *address* is (archetype, row, component) — the column base, the row and nothing else is what
  the raw pointers of a result row are made of.  `parAddrRows` lists, per result row handed out
  by a parallel iteration (any traversal order of the archetype table, any split tree per
  archetype), the addresses that row may write.  They are pairwise distinct, within one row and
  across all rows.  A parallel system that updates each entity independently — each update
  touches only its own row — therefore ends in the same state whatever order rayon runs the rows in.
-/
import BroodModel.Lemmas.ParL
import BroodModel.Lemmas.SchedSem

set_option linter.unusedSimpArgs false
set_option linter.unusedVariables false

namespace Brood

/-- (archetype, row, component). -/
abbrev Addr := Mask × Nat × Nat

/-- Component of a mutable view. -/
def View.mutComp (v : View) : Option Nat := if v.isMut then v.comp? else Option.none

/-- The addresses a result row for row `r` of archetype `a` gives mutable access to. -/
def rowMutAddrs (a : Arch) (r : Nat) (vs : List View) : List Addr :=
  ((vs.filterMap View.mutComp).filter (fun c => a.mask.has c)).map (fun c => (a.mask, r, c))

/-- Per row of archetype `a`, in row order. -/
def archAddrRows (a : Arch) (vs : List View) : List (List Addr) :=
  (List.range a.ids.length).map (fun r => rowMutAddrs a r vs)

/-- Per result row of a parallel query: archetypes in the order `visit`, each cut by `trees`. -/
def parAddrRows (vs : List View) (f : Filter) (trees : Arch → Split) (visit : List Arch) : List (List Addr) :=
  (visit.filter (fun a => viewsFilter a.mask vs && f.eval a.mask)).flatMap
    (fun a => (trees a).collect (archAddrRows a vs))

theorem nodup_flatMap_of {α β : Type} (f : α → List β) :
    ∀ (l : List α), (∀ x ∈ l, (f x).Nodup) →
      l.Pairwise (fun a b => ∀ y, y ∈ f a → y ∈ f b → False) → (l.flatMap f).Nodup := by
  intro l
  induction l with
  | nil => intro _ _; simp
  | cons x xs ih =>
    intro h1 h2
    rw [List.pairwise_cons] at h2
    rw [List.flatMap_cons, List.nodup_append]
    refine ⟨h1 x (by simp), ih (fun y hy => h1 y (by simp [hy])) h2.2, ?_⟩
    intro a ha b hb hab
    obtain ⟨z, hz, hbz⟩ := List.mem_flatMap.mp hb
    exact h2.1 z hz a ha (hab ▸ hbz)

theorem nodup_map_of_inj {α β : Type} (f : α → β) (hf : ∀ a b, f a = f b → a = b) {l : List α}
    (h : l.Nodup) : (l.map f).Nodup := by
  rw [List.nodup_iff_pairwise_ne] at h ⊢
  rw [List.pairwise_map]
  exact h.imp (fun hab hfab => hab (hf _ _ hfab))

theorem nodup_filter' {α : Type} (p : α → Bool) {l : List α} (h : l.Nodup) : (l.filter p).Nodup :=
  List.Nodup.sublist List.filter_sublist h

theorem flatten_map_eq_flatMap {α β : Type} (f : α → List β) (l : List α) : (l.map f).flatten = l.flatMap f := by
  induction l with
  | nil => rfl
  | cons x xs ih => simp [List.flatMap_cons, ih]

theorem rowMutAddrs_nodup (a : Arch) (r : Nat) {vs : List View} (hv : (vs.filterMap View.mutComp).Nodup) :
    (rowMutAddrs a r vs).Nodup := by
  unfold rowMutAddrs
  apply nodup_map_of_inj
  · intro c d h; simpa using h
  · exact nodup_filter' _ hv

theorem mem_rowMutAddrs {a : Arch} {r : Nat} {vs : List View} {y : Addr} (h : y ∈ rowMutAddrs a r vs) :
    y.1 = a.mask ∧ y.2.1 = r := by
  unfold rowMutAddrs at h
  obtain ⟨c, _, rfl⟩ := List.mem_map.mp h
  exact ⟨rfl, rfl⟩

theorem archAddrRows_nodup (a : Arch) {vs : List View} (hv : (vs.filterMap View.mutComp).Nodup) :
    (archAddrRows a vs).flatten.Nodup := by
  unfold archAddrRows
  rw [flatten_map_eq_flatMap]
  apply nodup_flatMap_of
  · intro r _; exact rowMutAddrs_nodup a r hv
  · have := (List.nodup_iff_pairwise_ne.mp (List.nodup_range (n := a.ids.length)))
    refine this.imp ?_
    intro r1 r2 hne y h1 h2
    exact hne ((mem_rowMutAddrs h1).2.symm.trans (mem_rowMutAddrs h2).2)

theorem mem_archAddrRows {a : Arch} {vs : List View} {y : Addr} (h : y ∈ (archAddrRows a vs).flatten) :
    y.1 = a.mask := by
  unfold archAddrRows at h
  obtain ⟨row, hrow, hy⟩ := List.mem_flatten.mp h
  obtain ⟨r, _, rfl⟩ := List.mem_map.mp hrow
  exact (mem_rowMutAddrs hy).1

theorem flatten_flatMap {α β : Type} (f : α → List (List β)) (l : List α) :
    (l.flatMap f).flatten = l.flatMap (fun a => (f a).flatten) := by
  induction l with
  | nil => rfl
  | cons x xs ih => simp [List.flatMap_cons, ih]

/-- **No two results of one parallel iteration give mutable access to the same component value**:
over all rows handed out — any traversal order, any split trees — the mutable addresses are
pairwise distinct (the views name each component at most once, which the type system enforces). -/
theorem par_mut_addrs_nodup {w : World} (hi : Inv w) (vs : List View)
    (hv : (vs.filterMap View.mutComp).Nodup) (f : Filter) (trees : Arch → Split)
    {visit : List Arch} (hp : visit.Perm w.archs) :
    (parAddrRows vs f trees visit).flatten.Nodup := by
  unfold parAddrRows
  rw [flatten_flatMap]
  apply nodup_flatMap_of
  · intro a _
    rw [collect_eq]
    exact archAddrRows_nodup a hv
  · have hm : (visit.map (·.mask)).Nodup := (hp.map (·.mask)).nodup_iff.mpr hi.masks_nodup
    have hpw : visit.Pairwise (fun a b => a.mask ≠ b.mask) := by
      have := List.nodup_iff_pairwise_ne.mp hm
      rwa [List.pairwise_map] at this
    refine (hpw.filter _).imp ?_
    intro a b hne y h1 h2
    rw [collect_eq] at h1 h2
    exact hne ((mem_archAddrRows h1).symm.trans (mem_archAddrRows h2))

/-! ### updates that touch only their own row -/

/-- Row keys (archetype, row) of the rows a parallel iteration hands out. -/
def parRowKeys (vs : List View) (f : Filter) (trees : Arch → Split) (visit : List Arch) : List (Mask × Nat) :=
  (visit.filter (fun a => viewsFilter a.mask vs && f.eval a.mask)).flatMap
    (fun a => (trees a).collect ((List.range a.ids.length).map (fun r => (a.mask, r))))

/-- The rows in the order the sequential query visits them. -/
def seqRowKeys (vs : List View) (f : Filter) (archs : List Arch) : List (Mask × Nat) :=
  (archs.filter (fun a => viewsFilter a.mask vs && f.eval a.mask)).flatMap
    (fun a => (List.range a.ids.length).map (fun r => (a.mask, r)))

/-- An update that touches only its own row: cells of other rows are unchanged, and the new
values of the row depend only on the row's own old values. -/
def apRow (g : Mask × Nat → (Addr → Nat) → Addr → Nat) (k : Mask × Nat) (s : Addr → Nat) : Addr → Nat :=
  fun addr =>
    if (addr.1, addr.2.1) = k then g k (fun x => if (x.1, x.2.1) = k then s x else 0) addr else s addr

theorem apRow_comm (g : Mask × Nat → (Addr → Nat) → Addr → Nat) {k k' : Mask × Nat} (hne : k ≠ k')
    (s : Addr → Nat) : apRow g k (apRow g k' s) = apRow g k' (apRow g k s) := by
  have hv : ∀ (a b : Mask × Nat), a ≠ b → ∀ s',
      (fun x : Addr => if (x.1, x.2.1) = a then apRow g b s' x else 0) =
        (fun x : Addr => if (x.1, x.2.1) = a then s' x else 0) := by
    intro a b hab s'
    funext x
    by_cases hx : (x.1, x.2.1) = a
    · subst hx
      simp only [if_true, apRow, if_neg hab]
    · simp only [if_neg hx]
  funext addr
  show (if (addr.1, addr.2.1) = k then
      g k (fun x => if (x.1, x.2.1) = k then apRow g k' s x else 0) addr else apRow g k' s addr) =
    (if (addr.1, addr.2.1) = k' then
      g k' (fun x => if (x.1, x.2.1) = k' then apRow g k s x else 0) addr else apRow g k s addr)
  rw [hv k k' hne, hv k' k (Ne.symm hne)]
  by_cases h1 : (addr.1, addr.2.1) = k
  · have h2 : ¬ (addr.1, addr.2.1) = k' := fun h => hne (h1.symm.trans h)
    simp only [if_pos h1, if_neg h2, apRow]
  · by_cases h2 : (addr.1, addr.2.1) = k'
    · simp only [if_neg h1, if_pos h2, apRow]
    · simp only [if_neg h1, if_neg h2, apRow]

theorem seqRowKeys_nodup {archs : List Arch} (hm : (archs.map (·.mask)).Nodup) (vs : List View) (f : Filter) :
    (seqRowKeys vs f archs).Nodup := by
  unfold seqRowKeys
  apply nodup_flatMap_of
  · intro a _
    exact nodup_map_of_inj _ (fun r1 r2 h => by simpa using h) List.nodup_range
  · have hpw : archs.Pairwise (fun a b => a.mask ≠ b.mask) := by
      have := List.nodup_iff_pairwise_ne.mp hm
      rwa [List.pairwise_map] at this
    refine (hpw.filter _).imp ?_
    intro a b hne y h1 h2
    obtain ⟨r1, _, rfl⟩ := List.mem_map.mp h1
    obtain ⟨r2, _, h⟩ := List.mem_map.mp h2
    exact hne (by simpa using (congrArg Prod.fst h).symm)

theorem parRowKeys_perm {w : World} (vs : List View) (f : Filter) (trees : Arch → Split)
    {visit : List Arch} (hp : visit.Perm w.archs) :
    (parRowKeys vs f trees visit).Perm (seqRowKeys vs f w.archs) := by
  unfold parRowKeys seqRowKeys
  have : (fun a : Arch => (trees a).collect ((List.range a.ids.length).map (fun r => (a.mask, r)))) =
      (fun a : Arch => (List.range a.ids.length).map (fun r => (a.mask, r))) := by
    funext a; rw [collect_eq]
  rw [this]
  exact (hp.filter _).flatMap_right _

/-- **A parallel system that updates each entity independently equals its sequential
counterpart**: running row-local updates over the rows in the order any parallel iteration hands
them out ends in the state of running them in the sequential query's order. -/
theorem par_row_updates_eq_seq {w : World} (hi : Inv w) (vs : List View) (f : Filter)
    (trees : Arch → Split) {visit : List Arch} (hp : visit.Perm w.archs)
    (g : Mask × Nat → (Addr → Nat) → Addr → Nat) (s : Addr → Nat) :
    runSeq (apRow g) (parRowKeys vs f trees visit) s = runSeq (apRow g) (seqRowKeys vs f w.archs) s := by
  have hnd := seqRowKeys_nodup hi.masks_nodup vs f
  have hperm := parRowKeys_perm (w := w) vs f trees hp
  exact (runSeq_perm (apRow g) (R := fun a b => a ≠ b) (fun h => Ne.symm h)
    (fun a b h s' => apRow_comm g h s') hperm.symm (List.nodup_iff_pairwise_ne.mp hnd) s).symm

end Brood
