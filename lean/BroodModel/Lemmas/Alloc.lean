/-
  Lemmas about `entity::Allocator` (model: BroodModel.Alloc).

  `AInv`  : the free queue has no duplicates and lists exactly the inactive slots.
  `Ghost` : every identifier ever issued has a generation ≤ its slot's current generation.
  `Dead`  : a released identifier never resolves again.
-/
import BroodModel.Alloc

set_option linter.unusedSimpArgs false
set_option linter.unusedVariables false

namespace Brood

theorem getElem?_append_of_some {α} {l : List α} {j : Nat} {t : α} (h : l[j]? = some t)
    (m : List α) : (l ++ m)[j]? = some t := by
  rw [List.getElem?_append_left (List.getElem?_eq_some_iff.mp h).1]; exact h

theorem nodup_reverse' {α} {l : List α} : l.reverse.Nodup ↔ l.Nodup := by
  simp [List.Nodup, List.pairwise_reverse, ne_comm]

namespace Alloc

/-- Allocator invariant: free queue = inactive slots, without duplicates. -/
structure AInv (a : Alloc) : Prop where
  nodup : a.free.Nodup
  inactive : ∀ i ∈ a.free, ∃ s, a.slots[i]? = some s ∧ s.loc = none
  listed : ∀ i s, a.slots[i]? = some s → s.loc = none → i ∈ a.free

theorem AInv.empty : AInv Alloc.empty :=
  ⟨List.nodup_nil, by simp [Alloc.empty], by simp [Alloc.empty]⟩

/-- An identifier is live when its slot is active with the same generation. -/
def Live (a : Alloc) (id : Ident) : Prop := ∃ l, a.get id = some l

theorem get_eq_some {a : Alloc} {id : Ident} {l : Loc} :
    a.get id = some l ↔ ∃ s, a.slots[id.index]? = some s ∧ s.gen = id.gen ∧ s.loc = some l := by
  unfold get
  cases h : a.slots[id.index]? with
  | none => simp
  | some s =>
    by_cases hg : s.gen = id.gen
    · simp [hg]
    · simp [hg]

theorem isActive_iff_get {a : Alloc} {id : Ident} : a.isActive id = true ↔ (a.get id).isSome := by
  unfold isActive get
  cases h : a.slots[id.index]? with
  | none => simp
  | some s =>
    by_cases hg : s.gen = id.gen
    · simp [hg]
    · simp [hg]

/-! ### allocate -/

/-- `allocate` never hits its unchecked slot access when the invariant holds. -/
theorem allocate_ok {a : Alloc} (h : AInv a) (loc : Loc) :
    ∃ a' id, a.allocate loc = .ok (a', id) := by
  unfold allocate
  cases hf : a.free with
  | nil => exact ⟨_, _, rfl⟩
  | cons i rest =>
    obtain ⟨s, hs, _⟩ := h.inactive i (by simp [hf])
    simp [hs]

theorem allocate_cases {a a' : Alloc} {loc : Loc} {id : Ident}
    (e : a.allocate loc = .ok (a', id)) :
    (a.free = [] ∧ a' = ⟨a.slots ++ [⟨0, some loc⟩], []⟩ ∧ id = ⟨a.slots.length, 0⟩) ∨
    (∃ i rest s, a.free = i :: rest ∧ a.slots[i]? = some s ∧
      a' = ⟨a.slots.set i ⟨s.gen + 1, some loc⟩, rest⟩ ∧ id = ⟨i, s.gen + 1⟩) := by
  unfold allocate at e
  cases hf : a.free with
  | nil =>
    simp [hf] at e
    exact Or.inl ⟨rfl, e.1.symm, e.2.symm⟩
  | cons i rest =>
    simp [hf] at e
    cases hs : a.slots[i]? with
    | none => simp [hs] at e
    | some s =>
      simp [hs] at e
      exact Or.inr ⟨i, rest, s, rfl, hs, e.1.symm, e.2.symm⟩

theorem allocate_inv {a a' : Alloc} {loc : Loc} {id : Ident} (h : AInv a)
    (e : a.allocate loc = .ok (a', id)) : AInv a' := by
  rcases allocate_cases e with ⟨hf, rfl, _⟩ | ⟨i, rest, s, hf, hs, rfl, _⟩
  · refine ⟨List.nodup_nil, by simp, ?_⟩
    intro j t hj ht
    have hl := h.listed j t
    rw [List.getElem?_append] at hj
    by_cases hlt : j < a.slots.length
    · rw [if_pos hlt] at hj
      have := hl hj ht
      simp [hf] at this
    · simp [hlt] at hj
      by_cases hj0 : j - a.slots.length = 0
      · simp [hj0] at hj; subst hj; simp at ht
      · have : ∃ k, j - a.slots.length = k + 1 := ⟨j - a.slots.length - 1, by omega⟩
        obtain ⟨k, hk⟩ := this
        simp [hk] at hj
  · have hnd := h.nodup
    rw [hf] at hnd
    have hi_notin : i ∉ rest := (List.nodup_cons.mp hnd).1
    have hrest_nd : rest.Nodup := (List.nodup_cons.mp hnd).2
    have hilt : i < a.slots.length := by
      have := List.getElem?_eq_some_iff.mp hs
      exact this.1
    refine ⟨hrest_nd, ?_, ?_⟩
    · intro j hj
      have hne : j ≠ i := fun e => hi_notin (e ▸ hj)
      obtain ⟨t, ht, htl⟩ := h.inactive j (by simp [hf, hj])
      refine ⟨t, ?_, htl⟩
      simp [List.getElem?_set, Ne.symm hne, ht]
    · intro j t hj ht
      by_cases hji : j = i
      · subst hji
        simp [List.getElem?_set, hilt] at hj
        subst hj
        simp at ht
      · simp [List.getElem?_set, Ne.symm hji] at hj
        have := h.listed j t hj ht
        simp [hf] at this
        rcases this with rfl | h'
        · exact absurd rfl hji
        · exact h'

/-- The identifier returned by `allocate` resolves to the location it was allocated for. -/
theorem allocate_get {a a' : Alloc} {loc : Loc} {id : Ident}
    (e : a.allocate loc = .ok (a', id)) : a'.get id = some loc := by
  rcases allocate_cases e with ⟨_, rfl, rfl⟩ | ⟨i, rest, s, _, hs, rfl, rfl⟩
  · simp [get]
  · have hilt : i < a.slots.length := (List.getElem?_eq_some_iff.mp hs).1
    simp [get, List.getElem?_set, hilt]

/-- `allocate` does not disturb any live identifier. -/
theorem allocate_frame {a a' : Alloc} {loc : Loc} {id : Ident} (h : AInv a)
    (e : a.allocate loc = .ok (a', id)) {id' : Ident} {l : Loc} (hl : a.get id' = some l) :
    a'.get id' = some l := by
  obtain ⟨t, ht, htg, htl⟩ := get_eq_some.mp hl
  rcases allocate_cases e with ⟨_, rfl, _⟩ | ⟨i, rest, s, hf, hs, rfl, _⟩
  · apply get_eq_some.mpr
    have hlt : id'.index < a.slots.length := (List.getElem?_eq_some_iff.mp ht).1
    exact ⟨t, getElem?_append_of_some ht _, htg, htl⟩
  · obtain ⟨s', hs', hs'l⟩ := h.inactive i (by simp [hf])
    have hne : id'.index ≠ i := by
      intro e'
      rw [e', hs'] at ht
      cases ht
      rw [hs'l] at htl
      cases htl
    apply get_eq_some.mpr
    exact ⟨t, by simp [List.getElem?_set, Ne.symm hne, ht], htg, htl⟩

/-! ### release -/

theorem release_ok {a : Alloc} {id : Ident} (hl : Live a id) : ∃ a', a.release id = .ok a' := by
  obtain ⟨l, hl⟩ := hl
  obtain ⟨t, ht, _, _⟩ := get_eq_some.mp hl
  simp [release, ht]

theorem release_eq {a a' : Alloc} {id : Ident} (e : a.release id = .ok a') :
    ∃ s, a.slots[id.index]? = some s ∧
      a' = ⟨a.slots.set id.index ⟨s.gen, none⟩, a.free ++ [id.index]⟩ := by
  unfold release at e
  cases hs : a.slots[id.index]? with
  | none => simp [hs] at e
  | some s => simp [hs] at e; exact ⟨s, rfl, e.symm⟩

theorem release_inv {a a' : Alloc} {id : Ident} (h : AInv a) (hl : Live a id)
    (e : a.release id = .ok a') : AInv a' := by
  obtain ⟨l, hl⟩ := hl
  obtain ⟨t, ht, _, htl⟩ := get_eq_some.mp hl
  obtain ⟨s, hs, rfl⟩ := release_eq e
  rw [ht] at hs; cases hs
  have hilt : id.index < a.slots.length := (List.getElem?_eq_some_iff.mp ht).1
  have hnotin : id.index ∉ a.free := by
    intro hmem
    obtain ⟨u, hu, hul⟩ := h.inactive _ hmem
    rw [ht] at hu; cases hu
    rw [htl] at hul; cases hul
  refine ⟨?_, ?_, ?_⟩
  · simp only
    rw [List.nodup_append]
    refine ⟨h.nodup, by simp, ?_⟩
    intro x hx y hy
    simp at hy
    subst hy
    intro e'; subst e'; exact hnotin hx
  · intro j hj
    simp at hj
    rcases hj with hj | rfl
    · have hne : j ≠ id.index := fun e' => hnotin (e' ▸ hj)
      obtain ⟨u, hu, hul⟩ := h.inactive j hj
      exact ⟨u, by simp [List.getElem?_set, Ne.symm hne, hu], hul⟩
    · exact ⟨⟨t.gen, none⟩, by simp [List.getElem?_set, hilt], rfl⟩
  · intro j u hj hu
    by_cases hji : j = id.index
    · subst hji; simp
    · simp [List.getElem?_set, Ne.symm hji] at hj
      simp
      exact Or.inl (h.listed j u hj hu)

/-- A released identifier no longer resolves. -/
theorem release_dead {a a' : Alloc} {id : Ident} (e : a.release id = .ok a') :
    a'.get id = none := by
  obtain ⟨s, hs, rfl⟩ := release_eq e
  have hilt : id.index < a.slots.length := (List.getElem?_eq_some_iff.mp hs).1
  simp [get, List.getElem?_set, hilt]

/-- Releasing one identifier leaves every other live identifier resolving to the same place. -/
theorem release_frame {a a' : Alloc} {id : Ident} (hlive : Live a id)
    (e : a.release id = .ok a') {id' : Ident} {l : Loc} (hne : id' ≠ id)
    (hl : a.get id' = some l) : a'.get id' = some l := by
  obtain ⟨l0, hl0⟩ := hlive
  obtain ⟨t, ht, htg, htl⟩ := get_eq_some.mp hl0
  obtain ⟨t', ht', htg', htl'⟩ := get_eq_some.mp hl
  obtain ⟨s, hs, rfl⟩ := release_eq e
  have hidx : id'.index ≠ id.index := by
    intro e'
    rw [e', ht] at ht'
    cases ht'
    apply hne
    cases id; cases id'
    simp_all
  apply get_eq_some.mpr
  exact ⟨t', by simp [List.getElem?_set, Ne.symm hidx, ht'], htg', htl'⟩

/-! ### setLoc / setRow (moves of a live entity) -/

theorem setLoc_eq {a a' : Alloc} {id : Ident} {loc : Loc} (e : a.setLoc id loc = .ok a') :
    ∃ s, a.slots[id.index]? = some s ∧ a' = ⟨a.slots.set id.index ⟨s.gen, some loc⟩, a.free⟩ := by
  unfold setLoc at e
  cases hs : a.slots[id.index]? with
  | none => simp [hs] at e
  | some s => simp [hs] at e; exact ⟨s, rfl, e.symm⟩

theorem setLoc_inv {a a' : Alloc} {id : Ident} {loc : Loc} (h : AInv a) (hl : Live a id)
    (e : a.setLoc id loc = .ok a') : AInv a' := by
  obtain ⟨l, hl⟩ := hl
  obtain ⟨t, ht, _, htl⟩ := get_eq_some.mp hl
  obtain ⟨s, hs, rfl⟩ := setLoc_eq e
  rw [ht] at hs; cases hs
  have hilt : id.index < a.slots.length := (List.getElem?_eq_some_iff.mp ht).1
  have hnotin : id.index ∉ a.free := by
    intro hmem
    obtain ⟨u, hu, hul⟩ := h.inactive _ hmem
    rw [ht] at hu; cases hu
    rw [htl] at hul; cases hul
  refine ⟨h.nodup, ?_, ?_⟩
  · intro j hj
    have hne : j ≠ id.index := fun e' => hnotin (e' ▸ hj)
    obtain ⟨u, hu, hul⟩ := h.inactive j hj
    exact ⟨u, by simp [List.getElem?_set, Ne.symm hne, hu], hul⟩
  · intro j u hj hu
    by_cases hji : j = id.index
    · subst hji
      simp [List.getElem?_set, hilt] at hj
      subst hj; simp at hu
    · simp [List.getElem?_set, Ne.symm hji] at hj
      exact h.listed j u hj hu

theorem setLoc_get {a a' : Alloc} {id : Ident} {loc : Loc} (hl : Live a id)
    (e : a.setLoc id loc = .ok a') : a'.get id = some loc := by
  obtain ⟨l, hl⟩ := hl
  obtain ⟨t, ht, htg, _⟩ := get_eq_some.mp hl
  obtain ⟨s, hs, rfl⟩ := setLoc_eq e
  rw [ht] at hs; cases hs
  have hilt : id.index < a.slots.length := (List.getElem?_eq_some_iff.mp ht).1
  simp [get, List.getElem?_set, hilt, htg]

theorem setLoc_frame {a a' : Alloc} {id : Ident} {loc : Loc} (hlive : Live a id)
    (e : a.setLoc id loc = .ok a') {id' : Ident} {l : Loc} (hne : id' ≠ id)
    (hl : a.get id' = some l) : a'.get id' = some l := by
  obtain ⟨l0, hl0⟩ := hlive
  obtain ⟨t, ht, htg, htl⟩ := get_eq_some.mp hl0
  obtain ⟨t', ht', htg', htl'⟩ := get_eq_some.mp hl
  obtain ⟨s, hs, rfl⟩ := setLoc_eq e
  have hidx : id'.index ≠ id.index := by
    intro e'
    rw [e', ht] at ht'
    cases ht'
    apply hne
    cases id; cases id'
    simp_all
  apply get_eq_some.mpr
  exact ⟨t', by simp [List.getElem?_set, Ne.symm hidx, ht'], htg', htl'⟩

/-- A stale identifier stays unresolved across `setLoc` (the generation is untouched). -/
theorem setLoc_dead {a a' : Alloc} {id : Ident} {loc : Loc}
    (e : a.setLoc id loc = .ok a') {id' : Ident} (hne : ¬ Live a id') (hlive : Live a id) :
    ¬ Live a' id' := by
  obtain ⟨l0, hl0⟩ := hlive
  obtain ⟨t, ht, htg, htl⟩ := get_eq_some.mp hl0
  obtain ⟨s, hs, rfl⟩ := setLoc_eq e
  rw [ht] at hs; cases hs
  intro ⟨l, hl⟩
  obtain ⟨u, hu, hug, hul⟩ := get_eq_some.mp hl
  by_cases hidx : id'.index = id.index
  · have hilt : id.index < a.slots.length := (List.getElem?_eq_some_iff.mp ht).1
    simp [List.getElem?_set, hidx, hilt] at hu
    subst hu
    simp at hug
    apply hne
    exact ⟨l0, get_eq_some.mpr ⟨t, hidx ▸ ht, hug, htl⟩⟩
  · simp [List.getElem?_set, Ne.symm hidx] at hu
    exact hne ⟨l, get_eq_some.mpr ⟨u, hu, hug, hul⟩⟩

/-! ### Ghost history: freshness of issued identifiers (C02) -/

/-- Every identifier issued so far has a slot, and its generation is at most the slot's. -/
def Ghost (a : Alloc) (issued : List Ident) : Prop :=
  ∀ id ∈ issued, ∃ s, a.slots[id.index]? = some s ∧ id.gen ≤ s.gen

theorem Ghost.nil (a : Alloc) : Ghost a [] := by simp [Ghost]

/-- The identifier returned by `allocate` differs from every identifier issued before. -/
theorem allocate_fresh {a a' : Alloc} {loc : Loc} {id : Ident} {issued : List Ident}
    (g : Ghost a issued) (e : a.allocate loc = .ok (a', id)) : id ∉ issued := by
  intro hmem
  obtain ⟨s, hs, hle⟩ := g id hmem
  rcases allocate_cases e with ⟨_, _, rfl⟩ | ⟨i, rest, t, _, ht, _, rfl⟩
  · have := (List.getElem?_eq_some_iff.mp hs).1
    simp at this
  · simp at hs hle
    rw [ht] at hs; cases hs
    omega

theorem allocate_ghost {a a' : Alloc} {loc : Loc} {id : Ident} {issued : List Ident}
    (g : Ghost a issued) (e : a.allocate loc = .ok (a', id)) : Ghost a' (id :: issued) := by
  intro x hx
  rcases allocate_cases e with ⟨_, rfl, rfl⟩ | ⟨i, rest, t, _, ht, rfl, rfl⟩
  · simp at hx
    rcases hx with rfl | hx
    · exact ⟨⟨0, some loc⟩, by simp, by simp⟩
    · obtain ⟨s, hs, hle⟩ := g x hx
      have hlt := (List.getElem?_eq_some_iff.mp hs).1
      exact ⟨s, getElem?_append_of_some hs _, hle⟩
  · have hilt : i < a.slots.length := (List.getElem?_eq_some_iff.mp ht).1
    simp at hx
    rcases hx with rfl | hx
    · exact ⟨⟨t.gen + 1, some loc⟩, by simp [List.getElem?_set, hilt], by simp⟩
    · obtain ⟨s, hs, hle⟩ := g x hx
      by_cases hxi : x.index = i
      · rw [hxi, ht] at hs; cases hs
        exact ⟨⟨t.gen + 1, some loc⟩, by simp [List.getElem?_set, hxi, hilt], by simp; omega⟩
      · exact ⟨s, by simp [List.getElem?_set, Ne.symm hxi, hs], hle⟩

theorem release_ghost {a a' : Alloc} {id : Ident} {issued : List Ident}
    (g : Ghost a issued) (e : a.release id = .ok a') : Ghost a' issued := by
  obtain ⟨t, ht, rfl⟩ := release_eq e
  have hilt : id.index < a.slots.length := (List.getElem?_eq_some_iff.mp ht).1
  intro x hx
  obtain ⟨s, hs, hle⟩ := g x hx
  by_cases hxi : x.index = id.index
  · rw [hxi, ht] at hs; cases hs
    exact ⟨⟨t.gen, none⟩, by simp [List.getElem?_set, hxi, hilt], hle⟩
  · exact ⟨s, by simp [List.getElem?_set, Ne.symm hxi, hs], hle⟩

theorem setLoc_ghost {a a' : Alloc} {id : Ident} {loc : Loc} {issued : List Ident}
    (g : Ghost a issued) (e : a.setLoc id loc = .ok a') : Ghost a' issued := by
  obtain ⟨t, ht, rfl⟩ := setLoc_eq e
  have hilt : id.index < a.slots.length := (List.getElem?_eq_some_iff.mp ht).1
  intro x hx
  obtain ⟨s, hs, hle⟩ := g x hx
  by_cases hxi : x.index = id.index
  · rw [hxi, ht] at hs; cases hs
    exact ⟨⟨t.gen, some loc⟩, by simp [List.getElem?_set, hxi, hilt], hle⟩
  · exact ⟨s, by simp [List.getElem?_set, Ne.symm hxi, hs], hle⟩

/-! ### Death is permanent -/

/-- `Dead a id`: the identifier can never resolve again — its slot is inactive, or has moved on to
a later generation (generations only grow). -/
def Dead (a : Alloc) (id : Ident) : Prop :=
  ∃ s, a.slots[id.index]? = some s ∧ (id.gen < s.gen ∨ (id.gen = s.gen ∧ s.loc = none))

theorem Dead.not_live {a : Alloc} {id : Ident} (d : Dead a id) : a.get id = none := by
  obtain ⟨s, hs, h⟩ := d
  unfold get
  rw [hs]
  rcases h with h | ⟨h1, h2⟩
  · have : s.gen ≠ id.gen := by omega
    simp [this]
  · simp [h1, h2]

theorem release_makes_dead {a a' : Alloc} {id : Ident} (hl : Live a id)
    (e : a.release id = .ok a') : Dead a' id := by
  obtain ⟨l, hl⟩ := hl
  obtain ⟨t, ht, htg, _⟩ := get_eq_some.mp hl
  obtain ⟨s, hs, rfl⟩ := release_eq e
  rw [ht] at hs; cases hs
  have hilt : id.index < a.slots.length := (List.getElem?_eq_some_iff.mp ht).1
  exact ⟨⟨t.gen, none⟩, by simp [List.getElem?_set, hilt], Or.inr ⟨htg.symm, rfl⟩⟩

theorem allocate_dead {a a' : Alloc} {loc : Loc} {id x : Ident} (d : Dead a x)
    (e : a.allocate loc = .ok (a', id)) : Dead a' x := by
  obtain ⟨s, hs, h⟩ := d
  rcases allocate_cases e with ⟨_, rfl, _⟩ | ⟨i, rest, t, _, ht, rfl, _⟩
  · have hlt := (List.getElem?_eq_some_iff.mp hs).1
    exact ⟨s, getElem?_append_of_some hs _, h⟩
  · have hilt : i < a.slots.length := (List.getElem?_eq_some_iff.mp ht).1
    by_cases hxi : x.index = i
    · rw [hxi, ht] at hs; cases hs
      refine ⟨⟨s.gen + 1, some loc⟩, by simp [List.getElem?_set, hxi, hilt], Or.inl ?_⟩
      rcases h with h | ⟨h, _⟩ <;> simp <;> omega
    · exact ⟨s, by simp [List.getElem?_set, Ne.symm hxi, hs], h⟩

theorem release_dead_other {a a' : Alloc} {id x : Ident} (d : Dead a x)
    (e : a.release id = .ok a') : Dead a' x := by
  obtain ⟨s, hs, h⟩ := d
  obtain ⟨t, ht, rfl⟩ := release_eq e
  have hilt : id.index < a.slots.length := (List.getElem?_eq_some_iff.mp ht).1
  by_cases hxi : x.index = id.index
  · rw [hxi, ht] at hs; cases hs
    refine ⟨⟨s.gen, none⟩, by simp [List.getElem?_set, hxi, hilt], ?_⟩
    rcases h with h | ⟨h, _⟩
    · exact Or.inl h
    · exact Or.inr ⟨h, rfl⟩
  · exact ⟨s, by simp [List.getElem?_set, Ne.symm hxi, hs], h⟩

/-- Moving a *live* entity never revives a dead identifier. -/
theorem setLoc_dead_other {a a' : Alloc} {id x : Ident} {loc : Loc} (d : Dead a x)
    (hl : Live a id) (e : a.setLoc id loc = .ok a') : Dead a' x := by
  obtain ⟨s, hs, h⟩ := d
  obtain ⟨l0, hl0⟩ := hl
  obtain ⟨u, hu, hug, hul⟩ := get_eq_some.mp hl0
  obtain ⟨t, ht, rfl⟩ := setLoc_eq e
  have hilt : id.index < a.slots.length := (List.getElem?_eq_some_iff.mp ht).1
  by_cases hxi : x.index = id.index
  · rw [hxi, ht] at hs; cases hs
    rw [ht] at hu; cases hu
    refine ⟨⟨s.gen, some loc⟩, by simp [List.getElem?_set, hxi, hilt], ?_⟩
    rcases h with h | ⟨_, h2⟩
    · exact Or.inl h
    · rw [h2] at hul; cases hul
  · exact ⟨s, by simp [List.getElem?_set, Ne.symm hxi, hs], h⟩

/-! ### allocate_batch = repeated allocate -/

theorem allocateBatch_inv {a a' : Alloc} {h start n : Nat} {ids : List Ident} (hi : AInv a)
    (e : a.allocateBatch h start n = .ok (a', ids)) : AInv a' ∧ ids.length = n := by
  induction n generalizing a start ids with
  | zero => simp [allocateBatch] at e; obtain ⟨rfl, rfl⟩ := e; exact ⟨hi, rfl⟩
  | succ n ih =>
    unfold allocateBatch at e
    cases h1 : a.allocate ⟨h, start⟩ with
    | ub w => simp [h1] at e
    | ok p =>
      obtain ⟨a1, id⟩ := p
      simp [h1] at e
      cases h2 : a1.allocateBatch h (start + 1) n with
      | ub w => simp [h2] at e
      | ok q =>
        obtain ⟨a2, ids'⟩ := q
        simp [h2] at e
        obtain ⟨rfl, rfl⟩ := e
        have := ih (allocate_inv hi h1) h2
        exact ⟨this.1, by simp [this.2]⟩

/-- `allocate_batch` never reaches its unchecked accesses under the invariant. -/
theorem allocateBatch_ok {a : Alloc} (hi : AInv a) (h start n : Nat) :
    ∃ a' ids, a.allocateBatch h start n = .ok (a', ids) := by
  induction n generalizing a start with
  | zero => exact ⟨a, [], rfl⟩
  | succ n ih =>
    obtain ⟨a1, id, h1⟩ := allocate_ok hi ⟨h, start⟩
    obtain ⟨a2, ids, h2⟩ := ih (allocate_inv hi h1) (start + 1)
    exact ⟨a2, id :: ids, by simp [allocateBatch, h1, h2]⟩

/-- Batch identifiers are fresh, pairwise distinct, and the ghost history is maintained. -/
theorem allocateBatch_fresh {a a' : Alloc} {h start n : Nat} {ids issued : List Ident}
    (g : Ghost a issued) (e : a.allocateBatch h start n = .ok (a', ids)) :
    (∀ id ∈ ids, id ∉ issued) ∧ ids.Nodup ∧ Ghost a' (ids.reverse ++ issued) := by
  induction n generalizing a start ids issued with
  | zero => simp [allocateBatch] at e; obtain ⟨rfl, rfl⟩ := e; simp; exact g
  | succ n ih =>
    unfold allocateBatch at e
    cases h1 : a.allocate ⟨h, start⟩ with
    | ub w => simp [h1] at e
    | ok p =>
      obtain ⟨a1, id⟩ := p
      simp [h1] at e
      cases h2 : a1.allocateBatch h (start + 1) n with
      | ub w => simp [h2] at e
      | ok q =>
        obtain ⟨a2, ids'⟩ := q
        simp [h2] at e
        obtain ⟨rfl, rfl⟩ := e
        have hfresh := allocate_fresh g h1
        obtain ⟨f2, nd2, g2⟩ := ih (allocate_ghost g h1) h2
        refine ⟨?_, ?_, ?_⟩
        · intro x hx
          simp at hx
          rcases hx with rfl | hx
          · exact hfresh
          · have := f2 x hx
            simp at this
            exact this.2
        · rw [List.nodup_cons]
          refine ⟨?_, nd2⟩
          intro hmem
          have := f2 id hmem
          simp at this
        · simpa [List.reverse_cons, List.append_assoc] using g2

theorem allocateBatch_dead {a a' : Alloc} {h start n : Nat} {ids : List Ident} {x : Ident}
    (d : Dead a x) (e : a.allocateBatch h start n = .ok (a', ids)) : Dead a' x := by
  induction n generalizing a start ids with
  | zero => simp [allocateBatch] at e; obtain ⟨rfl, rfl⟩ := e; exact d
  | succ n ih =>
    unfold allocateBatch at e
    cases h1 : a.allocate ⟨h, start⟩ with
    | ub w => simp [h1] at e
    | ok p =>
      obtain ⟨a1, id⟩ := p
      simp [h1] at e
      cases h2 : a1.allocateBatch h (start + 1) n with
      | ub w => simp [h2] at e
      | ok q =>
        obtain ⟨a2, ids'⟩ := q
        simp [h2] at e
        obtain ⟨rfl, rfl⟩ := e
        exact ih (allocate_dead d h1) h2

theorem allocateBatch_frame {a a' : Alloc} {h start n : Nat} {ids : List Ident} (hi : AInv a)
    (e : a.allocateBatch h start n = .ok (a', ids)) {id' : Ident} {l : Loc}
    (hl : a.get id' = some l) : a'.get id' = some l := by
  induction n generalizing a start ids with
  | zero => simp [allocateBatch] at e; obtain ⟨rfl, rfl⟩ := e; exact hl
  | succ n ih =>
    unfold allocateBatch at e
    cases h1 : a.allocate ⟨h, start⟩ with
    | ub w => simp [h1] at e
    | ok p =>
      obtain ⟨a1, id⟩ := p
      simp [h1] at e
      cases h2 : a1.allocateBatch h (start + 1) n with
      | ub w => simp [h2] at e
      | ok q =>
        obtain ⟨a2, ids'⟩ := q
        simp [h2] at e
        obtain ⟨rfl, rfl⟩ := e
        exact ih (allocate_inv hi h1) h2 (allocate_frame hi h1 hl)

end Alloc
end Brood
