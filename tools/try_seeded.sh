#!/bin/sh
# usage: tools/try_seeded.sh <seeded-dir> <property> [tier]   — apply, check, revert
d=$1; p=$2; t=${3:-quick}
cd /repo && git status --short | grep -q . && { echo "repo dirty"; exit 2; }
git -C /repo apply "$d/patch.diff" || { echo "patch does not apply"; exit 2; }
cd /verif && ./check $p --tier $t > /tmp/try_$$.out 2>/tmp/try_$$.err; rc=$?
git -C /repo checkout -- .
echo "== $d $p rc=$rc"; grep -E 'VIOLATION|KNOWN' /tmp/try_$$.out; tail -1 /tmp/try_$$.err
rm -f /tmp/try_$$.out /tmp/try_$$.err
