/-
  Overwriting one component value in place (`Entry::add` on a present component, writes through
  `&mut` views) preserves the invariant.
-/
import BroodModel.Lemmas.World

set_option linter.unusedSimpArgs false
set_option linter.unusedVariables false

namespace Brood
open Alloc

/-- Replacing the value at (`k`, `r`) of table `a` by a value of the same component type. -/
theorem setCell_inv {w : World} (hi : Inv w) {a : Arch} (ham : a ∈ w.archs) {k r : Nat}
    {col : List Val} {old v : Val} (hcol : a.cols[k]? = some col) (hold : col[r]? = some old)
    (hty : v.ty = old.ty) :
    Inv (w.setArch { a with cols := a.cols.set k (col.set r v) }) := by
  have ok := hi.archOk ham
  have hfa := findArch_of_mem hi.handles_nodup ham
  have hfind_same : (w.setArch { a with cols := a.cols.set k (col.set r v) }).findArch a.handle =
      some { a with cols := a.cols.set k (col.set r v) } := findArch_setArch_same w _ hfa
  have hfind_ne : ∀ h, h ≠ a.handle →
      (w.setArch { a with cols := a.cols.set k (col.set r v) }).findArch h = w.findArch h :=
    fun h hne => findArch_setArch_ne w _ hne
  have hlook : ∀ p : Mask × Nat, lookupOk w p = true →
      lookupOk (w.setArch { a with cols := a.cols.set k (col.set r v) }) p = true := by
    intro p hp
    unfold lookupOk at hp ⊢
    by_cases hp2 : p.2 = a.handle
    · rw [hp2, hfind_same]; rw [hp2, hfa] at hp; exact hp
    · rw [hfind_ne _ hp2]; exact hp
  refine
    { free_nodup := hi.free_nodup, free_inactive := hi.free_inactive, slots := ?_, archs := ?_,
      masks_nodup := ?_, handles_nodup := ?_, typeIds := fun p hp => hlook p (hi.typeIds p hp),
      typeIds_nodup := hi.typeIds_nodup, foreign := fun p hp => hlook p (hi.foreign p hp), len := ?_ }
  · intro i hlt
    apply slotOk_iff.mpr
    intro s hs
    obtain ⟨h1, h2⟩ := (slotOk_iff.mp (hi.slots i hlt)) s hs
    refine ⟨h1, fun l hl => ?_⟩
    obtain ⟨b, hb, hrow, hfree⟩ := h2 l hl
    by_cases hla : l.arch = a.handle
    · have hba : b = a := by rw [hla, hfa] at hb; exact (Option.some.inj hb).symm
      rw [hba] at hrow
      exact ⟨{ a with cols := a.cols.set k (col.set r v) }, by rw [hla]; exact hfind_same, hrow, hfree⟩
    · exact ⟨b, by rw [hfind_ne _ hla]; exact hb, hrow, hfree⟩
  · intro x hx
    apply archOk_iff.mpr
    rcases mem_replaceH (hx : x ∈ replaceH w.archs _) with rfl | ⟨hxm, hxne⟩
    · refine
        { mask_len := ok.mask_len, handle_lt := ok.handle_lt, cols_len := by simp [ok.cols_len],
          cols_all_len := ?_, cols_ok := ?_, rows := ok.rows, foreign := ok.foreign }
      · intro c hc
        show c.length = a.ids.length
        rcases List.mem_or_eq_of_mem_set hc with h1 | rfl
        · exact ok.cols_all_len c h1
        · simp [ok.cols_all_len col (List.mem_of_getElem? hcol)]
      · intro j c ty hc hty'
        show c.length = a.ids.length ∧ ∀ x ∈ c, x.ty = ty
        have hc' : (a.cols.set k (col.set r v))[j]? = some c := hc
        by_cases hjk : j = k
        · subst hjk
          have hklt : j < a.cols.length := (List.getElem?_eq_some_iff.mp hcol).1
          rw [List.getElem?_set_self hklt] at hc'
          cases hc'
          obtain ⟨hl, htys⟩ := ok.cols_ok j col ty hcol hty'
          refine ⟨by simp [hl], ?_⟩
          intro x hx
          rcases List.mem_or_eq_of_mem_set hx with h1 | rfl
          · exact htys x h1
          · rw [hty]; exact htys old (List.mem_of_getElem? hold)
        · rw [List.getElem?_set_ne (Ne.symm hjk)] at hc'
          exact ok.cols_ok j c ty hc' hty'
    · exact archOk_iff.mp (hi.archs x hxm) |> fun okx =>
        { mask_len := okx.mask_len, handle_lt := okx.handle_lt, cols_len := okx.cols_len,
          cols_all_len := okx.cols_all_len, cols_ok := okx.cols_ok, rows := okx.rows, foreign := okx.foreign }
  · show ((replaceH w.archs _).map (·.mask)).Nodup
    rw [replaceH_masks (a := a) (a' := { a with cols := a.cols.set k (col.set r v) }) hi.handles_nodup ham rfl rfl]
    exact hi.masks_nodup
  · show ((replaceH w.archs _).map (·.handle)).Nodup
    rw [replaceH_handles]; exact hi.handles_nodup
  · show w.len = ((replaceH w.archs _).map (·.ids.length)).sum
    have hsum := replaceH_len_sum (a := a) (a' := { a with cols := a.cols.set k (col.set r v) })
      hi.handles_nodup ham rfl
    rw [hi.len]; simp only at hsum; omega

/-- **Writing through a mutable entry view preserves the invariant.** -/
theorem write_inv {w w' : World} {id : Ident} {c : Nat} {v : Val} {r : Option (List Val)}
    (hi : Inv w) (e : w.write id c v = .ok (w', r)) : Inv w' := by
  unfold World.write at e
  cases hg : w.alloc.get id with
  | none => simp [hg] at e; obtain ⟨rfl, _⟩ := e; exact hi
  | some loc =>
    simp only [hg] at e
    cases hf : w.findArch loc.arch with
    | none => simp [hf] at e; obtain ⟨rfl, _⟩ := e; exact hi
    | some a =>
      simp only [hf] at e
      by_cases hc : a.mask.has c
      · simp only [hc, if_true] at e
        cases hcol : a.cols[colIndex a.mask c]? with
        | none => simp [hcol] at e
        | some col =>
          simp only [hcol] at e
          cases hold : col[loc.row]? with
          | none => simp [hold] at e
          | some old =>
            simp only [hold] at e
            by_cases hbad : old.ty ≠ c ∨ v.ty ≠ c
            · simp [hbad] at e
            · simp only [hbad, if_false, Out.ok.injEq, Prod.mk.injEq] at e
              obtain ⟨rfl, _⟩ := e
              have h1 : old.ty = c := by
                apply Classical.byContradiction; intro h; exact hbad (Or.inl h)
              have h2 : v.ty = c := by
                apply Classical.byContradiction; intro h; exact hbad (Or.inr h)
              exact setCell_inv hi (findArch_some hf).1 hcol hold (by rw [h1, h2])
      · simp [hc] at e; obtain ⟨rfl, _⟩ := e; exact hi

end Brood
