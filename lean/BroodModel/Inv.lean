/-
  BroodModel.Inv — the structural invariant of a `World` (DESIGN §4.5; the statement of C13).

  `Inv` is a `Prop` with a `Decidable` instance built from computable pieces, so the very predicate
  the theorems are about is compiled into the driver and evaluated on dumps of the real world.
-/
import BroodModel.World

namespace Brood

/-- Slot `i` is consistent: inactive ⇒ on the free queue; active at `⟨h, r⟩` ⇒ table `h` exists,
its row `r` stores exactly `⟨i, generation⟩`, and `i` is not on the free queue. -/
def slotOk (w : World) (i : Nat) : Bool :=
  match w.alloc.slots[i]? with
  | none => true
  | some s =>
    match s.loc with
    | none => w.alloc.free.contains i
    | some l =>
      match w.findArch l.arch with
      | none => false
      | some a => a.ids[l.row]? == some ⟨i, s.gen⟩ && !w.alloc.free.contains i

/-- Row `r` of table `a` stores an identifier whose slot points back at `⟨a.handle, r⟩` with the
same generation. -/
def rowOk (w : World) (a : Arch) (r : Nat) : Bool :=
  match a.ids[r]? with
  | none => true
  | some id => w.alloc.slots[id.index]? == some ⟨id.gen, some ⟨a.handle, r⟩⟩

/-- Column `c` holds `len` values of component type `ty`. -/
def colOk (len : Nat) (c : List Val) (ty : Nat) : Bool :=
  c.length == len && c.all (fun v => v.ty == ty)

/-- Table `a` is well formed inside `w`. -/
def archOk (w : World) (a : Arch) : Bool :=
  a.mask.length == w.n && decide (a.handle < w.next) && a.cols.length == a.mask.count
    && a.cols.all (fun c => c.length == a.ids.length)
    && (List.zipWith (colOk a.ids.length) a.cols a.mask.comps).all id
    && (List.range a.ids.length).all (rowOk w a)
    && w.foreign.contains (a.mask, a.handle)

/-- A lookup entry names an existing table with the key's component set. -/
def lookupOk (w : World) (p : Mask × Nat) : Bool :=
  match w.findArch p.2 with
  | some a => a.mask == p.1
  | none => false

/-- The invariant (C13): identifiers accepted ⇔ identifiers stored, one row per identifier, free
queue = inactive slots without duplicates, one table per component set, lookups sound, `len`. -/
structure Inv (w : World) : Prop where
  free_nodup : w.alloc.free.Nodup
  free_inactive : ∀ i ∈ w.alloc.free, (w.alloc.slots[i]?).map (·.loc) = some none
  slots : ∀ i, i < w.alloc.slots.length → slotOk w i = true
  archs : ∀ a ∈ w.archs, archOk w a = true
  masks_nodup : (w.archs.map (·.mask)).Nodup
  handles_nodup : (w.archs.map (·.handle)).Nodup
  typeIds : ∀ p ∈ w.typeIds, lookupOk w p = true
  typeIds_nodup : (w.typeIds.map (·.1)).Nodup
  foreign : ∀ p ∈ w.foreign, lookupOk w p = true
  len : w.len = (w.archs.map (·.ids.length)).sum

/-- The clauses of `Inv`, named, as decidable propositions (used for the `Decidable` instance and
for reporting *which* clause fails on a dump). -/
def Inv.clauses (w : World) : List (String × Bool) :=
  [ ("free_nodup", decide (w.alloc.free.Nodup)),
    ("free_inactive", decide (∀ i ∈ w.alloc.free, (w.alloc.slots[i]?).map (·.loc) = some none)),
    ("slots", decide (∀ i, i < w.alloc.slots.length → slotOk w i = true)),
    ("archs", decide (∀ a ∈ w.archs, archOk w a = true)),
    ("masks_nodup", decide ((w.archs.map (·.mask)).Nodup)),
    ("handles_nodup", decide ((w.archs.map (·.handle)).Nodup)),
    ("typeIds", decide (∀ p ∈ w.typeIds, lookupOk w p = true)),
    ("typeIds_nodup", decide ((w.typeIds.map (·.1)).Nodup)),
    ("foreign", decide (∀ p ∈ w.foreign, lookupOk w p = true)),
    ("len", decide (w.len = (w.archs.map (·.ids.length)).sum)) ]

theorem Inv.iff_conj (w : World) :
    Inv w ↔
      (w.alloc.free.Nodup ∧
       (∀ i ∈ w.alloc.free, (w.alloc.slots[i]?).map (·.loc) = some none) ∧
       (∀ i, i < w.alloc.slots.length → slotOk w i = true) ∧
       (∀ a ∈ w.archs, archOk w a = true) ∧
       (w.archs.map (·.mask)).Nodup ∧
       (w.archs.map (·.handle)).Nodup ∧
       (∀ p ∈ w.typeIds, lookupOk w p = true) ∧
       (w.typeIds.map (·.1)).Nodup ∧
       (∀ p ∈ w.foreign, lookupOk w p = true) ∧
       w.len = (w.archs.map (·.ids.length)).sum) :=
  ⟨fun h => ⟨h.1, h.2, h.3, h.4, h.5, h.6, h.7, h.8, h.9, h.10⟩,
   fun ⟨a, b, c, d, e, f, g, h, i, j⟩ => ⟨a, b, c, d, e, f, g, h, i, j⟩⟩

instance (w : World) : Decidable (Inv w) := decidable_of_iff _ (Inv.iff_conj w).symm

/-- Compiled twin of `Inv`. -/
def invB (w : World) : Bool := decide (Inv w)

theorem invB_iff (w : World) : invB w = true ↔ Inv w := by simp [invB]

/-- Names of the clauses that fail. -/
def invFailures (w : World) : List String :=
  (Inv.clauses w).filterMap (fun p => if p.2 then none else some p.1)

end Brood
