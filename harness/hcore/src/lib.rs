//! Shared part of the harness: component types, ledger, allocator audit, the `Family` trait and
//! the generated typed families (registries, queries).  Schedule types live in shard crates so
//! that rustc's type-level scheduling work is spread over all cores.
pub mod alloc_audit;
pub mod comps;
pub mod family;
pub mod gen_queries;
pub mod gen_reg10;
pub mod gen_reg4;
pub mod gen_reg8;
pub mod rng;
pub mod sched_types;
