import BroodModel.Inv
namespace Brood
theorem C02_placeholder_init (n : Nat) (res : List Val) : (World.init n res).len = 0 := rfl
end Brood
#print axioms Brood.C02_placeholder_init
