//! serde round trips (C06) and mutated inputs (C11).
use crate::comps::*;
use crate::core::*;
use crate::family::Family;
use std::sync::atomic::Ordering;

pub fn exec_serde<F: Family>(
    it: &mut Interp<F>,
    w: usize,
    src: usize,
    rows: bool,
    e: u64,
    front: &str,
    mutation: &[String],
) -> Option<String> {
    if src >= it.worlds.len() || src == w {
        return None;
    }
    if it.worlds[src].is_none() {
        return Some("no-world".into());
    }
    if front != "tokens" || !mutation.is_empty() {
        return None;
    }
    let tokens = match F::ser_tokens(it.worlds[src].as_ref().unwrap(), rows) {
        Ok(t) => t,
        Err(e) => return Some(format!("err ser {}", e)),
    };
    EPOCH.store(e, Ordering::SeqCst);
    match F::de_tokens(tokens, rows) {
        Ok(nw) => {
            let old = it.worlds[w].take();
            drop(old);
            it.worlds[w] = Some(nw);
            it.issued[w] = it.issued[src].clone();
            Some("ok drops=@".into())
        }
        Err(_e) => Some("err de".into()),
    }
}
