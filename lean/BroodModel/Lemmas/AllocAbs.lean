/-
  Which identifiers a world hands out is decided by very little of it: per slot the generation and
  whether it is in use, and the free queue (`Alloc.abs`).  Every world operation transforms this
  abstraction by a function of the abstraction and the operation alone (`opAbs`) — not of the
  tables, their order, the values, or where the rows are.  Two worlds with the same abstraction
  (a world and its round-tripped copy, a world and its clone) that receive the same operations
  therefore issue the same identifiers, for ever (C06: "behaves identically … same identifiers
  issued").  `clear` is the operation that made this false before repair 0564c68.
-/
import BroodModel.Lemmas.AllocPres
import BroodModel.Lemmas.Eq

set_option linter.unusedSimpArgs false
set_option linter.unusedVariables false

namespace Brood
open Alloc

/-- What decides the identifiers issued: generation and in-use bit per slot, and the free queue. -/
structure AAbs where
  gens : List (Nat × Bool)
  free : List Nat
deriving DecidableEq, Repr

def Alloc.abs (a : Alloc) : AAbs := ⟨a.slots.map (fun s => (s.gen, s.loc.isSome)), a.free⟩

namespace AAbs

def genAt (k : AAbs) (i : Nat) : Nat := (k.gens.getD i (0, false)).1

/-- `Allocator::allocate` on the abstraction. -/
def allocate (k : AAbs) : AAbs × Ident :=
  match k.free with
  | i :: rest => (⟨k.gens.set i (k.genAt i + 1, true), rest⟩, ⟨i, k.genAt i + 1⟩)
  | [] => (⟨k.gens ++ [(0, true)], []⟩, ⟨k.gens.length, 0⟩)

def allocateN (k : AAbs) : Nat → AAbs × List Ident
  | 0 => (k, [])
  | n + 1 =>
    let (k1, id) := k.allocate
    let (k2, ids) := k1.allocateN n
    (k2, id :: ids)

def live (k : AAbs) (id : Ident) : Bool := k.gens[id.index]? == some (id.gen, true)

def release (k : AAbs) (id : Ident) : AAbs :=
  ⟨k.gens.set id.index (id.gen, false), k.free ++ [id.index]⟩

/-- `World::clear`: every slot in use is freed; the freed slots join the queue in ascending order. -/
def clear (k : AAbs) : AAbs :=
  ⟨k.gens.map (fun g => (g.1, false)),
   k.free ++ (List.range k.gens.length).filter (fun i => (k.gens.getD i (0, false)).2)⟩

end AAbs

/-- The abstraction after an operation, and the identifiers the operation issues. -/
def opAbs (k : AAbs) : Op → AAbs × List Ident
  | .insert _ _ => let (k', id) := k.allocate; (k', [id])
  | .extend _ rows => k.allocateN rows.length
  | .remove id => (if k.live id then k.release id else k, [])
  | .clear _ => (k.clear, [])
  | _ => (k, [])

/-- The identifiers an operation returns to its caller. -/
def issued (w : World) : Op → List Ident
  | .insert shape vals => match w.insert shape vals with | .ok (_, id) => [id] | .ub _ => []
  | .extend shape rows => match w.extend shape rows with | .ok (_, ids) => ids | .ub _ => []
  | _ => []

/-! ### the primitives on the abstraction -/

theorem abs_genAt {a : Alloc} {i : Nat} {s : Slot} (h : a.slots[i]? = some s) : a.abs.genAt i = s.gen := by
  simp [Alloc.abs, AAbs.genAt, List.getD, List.getElem?_map, h]

theorem allocate_abs {a a' : Alloc} {loc : Loc} {id : Ident} (e : a.allocate loc = .ok (a', id)) :
    a.abs.allocate = (a'.abs, id) := by
  unfold Alloc.allocate at e
  unfold AAbs.allocate
  cases hf : a.free with
  | nil =>
    simp only [hf, Out.ok.injEq, Prod.mk.injEq] at e
    obtain ⟨rfl, rfl⟩ := e
    simp [Alloc.abs, hf]
  | cons i rest =>
    simp only [hf] at e
    cases hs : a.slots[i]? with
    | none => simp [hs] at e
    | some s =>
      simp only [hs, Out.ok.injEq, Prod.mk.injEq] at e
      obtain ⟨rfl, rfl⟩ := e
      have hg := abs_genAt hs
      have hfree : a.abs.free = i :: rest := hf
      simp only [hfree, hg]
      simp [Alloc.abs, List.map_set]

theorem allocateBatch_abs {h : Nat} : ∀ (n : Nat) {a a' : Alloc} {start : Nat} {ids : List Ident},
    a.allocateBatch h start n = .ok (a', ids) → a.abs.allocateN n = (a'.abs, ids) := by
  intro n
  induction n with
  | zero => intro a a' start ids e; simp [allocateBatch] at e; obtain ⟨rfl, rfl⟩ := e; rfl
  | succ n ih =>
    intro a a' start ids e
    unfold allocateBatch at e
    cases h1 : a.allocate ⟨h, start⟩ with
    | ub x => simp [h1] at e
    | ok p =>
      obtain ⟨a1, id0⟩ := p
      simp only [h1] at e
      cases h2 : a1.allocateBatch h (start + 1) n with
      | ub x => simp [h2] at e
      | ok q =>
        obtain ⟨a2, ids'⟩ := q
        simp only [h2, Out.ok.injEq, Prod.mk.injEq] at e
        obtain ⟨rfl, rfl⟩ := e
        simp only [AAbs.allocateN, allocate_abs h1, ih h2]

theorem live_abs (a : Alloc) (id : Ident) : a.abs.live id = (a.get id).isSome := by
  unfold AAbs.live Alloc.get Alloc.abs
  simp only [List.getElem?_map]
  cases hs : a.slots[id.index]? with
  | none => simp
  | some s =>
    by_cases hg : s.gen = id.gen
    · cases hl : s.loc <;> simp [hg, hl]
    · have : ¬ (s.gen, s.loc.isSome) = (id.gen, true) := by
        intro h; exact hg (by simpa using congrArg Prod.fst h)
      simp [hg, this]

/-- Re-pointing a live identifier does not change the abstraction. -/
theorem setLoc_abs {a a' : Alloc} {id : Ident} {loc : Loc} (hl : Live a id)
    (e : a.setLoc id loc = .ok a') : a'.abs = a.abs := by
  obtain ⟨l, hl⟩ := hl
  obtain ⟨s, hs, hg, hsl⟩ := get_eq_some.mp hl
  unfold Alloc.setLoc at e
  simp only [hs, Out.ok.injEq] at e
  subst e
  simp only [Alloc.abs, List.map_set, AAbs.mk.injEq, and_true]
  apply List.ext_getElem?
  intro j
  rw [List.getElem?_set]
  by_cases hj : id.index = j
  · subst hj
    have hlt : id.index < (a.slots.map (fun s => (s.gen, s.loc.isSome))).length := by
      simp; exact (List.getElem?_eq_some_iff.mp hs).1
    simp only [if_true, hlt, List.getElem?_map, hs, Option.map_some, hsl]
    simp
  · simp [hj]

theorem spres_abs (k : AAbs) : SPres (fun a => a.abs = k) :=
  ⟨fun _ pa hl e => (setLoc_abs hl e).trans pa⟩

/-! ### the operations on the abstraction -/

theorem set_self_of_getElem? {α} {l : List α} {i : Nat} {x : α} (h : l[i]? = some x) : l.set i x = l := by
  apply List.ext_getElem?
  intro j
  rw [List.getElem?_set]
  by_cases hj : i = j
  · subst hj
    have hlt : i < l.length := (List.getElem?_eq_some_iff.mp h).1
    simp only [if_true, hlt, h]
  · simp [hj]

/-- `extend` obtains its identifiers from one `allocate_batch` call on the world's allocator. -/
theorem extend_alloc {w w' : World} {shape : List Nat} {rows : List (List Val)} {ids : List Ident} (hi : Inv w)
    (e : w.extend shape rows = .ok (w', ids)) :
    ∃ h start, w.alloc.allocateBatch h start rows.length = .ok (w'.alloc, ids) := by
  unfold World.extend at e
  cases h1 : w.archForEntity (Mask.ofShape w.n shape) with
  | ub x => simp [h1] at e
  | ok p =>
    obtain ⟨w1, hd⟩ := p
    have af := archForEntity_inv hi (by simp [Mask.ofShape]) h1
    simp only [h1] at e
    cases h2 : w1.getArch hd with
    | ub x => simp [h2] at e
    | ok a =>
      simp only [h2] at e
      cases h3 : w1.alloc.allocateBatch hd a.ids.length rows.length with
      | ub x => simp [h3] at e
      | ok q =>
        obtain ⟨al, nids⟩ := q
        simp only [h3] at e
        cases h4 : World.pushRows w.n shape a nids rows with
        | ub x => simp [h4] at e
        | ok a' =>
          simp only [h4, Out.ok.injEq, Prod.mk.injEq] at e
          obtain ⟨rfl, rfl⟩ := e
          rw [af.alloc] at h3
          exact ⟨_, _, h3⟩

/-- `remove` on the abstraction: a live identifier is released, a dead one changes nothing. -/
theorem remove_abs {w w' : World} {id : Ident} {drops : List Val} (hi : Inv w)
    (e : w.remove id = .ok (w', drops)) :
    w'.alloc.abs = if w.alloc.abs.live id then w.alloc.abs.release id else w.alloc.abs := by
  rw [live_abs]
  cases hg : w.alloc.get id with
  | none =>
    simp [World.remove, hg] at e
    obtain ⟨rfl, _⟩ := e
    simp
  | some loc =>
    obtain ⟨a, la, hh⟩ := hi.liveAt hg
    have hr : loc.row < a.ids.length := (List.getElem?_eq_some_iff.mp la.row).1
    have hne0 : a.ids.length - 1 < a.ids.length := by omega
    have hlast : a.ids[a.ids.length - 1]? = some a.ids[a.ids.length - 1] := List.getElem?_eq_getElem hne0
    rw [remove_eq hi la hlast] at e
    simp only [Out.ok.injEq, Prod.mk.injEq] at e
    obtain ⟨rfl, _⟩ := e
    simp only [Option.isSome_some, if_true]
    show (removeAlloc w.alloc id a.ids[a.ids.length - 1] a.handle loc.row a.ids.length).abs = _
    have hslot_id : w.alloc.slots[id.index]? = some ⟨id.gen, some ⟨a.handle, loc.row⟩⟩ := la.ok.rows loc.row id la.row
    have hslot_last : w.alloc.slots[a.ids[a.ids.length - 1].index]? =
        some ⟨a.ids[a.ids.length - 1].gen, some ⟨a.handle, a.ids.length - 1⟩⟩ := la.ok.rows _ _ hlast
    unfold removeAlloc Alloc.abs AAbs.release
    simp only [AAbs.mk.injEq, and_true, List.map_set]
    congr 1
    by_cases hmid : loc.row < a.ids.length - 1
    · simp only [hmid, if_true, List.map_set]
      rw [set_self_of_getElem? (by simp [List.getElem?_map, hslot_last])]
    · simp only [hmid, if_false]

/-- The stored identifiers' slots are exactly the slots in use. -/
theorem stored_index_iff {w : World} (hi : Inv w) (j : Nat) :
    (∃ y ∈ w.stored, y.index = j) ↔ ∃ s, w.alloc.slots[j]? = some s ∧ s.loc.isSome = true := by
  constructor
  · rintro ⟨y, hy, rfl⟩
    obtain ⟨a, ha, r, hr⟩ := mem_stored hy
    exact ⟨_, (hi.archOk ha).rows r y hr, rfl⟩
  · rintro ⟨s, hs, hl⟩
    have hlt : j < w.alloc.slots.length := (List.getElem?_eq_some_iff.mp hs).1
    obtain ⟨_, hsome⟩ := (slotOk_iff.mp (hi.slots j hlt)) s hs
    cases hloc : s.loc with
    | none => simp [hloc] at hl
    | some l =>
      obtain ⟨b, hb, hbrow, _⟩ := hsome l hloc
      exact ⟨⟨j, s.gen⟩, List.mem_flatMap.mpr ⟨b, (findArch_some hb).1, List.mem_of_getElem? hbrow⟩, rfl⟩

/-- `clear` on the abstraction: every slot in use is freed, in ascending order. -/
theorem clear_abs {w w' : World} {order : List Mask} {drops : List Val} (hi : Inv w)
    (e : w.clear order = .ok (w', drops)) : w'.alloc.abs = w.alloc.abs.clear := by
  obtain ⟨w1, r1, rfl⟩ := clear_eq e
  rw [clear_eq_clearWith] at r1
  have hp1 : (w.visitOrder order).Perm w.archs := List.mergeSort_perm _ _
  have hperm : ((w.visitOrder order).flatMap (·.ids)).Perm w.stored := List.Perm.flatMap_right _ hp1
  have hex : ∀ y ∈ (w.visitOrder order).flatMap (·.ids), ∃ s, w.alloc.slots[y.index]? = some s := by
    intro y hy
    obtain ⟨a, ha, r, hr⟩ := mem_stored (hperm.mem_iff.mp hy)
    exact ⟨_, (hi.archOk ha).rows r y hr⟩
  obtain ⟨al, f1, g1, l1, s1⟩ := freeAll_spec _ w.alloc hex
  simp only [World.clearWith, f1, Out.ok.injEq, Prod.mk.injEq] at r1
  obtain ⟨rfl, _⟩ := r1
  show (World.sortFreeFrom al w.alloc.free.length).abs = _
  have hmem : ∀ j, j ∈ ((w.visitOrder order).flatMap (·.ids)).map (·.index) ↔
      ∃ s, w.alloc.slots[j]? = some s ∧ s.loc.isSome = true := by
    intro j
    rw [← stored_index_iff hi j]
    simp only [List.mem_map]
    constructor
    · rintro ⟨y, hy, rfl⟩; exact ⟨y, hperm.mem_iff.mp hy, rfl⟩
    · rintro ⟨y, hy, rfl⟩; exact ⟨y, hperm.mem_iff.mpr hy, rfl⟩
  unfold World.sortFreeFrom Alloc.abs AAbs.clear
  simp only [AAbs.mk.injEq]
  constructor
  · -- generations stay, every slot is out of use
    apply List.ext_getElem?
    intro j
    simp only [List.getElem?_map, s1 j]
    by_cases hj : j ∈ ((w.visitOrder order).flatMap (·.ids)).map (·.index)
    · simp only [hj, if_true]
      cases hs : w.alloc.slots[j]? <;> simp
    · simp only [hj, if_false]
      cases hs : w.alloc.slots[j]? with
      | none => simp
      | some s =>
        have : ¬ s.loc.isSome = true := fun h => hj ((hmem j).mpr ⟨s, hs, h⟩)
        cases hl : s.loc with
        | none => simp [hl]
        | some l => simp [hl] at this
  · -- the freed slots, sorted, are the slots that were in use, in ascending order
    rw [g1, List.take_left, List.drop_left]
    congr 1
    have htr : ∀ a b c : Nat, decide (a ≤ b) = true → decide (b ≤ c) = true → decide (a ≤ c) = true := by
      intro a b c h1 h2; simp at *; omega
    have htot : ∀ a b : Nat, (decide (a ≤ b) || decide (b ≤ a)) = true := by
      intro a b; simp; omega
    apply List.Perm.eq_of_pairwise (le := fun a b => decide (a ≤ b) = true)
    · intro a b _ _ h1 h2; simp at h1 h2; omega
    · exact List.pairwise_mergeSort htr htot _
    · have hlt : (List.range (w.alloc.slots.map (fun s => (s.gen, s.loc.isSome))).length).Pairwise (· < ·) :=
        List.pairwise_lt_range
      exact (hlt.imp (fun h => by simp; omega)).filter _
    · refine (List.mergeSort_perm _ _).trans ?_
      rw [List.perm_ext_iff_of_nodup]
      · intro j
        rw [hmem j, List.mem_filter, List.mem_range]
        simp only [List.length_map, List.getD, List.getElem?_map]
        constructor
        · rintro ⟨s, hs, hl⟩
          exact ⟨(List.getElem?_eq_some_iff.mp hs).1, by simp [hs, hl]⟩
        · rintro ⟨hlt, hact⟩
          cases hs : w.alloc.slots[j]? with
          | none => simp [hs] at hact
          | some s => exact ⟨s, rfl, by simpa [hs] using hact⟩
      · have : (((w.visitOrder order).flatMap (·.ids)).map (·.index)).Perm (w.stored.map (·.index)) := hperm.map _
        rw [this.nodup_iff, List.Nodup, List.pairwise_map]
        exact hi.stored_pairwise
      · exact (List.nodup_range).sublist List.filter_sublist |> fun h => h

/-! ### every operation is a function of the abstraction -/

/-- **Every world operation transforms the abstraction, and issues identifiers, as a function of
the abstraction and the operation alone.** -/
theorem step_abs {w w' : World} (hi : Inv w) {op : Op} (e : step w op = .ok w') :
    opAbs w.alloc.abs op = (w'.alloc.abs, issued w op) := by
  cases op with
  | insert shape vals =>
    obtain ⟨nid, h⟩ := fstOut_ok e
    obtain ⟨loc, ha⟩ := insert_alloc hi h
    simp only [opAbs, issued, allocate_abs ha, h]
  | extend shape rows =>
    obtain ⟨ids, h⟩ := fstOut_ok e
    obtain ⟨hd, start, ha⟩ := extend_alloc hi h
    simp only [opAbs, issued, allocateBatch_abs _ ha, h]
  | remove id =>
    obtain ⟨d, h⟩ := fstOut_ok e
    simp only [opAbs, issued, remove_abs hi h]
  | clear order =>
    obtain ⟨d, h⟩ := fstOut_ok e
    simp only [opAbs, issued, clear_abs hi h]
  | add id c v =>
    have := step_spres (spres_abs w.alloc.abs) hi (by simp [Op.movesOnly]) rfl e
    simp only [opAbs, issued, this]
  | del id c =>
    have := step_spres (spres_abs w.alloc.abs) hi (by simp [Op.movesOnly]) rfl e
    simp only [opAbs, issued, this]
  | write id c v =>
    have := step_spres (spres_abs w.alloc.abs) hi (by simp [Op.movesOnly]) rfl e
    simp only [opAbs, issued, this]
  | reserve shape =>
    have := step_spres (spres_abs w.alloc.abs) hi (by simp [Op.movesOnly]) rfl e
    simp only [opAbs, issued, this]
  | shrink =>
    have := step_spres (spres_abs w.alloc.abs) hi (by simp [Op.movesOnly]) rfl e
    simp only [opAbs, issued, this]

/-- An operation with the observed table order of `clear` forgotten. -/
def Op.forget : Op → Op
  | .clear _ => .clear []
  | op => op

theorem opAbs_forget (k : AAbs) (op : Op) : opAbs k op.forget = opAbs k op := by
  cases op <;> rfl

/-- **Lock step, one operation.**  Two worlds with the same allocator abstraction that receive the
same operation — `clear` in whatever order each world's table happens to be visited — issue the
same identifiers and have the same abstraction afterwards. -/
theorem lockstep_step {a b a' b' : World} (ha : Inv a) (hb : Inv b) (h : a.alloc.abs = b.alloc.abs)
    {opa opb : Op} (hop : opa.forget = opb.forget) (ea : step a opa = .ok a') (eb : step b opb = .ok b') :
    a'.alloc.abs = b'.alloc.abs ∧ issued a opa = issued b opb := by
  have h1 := step_abs ha ea
  have h2 := step_abs hb eb
  rw [← opAbs_forget, hop, opAbs_forget, h, h2] at h1
  exact ⟨(congrArg Prod.fst h1).symm, (congrArg Prod.snd h1).symm⟩

/-- A history, collecting the identifiers issued. -/
def runIssued (w : World) : List Op → Out (World × List Ident)
  | [] => .ok (w, [])
  | op :: ops =>
    match step w op with
    | .ub e => .ub e
    | .ok w' =>
      match runIssued w' ops with
      | .ub e => .ub e
      | .ok (w'', ids) => .ok (w'', issued w op ++ ids)

/-- **Lock step, every history.**  Two worlds with the same allocator abstraction that receive the
same operations issue the same identifiers, whatever their tables contain and in whatever order
their tables are visited. -/
theorem lockstep_run : ∀ (opsa opsb : List Op), opsa.map Op.forget = opsb.map Op.forget →
    ∀ {a b a' b' : World} {ia ib : List Ident}, Inv a → Inv b → a.alloc.abs = b.alloc.abs →
      runIssued a opsa = .ok (a', ia) → runIssued b opsb = .ok (b', ib) →
      ia = ib ∧ a'.alloc.abs = b'.alloc.abs := by
  intro opsa
  induction opsa with
  | nil =>
    intro opsb hops a b a' b' ia ib _ _ h ea eb
    cases opsb with
    | cons _ _ => simp at hops
    | nil =>
      simp only [runIssued, Out.ok.injEq, Prod.mk.injEq] at ea eb
      obtain ⟨rfl, rfl⟩ := ea
      obtain ⟨rfl, rfl⟩ := eb
      exact ⟨rfl, h⟩
  | cons opa opsa ih =>
    intro opsb hops a b a' b' ia ib ha hb h ea eb
    cases opsb with
    | nil => simp at hops
    | cons opb opsb =>
      simp only [List.map_cons, List.cons.injEq] at hops
      simp only [runIssued] at ea eb
      cases sa : step a opa with
      | ub x => simp [sa] at ea
      | ok a1 =>
        cases sb : step b opb with
        | ub x => simp [sb] at eb
        | ok b1 =>
          simp only [sa, sb] at ea eb
          cases ra : runIssued a1 opsa with
          | ub x => simp [ra] at ea
          | ok pa =>
            cases rb : runIssued b1 opsb with
            | ub x => simp [rb] at eb
            | ok pb =>
              obtain ⟨a2, i2⟩ := pa
              obtain ⟨b2, j2⟩ := pb
              simp only [ra, rb, Out.ok.injEq, Prod.mk.injEq] at ea eb
              obtain ⟨rfl, rfl⟩ := ea
              obtain ⟨rfl, rfl⟩ := eb
              obtain ⟨h1, h2⟩ := lockstep_step ha hb h hops.1 sa sb
              obtain ⟨h3, h4⟩ := ih opsb hops.2 (step_inv ha sa) (step_inv hb sb) h1 ra rb
              exact ⟨by rw [h2, h3], h4⟩

/-- Worlds that compare equal have the same allocator abstraction. -/
theorem eqWorld_abs {a b : World} (ha : Inv a) (hb : Inv b) (h : World.eqWorld a b = .ok true) :
    a.alloc.abs = b.alloc.abs := by
  obtain ⟨_, _, _, h4, h5, _⟩ := (eqWorld_true_iff ha hb).mp h
  obtain ⟨hlen, hpt⟩ := slotsEqv_true _ _ h4
  unfold Alloc.abs
  simp only [AAbs.mk.injEq]
  refine ⟨?_, h5⟩
  apply List.ext_getElem?
  intro j
  simp only [List.getElem?_map]
  cases hs : a.alloc.slots[j]? with
  | none =>
    have : b.alloc.slots[j]? = none := by
      rw [List.getElem?_eq_none_iff] at hs ⊢; omega
    simp [this]
  | some s =>
    have hj : j < b.alloc.slots.length := by
      have := (List.getElem?_eq_some_iff.mp hs).1; omega
    have ht : b.alloc.slots[j]? = some b.alloc.slots[j] := List.getElem?_eq_getElem hj
    have he := hpt j s _ hs ht
    rw [ht]
    simp only [Option.map_some, Option.some.injEq, Prod.mk.injEq]
    unfold World.slotEqv at he
    by_cases hg : s.gen ≠ b.alloc.slots[j].gen
    · simp [hg] at he
    · simp only [hg, if_false] at he
      have hg' : s.gen = b.alloc.slots[j].gen := by simpa using hg
      refine ⟨hg', ?_⟩
      cases hl : s.loc <;> cases hr : b.alloc.slots[j].loc <;> simp [hl, hr] at he ⊢

end Brood
