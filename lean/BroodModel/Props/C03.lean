/-
  C03 — Queries return exactly the matching entities with the right values.

  `World.query` mirrors `World::query` → `result::Iter`: archetypes filtered by
  `And<Views, Filter>` on their identifier, then for every row one cell per view, the column found
  by the identifier bit walk (`colIndex`) and read at the view's component type.  Every unchecked
  step is checked in the model (`Out.ub`: absent column read as present = `uninitRead`, wrong
  column = `typeConfusion`, short column = `oobRow`).  `Spec.query` is the reference: filter the
  denoted map by component sets, look the viewed components up by type.

  Mutation through query-wide `&mut` views is `World.queryWrite` (`C03_query_write`: only matching
  entities change, only in the components viewed mutably, the invariant is preserved); single-
  entity writes are in C01 (`C01_write`).  The parallel iterators are C09.
-/
import BroodModel.Lemmas.QueryWrite

namespace Brood

/-- **A query yields exactly the reference's rows** — one per live entity whose component set
satisfies the filter and contains every non-optional viewed component, each carrying that
entity's identifier and values, optional views `absent` exactly when the component is absent —
and never performs an unchecked read with a violated precondition. -/
theorem C03_query_exact {w : World} (hi : Inv w) (vs : List View) (f : Filter) :
    w.query vs f = .ok (Spec.query w.n ⟨w.ents, w.res, []⟩ vs f) :=
  query_eq_spec hi vs f

/-- The entities the reference ranges over are exactly the live entities of the map view, each
once; so "one result per matching live entity, and nothing else". -/
theorem C03_entities_exact {w : World} (hi : Inv w) :
    (∀ e : Ent, e ∈ w.ents ↔ w.entity e.id = some e.vals) ∧ (w.ents.map (·.id)).Nodup ∧
    w.ents.length = w.len := by
  refine ⟨fun e => mem_ents_iff hi, ?_, ?_⟩
  · rw [ents_ids]; exact (len_counts_entities hi).1
  · have := (len_counts_entities hi).2.1
    rw [← ents_ids, List.length_map] at this
    exact this

/-- Each result row is one matching live entity's row and every matching live entity has one. -/
theorem C03_rows_characterised {w : World} (hi : Inv w) (vs : List View) (f : Filter)
    (row : List Cell) :
    (∃ rows, w.query vs f = .ok rows ∧
      (row ∈ rows ↔ ∃ id vals, w.entity id = some vals ∧
        specMatches vs f (Spec.maskOf w.n vals) = true ∧ row = vs.map (Spec.cellOf ⟨id, vals⟩))) := by
  refine ⟨_, query_eq_spec hi vs f, ?_⟩
  unfold Spec.query
  simp only [List.mem_map, List.mem_filter]
  constructor
  · rintro ⟨e, ⟨he, hm⟩, rfl⟩
    exact ⟨e.id, e.vals, (mem_ents_iff hi).mp he, hm, rfl⟩
  · rintro ⟨id, vals, he, hm, rfl⟩
    exact ⟨⟨id, vals⟩, ⟨(mem_ents_iff hi).mpr he, hm⟩, rfl⟩

/-- **Writes through the mutable views of a query are seen by later reads of the written entities
only**: after the write, an entity's values differ from before only if the entity matches the
query, and then only in the components viewed mutably (each replaced by the written value — here
a fresh copy); `len` and the invariant are preserved, so every later query / entry read (by
`C03_query_exact`, `C03_entry_query`) sees exactly this map. -/
theorem C03_query_write {w : World} (hi : Inv w) (vs : List View) (f : Filter) (e : Nat) :
    Inv (w.queryWrite vs f e).1 ∧ (w.queryWrite vs f e).1.len = w.len ∧
    ∀ id, (w.queryWrite vs f e).1.entity id =
      (w.entity id).map (fun vals =>
        if specMatches vs f (Spec.maskOf w.n vals) then
          vals.map (fun v =>
            if ((vs.filter View.isMut).filterMap View.comp?).contains v.ty then cloneVal e v else v)
        else vals) :=
  queryWrite_spec hi vs f e

/-- Optional views and identifiers never restrict the result set; `&C` / `&mut C` require the
component. -/
theorem C03_view_filters (m : Mask) (c : Nat) :
    (View.oref c).filter m = true ∧ (View.omut c).filter m = true ∧ View.ident.filter m = true ∧
    (View.ref c).filter m = m.has c ∧ (View.mut c).filter m = m.has c := by
  simp [View.filter]

/-- **Single-entity query through `World::entry`.** -/
theorem C03_entry_query {w : World} (hi : Inv w) (id : Ident) (vs : List View) (f : Filter) :
    w.entryQuery id vs f = .ok
      (match w.entity id with
       | none => none
       | some vals =>
         if specMatches vs f (Spec.maskOf w.n vals) then some (vs.map (Spec.cellOf ⟨id, vals⟩)) else none) :=
  entryQuery_eq hi id vs f

/-- **Query-time `Entries` with any sub-view of the declared entry views** (any list the
`SubViewable` impl table admits): same answer as the direct entry query, and no read of an
uninitialised super-view. -/
theorem C03_entries_query {w : World} (hi : Inv w) (evs : List View) (id : Ident) (subs : List View)
    (f : Filter) (hsub : subs.all (fun s => evs.any (fun v => subViewable s v)) = true) :
    w.entriesQuery evs id subs f = .ok
      (match w.entity id with
       | none => none
       | some vals =>
         if specMatches subs f (Spec.maskOf w.n vals) then some (subs.map (Spec.cellOf ⟨id, vals⟩)) else none) := by
  rw [entriesQuery_eq hi evs id subs f hsub]; exact entryQuery_eq hi id subs f

/-- **`size_hint` brackets the true remaining count** (the hint logic of `result::Iter`). -/
theorem C03_size_hint (vs : List View) (f : Filter) (s : IterSt) :
    (sizeHint s).1 ≤ remaining vs f s ∧ ∀ h, (sizeHint s).2 = some h → remaining vs f s ≤ h :=
  sizeHint_brackets vs f s

/-- What the driver's reference oracle computes from a dump (`World.abs`) is the denoted map. -/
theorem C03_abs_is_ents {w : World} (hi : Inv w) : w.abs = w.ents := abs_eq_ents hi

/-- Non-vacuity: a query with a mandatory, an optional and an identifier view plus a filter over
a world with three tables. -/
example :
    (match run (World.init 3 [])
        [.insert [0, 1] [⟨0, 1⟩, ⟨1, 2⟩], .insert [0] [⟨0, 3⟩], .insert [1, 2] [⟨1, 4⟩, ⟨2, 5⟩]] with
     | .ok w =>
       (match w.query [.ref 0, .oref 1, .ident] (.not (.has 2)) with
        | .ok rows => rows
        | .ub _ => [])
     | .ub _ => []) =
    [[.val ⟨0, 1⟩, .val ⟨1, 2⟩, .id ⟨0, 0⟩], [.val ⟨0, 3⟩, .absent, .id ⟨1, 0⟩]] := by decide

end Brood

#print axioms Brood.C03_query_exact
#print axioms Brood.C03_entities_exact
#print axioms Brood.C03_query_write
#print axioms Brood.C03_rows_characterised
#print axioms Brood.C03_view_filters
#print axioms Brood.C03_entry_query
#print axioms Brood.C03_entries_query
#print axioms Brood.C03_size_hint
#print axioms Brood.C03_abs_is_ents
