/-
  Lemmas about the L1 world (BroodModel.World / Inv): lookup of tables, the invariant's clauses in
  quantifier form, and preservation of `Inv` by the operations.
-/
import BroodModel.Inv
import BroodModel.Lemmas.Alloc

set_option linter.unusedSimpArgs false
set_option linter.unusedVariables false

namespace Brood
open Alloc

/-! ### find / set of tables -/

theorem findArch_some {w : World} {h : Nat} {a : Arch} (e : w.findArch h = some a) :
    a ∈ w.archs ∧ a.handle = h := by
  unfold World.findArch at e
  exact ⟨List.mem_of_find?_eq_some e, by simpa using List.find?_some e⟩

theorem find_handle_of_mem {l : List Arch} (hn : (l.map (·.handle)).Nodup) {a : Arch}
    (ha : a ∈ l) : l.find? (fun b => b.handle == a.handle) = some a := by
  induction l with
  | nil => simp at ha
  | cons b bs ih =>
    simp only [List.map_cons, List.nodup_cons] at hn
    simp only [List.find?_cons]
    by_cases hb : b.handle = a.handle
    · have : (b.handle == a.handle) = true := by simpa using hb
      simp only [this]
      rcases List.mem_cons.mp ha with rfl | hmem
      · rfl
      · exact absurd (List.mem_map.mpr ⟨a, hmem, hb.symm⟩) hn.1
    · have : (b.handle == a.handle) = false := by simpa using hb
      simp only [this]
      rcases List.mem_cons.mp ha with rfl | hmem
      · exact absurd rfl hb
      · exact ih hn.2 hmem

theorem findArch_of_mem {w : World} (hn : (w.archs.map (·.handle)).Nodup) {a : Arch}
    (ha : a ∈ w.archs) : w.findArch a.handle = some a :=
  find_handle_of_mem hn ha

/-- Slot clause in quantifier form. -/
theorem slotOk_iff {w : World} {i : Nat} :
    slotOk w i = true ↔
      ∀ s, w.alloc.slots[i]? = some s →
        (s.loc = none → i ∈ w.alloc.free) ∧
        (∀ l, s.loc = some l → ∃ a, w.findArch l.arch = some a ∧
            a.ids[l.row]? = some ⟨i, s.gen⟩ ∧ i ∉ w.alloc.free) := by
  unfold slotOk
  cases hs : w.alloc.slots[i]? with
  | none => simp
  | some s =>
    cases hl : s.loc with
    | none => simp [hl]
    | some l =>
      cases hf : w.findArch l.arch with
      | none => simp [hl, hf]
      | some a => simp [hl, hf]

/-- Row clause in quantifier form. -/
theorem rowOk_iff {w : World} {a : Arch} {r : Nat} :
    rowOk w a r = true ↔
      ∀ id, a.ids[r]? = some id → w.alloc.slots[id.index]? = some ⟨id.gen, some ⟨a.handle, r⟩⟩ := by
  unfold rowOk
  cases h : a.ids[r]? with
  | none => simp
  | some id => simp

/-- The world's `Inv` implies the allocator's invariant. -/
theorem Inv.ainv {w : World} (h : Inv w) : AInv w.alloc := by
  refine ⟨h.free_nodup, ?_, ?_⟩
  · intro i hi
    have := h.free_inactive i hi
    cases hs : w.alloc.slots[i]? with
    | none => simp [hs] at this
    | some s => simp [hs] at this; exact ⟨s, rfl, this⟩
  · intro i s hs hl
    have hlt : i < w.alloc.slots.length := (List.getElem?_eq_some_iff.mp hs).1
    exact ((slotOk_iff.mp (h.slots i hlt)) s hs).1 hl

/-- Under `Inv`, a live identifier points at an existing table row holding exactly it
(the precondition of every `get_unchecked_mut` / `view_row_unchecked` on a location). -/
theorem Inv.live_row {w : World} (h : Inv w) {id : Ident} {l : Loc} (hg : w.alloc.get id = some l) :
    ∃ a, w.findArch l.arch = some a ∧ a.ids[l.row]? = some id := by
  obtain ⟨s, hs, hgen, hl⟩ := get_eq_some.mp hg
  have hlt : id.index < w.alloc.slots.length := (List.getElem?_eq_some_iff.mp hs).1
  obtain ⟨a, ha, hrow, _⟩ := ((slotOk_iff.mp (h.slots _ hlt)) s hs).2 l hl
  refine ⟨a, ha, ?_⟩
  rw [hrow, hgen]

/-- Under `Inv`, every stored identifier is live and resolves to its own row: identifiers
accepted ⇔ identifiers stored (C13). -/
theorem Inv.row_live {w : World} (h : Inv w) {a : Arch} (ha : a ∈ w.archs) {r : Nat} {id : Ident}
    (hr : a.ids[r]? = some id) : w.alloc.get id = some ⟨a.handle, r⟩ := by
  have hok := h.archs a ha
  unfold archOk at hok
  simp only [Bool.and_eq_true] at hok
  have hrows := hok.1.2
  have hlt : r < a.ids.length := (List.getElem?_eq_some_iff.mp hr).1
  have := List.all_eq_true.mp hrows r (by simp [hlt])
  have hs := (rowOk_iff.mp this) id hr
  exact get_eq_some.mpr ⟨_, hs, rfl, rfl⟩

/-- Two rows never hold the same identifier: each stored entity is reachable through exactly one
identifier and each identifier names exactly one row. -/
theorem Inv.rows_injective {w : World} (h : Inv w) {a b : Arch} (ha : a ∈ w.archs) (hb : b ∈ w.archs)
    {r q : Nat} {id : Ident} (hr : a.ids[r]? = some id) (hq : b.ids[q]? = some id) :
    a.handle = b.handle ∧ r = q := by
  have h1 := h.row_live ha hr
  have h2 := h.row_live hb hq
  rw [h1] at h2
  simp at h2
  exact h2

end Brood

namespace Brood
open Alloc

/-! ### `archOk` in quantifier form -/

structure ArchOk (w : World) (a : Arch) : Prop where
  mask_len : a.mask.length = w.n
  handle_lt : a.handle < w.next
  cols_len : a.cols.length = a.mask.count
  cols_all_len : ∀ c ∈ a.cols, c.length = a.ids.length
  cols_ok : ∀ (k : Nat) (c : List Val) (ty : Nat), a.cols[k]? = some c → a.mask.comps[k]? = some ty →
      c.length = a.ids.length ∧ ∀ v ∈ c, v.ty = ty
  rows : ∀ (r : Nat) (id : Ident), a.ids[r]? = some id →
      w.alloc.slots[id.index]? = some ⟨id.gen, some ⟨a.handle, r⟩⟩
  foreign : (a.mask, a.handle) ∈ w.foreign

theorem zipWith_all_iff {α β} (f : α → β → Bool) (l : List α) (m : List β) :
    (List.zipWith f l m).all id = true ↔
      ∀ (k : Nat) (x : α) (y : β), l[k]? = some x → m[k]? = some y → f x y = true := by
  induction l generalizing m with
  | nil => simp
  | cons a l ih =>
    cases m with
    | nil => simp
    | cons b m =>
      simp only [List.zipWith_cons_cons, List.all_cons, Bool.and_eq_true, id, ih]
      constructor
      · rintro ⟨h0, hr⟩ k x y hx hy
        cases k with
        | zero => simp at hx hy; subst hx; subst hy; exact h0
        | succ k => simp at hx hy; exact hr k x y hx hy
      · intro h
        exact ⟨h 0 a b (by simp) (by simp), fun k x y hx hy => h (k + 1) x y (by simpa using hx) (by simpa using hy)⟩

theorem archOk_iff {w : World} {a : Arch} : archOk w a = true ↔ ArchOk w a := by
  unfold archOk
  simp only [Bool.and_eq_true, beq_iff_eq, decide_eq_true_eq, zipWith_all_iff]
  simp only [List.all_eq_true, List.mem_range]
  constructor
  · rintro ⟨⟨⟨⟨⟨⟨h1, h2⟩, h3⟩, h3b⟩, h4⟩, h5⟩, h6⟩
    refine ⟨h1, h2, h3, fun c hc => by simpa using h3b c hc, ?_, ?_, by simpa using h6⟩
    · intro k c ty hc hty
      have := h4 k c ty hc hty
      simp only [colOk, Bool.and_eq_true, beq_iff_eq, List.all_eq_true] at this
      exact ⟨this.1, fun v hv => by simpa using this.2 v hv⟩
    · intro r id hr
      have hlt : r < a.ids.length := (List.getElem?_eq_some_iff.mp hr).1
      exact (rowOk_iff.mp (h5 r hlt)) id hr
  · intro h
    refine ⟨⟨⟨⟨⟨⟨h.mask_len, h.handle_lt⟩, h.cols_len⟩, fun c hc => by simpa using h.cols_all_len c hc⟩, ?_⟩, ?_⟩, by simpa using h.foreign⟩
    · intro k c ty hc hty
      obtain ⟨h1, h2⟩ := h.cols_ok k c ty hc hty
      simp only [colOk, Bool.and_eq_true, beq_iff_eq, List.all_eq_true]
      exact ⟨h1, fun v hv => by simpa using h2 v hv⟩
    · intro r hr
      exact rowOk_iff.mpr (fun id hid => h.rows r id hid)

theorem Inv.archOk {w : World} (h : Inv w) {a : Arch} (ha : a ∈ w.archs) : ArchOk w a :=
  archOk_iff.mp (h.archs a ha)

/-! ### replacing one table (`setArch`) -/

/-- List-level `setArch`. -/
def replaceH (l : List Arch) (a' : Arch) : List Arch :=
  l.map (fun a => if a.handle == a'.handle then a' else a)

theorem setArch_archs (w : World) (a' : Arch) : (w.setArch a').archs = replaceH w.archs a' := rfl

theorem replaceH_handles (l : List Arch) (a' : Arch) :
    (replaceH l a').map (·.handle) = l.map (·.handle) := by
  simp only [replaceH, List.map_map]
  apply List.map_congr_left
  intro a _
  simp only [Function.comp]
  by_cases h : a.handle = a'.handle
  · simp [h]
  · have : (a.handle == a'.handle) = false := by simpa using h
    simp [this]

theorem find_replaceH_ne (l : List Arch) (a' : Arch) {h : Nat} (hne : h ≠ a'.handle) :
    (replaceH l a').find? (fun a => a.handle == h) = l.find? (fun a => a.handle == h) := by
  induction l with
  | nil => rfl
  | cons b bs ih =>
    simp only [replaceH, List.map_cons, List.find?_cons] at *
    by_cases hb : b.handle = a'.handle
    · have h1 : (b.handle == a'.handle) = true := by simpa using hb
      have h2 : (a'.handle == h) = false := by simpa using Ne.symm hne
      have h3 : (b.handle == h) = false := by rw [hb]; exact h2
      simp only [h1, if_true, h2, h3]
      exact ih
    · have h1 : (b.handle == a'.handle) = false := by simpa using hb
      simp only [h1, Bool.false_eq_true, if_false]
      by_cases hbh : b.handle = h
      · simp [hbh]
      · have : (b.handle == h) = false := by simpa using hbh
        simp only [this]
        exact ih

theorem find_replaceH_same (l : List Arch) (a' : Arch) {a : Arch}
    (ha : l.find? (fun x => x.handle == a'.handle) = some a) :
    (replaceH l a').find? (fun x => x.handle == a'.handle) = some a' := by
  induction l with
  | nil => simp at ha
  | cons b bs ih =>
    simp only [replaceH, List.map_cons, List.find?_cons] at *
    by_cases hb : b.handle = a'.handle
    · have h1 : (b.handle == a'.handle) = true := by simpa using hb
      simp [h1]
    · have h1 : (b.handle == a'.handle) = false := by simpa using hb
      simp only [h1, Bool.false_eq_true, if_false] at ha ⊢
      exact ih ha

theorem findArch_setArch_ne (w : World) (a' : Arch) {h : Nat} (hne : h ≠ a'.handle) :
    (w.setArch a').findArch h = w.findArch h := find_replaceH_ne w.archs a' hne

theorem findArch_setArch_same (w : World) (a' : Arch) {a : Arch} (ha : w.findArch a'.handle = some a) :
    (w.setArch a').findArch a'.handle = some a' := find_replaceH_same w.archs a' ha

theorem mem_replaceH {l : List Arch} {a' x : Arch} (hx : x ∈ replaceH l a') :
    x = a' ∨ (x ∈ l ∧ x.handle ≠ a'.handle) := by
  obtain ⟨y, hy, rfl⟩ := List.mem_map.mp hx
  by_cases h : y.handle = a'.handle
  · left; simp [h]
  · right
    have : (y.handle == a'.handle) = false := by simpa using h
    simp [this, hy, h]

theorem replaceH_masks {l : List Arch} {a a' : Arch} (hn : (l.map (·.handle)).Nodup)
    (ha : a ∈ l) (hh : a'.handle = a.handle) (hm : a'.mask = a.mask) :
    (replaceH l a').map (·.mask) = l.map (·.mask) := by
  simp only [replaceH, List.map_map]
  apply List.map_congr_left
  intro b hb
  simp only [Function.comp]
  by_cases h : b.handle = a'.handle
  · have hba : b = a := by
      have h1 := find_handle_of_mem hn hb
      have h2 := find_handle_of_mem hn ha
      rw [h, hh] at h1
      rw [h1] at h2
      exact Option.some.inj h2
    have h1 : (b.handle == a'.handle) = true := by simpa using h
    simp only [h1, if_true]
    rw [hm, hba]
  · have : (b.handle == a'.handle) = false := by simpa using h
    simp [this]

/-- Total number of rows after replacing one table. -/
theorem replaceH_len_sum {l : List Arch} {a a' : Arch} (hn : (l.map (·.handle)).Nodup)
    (ha : a ∈ l) (hh : a'.handle = a.handle) :
    ((replaceH l a').map (·.ids.length)).sum + a.ids.length =
      (l.map (·.ids.length)).sum + a'.ids.length := by
  induction l with
  | nil => simp at ha
  | cons b bs ih =>
    simp only [List.map_cons, List.nodup_cons] at hn
    simp only [replaceH, List.map_cons, List.sum_cons] at *
    rcases List.mem_cons.mp ha with rfl | hmem
    · have h1 : (a.handle == a'.handle) = true := by simp [hh]
      simp only [h1, if_true]
      have hrest : bs.map (fun x => if x.handle == a'.handle then a' else x) = bs := by
        have : bs.map (fun x => if x.handle == a'.handle then a' else x) = bs.map id := by
          apply List.map_congr_left
          intro x hx
          have hne : x.handle ≠ a.handle := fun e => hn.1 (List.mem_map.mpr ⟨x, hx, e⟩)
          have : (x.handle == a'.handle) = false := by rw [hh]; simpa using hne
          simp [this]
        simpa using this
      rw [hrest]; omega
    · have hne : b.handle ≠ a'.handle := by
        rw [hh]; intro e
        exact hn.1 (List.mem_map.mpr ⟨a, hmem, e.symm⟩)
      have h1 : (b.handle == a'.handle) = false := by simpa using hne
      simp only [h1, Bool.false_eq_true, if_false]
      have := ih hn.2 hmem
      omega

end Brood
