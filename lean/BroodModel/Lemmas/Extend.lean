/-
  `World::extend` (batch insertion: `allocate_batch` + column extension) preserves the invariant,
  for every batch size (including 0) and every state of the free queue.
-/
import BroodModel.Lemmas.Insert

set_option linter.unusedSimpArgs false
set_option linter.unusedVariables false

namespace Brood
open Alloc

theorem replaceH_replaceH (l : List Arch) {a1 a' : Arch} (h : a1.handle = a'.handle) :
    replaceH (replaceH l a1) a' = replaceH l a' := by
  simp only [replaceH, List.map_map]
  apply List.map_congr_left
  intro b _
  simp only [Function.comp]
  by_cases hb : b.handle = a1.handle
  · have h1 : (b.handle == a1.handle) = true := by simpa using hb
    have h2 : (b.handle == a'.handle) = true := by rw [← h]; exact h1
    have h3 : (a1.handle == a'.handle) = true := by simpa using h
    simp [h1, h2, h3]
  · have h1 : (b.handle == a1.handle) = false := by simpa using hb
    simp [h1]

theorem replaceH_self {l : List Arch} (hn : (l.map (·.handle)).Nodup) {a : Arch} (ha : a ∈ l) :
    replaceH l a = l := by
  have : replaceH l a = l.map id := by
    simp only [replaceH]
    apply List.map_congr_left
    intro b hb
    by_cases h : b.handle = a.handle
    · have hba : b = a := by
        have h1 := find_handle_of_mem hn hb
        have h2 := find_handle_of_mem hn ha
        rw [h] at h1; rw [h1] at h2; exact Option.some.inj h2
      simp [hba]
    · have : (b.handle == a.handle) = false := by simpa using h
      simp [this]
  simpa using this

theorem pushRow_handle {a a' : Arch} {cv : List Val} {id : Ident} (h : a.pushRow cv id = .ok a') :
    a'.handle = a.handle ∧ a'.ids.length = a.ids.length + 1 := by
  unfold Arch.pushRow at h
  split at h; · simp at h
  split at h; · simp at h
  simp at h; subst h; simp

/-- Pushing a whole batch: identifiers from `allocate_batch`, rows appended in order. -/
theorem pushRows_inv {n : Nat} {shape : List Nat} (rows : List (List Val)) :
    ∀ {w : World} (hi : Inv w) {a a' : Arch} {hd : Nat} (hfa : w.findArch hd = some a)
      {al : Alloc} {ids : List Ident}
      (hal : w.alloc.allocateBatch hd a.ids.length rows.length = .ok (al, ids))
      (hp : World.pushRows n shape a ids rows = .ok a'),
      a'.handle = a.handle ∧ Inv { (w.setArch a') with alloc := al, len := w.len + rows.length } := by
  induction rows with
  | nil =>
    intro w hi a a' hd hfa al ids hal hp
    simp [Alloc.allocateBatch] at hal
    obtain ⟨rfl, rfl⟩ := hal
    simp [World.pushRows] at hp
    subst hp
    refine ⟨rfl, ?_⟩
    have hself : w.setArch a = w := by
      have := replaceH_self hi.handles_nodup (findArch_some hfa).1
      cases w; simp only [World.setArch] at *; simp [replaceH] at this; simp [this]
    simpa [hself] using hi
  | cons r rows ih =>
    intro w hi a a' hd hfa al ids hal hp
    simp only [List.length_cons] at hal
    unfold Alloc.allocateBatch at hal
    cases h1 : w.alloc.allocate ⟨hd, a.ids.length⟩ with
    | ub x => simp [h1] at hal
    | ok p =>
      obtain ⟨al1, id0⟩ := p
      simp only [h1] at hal
      cases h2 : al1.allocateBatch hd (a.ids.length + 1) rows.length with
      | ub x => simp [h2] at hal
      | ok q =>
        obtain ⟨al2, ids'⟩ := q
        simp only [h2, Out.ok.injEq, Prod.mk.injEq] at hal
        obtain ⟨rfl, rfl⟩ := hal
        simp only [World.pushRows] at hp
        cases h3 : a.pushRow (World.canonVals n shape r) id0 with
        | ub x => simp [h3] at hp
        | ok a1 =>
          simp only [h3] at hp
          obtain ⟨hh1, hl1⟩ := pushRow_handle h3
          have hi1 := pushRow_inv hi hfa h1 h3
          have hd_eq : hd = a.handle := (findArch_some hfa).2.symm
          have hfa1 : ({ (w.setArch a1) with alloc := al1, len := w.len + 1 } : World).findArch hd = some a1 := by
            have : (w.setArch a1).findArch a1.handle = some a1 :=
              findArch_setArch_same w a1 (by rw [hh1, ← hd_eq]; exact hfa)
            rw [hh1, ← hd_eq] at this
            exact this
          have hal' : ({ (w.setArch a1) with alloc := al1, len := w.len + 1 } : World).alloc.allocateBatch hd
              a1.ids.length rows.length = .ok (al2, ids') := by
            rw [hl1]; exact h2
          obtain ⟨hh2, hi2⟩ := ih hi1 hfa1 hal' hp
          refine ⟨by rw [hh2, hh1], ?_⟩
          have harchs : replaceH (replaceH w.archs a1) a' = replaceH w.archs a' :=
            replaceH_replaceH w.archs (by rw [hh2])
          have hlen : (w.len + 1) + rows.length = w.len + (r :: rows).length := by
            simp only [List.length_cons]; omega
          show Inv ⟨w.n, replaceH w.archs a', w.typeIds, w.foreign, al2, w.len + (r :: rows).length, w.res, w.next⟩
          rw [← harchs, ← hlen]
          exact hi2

/-- **`extend` preserves the invariant.** -/
theorem extend_inv {w w' : World} {shape : List Nat} {rows : List (List Val)} {ids : List Ident}
    (hi : Inv w) (e : w.extend shape rows = .ok (w', ids)) : Inv w' := by
  unfold World.extend at e
  cases h1 : w.archForEntity (Mask.ofShape w.n shape) with
  | ub x => simp [h1] at e
  | ok p =>
    obtain ⟨w1, hd⟩ := p
    have af := archForEntity_inv hi (by simp [Mask.ofShape]) h1
    simp only [h1] at e
    cases h2 : w1.getArch hd with
    | ub x => simp [h2] at e
    | ok a =>
      have hfa : w1.findArch hd = some a := by
        unfold World.getArch at h2
        cases hf : w1.findArch hd with
        | none => simp [hf] at h2
        | some b => simp [hf] at h2; subst h2; rfl
      simp only [h2] at e
      cases h3 : w1.alloc.allocateBatch hd a.ids.length rows.length with
      | ub x => simp [h3] at e
      | ok q =>
        obtain ⟨al, nids⟩ := q
        simp only [h3] at e
        cases h4 : World.pushRows w.n shape a nids rows with
        | ub x => simp [h4] at e
        | ok a' =>
          simp only [h4, Out.ok.injEq, Prod.mk.injEq] at e
          obtain ⟨rfl, rfl⟩ := e
          exact (pushRows_inv rows af.inv hfa h3 h4).2

end Brood
