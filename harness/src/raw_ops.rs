//! Ops that are described on the line rather than by an enum variant (queries, …).
use crate::comps::*;
use crate::core::*;
use crate::family::Family;

pub fn exec_raw<F: Family + 'static>(it: &mut Interp<F>, w: usize, name: &str, args: &[String]) -> Option<String> {
    if name == "sched" {
        // schedules exist for the Reg4 family only
        let any: &mut dyn std::any::Any = it;
        return match any.downcast_mut::<Interp<crate::gen_reg4::Reg4>>() {
            Some(it4) => crate::sched::exec_sched(it4, w, args),
            None => None,
        };
    }
    let world = it.worlds[w].as_mut()?;
    match (name, args.len()) {
        // q <views> <filter> <mode> <epoch|->
        ("q", 4) => {
            let f = F::queries().iter().find(|q| q.0 == args[0] && q.1 == args[1])?.2;
            let mode: u8 = match args[2].as_str() { "fold" => 1, "mix1" => 2, "mix2" => 3, _ => 0 };
            let write: Option<u64> = args[3].parse().ok();
            let out = f(world, mode, write);
            for e in out.hint_errors.iter() {
                ledger_error(format!("oracle=query size_hint views={} filter={} {}", args[0], args[1], e));
            }
            let mut rows = out.rows;
            rows.sort();
            Some(format!("ok n={} rows={} drops=@", rows.len(), rows.join(",")))
        }
        // parq <views> <filter> <threads> <mode> <epoch|->
        ("parq", 5) => {
            let f = F::par_queries().iter().find(|q| q.0 == args[0] && q.1 == args[1])?.2;
            let threads: usize = args[2].parse().ok()?;
            let mode: u8 = args[3].parse().ok()?;
            let write: Option<u64> = args[4].parse().ok();
            let out = no_lib(|| f(world, threads, mode, write));
            for e in out.hint_errors.iter() {
                ledger_error(format!("oracle=par views={} filter={} {}", args[0], args[1], e));
            }
            let mut rows = out.rows;
            rows.sort();
            Some(format!("ok n={} rows={} drops=@", rows.len(), rows.join(",")))
        }
        ("entryq", 3) => {
            let id = parse_id(&args[0])?;
            let f = F::entryqs().iter().find(|q| q.0 == args[1] && q.1 == args[2])?.2;
            Some(match f(world, mk_ident(id)) {
                Err(()) => "none".to_string(),
                Ok(None) => "filtered".to_string(),
                Ok(Some(row)) => format!("ok row={}", row),
            })
        }
        ("entries", 6) => {
            let id = parse_id(&args[3])?;
            let f = F::entries()
                .iter()
                .find(|q| q.0 == args[0] && q.1 == args[1] && q.2 == args[2] && q.3 == args[4] && q.4 == args[5])?
                .5;
            Some(match f(world, mk_ident(id)) {
                Err(()) => "none".to_string(),
                Ok(None) => "filtered".to_string(),
                Ok(Some(row)) => format!("ok row={}", row),
            })
        }
        // churn <id> <n>: n times remove the (component-less) entity and insert a new one; no
        // identifier may come back, and the first one must stay dead (C02)
        ("churn", 2) => {
            let first = parse_id(&args[0])?;
            let n: u64 = args[1].parse().ok()?;
            if !F::has_entry(world, mk_ident(first)) {
                return Some("none".into());
            }
            let mut cur = first;
            let mut seen: std::collections::HashSet<Id> = no_lib(std::collections::HashSet::new);
            no_lib(|| seen.insert(first));
            let mut reported = false;
            for k in 0..n {
                F::remove(world, mk_ident(cur));
                let p = F::insert(world, &[], &[])?.verif_parts();
                if !reported && !no_lib(|| seen.insert(p)) {
                    reported = true;
                    ledger_error(format!("oracle=reissue identifier {} was issued a second time after {} remove/insert rounds on its slot", fmt_id(p), k + 1));
                }
                if !reported && p != first && (F::contains(world, mk_ident(first)) || F::has_entry(world, mk_ident(first))) {
                    reported = true;
                    ledger_error(format!("oracle=reissue stale identifier {} resolves again after {} remove/insert rounds on its slot", fmt_id(first), k + 1));
                }
                cur = p;
            }
            no_lib(|| drop(seen));
            no_lib(|| it.issued[w].push(cur));
            Some(format!("ok id={}", fmt_id(cur)))
        }
        // res set <p> <v>   |   res view <desc> <epoch|->
        ("res", 3) if args[0] == "set" => {
            let p: usize = args[1].parse().ok()?;
            let v: u64 = args[2].parse().ok()?;
            if F::res_set(world, p, v) { Some("ok drops=@".into()) } else { None }
        }
        ("res", 3) if args[0] == "view" => {
            let write: Option<u64> = args[2].parse().ok();
            let vals = F::res_view(world, &args[1], write)?;
            Some(format!("ok vals={} drops=@", vals.join(",")))
        }
        _ => None,
    }
}
