/-
  C14 — Programs requesting conflicting or thread-unsafe access do not compile.

  `accepts` is computed from tables the translator re-extracts from the source on every run:
  every `unsafe impl Send/Sync` with its bounds, the signatures of the two entry `query` methods
  (is the returned views' lifetime the `&mut self` borrow?), the `SubViewable` impl table.  The
  theorems are kernel decisions over the *whole* program family (272 programs).  The correspondence
  check instantiates every program as Rust source and compares rustc's verdict with `accepts`.

  The full statement `∀ p ∈ family, accepts p → Sound p` is FALSE on the current tree: repeated
  `query::Entries::entry(..).query(..)` returns views with the world lifetime, so two live `&mut C`
  can be obtained (recorded finding, witness below).  The proved theorem excludes exactly that
  program shape.  PARTIAL: rustc's trait solver and borrow checker are the implementation; the
  model reproduces their verdict on this family only.
-/
import BroodModel.Programs

namespace Brood
open Static Generated

/-- The recorded finding: querying an `Entries` entry twice and holding both results, one mutable. -/
def knownRequery : Prog → Bool
  | .entriesEntry2 a b => a.isMut || b.isMut
  | _ => false

/-- **Soundness on the family** (outside the recorded finding): every program the type system
accepts is free of aliasing mutable access, stays inside the registry, and moves nothing
`!Send`/`!Sync` across threads. -/
theorem C14_sound_partial : ∀ p ∈ family, knownRequery p = false → accepts p = true → Sound p = true := by
  decide +kernel

/-- Witness that the full statement fails: the program is accepted and unsound. -/
theorem C14_entries_requery_unsound :
    accepts (.entriesEntry2 .mut .mut) = true ∧ Sound (.entriesEntry2 .mut .mut) = false := by decide

/-- The same repetition through `World::entry` *is* rejected: its `query` ties the views to the
`&mut self` borrow. -/
theorem C14_world_entry_requery_rejected : ∀ a ∈ allVK, ∀ b ∈ allVK, accepts (.worldEntry2 a b) = false := by
  decide

/-- No sub-view upgrades a shared entry view to a mutable one (generated `SubViewable` table). -/
theorem C14_subview_sound : ∀ p ∈ subViewableTable, p.1.isMut = true → p.2.isMut = true := by decide

/-- Every thread-crossing `unsafe impl` that can carry user views or components is bounded by the
corresponding auto trait of those views / components. -/
theorem C14_send_sync_bounded :
    implHas "World" "Send" "Registry" "Send" = true ∧ implHas "World" "Send" "Resources" "Send" = true ∧
    implHas "World" "Sync" "Registry" "Sync" = true ∧ implHas "World" "Sync" "Resources" "Sync" = true ∧
    implHas "Iter" "Send" "Views" "Send" = true ∧
    implHas "Entries" "Send" "Views" "Send" = true ∧ implHas "Entries" "Sync" "Views" "Sync" = true := by
  decide

/-- Conflict-free twins are accepted (the rejections are not vacuous). -/
theorem C14_twins_accepted :
    (∀ a ∈ allVK, ∀ b ∈ allVK, accepts (.views2 a b false) = true ∧ accepts (.entryViews a b false) = true) ∧
    (∀ c ∈ allCross, accepts (.cross c .plain) = true) ∧
    accepts (.entryViews .ref .oref true) = true := by decide

end Brood

#print axioms Brood.C14_sound_partial
#print axioms Brood.C14_entries_requery_unsound
#print axioms Brood.C14_world_entry_requery_rejected
#print axioms Brood.C14_subview_sound
#print axioms Brood.C14_send_sync_bounded
#print axioms Brood.C14_twins_accepted
