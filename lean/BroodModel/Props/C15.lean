import BroodModel.Inv
namespace Brood
theorem C15_init_inv (n : Nat) (res : List Val) : Inv (World.init n res) := by
  constructor <;> simp [World.init, Alloc.empty]
end Brood
#print axioms Brood.C15_init_inv
