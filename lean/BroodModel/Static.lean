/-
  BroodModel.Static — vocabulary and meaning of the tables the translator extracts from /repo/src
  (lean/BroodModel/Generated/Tables.lean): schedule conflict decisions, claim merging, sub-view
  and filter tables, `unsafe impl Send/Sync` bounds, entry-query signatures, constructor graph.
-/

namespace Brood.Static

/-- View kinds. -/
inductive VK | ref | mut | oref | omut | ident
deriving DecidableEq, Repr, Inhabited

def VK.isMut : VK → Bool
  | .mut | .omut => true
  | _ => false

/-- How the component of a new view is already claimed by a task of the current stage. -/
inductive Old
  | notPresent
  | claimed (k : VK)
deriving DecidableEq, Repr, Inhabited

def Old.isMut : Old → Bool
  | .claimed k => k.isMut
  | .notPresent => false

/-- Decision of one `Verifier` impl: `cut`, or whatever the rest of the view list decides. -/
inductive VDec | cut | next
deriving DecidableEq, Repr, Inhabited

structure VRow where
  new : VK
  old : Old
  dec : VDec
deriving DecidableEq, Repr, Inhabited

/-- `decision::{Append, Cut}`. -/
inductive D2 | append | cut
deriving DecidableEq, Repr, Inhabited

/-- `query::view::claim::Claim`. -/
inductive Cl | none | immutable | mutable
deriving DecidableEq, Repr, Inhabited

/-- An `unsafe impl Send/Sync`: type, trait, `(parameter, bound)` pairs. -/
structure SSImpl where
  ty : String
  tr : String
  bounds : List (String × String)
deriving DecidableEq, Repr, Inhabited

/-! ### Meaning -/

/-- Look a (new, old) pair up in the verifier table (first matching impl). -/
def lookupV (t : List VRow) (new : VK) (old : Old) : Option VDec :=
  match t.find? (fun r => r.new == new && r.old == old) with
  | some r => some r.dec
  | none => none

/-- Two accesses to one component conflict iff one of them is mutable. -/
def conflictKinds (new : VK) (old : Old) : Bool :=
  match old with
  | .notPresent => false
  | .claimed k => new.isMut || k.isMut

/-- `Claim::try_merge` as specified: merge succeeds iff no write/any overlap. -/
def Cl.conflicts (a b : Cl) : Bool :=
  match a, b with
  | .mutable, .none | .none, .mutable => false
  | .mutable, _ | _, .mutable => true
  | _, _ => false

def lookupCl (t : List (Cl × Cl × Option Cl)) (a b : Cl) : Option (Option Cl) :=
  match t.find? (fun r => r.1 == a && r.2.1 == b) with
  | some r => some r.2.2
  | none => none

def lookupM (t : List (D2 × D2 × D2)) (a b : D2) : Option D2 :=
  match t.find? (fun r => r.1 == a && r.2.1 == b) with
  | some r => some r.2.2
  | none => none

/-- Does an impl carry the bound `param: bound`? -/
def SSImpl.has (i : SSImpl) (param bound : String) : Bool := i.bounds.contains (param, bound)

end Brood.Static
