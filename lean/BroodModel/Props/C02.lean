/-
  C02 — Identifiers are never confused: unique, stable while live, dead once removed.

  Stated over *every* history of allocator operations (the only code that creates, resolves and
  retires identifiers: `entity::Allocator`).  A history is a list of `AOp`s; `release`/`move` of an
  identifier that is not live is a no-op, exactly as `World::remove` / `World::entry` behave.
  The correspondence check ties `Alloc` to src/entity/allocator/mod.rs through the slot/free-list
  dump after every operation and through `probe` ops on every identifier ever issued.

  Overflow: generations are `Nat`; the code's `wrapping_add(1)` equals `+ 1` while a slot has been
  reused fewer than 2^64 times (trusted-base note in DESIGN §9, not an axiom).
-/
import BroodModel.Lemmas.Alloc
import BroodModel.Lemmas.AllocPres
import BroodModel.Lemmas.Entity
import BroodModel.Lemmas.CloneFromDrops

namespace Brood
open Alloc

/-- Allocator-level operations of a history. -/
inductive AOp
  | alloc (loc : Loc)                    -- insert
  | batch (h start n : Nat)              -- extend with n rows
  | release (id : Ident)                 -- remove / clear (per identifier)
  | move (id : Ident) (loc : Loc)        -- row moved: swap-remove fix-up, Entry::add/remove

structure AState where
  a : Alloc
  /-- ghost: every identifier returned so far, newest first -/
  issued : List Ident
  /-- ghost: identifiers that were live when released -/
  retired : List Ident

def AState.init : AState := ⟨Alloc.empty, [], []⟩

/-- One step; returns the identifiers handed to the caller by this step. -/
def astep (s : AState) : AOp → Out (AState × List Ident)
  | .alloc loc =>
    match s.a.allocate loc with
    | .ok (a', id) => .ok (⟨a', id :: s.issued, s.retired⟩, [id])
    | .ub w => .ub w
  | .batch h start n =>
    match s.a.allocateBatch h start n with
    | .ok (a', ids) => .ok (⟨a', ids.reverse ++ s.issued, s.retired⟩, ids)
    | .ub w => .ub w
  | .release id =>
    match s.a.get id with
    | none => .ok (s, [])
    | some _ =>
      match s.a.release id with
      | .ok a' => .ok (⟨a', s.issued, id :: s.retired⟩, [])
      | .ub w => .ub w
  | .move id loc =>
    match s.a.get id with
    | none => .ok (s, [])
    | some _ =>
      match s.a.setLoc id loc with
      | .ok a' => .ok (⟨a', s.issued, s.retired⟩, [])
      | .ub w => .ub w

def arun (s : AState) : List AOp → Out AState
  | [] => .ok s
  | op :: ops =>
    match astep s op with
    | .ok (s', _) => arun s' ops
    | .ub w => .ub w

/-- What is maintained along every history. -/
structure AGood (s : AState) : Prop where
  inv : AInv s.a
  ghost : Ghost s.a s.issued
  nodup : s.issued.Nodup
  dead : ∀ id ∈ s.retired, Dead s.a id

theorem AGood.init : AGood AState.init :=
  ⟨AInv.empty, Ghost.nil _, List.nodup_nil, by simp [AState.init]⟩

/-- One step preserves `AGood`, never reaches an unchecked access, and returns only fresh,
pairwise distinct identifiers. -/
theorem astep_good {s : AState} (g : AGood s) (op : AOp) :
    ∃ s' out, astep s op = .ok (s', out) ∧ AGood s' ∧ (∀ id ∈ out, id ∉ s.issued) ∧ out.Nodup := by
  cases op with
  | alloc loc =>
    obtain ⟨a', id, e⟩ := allocate_ok g.inv loc
    refine ⟨⟨a', id :: s.issued, s.retired⟩, [id], by simp [astep, e], ?_, ?_, by simp⟩
    · exact ⟨allocate_inv g.inv e, allocate_ghost g.ghost e,
        List.nodup_cons.mpr ⟨allocate_fresh g.ghost e, g.nodup⟩,
        fun x hx => allocate_dead (g.dead x hx) e⟩
    · intro x hx; simp at hx; subst hx; exact allocate_fresh g.ghost e
  | batch h start n =>
    obtain ⟨a', ids, e⟩ := allocateBatch_ok g.inv h start n
    obtain ⟨fr, nd, gh⟩ := allocateBatch_fresh g.ghost e
    refine ⟨⟨a', ids.reverse ++ s.issued, s.retired⟩, ids, by simp [astep, e], ?_, fr, nd⟩
    refine ⟨(allocateBatch_inv g.inv e).1, gh, ?_, ?_⟩
    · rw [List.nodup_append]
      refine ⟨nodup_reverse'.mpr nd, g.nodup, ?_⟩
      intro x hx y hy hxy
      subst hxy
      exact fr x (List.mem_reverse.mp hx) hy
    · intro x hx
      exact allocateBatch_dead (g.dead x hx) e
  | release id =>
    cases hg : s.a.get id with
    | none => exact ⟨s, [], by simp [astep, hg], g, by simp, by simp⟩
    | some l =>
      have hl : Live s.a id := ⟨l, hg⟩
      obtain ⟨a', e⟩ := release_ok hl
      refine ⟨⟨a', s.issued, id :: s.retired⟩, [], by simp [astep, hg, e], ?_, by simp, by simp⟩
      refine ⟨release_inv g.inv hl e, release_ghost g.ghost e, g.nodup, ?_⟩
      intro x hx
      simp at hx
      rcases hx with rfl | hx
      · exact release_makes_dead hl e
      · exact release_dead_other (g.dead x hx) e
  | move id loc =>
    cases hg : s.a.get id with
    | none => exact ⟨s, [], by simp [astep, hg], g, by simp, by simp⟩
    | some l =>
      have hl : Live s.a id := ⟨l, hg⟩
      obtain ⟨t, ht, _, _⟩ := get_eq_some.mp hg
      have e : s.a.setLoc id loc = .ok ⟨s.a.slots.set id.index ⟨t.gen, some loc⟩, s.a.free⟩ := by
        simp [setLoc, ht]
      refine ⟨⟨⟨s.a.slots.set id.index ⟨t.gen, some loc⟩, s.a.free⟩, s.issued, s.retired⟩, [],
        by simp [astep, hg, e], ?_, by simp, by simp⟩
      exact ⟨setLoc_inv g.inv hl e, setLoc_ghost g.ghost e, g.nodup,
        fun x hx => setLoc_dead_other (g.dead x hx) hl e⟩

/-- Every history from the empty allocator runs without undefined behaviour and ends `AGood`. -/
theorem arun_good {s : AState} (g : AGood s) (ops : List AOp) :
    ∃ s', arun s ops = .ok s' ∧ AGood s' := by
  induction ops generalizing s with
  | nil => exact ⟨s, rfl, g⟩
  | cons op ops ih =>
    obtain ⟨s1, out, e, g1, _, _⟩ := astep_good g op
    obtain ⟨s2, e2, g2⟩ := ih g1
    exact ⟨s2, by simp [arun, e, e2], g2⟩

/-- **C02 (uniqueness).** After any history, the identifiers issued over the allocator's whole
lifetime are pairwise distinct — each identifier returned by insert/extend differs from every
identifier returned before it. -/
theorem C02_unique (ops : List AOp) :
    ∃ s, arun AState.init ops = .ok s ∧ s.issued.Nodup := by
  obtain ⟨s, e, g⟩ := arun_good AGood.init ops
  exact ⟨s, e, g.nodup⟩

/-- **C02 (freshness, step form).** In any reachable state, the identifiers a step returns were
never issued before and are pairwise distinct (batches larger, equal and smaller than the free
list included: `n` is arbitrary). -/
theorem C02_fresh (ops : List AOp) (op : AOp) :
    ∃ s s' out, arun AState.init ops = .ok s ∧ astep s op = .ok (s', out) ∧
      (∀ id ∈ out, id ∉ s.issued) ∧ out.Nodup := by
  obtain ⟨s, e, g⟩ := arun_good AGood.init ops
  obtain ⟨s', out, e', _, fr, nd⟩ := astep_good g op
  exact ⟨s, s', out, e, e', fr, nd⟩

/-- **C02 (dead once removed).** An identifier that was live when it was released never resolves
again, whatever happens afterwards — including reuse of its slot: for *every* retired identifier,
not only the most recent one. -/
theorem C02_dead_forever (ops : List AOp) :
    ∃ s, arun AState.init ops = .ok s ∧
      ∀ id ∈ s.retired, s.a.get id = none ∧ s.a.isActive id = false := by
  obtain ⟨s, e, g⟩ := arun_good AGood.init ops
  refine ⟨s, e, fun id hid => ?_⟩
  have hn := (g.dead id hid).not_live
  refine ⟨hn, ?_⟩
  cases h : s.a.isActive id with
  | false => rfl
  | true => have := isActive_iff_get.mp h; simp [hn] at this

/-- An operation *targets* an identifier if it releases it. -/
def AOp.releases (id : Ident) : AOp → Bool
  | .release id' => id' == id
  | _ => false

/-- **C02 (stable while live).** A live identifier keeps resolving through any continuation that
does not release it — allocations reusing other slots, releases and moves of other entities, and
moves of the entity itself (it then resolves to the new location). -/
theorem C02_stable {s : AState} (g : AGood s) {id : Ident} (hl : Live s.a id) (ops : List AOp)
    (hno : ∀ op ∈ ops, op.releases id = false) :
    ∃ s', arun s ops = .ok s' ∧ Live s'.a id := by
  induction ops generalizing s with
  | nil => exact ⟨s, rfl, hl⟩
  | cons op ops ih =>
    obtain ⟨s1, out, e, g1, _, _⟩ := astep_good g op
    have hl1 : Live s1.a id := by
      obtain ⟨l, hl⟩ := hl
      cases op with
      | alloc loc =>
        simp only [astep] at e
        cases h1 : s.a.allocate loc with
        | ub w => simp [h1] at e
        | ok p =>
          obtain ⟨a', nid⟩ := p
          simp [h1] at e
          obtain ⟨rfl, _⟩ := e
          exact ⟨l, allocate_frame g.inv h1 hl⟩
      | batch h start n =>
        simp only [astep] at e
        cases h1 : s.a.allocateBatch h start n with
        | ub w => simp [h1] at e
        | ok p =>
          obtain ⟨a', ids⟩ := p
          simp [h1] at e
          obtain ⟨rfl, _⟩ := e
          exact ⟨l, allocateBatch_frame g.inv h1 hl⟩
      | release id' =>
        have hne : id ≠ id' := by
          have := hno (.release id') (by simp)
          simp [AOp.releases] at this
          exact fun e => this e.symm
        simp only [astep] at e
        cases hg : s.a.get id' with
        | none => simp [hg] at e; obtain ⟨rfl, _⟩ := e; exact ⟨l, hl⟩
        | some l' =>
          simp [hg] at e
          cases h1 : s.a.release id' with
          | ub w => simp [h1] at e
          | ok a' =>
            simp [h1] at e
            obtain ⟨rfl, _⟩ := e
            exact ⟨l, release_frame ⟨l', hg⟩ h1 hne hl⟩
      | move id' loc =>
        simp only [astep] at e
        cases hg : s.a.get id' with
        | none => simp [hg] at e; obtain ⟨rfl, _⟩ := e; exact ⟨l, hl⟩
        | some l' =>
          simp [hg] at e
          cases h1 : s.a.setLoc id' loc with
          | ub w => simp [h1] at e
          | ok a' =>
            simp [h1] at e
            obtain ⟨rfl, _⟩ := e
            by_cases hne : id = id'
            · subst hne; exact ⟨loc, setLoc_get ⟨l', hg⟩ h1⟩
            · exact ⟨l, setLoc_frame ⟨l', hg⟩ h1 hne hl⟩
    obtain ⟨s2, e2, hl2⟩ := ih g1 hl1 (fun op hop => hno op (by simp [hop]))
    exact ⟨s2, by simp [arun, e, e2], hl2⟩

/-- No history reaches an unchecked slot access (`get_unchecked_mut`, `unwrap_unchecked`). -/
theorem C02_no_ub (ops : List AOp) : ∀ w, arun AState.init ops ≠ .ub w := by
  obtain ⟨s, e, _⟩ := arun_good AGood.init ops
  intro w h; rw [e] at h; cases h

/-! Non-vacuity: a concrete history with reuse through a batch smaller than the free list. -/
example :
    (arun AState.init
      [.batch 0 0 3, .release ⟨0, 0⟩, .release ⟨1, 0⟩, .release ⟨2, 0⟩, .batch 0 0 1,
       .alloc ⟨0, 1⟩, .release ⟨0, 0⟩]).isOk = true := by decide

def exampleState : Option AState :=
  match arun AState.init
    [.batch 0 0 3, .release ⟨0, 0⟩, .release ⟨1, 0⟩, .release ⟨2, 0⟩, .batch 0 0 1, .alloc ⟨0, 1⟩] with
  | .ok s => some s
  | .ub _ => none

example : exampleState.map (fun s => (s.issued, s.retired.length, s.a.free)) =
    some ([⟨1, 1⟩, ⟨0, 1⟩, ⟨2, 0⟩, ⟨1, 0⟩, ⟨0, 0⟩], 3, [2]) := by decide

end Brood

namespace Brood
open Alloc

/-! ### lifted to worlds: every world history is an allocator history

`step_apres` / `run_apres` (Lemmas/AllocPres): every world operation — insert, extend, remove
(with its swap-remove fix-up), clear, Entry::add / Entry::remove (row moves), writes, reserve,
shrink_to_fit — acts on the allocator only through `allocate`, `release` and `setLoc` applied to
live identifiers.  Hence the allocator-level facts above hold along every world history. -/

/-- **Dead once removed, forever**: after `remove` of a live identifier, no later history ever
makes it live again (`contains`, `entry`, queries by identifier all reject it). -/
theorem C02_world_dead_forever {w w1 w2 : World} {id : Ident} {drops : List Val} (hi : Inv w)
    (hl : (w.alloc.get id).isSome) (e : w.remove id = .ok (w1, drops)) (ops : List Op)
    (h : run w1 ops = .ok w2) :
    w2.alloc.get id = none ∧ w2.entity id = none ∧ w2.contains id = false := by
  have hd := remove_makes_dead hi hl e
  have hd2 : Dead w2.alloc id := run_apres (apres_dead id) ops (remove_inv hi e) hd h
  have hg := hd2.not_live
  refine ⟨hg, entity_none_of_dead hg, ?_⟩
  unfold World.contains
  cases hc : w2.alloc.isActive id with
  | false => rfl
  | true => rw [isActive_iff_get.mp hc |> Option.isSome_iff_exists.mp |>.choose_spec] at hg; cases hg

/-- **An identifier is never issued twice**: whatever `insert` returned at some point of a world's
history is never returned again by a later `insert`, however many removals, shape changes and
clears lie in between. -/
theorem C02_world_never_reissued {w w1 w2 w3 : World} {shape shape' : List Nat} {vals vals' : List Val}
    {id id' : Ident} (hi : Inv w) (e1 : w.insert shape vals = .ok (w1, id)) (ops : List Op)
    (h : run w1 ops = .ok w2) (e2 : w2.insert shape' vals' = .ok (w3, id')) : id' ≠ id := by
  obtain ⟨loc, ha⟩ := insert_alloc hi e1
  have hg1 : Ghost w1.alloc [id] := allocate_ghost (Ghost.nil _) ha
  have hi1 := insert_inv hi e1
  have hg2 : Ghost w2.alloc [id] := run_apres (apres_ghost [id]) ops hi1 hg1 h
  obtain ⟨loc', ha'⟩ := insert_alloc (run_inv hi1 ops h) e2
  have := allocate_fresh hg2 ha'
  intro e'; exact this (by simp [e'])

/-- **Not confused across copies**: an identifier that is dead in a world is dead in its clone
and in any world that `clone_from`s it (a copy never resurrects an identifier), and stays dead
there under every later history. -/
theorem C02_world_dead_in_copies {w c c' : World} (hi : Inv w) {x : Ident} (d : Dead w.alloc x)
    {e next : Nat} (h : w.clone e next = .ok c) (ops : List Op) (hr : run c ops = .ok c') :
    c.entity x = none ∧ c'.entity x = none := by
  have hd := clone_keeps_dead hi h d
  obtain ⟨c0, h0, hi0, _⟩ := clone_spec hi e next
  rw [h] at h0; cases h0
  have hd' : Dead c'.alloc x := run_apres (apres_dead x) ops hi0 hd hr
  exact ⟨entity_none_of_dead hd.not_live, entity_none_of_dead hd'.not_live⟩

theorem C02_world_dead_after_clone_from {d s fin : World} {drops : List Val} {e : Nat} {x : Ident}
    (hd : Dead s.alloc x) (h : World.cloneFrom d s e = .ok (fin, drops)) : fin.entity x = none :=
  entity_none_of_dead (cloneFrom_keeps_dead h hd).not_live

/-- **Stable while live**: operations aimed at other identifiers never change what a live
identifier resolves to (the frame halves of the C01 per-operation theorems, collected). -/
theorem C02_world_stable {w w' : World} (hi : Inv w) {id x : Ident} (hne : x ≠ id) :
    (∀ drops, w.remove id = .ok (w', drops) → w'.entity x = w.entity x) ∧
    (∀ c v res, c < w.n → v.ty = c → w.entryAdd id c v = .ok (w', res) → w'.entity x = w.entity x) ∧
    (∀ c res, w.entryRemove id c = .ok (w', res) → w'.entity x = w.entity x) ∧
    (∀ c v res, v.ty = c → w.write id c v = .ok (w', res) → w'.entity x = w.entity x) :=
  ⟨fun _ e => (remove_entity hi e).2.1 x hne,
   fun _ _ _ hc hv e => (entryAdd_entity hi hc hv e).2.1 x hne,
   fun _ _ e => (entryRemove_entity hi e).2.1 x hne,
   fun _ _ _ hv e => (write_entity hi hv e).2.1 x hne⟩

end Brood

#print axioms Brood.C02_unique
#print axioms Brood.C02_fresh
#print axioms Brood.C02_dead_forever
#print axioms Brood.C02_stable
#print axioms Brood.C02_no_ub
#print axioms Brood.C02_world_dead_forever
#print axioms Brood.C02_world_never_reissued
#print axioms Brood.C02_world_stable
#print axioms Brood.C02_world_dead_in_copies
#print axioms Brood.C02_world_dead_after_clone_from
