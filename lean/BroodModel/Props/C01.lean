import BroodModel.Inv
namespace Brood
theorem C01_placeholder_init (n : Nat) (res : List Val) : (World.init n res).len = 0 := rfl
end Brood
#print axioms Brood.C01_placeholder_init
