/-
  C08 — Tasks that may touch the same data never run concurrently.

  Static part (proved for every schedule): the generated verifier table cuts whenever one side of a
  shared component or resource is mutable; hence every group the greedy stager produces is
  pairwise compatible.  Dynamic part: `Claim::try_merge` (generated 3×3 table) succeeds only when
  there is no write/any overlap; the stage's claim map holds, per archetype, the *exact join* of the
  claims of all running tasks matching it (`MapExact`, `Lemmas/SchedDyn`), so a next-stage task is
  started early iff it conflicts with no running task on any archetype both match
  (`C08_add_on_decision_exact`) and every phase of every stage is conflict free
  (`C08_phase_conflict_free`).  The model's phases are compared with the real fork/join log by the
  correspondence check.  Tasks are atomic in the model: instruction-level interleavings of
  data-race-free tasks are the Rust memory model's business (PARTIAL in that sense only).
-/
import BroodModel.Lemmas.SchedDyn

namespace Brood
open Static Generated

/-- **Soundness of the conflict table**: whenever the new view or the existing claim on the same
component is mutable, the verifier cuts. -/
theorem C08_verifier_sound (new : VK) (old : Old) (h : new ≠ .ident) (ho : old ≠ .claimed .ident)
    (hc : conflictKinds new old = true) : lookupV verifierTable new old = some .cut := by
  rw [verifier_table_exact new old h ho]; simp [hc]

/-- The merger cuts as soon as either the component or the resource decision cuts. -/
theorem C08_merger_sound (a b : D2) (h : a = .cut ∨ b = .cut) : lookupM mergerTable a b = some .cut := by
  rw [merger_table_exact]
  cases a <;> cases b <;> simp at h ⊢

/-- **Run-time merge is sound**: `Claim::try_merge` yields a claim only when neither side writes
what the other touches. -/
theorem C08_try_merge_sound (a b c : Cl) (h : tryMergeCl claimTryMerge a b = some c) :
    a.conflicts b = false := by
  have := try_merge_exact a b
  rw [h] at this
  simpa using this.symm

/-- …and it remembers a write: the merged claim is mutable iff one of the two was. -/
theorem C08_try_merge_keeps_writes (a b c : Cl) (h : tryMergeCl claimTryMerge a b = some c) :
    c = .mutable ↔ (a = .mutable ∨ b = .mutable) :=
  (try_merge_result a b c h).1

/-- **Every group of every schedule is pairwise compatible**: no task of a group conflicts, on a
component or a resource, with a task placed in the group before it. -/
theorem C08_stages_compatible (ts : List Task) :
    ∀ g ∈ stages verifierTable mergerTable ts, Compatible g :=
  stagesAux_compatible ts [] (by intro i hi; simp at hi)

/-- **The run-time add-on decision is exact**: with the stage's claim map being the exact join of
the running tasks' claims, a next-stage task's component claims are accepted iff they conflict
with the claims of no running task on any archetype both match. -/
theorem C08_add_on_decision_exact {n : Nat} {masks : List Mask} (hm : masks.Nodup) {cm : ClaimMap}
    {ts : List Task} (me : MapExact n masks cm ts) (u : Task) :
    ((tryAddClaims claimTryMerge n masks u cm).isSome = true ↔
      ∀ k ∈ masks, u.matchesArch k = true → ∀ t ∈ ts, t.matchesArch k = true →
        vecOk (u.claimVec n) (t.claimVec n) = true) := by
  obtain ⟨e1, e2⟩ := tryAdd_exact hm me u
  constructor
  · intro h
    cases hc : tryAddClaims claimTryMerge n masks u cm with
    | none => rw [hc] at h; cases h
    | some cm' => exact (e1 cm' hc).1
  · intro h
    cases hc : tryAddClaims claimTryMerge n masks u cm with
    | some _ => rfl
    | none =>
      obtain ⟨k, hk, t, ht, h1, h2, h3⟩ := e2 hc
      rw [h k hk h1 t ht h2] at h3; cases h3

/-- **Every phase is conflict free** (run time): the tasks of a stage produced by the static
stager that have not run yet, together with the next-stage tasks started early as add-ons, may
all run at the same time — pairwise, no shared resource and no component of a common archetype is
claimed mutably by one and at all by the other.  For every set of archetypes, every pattern of
tasks that already ran, every next stage. -/
theorem C08_phase_conflict_free {n nres : Nat} {masks : List Mask} (hm : masks.Nodup)
    (ts : List Task) (hwf : ∀ t ∈ ts, t.WF) (stage : List Task)
    (hs : stage ∈ stages verifierTable mergerTable ts) (next : List Task) (hasRun : List Bool) :
    ((((List.zip stage hasRun).filter (fun p => !p.2)).map (·.1)) ++
        accepted next (runStage claimTryMerge n nres masks stage hasRun next).2).Pairwise
      (fun a b => TaskOk n nres masks b a) := by
  have hc := C08_stages_compatible ts stage hs
  have hmem : ∀ t ∈ stage, t ∈ ts := by
    intro t ht
    have := stages_flatten verifierTable mergerTable ts
    have hm' : t ∈ (stages verifierTable mergerTable ts).flatten := List.mem_flatten.mpr ⟨stage, hs, ht⟩
    rw [this] at hm'; exact hm'
  exact runStage_phase_safe hm stage next hasRun hc (fun t ht => hwf t (hmem t ht))

/-- Non-vacuity: reader then writer of one component are never grouped, also through entry views. -/
example :
    (stages verifierTable mergerTable
      [⟨[.ref 1], .none, [], []⟩, ⟨[.ident], .none, [.omut 1], []⟩]).length = 2 := by decide

example :
    (stages verifierTable mergerTable
      [⟨[], .none, [], [(0, false)]⟩, ⟨[], .none, [], [(0, true)]⟩]).length = 2 := by decide

end Brood

#print axioms Brood.C08_verifier_sound
#print axioms Brood.C08_merger_sound
#print axioms Brood.C08_try_merge_sound
#print axioms Brood.C08_try_merge_keeps_writes
#print axioms Brood.C08_stages_compatible
#print axioms Brood.C08_add_on_decision_exact
#print axioms Brood.C08_phase_conflict_free
