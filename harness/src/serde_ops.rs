//! serde round trips (C06) and mutated inputs (C11): the real token stream (possibly mutated) is
//! written on the op line, so the Lean model deserializes exactly what the real code is given.
use crate::comps::*;
use crate::core::*;
use crate::family::Family;
use crate::rng::Rng;
use serde_assert::{Token, Tokens};
use std::sync::atomic::Ordering;

pub fn tok_to_text(t: &Token) -> String {
    match t {
        Token::U8(n) => format!("b{}", n),
        Token::U64(n) => format!("u{}", n),
        Token::Tuple { len } => format!("T{}", len),
        Token::TupleEnd => "t".to_string(),
        Token::Seq { len: Some(l) } => format!("Q{}", l),
        Token::Seq { len: None } => "Q?".to_string(),
        Token::SeqEnd => "q".to_string(),
        Token::Struct { name, len } => format!("S{}:{}", name, len),
        Token::Field(name) => format!("f{}", name),
        Token::Str(s) => format!("r{}", s.replace(',', "_").replace(' ', "_")),
        Token::StructEnd => "s".to_string(),
        Token::NewtypeStruct { name } => format!("N{}", name),
        other => format!("x{}", format!("{:?}", other).replace(',', "_").replace(' ', "_")),
    }
}

fn leak(s: &str) -> &'static str {
    no_lib(|| Box::leak(s.to_string().into_boxed_str()))
}

pub fn text_to_tok(s: &str) -> Token {
    let (head, rest) = s.split_at(1.min(s.len()));
    match head {
        "b" => rest.parse().map(Token::U8).unwrap_or(Token::Unit),
        "u" => rest.parse().map(Token::U64).unwrap_or(Token::Unit),
        "T" => rest.parse().map(|len| Token::Tuple { len }).unwrap_or(Token::Unit),
        "t" if rest.is_empty() => Token::TupleEnd,
        "Q" => {
            if rest == "?" {
                Token::Seq { len: None }
            } else {
                rest.parse().map(|l| Token::Seq { len: Some(l) }).unwrap_or(Token::Unit)
            }
        }
        "q" if rest.is_empty() => Token::SeqEnd,
        "S" => match rest.split_once(':') {
            Some((n, l)) => l.parse().map(|len| Token::Struct { name: leak(n), len }).unwrap_or(Token::Unit),
            None => Token::Unit,
        },
        "f" => Token::Field(leak(rest)),
        "r" => Token::Str(rest.to_string()),
        "s" if rest.is_empty() => Token::StructEnd,
        "N" => Token::NewtypeStruct { name: leak(rest) },
        _ => Token::Unit,
    }
}

pub fn toks_text(t: &[String]) -> String {
    if t.is_empty() { "-".to_string() } else { t.join(",") }
}

/// One random token-level mutation. Returns a short description.
pub fn mutate(toks: &mut Vec<String>, rng: &mut Rng, nreg: usize) -> String {
    if toks.is_empty() {
        toks.push("u0".into());
        return "push".into();
    }
    let n = toks.len() as u64;
    let numeric: Vec<usize> = (0..toks.len()).filter(|i| toks[*i].starts_with('u') || toks[*i].starts_with('b')).collect();
    let heads: Vec<usize> = (0..toks.len()).filter(|i| toks[*i].starts_with('T') || toks[*i].starts_with('Q')).collect();
    let fields: Vec<usize> = (0..toks.len()).filter(|i| toks[*i].starts_with('f')).collect();
    let idents: Vec<usize> = (0..toks.len().saturating_sub(3)).filter(|i| toks[*i] == "findex" && toks[*i + 2] == "fgeneration").collect();
    // last byte of an archetype identifier tuple (`T<k> b.. b.. t`)
    let id_last: Vec<usize> = (1..toks.len().saturating_sub(1)).filter(|i| toks[*i].starts_with('b') && toks[*i + 1] == "t").collect();
    if !id_last.is_empty() && rng.below(100) < 10 {
        // exactly one (possibly padding) bit in the last identifier byte, alone or on top of the old bits
        // prefer the identifier of the table of entities without components (all bytes 0): there a
        // lone padding bit is the only thing wrong with the stream
        let zero: Vec<usize> = id_last.iter().cloned().filter(|i| toks[*i] == "b0" && (toks[*i - 1].starts_with('T') || toks[*i - 1] == "b0")).collect();
        let i = if !zero.is_empty() && rng.below(10) < 7 { zero[rng.below(zero.len() as u64) as usize] } else { id_last[rng.below(id_last.len() as u64) as usize] };
        let old: u64 = toks[i][1..].parse().unwrap_or(0);
        // half of the time the first padding bit (registry length modulo 8), otherwise any bit
        let bit = 1u64 << (if nreg % 8 != 0 && rng.below(2) == 0 { (nreg % 8) as u64 } else { rng.below(8) });
        let new = if rng.below(2) == 0 { bit } else { old | bit };
        toks[i] = format!("b{}", new % 256);
        return format!("padbit@{}:{}->{}", i, old, new);
    }
    if idents.len() >= 2 && rng.below(100) < 7 {
        // an identifier stored in two rows, the allocator length shrunk so that no index is missing:
        // the row holding the highest index gets another row's identifier
        if let (Some(apos), Some(lpos)) = (toks.iter().position(|t| t.starts_with("SAllocator")), toks.iter().position(|t| t == "flength")) {
            let stored: Vec<usize> = idents.iter().cloned().filter(|i| *i < apos).collect();
            let len: u64 = toks.get(lpos + 1).and_then(|t| t[1..].parse().ok()).unwrap_or(0);
            if stored.len() >= 2 && len >= 1 {
                if let Some(&b) = stored.iter().find(|i| toks[**i + 1] == format!("u{}", len - 1)) {
                    let others: Vec<usize> = stored.iter().cloned().filter(|i| *i != b).collect();
                    let a = others[rng.below(others.len() as u64) as usize];
                    toks[b + 1] = toks[a + 1].clone();
                    toks[b + 3] = if rng.below(3) == 0 { format!("u{}", toks[a + 3][1..].parse::<u64>().unwrap_or(0) + 1) } else { toks[a + 3].clone() };
                    toks[lpos + 1] = format!("u{}", len - 1);
                    return format!("dup-row-shrink@{}~{}", a, b);
                }
            }
        }
    }
    if idents.len() >= 2 && rng.below(100) < 12 {
        // two identifiers (stored or on the free list) collide on the index, generations differ or not
        let a = idents[rng.below(idents.len() as u64) as usize];
        let b = idents[rng.below(idents.len() as u64) as usize];
        if a != b {
            let idx = toks[a + 1].clone();
            let gen: u64 = toks[a + 3][1..].parse().unwrap_or(0);
            toks[b + 1] = idx;
            toks[b + 3] = format!("u{}", if rng.below(3) == 0 { gen } else { gen + 1 + rng.below(2) });
            return format!("ident-collide@{}~{}", a, b);
        }
    }
    if !idents.is_empty() && rng.below(100) < 10 {
        // a stale free-list entry: a stored (or free) identifier is also listed as free, with the
        // same or another generation
        if let Some(fpos) = (0..toks.len().saturating_sub(1)).find(|i| toks[*i] == "ffree" && toks[*i + 1].starts_with('Q')) {
            let a = idents[rng.below(idents.len() as u64) as usize];
            let idx = toks[a + 1].clone();
            let gen: u64 = toks[a + 3][1..].parse().unwrap_or(0);
            let g2 = match rng.below(3) { 0 => gen, 1 => gen + 1, _ => gen.saturating_sub(1) };
            let entry = vec!["SIdentifier:2".to_string(), "findex".to_string(), idx, "fgeneration".to_string(), format!("u{}", g2), "s".to_string()];
            for (k, t) in entry.into_iter().enumerate() {
                toks.insert(fpos + 2 + k, t);
            }
            return format!("stale-free@{}", a);
        }
    }
    match rng.below(100) {
        0..=39 if !numeric.is_empty() => {
            // alter a number: lengths, identifier bytes, entity indices/generations, free list, values
            let i = numeric[rng.below(numeric.len() as u64) as usize];
            let is_byte = toks[i].starts_with('b');
            let old: u64 = toks[i][1..].parse().unwrap_or(0);
            let new = match rng.below(8) {
                0 => 0,
                1 => old + 1,
                2 => old.saturating_sub(1),
                3 => old ^ (1 << rng.below(8)),
                4 => {
                    // copy another number of the stream (duplicates an index / identity)
                    let j = numeric[rng.below(numeric.len() as u64) as usize];
                    toks[j][1..].parse().unwrap_or(0)
                }
                5 => rng.below(6),
                6 => old + 2 + rng.below(3),
                _ => 40 + rng.below(20),
            };
            let new = if is_byte { new % 256 } else { new };
            toks[i] = format!("{}{}", if is_byte { "b" } else { "u" }, new);
            format!("alter@{}:{}->{}", i, old, new)
        }
        40..=51 => {
            let i = rng.below(n) as usize;
            toks.remove(i);
            format!("delete@{}", i)
        }
        52..=63 => {
            let i = rng.below(n) as usize;
            let t = toks[i].clone();
            toks.insert(i, t);
            format!("dup@{}", i)
        }
        64..=71 if n >= 2 => {
            let i = rng.below(n - 1) as usize;
            toks.swap(i, i + 1);
            format!("swap@{}", i)
        }
        72..=81 if !heads.is_empty() => {
            let i = heads[rng.below(heads.len() as u64) as usize];
            let h = toks[i][..1].to_string();
            let old: u64 = toks[i][1..].parse().unwrap_or(0);
            let new = if rng.below(2) == 0 { old + 1 } else { old.saturating_sub(1) };
            toks[i] = format!("{}{}", h, new);
            format!("header@{}:{}->{}", i, old, new)
        }
        82..=89 if !fields.is_empty() => {
            let i = fields[rng.below(fields.len() as u64) as usize];
            let names = ["index", "generation", "length", "free", "bogus"];
            toks[i] = format!("f{}", names[rng.below(names.len() as u64) as usize]);
            format!("field@{}", i)
        }
        90..=94 => {
            let i = rng.below(n) as usize;
            toks.truncate(i);
            format!("truncate@{}", i)
        }
        _ => {
            // duplicate or drop a whole bracketed element (an archetype, a row, a column, an identifier)
            let opens: Vec<usize> = (0..toks.len()).filter(|i| matches!(&toks[*i][..1], "T" | "Q" | "S" | "N")).collect();
            if opens.is_empty() {
                return "noop".into();
            }
            let i = opens[rng.below(opens.len() as u64) as usize];
            let mut depth = 0i64;
            let mut j = i;
            let mut started = false;
            while j < toks.len() {
                match &toks[j][..1] {
                    "T" | "Q" | "S" => { depth += 1; started = true; }
                    "t" | "q" | "s" => depth -= 1,
                    _ => {}
                }
                if started && depth == 0 { break; }
                j += 1;
            }
            if j >= toks.len() {
                return "noop".into();
            }
            let chunk: Vec<String> = toks[i..=j].to_vec();
            if rng.below(2) == 0 {
                for (k, t) in chunk.into_iter().enumerate() {
                    toks.insert(j + 1 + k, t);
                }
                format!("dup-elem@{}..{}", i, j)
            } else {
                toks.drain(i..=j);
                format!("drop-elem@{}..{}", i, j)
            }
        }
    }
}

/// Serialize `src` with the real code and build the `de` op carrying the (possibly mutated) tokens.
pub fn build_de<F: Family>(it: &Interp<F>, src: usize, rows: bool, e: u64, mutation: &[String]) -> Option<Op> {
    let world = it.worlds.get(src)?.as_ref()?;
    let tokens = F::ser_tokens(world, rows).ok()?;
    let mut text: Vec<String> = tokens.0.iter().map(tok_to_text).collect();
    let mut tag = src.to_string();
    if let Some(seed) = mutation.first().and_then(|s| s.strip_prefix("seed=")).and_then(|s| s.parse::<u64>().ok()) {
        let mut rng = Rng::new(seed);
        let k = 1 + rng.below(2);
        for _ in 0..k {
            mutate(&mut text, &mut rng, F::N);
        }
        tag = "-".to_string();
    }
    Some(Op::Raw("de".into(), vec![if rows { "rows" } else { "cols" }.to_string(), e.to_string(), tag, toks_text(&text)]))
}

/// `de <rows|cols> <epoch> <src|-> <tokens>`: deserialize the tokens into slot `w`.
pub fn exec_de<F: Family>(it: &mut Interp<F>, w: usize, args: &[String]) -> Option<String> {
    if args.len() != 4 {
        return None;
    }
    let rows = args[0] == "rows";
    let e: u64 = args[1].parse().ok()?;
    let before = crate::alloc_audit::snapshot();
    let toks: Vec<Token> = if args[3] == "-" { vec![] } else { args[3].split(',').map(text_to_tok).collect() };
    EPOCH.store(e, Ordering::SeqCst);
    let zst = with_ledger(|l| l.zst.clone());
    let res = F::de_tokens(Tokens(toks), rows).map_err(|_| ());
    match res {
        Ok(nw) => {
            let old = it.worlds[w].take();
            drop(old);
            it.worlds[w] = Some(nw);
            let mut eq = String::new();
            if let Ok(src) = args[2].parse::<usize>() {
                if src < it.issued.len() && src != w && it.worlds[src].is_some() {
                    no_lib(|| it.issued[w] = it.issued[src].clone());
                    // C06: the round-tripped world must compare equal to its source
                    let (a, b) = pair_mut(&mut it.worlds, src, w);
                    eq = format!(" eq={}", F::eq(a.as_ref().unwrap(), b.as_ref().unwrap()) as u8);
                }
            }
            Some(format!("ok{} drops=@", eq))
        }
        Err(_e) => {
            // values created by the failed attempt: dropped by the cleanup paths or (partial row)
            // leaked — forget what is left of this epoch; double drops were already flagged
            let leaked = with_ledger(|l| {
                let before = l.live.len();
                l.live.retain(|(_, id), _| id / EPOCH_BASE != e);
                let z: i64 = l.zst.iter().map(|(k, v)| v - zst.get(k).copied().unwrap_or(0)).sum();
                l.zst = zst.clone();
                (before - l.live.len()) as i64 + z
            });
            if leaked > 0 {
                no_lib(|| *it.stats.entry("de:err-leaked-values".to_string()).or_insert(0) += leaked as u64);
                // C04: "values produced by … deserialization are owned independently and obey the same
                // rule" (dropped exactly once): a deserialization that fails must drop what it built
                ledger_error(format!("oracle=drops a failing {} deserialization never dropped {} of the values it had built", if rows { "row-wise" } else { "column-wise" }, leaked));
            }
            take_drops();
            // (memory of values leaked by a failed deserialization is reported above, once, as a leak
            // of values; it is not reported a second time by the allocator audit)
            let after = crate::alloc_audit::snapshot();
            it.alloc_base.0 += after.0 - before.0;
            it.alloc_base.1 += after.1 - before.1;
            Some("err".into())
        }
    }
}
