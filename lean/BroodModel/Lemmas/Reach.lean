/-
  Worlds reachable through the public API, over several worlds: single-world operations, `clone`,
  `clone_from`, and deserialization of arbitrary token streams.
-/
import BroodModel.Lemmas.CloneFrom
import BroodModel.Lemmas.DeInv

namespace Brood

/-- Worlds reachable through the public API: from the empty world by single-world operations, by
cloning a reachable world, by `clone_from` between reachable worlds of one registry, or as the
result of deserializing any token stream whatsoever. -/
inductive Reachable : World → Prop
  | init (n : Nat) (res : List Val) : Reachable (World.init n res)
  | step {w w' : World} (op : Op) : Reachable w → step w op = .ok w' → Reachable w'
  | clone {w w' : World} (e next : Nat) : Reachable w → w.clone e next = .ok w' → Reachable w'
  | cloneFrom {d s fin : World} {drops : List Val} (e : Nat) : Reachable d → Reachable s → d.n = s.n →
      World.cloneFrom d s e = .ok (fin, drops) → Reachable fin
  | deserialize {k : Kinds} {hr : Bool} {n nres e next : Nat} {toks : List Serde.Tok} {w : World} :
      Serde.deserialize k hr n nres e next toks = .ok w → Reachable w

/-- Every reachable world satisfies the invariant. -/
theorem reachable_inv {w : World} (h : Reachable w) : Inv w := by
  induction h with
  | init n res => exact inv_init n res
  | step op _ e ih => exact step_inv ih e
  | clone e next _ hc ih =>
    obtain ⟨w'', h1, h2, _⟩ := clone_spec ih e next
    rw [h1] at hc; cases hc; exact h2
  | cloneFrom e _ _ hn hc ihd ihs =>
    obtain ⟨fin', drops', h1, h2, _⟩ := cloneFrom_spec ihd ihs hn e
    rw [h1] at hc; cases hc; exact h2
  | deserialize hd => exact Serde.deserialize_inv hd

end Brood
