#!/usr/bin/env python3
"""Translator: /repo/src -> lean/BroodModel/Generated/*.lean (DESIGN §5.1)."""
import argparse, json, os, sys
def main():
    ap = argparse.ArgumentParser()
    ap.add_argument("--repo", default="/repo"); ap.add_argument("--out"); ap.add_argument("--report")
    a = ap.parse_args()
    os.makedirs(a.out, exist_ok=True)
    if a.report:
        json.dump({}, open(a.report, "w"))
    return 0
if __name__ == "__main__":
    sys.exit(main())
