//! Tracking global allocator (C05): every block carries a header with the layout it was created
//! with; `dealloc`/`realloc` with a different size or alignment, a second free, and blocks that
//! were allocated while the library was running and are still live after every world has been
//! dropped are reported.  The audit only counts; it never changes what the program computes.

use std::alloc::{GlobalAlloc, Layout, System};
use std::cell::Cell;
use std::sync::atomic::{AtomicI64, AtomicU64, Ordering};

const LIVE: u64 = 0xB10C_A11C_B10C_A11C;
const DEAD: u64 = 0xDEAD_B10C_DEAD_B10C;

#[repr(C)]
struct Header {
    magic: u64,
    size: u64,
    align: u64,
    in_lib: u64,
}

pub struct Audit;

/// net blocks / bytes allocated while IN_LIB was set and not yet freed
pub static LIB_BLOCKS: AtomicI64 = AtomicI64::new(0);
pub static LIB_BYTES: AtomicI64 = AtomicI64::new(0);
pub static LAYOUT_ERRORS: AtomicU64 = AtomicU64::new(0);
pub static DOUBLE_FREES: AtomicU64 = AtomicU64::new(0);
pub static LAST_ERR_SIZE: AtomicU64 = AtomicU64::new(0);
pub static LAST_ERR_WANT: AtomicU64 = AtomicU64::new(0);

thread_local! {
    static IN_LIB: Cell<bool> = const { Cell::new(false) };
}

pub fn set_in_lib(v: bool) -> bool {
    IN_LIB.try_with(|c| c.replace(v)).unwrap_or(false)
}

fn in_lib() -> bool {
    IN_LIB.try_with(|c| c.get()).unwrap_or(false)
}

fn pad(align: usize) -> usize {
    // header space in front of the user block, keeping the user block's alignment
    let h = std::mem::size_of::<Header>();
    (h + align - 1) / align * align
}

unsafe impl GlobalAlloc for Audit {
    unsafe fn alloc(&self, layout: Layout) -> *mut u8 {
        let align = layout.align().max(std::mem::align_of::<Header>());
        let p = pad(align);
        let total = Layout::from_size_align_unchecked(layout.size() + p, align);
        let base = System.alloc(total);
        if base.is_null() {
            return base;
        }
        let user = base.add(p);
        let lib = in_lib();
        (user.sub(std::mem::size_of::<Header>()) as *mut Header).write(Header {
            magic: LIVE,
            size: layout.size() as u64,
            align: layout.align() as u64,
            in_lib: lib as u64,
        });
        if lib {
            LIB_BLOCKS.fetch_add(1, Ordering::Relaxed);
            LIB_BYTES.fetch_add(layout.size() as i64, Ordering::Relaxed);
        }
        user
    }

    unsafe fn dealloc(&self, ptr: *mut u8, layout: Layout) {
        let h = ptr.sub(std::mem::size_of::<Header>()) as *mut Header;
        let hdr = h.read();
        if hdr.magic == DEAD {
            DOUBLE_FREES.fetch_add(1, Ordering::Relaxed);
            return; // do not hand a freed block back twice
        }
        if hdr.magic != LIVE {
            LAYOUT_ERRORS.fetch_add(1, Ordering::Relaxed);
            return; // not a block of ours: leak it rather than corrupt the heap
        }
        if hdr.size != layout.size() as u64 || hdr.align != layout.align() as u64 {
            LAYOUT_ERRORS.fetch_add(1, Ordering::Relaxed);
            LAST_ERR_SIZE.store(layout.size() as u64, Ordering::Relaxed);
            LAST_ERR_WANT.store(hdr.size, Ordering::Relaxed);
        }
        if hdr.in_lib != 0 {
            LIB_BLOCKS.fetch_sub(1, Ordering::Relaxed);
            LIB_BYTES.fetch_sub(hdr.size as i64, Ordering::Relaxed);
        }
        (*h).magic = DEAD;
        let align = (hdr.align as usize).max(std::mem::align_of::<Header>());
        let p = pad(align);
        System.dealloc(ptr.sub(p), Layout::from_size_align_unchecked(hdr.size as usize + p, align));
    }

    unsafe fn realloc(&self, ptr: *mut u8, layout: Layout, new_size: usize) -> *mut u8 {
        let new_layout = Layout::from_size_align_unchecked(new_size, layout.align());
        let new = self.alloc(new_layout);
        if !new.is_null() {
            let h = ptr.sub(std::mem::size_of::<Header>()) as *mut Header;
            let old_size = if (*h).magic == LIVE { (*h).size as usize } else { layout.size() };
            std::ptr::copy_nonoverlapping(ptr, new, old_size.min(new_size).min(layout.size().max(old_size)));
            self.dealloc(ptr, layout);
        }
        new
    }
}

pub fn snapshot() -> (i64, i64, u64, u64) {
    (
        LIB_BLOCKS.load(Ordering::Relaxed),
        LIB_BYTES.load(Ordering::Relaxed),
        LAYOUT_ERRORS.load(Ordering::Relaxed),
        DOUBLE_FREES.load(Ordering::Relaxed),
    )
}
