/-
  Every world operation acts on the entity allocator only through three primitives applied to
  live identifiers — `allocate`, `release`, `setLoc` — and by reordering the free queue (`clear`
sorts the slots it freed), so any allocator predicate those primitives
  preserve is preserved by every world operation and every history (a simulation of world
  histories by allocator histories, in predicate-transformer form).  This lifts the allocator-level
  identifier theorems (C02) to worlds.
-/
import BroodModel.Lemmas.NoUB

set_option linter.unusedSimpArgs false
set_option linter.unusedVariables false

namespace Brood
open Alloc

/-- A predicate on allocators that re-pointing a live identifier preserves. -/
structure SPres (P : Alloc → Prop) : Prop where
  setLoc : ∀ {a a' : Alloc} {id : Ident} {loc : Loc}, AInv a → P a → Live a id →
    a.setLoc id loc = .ok a' → P a'

/-- A predicate on allocators that the three primitives preserve. -/
structure APres (P : Alloc → Prop) : Prop where
  allocate : ∀ {a a' : Alloc} {loc : Loc} {id : Ident}, AInv a → P a → a.allocate loc = .ok (a', id) → P a'
  release : ∀ {a a' : Alloc} {id : Ident}, AInv a → P a → Live a id → a.release id = .ok a' → P a'
  setLoc : ∀ {a a' : Alloc} {id : Ident} {loc : Loc}, AInv a → P a → Live a id →
    a.setLoc id loc = .ok a' → P a'
  /-- reordering the free queue (what `clear` does to the slots it freed) -/
  reorder : ∀ {a : Alloc} {free' : List Nat}, AInv a → P a → free'.Perm a.free → P { a with free := free' }

theorem APres.toS {P : Alloc → Prop} (hp : APres P) : SPres P := ⟨hp.setLoc⟩

theorem APres.batch {P : Alloc → Prop} (hp : APres P) {a a' : Alloc} {h start n : Nat} {ids : List Ident}
    (hi : AInv a) (pa : P a) (e : a.allocateBatch h start n = .ok (a', ids)) : P a' := by
  induction n generalizing a start ids with
  | zero => simp [allocateBatch] at e; obtain ⟨rfl, rfl⟩ := e; exact pa
  | succ n ih =>
    unfold allocateBatch at e
    cases h1 : a.allocate ⟨h, start⟩ with
    | ub x => simp [h1] at e
    | ok p =>
      obtain ⟨a1, id0⟩ := p
      simp only [h1] at e
      cases h2 : a1.allocateBatch h (start + 1) n with
      | ub x => simp [h2] at e
      | ok q =>
        obtain ⟨a2, ids'⟩ := q
        simp only [h2, Out.ok.injEq, Prod.mk.injEq] at e
        obtain ⟨rfl, rfl⟩ := e
        exact ih (allocate_inv hi h1) (hp.allocate hi pa h1) h2

theorem APres.freeAll {P : Alloc → Prop} (hp : APres P) (ids : List Ident) :
    ∀ {a a' : Alloc}, AInv a → P a → (∀ id ∈ ids, Live a id) →
      ids.Pairwise (fun x y => x.index ≠ y.index) → World.freeAll a ids = .ok a' → P a' := by
  induction ids with
  | nil => intro a a' _ pa _ _ e; simp [World.freeAll] at e; subst e; exact pa
  | cons id ids ih =>
    intro a a' hi pa hl hpw e
    simp only [World.freeAll] at e
    cases h1 : a.release id with
    | ub x => simp [h1] at e
    | ok a1 =>
      simp only [h1] at e
      have hlid := hl id (by simp)
      simp only [List.pairwise_cons] at hpw
      refine ih (release_inv hi hlid h1) (hp.release hi pa hlid h1) ?_ hpw.2 e
      intro y hy
      obtain ⟨l, hly⟩ := hl y (by simp [hy])
      have hne : y ≠ id := by
        intro e'
        exact hpw.1 y hy (by rw [e'])
      exact ⟨l, release_frame hlid h1 hne hly⟩

/-- The allocator after a swap-remove fix-up is the result of a `setLoc` on the moved identifier
(or unchanged). -/
theorem fixAlloc_pres {P : Alloc → Prop} (hp : SPres P) {w : World} (hi : Inv w) {id : Ident} {a : Arch}
    {r : Nat} (la : LiveAt w id a r) {last : Ident} (hlast : a.ids[a.ids.length - 1]? = some last)
    (pa : P w.alloc) :
    P (fixAlloc w.alloc last a.handle r a.ids.length) ∧ AInv (fixAlloc w.alloc last a.handle r a.ids.length) ∧
    Live (fixAlloc w.alloc last a.handle r a.ids.length) id := by
  have hslot_last : w.alloc.slots[last.index]? = some ⟨last.gen, some ⟨a.handle, a.ids.length - 1⟩⟩ :=
    la.ok.rows _ last hlast
  have hlive_last : Live w.alloc last := ⟨_, hi.row_live la.mem hlast⟩
  unfold fixAlloc
  by_cases hmid : r < a.ids.length - 1
  · simp only [hmid, if_true]
    have hset : w.alloc.setLoc last ⟨a.handle, r⟩ =
        .ok ⟨w.alloc.slots.set last.index ⟨last.gen, some ⟨a.handle, r⟩⟩, w.alloc.free⟩ := by
      simp [Alloc.setLoc, hslot_last]
    have hne : id ≠ last := by
      intro e'
      have h1 := la.row
      rw [e'] at h1
      have := hi.rows_injective la.mem la.mem h1 hlast
      omega
    exact ⟨hp.setLoc hi.ainv pa hlive_last hset, setLoc_inv hi.ainv hlive_last hset,
      ⟨_, setLoc_frame hlive_last hset hne la.get⟩⟩
  · simp only [hmid, if_false]
    exact ⟨pa, hi.ainv, ⟨_, la.get⟩⟩

/-- Operations that allocate and free nothing: they only re-point live identifiers. -/
def Op.movesOnly : Op → Bool
  | .add _ _ _ | .del _ _ | .write _ _ _ | .reserve _ | .shrink => true
  | _ => false

/-- Shape changes, writes, `reserve` and `shrink_to_fit` act on the allocator only by re-pointing
live identifiers. -/
theorem step_spres {P : Alloc → Prop} (hp : SPres P) {w w' : World} (hi : Inv w) {op : Op}
    (hop : op.movesOnly = true) (pa : P w.alloc) (e : step w op = .ok w') : P w'.alloc := by
  cases op with
  | insert shape vals => simp [Op.movesOnly] at hop
  | extend shape rows => simp [Op.movesOnly] at hop
  | remove id => simp [Op.movesOnly] at hop
  | clear order => simp [Op.movesOnly] at hop
  | add id c v =>
    obtain ⟨d, e⟩ := fstOut_ok e
    unfold World.entryAdd at e
    cases hg : w.alloc.get id with
    | none => simp [hg] at e; obtain ⟨rfl, _⟩ := e; exact pa
    | some loc =>
      simp only [hg] at e
      obtain ⟨a, la, hh⟩ := hi.liveAt hg
      have hga : w.getArch loc.arch = .ok a := by
        unfold World.getArch; rw [← hh, la.find]; rfl
      simp only [hga] at e
      by_cases hc : a.mask.has c
      · simp only [hc, if_true] at e
        cases hcol : a.cols[colIndex a.mask c]? with
        | none => simp [hcol] at e
        | some col =>
          simp only [hcol] at e
          cases hold : col[loc.row]? with
          | none => simp [hold] at e
          | some old =>
            simp only [hold] at e
            by_cases hbad : old.ty ≠ c ∨ v.ty ≠ c
            · simp [hbad] at e
            · simp only [hbad, if_false, Out.ok.injEq, Prod.mk.injEq] at e
              obtain ⟨rfl, _⟩ := e; exact pa
      · simp only [hc, Bool.false_eq_true, if_false] at e
        have hr : loc.row < a.ids.length := (List.getElem?_eq_some_iff.mp la.row).1
        have hne0 : a.ids.length - 1 < a.ids.length := by omega
        have hlast : a.ids[a.ids.length - 1]? = some a.ids[a.ids.length - 1] := List.getElem?_eq_getElem hne0
        rw [← hh, takeRowAt_eq hi la hlast] at e
        simp only at e
        cases hfm : ({ (w.setArch (removedArch a loc.row)) with
            alloc := fixAlloc w.alloc a.ids[a.ids.length - 1] a.handle loc.row a.ids.length } : World).archForMask
            (World.setBit a.mask c true) with
        | ub x => simp [hfm] at e
        | ok p =>
          obtain ⟨w2, h'⟩ := p
          simp only [hfm] at e
          cases hgt : w2.getArch h' with
          | ub x => simp [hgt] at e
          | ok t =>
            simp only [hgt] at e
            cases hpr : t.pushRow (World.insertAt (a.cols.filterMap (fun c => c[loc.row]?))
                (colIndex (World.setBit a.mask c true) c) v) id with
            | ub x => simp [hpr] at e
            | ok t' =>
              simp only [hpr] at e
              cases hset : w2.alloc.setLoc id ⟨h', t.ids.length⟩ with
              | ub x => simp [hset] at e
              | ok al =>
                simp only [hset, Out.ok.injEq, Prod.mk.injEq] at e
                obtain ⟨rfl, _⟩ := e
                show P al
                obtain ⟨pf, hif, hlf⟩ := fixAlloc_pres hp hi la hlast pa
                obtain ⟨_, hal2, _⟩ := archForMask_frame w.alloc w.len hfm
                rw [hal2] at hset
                exact hp.setLoc hif pf hlf hset
  | del id c =>
    obtain ⟨d, e⟩ := fstOut_ok e
    unfold World.entryRemove at e
    cases hg : w.alloc.get id with
    | none => simp [hg] at e; obtain ⟨rfl, _⟩ := e; exact pa
    | some loc =>
      simp only [hg] at e
      obtain ⟨a, la, hh⟩ := hi.liveAt hg
      have hga : w.getArch loc.arch = .ok a := by
        unfold World.getArch; rw [← hh, la.find]; rfl
      simp only [hga] at e
      by_cases hc : a.mask.has c
      · simp only [hc, if_true] at e
        have hr : loc.row < a.ids.length := (List.getElem?_eq_some_iff.mp la.row).1
        have hne0 : a.ids.length - 1 < a.ids.length := by omega
        have hlast : a.ids[a.ids.length - 1]? = some a.ids[a.ids.length - 1] := List.getElem?_eq_getElem hne0
        rw [← hh, takeRowAt_eq hi la hlast] at e
        simp only at e
        cases hfm : ({ (w.setArch (removedArch a loc.row)) with
            alloc := fixAlloc w.alloc a.ids[a.ids.length - 1] a.handle loc.row a.ids.length } : World).archForMask
            (World.setBit a.mask c false) with
        | ub x => simp [hfm] at e
        | ok p =>
          obtain ⟨w2, h'⟩ := p
          simp only [hfm] at e
          cases hgt : w2.getArch h' with
          | ub x => simp [hgt] at e
          | ok t =>
            simp only [hgt] at e
            cases hpr : t.pushRow ((a.cols.filterMap (fun c => c[loc.row]?)).eraseIdx (colIndex a.mask c)) id with
            | ub x => simp [hpr] at e
            | ok t' =>
              simp only [hpr] at e
              cases hset : w2.alloc.setLoc id ⟨h', t.ids.length⟩ with
              | ub x => simp [hset] at e
              | ok al =>
                simp only [hset, Out.ok.injEq, Prod.mk.injEq] at e
                obtain ⟨rfl, _⟩ := e
                show P al
                obtain ⟨pf, hif, hlf⟩ := fixAlloc_pres hp hi la hlast pa
                obtain ⟨_, hal2, _⟩ := archForMask_frame w.alloc w.len hfm
                rw [hal2] at hset
                exact hp.setLoc hif pf hlf hset
      · simp [hc] at e; obtain ⟨rfl, _⟩ := e; exact pa
  | write id c v =>
    obtain ⟨d, e⟩ := fstOut_ok e
    unfold World.write at e
    cases hg : w.alloc.get id with
    | none => simp [hg] at e; obtain ⟨rfl, _⟩ := e; exact pa
    | some loc =>
      simp only [hg] at e
      cases hf : w.findArch loc.arch with
      | none => simp [hf] at e; obtain ⟨rfl, _⟩ := e; exact pa
      | some a =>
        simp only [hf] at e
        by_cases hc : a.mask.has c
        · simp only [hc, if_true] at e
          cases hcol : a.cols[colIndex a.mask c]? with
          | none => simp [hcol] at e
          | some col =>
            simp only [hcol] at e
            cases hold : col[loc.row]? with
            | none => simp [hold] at e
            | some old =>
              simp only [hold] at e
              by_cases hbad : old.ty ≠ c ∨ v.ty ≠ c
              · simp [hbad] at e
              · simp only [hbad, if_false, Out.ok.injEq, Prod.mk.injEq] at e
                obtain ⟨rfl, _⟩ := e; exact pa
        · simp [hc] at e; obtain ⟨rfl, _⟩ := e; exact pa
  | reserve shape =>
    simp only [step] at e
    unfold World.reserve at e
    cases h1 : w.archForEntity (Mask.ofShape w.n shape) with
    | ub x => simp [h1] at e
    | ok p =>
      obtain ⟨w1, hd⟩ := p
      have af := archForEntity_inv hi (by simp [Mask.ofShape]) h1
      simp [h1] at e
      subst e
      rw [af.alloc]; exact pa
  | shrink => simp [step] at e; subst e; exact pa

/-- **Every world operation preserves every allocator predicate the three primitives preserve.** -/
theorem step_apres {P : Alloc → Prop} (hp : APres P) {w w' : World} (hi : Inv w) {op : Op}
    (pa : P w.alloc) (e : step w op = .ok w') : P w'.alloc := by
  cases op with
  | insert shape vals =>
    obtain ⟨nid, e⟩ := fstOut_ok e
    unfold World.insert at e
    cases h1 : w.archForEntity (Mask.ofShape w.n shape) with
    | ub x => simp [h1] at e
    | ok p =>
      obtain ⟨w1, hd⟩ := p
      have af := archForEntity_inv hi (by simp [Mask.ofShape]) h1
      simp only [h1] at e
      cases h2 : w1.getArch hd with
      | ub x => simp [h2] at e
      | ok a =>
        simp only [h2] at e
        cases h3 : w1.alloc.allocate ⟨hd, a.ids.length⟩ with
        | ub x => simp [h3] at e
        | ok q =>
          obtain ⟨al, nid'⟩ := q
          simp only [h3] at e
          cases h4 : a.pushRow (World.canonVals w.n shape vals) nid' with
          | ub x => simp [h4] at e
          | ok a' =>
            simp only [h4, Out.ok.injEq, Prod.mk.injEq] at e
            obtain ⟨rfl, _⟩ := e
            show P al
            rw [af.alloc] at h3
            exact hp.allocate hi.ainv pa h3
  | extend shape rows =>
    obtain ⟨ids, e⟩ := fstOut_ok e
    unfold World.extend at e
    cases h1 : w.archForEntity (Mask.ofShape w.n shape) with
    | ub x => simp [h1] at e
    | ok p =>
      obtain ⟨w1, hd⟩ := p
      have af := archForEntity_inv hi (by simp [Mask.ofShape]) h1
      simp only [h1] at e
      cases h2 : w1.getArch hd with
      | ub x => simp [h2] at e
      | ok a =>
        simp only [h2] at e
        cases h3 : w1.alloc.allocateBatch hd a.ids.length rows.length with
        | ub x => simp [h3] at e
        | ok q =>
          obtain ⟨al, nids⟩ := q
          simp only [h3] at e
          cases h4 : World.pushRows w.n shape a nids rows with
          | ub x => simp [h4] at e
          | ok a' =>
            simp only [h4, Out.ok.injEq, Prod.mk.injEq] at e
            obtain ⟨rfl, _⟩ := e
            show P al
            rw [af.alloc] at h3
            exact hp.batch hi.ainv pa h3
  | remove id =>
    obtain ⟨d, e⟩ := fstOut_ok e
    cases hg : w.alloc.get id with
    | none => simp [World.remove, hg] at e; obtain ⟨rfl, _⟩ := e; exact pa
    | some loc =>
      obtain ⟨a, la, hh⟩ := hi.liveAt hg
      have hr : loc.row < a.ids.length := (List.getElem?_eq_some_iff.mp la.row).1
      have hne0 : a.ids.length - 1 < a.ids.length := by omega
      have hlast : a.ids[a.ids.length - 1]? = some a.ids[a.ids.length - 1] := List.getElem?_eq_getElem hne0
      rw [remove_eq hi la hlast] at e
      simp only [Out.ok.injEq, Prod.mk.injEq] at e
      obtain ⟨rfl, _⟩ := e
      show P (removeAlloc w.alloc id a.ids[a.ids.length - 1] a.handle loc.row a.ids.length)
      obtain ⟨pf, hif, hlf⟩ := fixAlloc_pres hp.toS hi la hlast pa
      obtain ⟨l0, hl0⟩ := hlf
      obtain ⟨s0, hs0, hsg, _⟩ := get_eq_some.mp hl0
      have hrel : (fixAlloc w.alloc a.ids[a.ids.length - 1] a.handle loc.row a.ids.length).release id =
          .ok (removeAlloc w.alloc id a.ids[a.ids.length - 1] a.handle loc.row a.ids.length) := by
        rw [removeAlloc_eq_fix]
        unfold Alloc.release
        rw [hs0]
        simp only [hsg]
        rfl
      exact hp.release hif pf ⟨l0, hl0⟩ hrel
  | clear order =>
    obtain ⟨d, e⟩ := fstOut_ok e
    obtain ⟨w0, e0, rfl⟩ := clear_eq e
    obtain ⟨w0', d', hraw, hi0⟩ := clearRaw_inv hi order
    rw [hraw] at e0
    simp only [Out.ok.injEq, Prod.mk.injEq] at e0
    obtain ⟨rfl, rfl⟩ := e0
    have pal : P w0'.alloc := by
      unfold World.clearRaw at hraw
      simp only [] at hraw
      cases hfa : World.freeAll w.alloc ((w.visitOrder order).flatMap (·.ids)) with
      | ub x => simp [hfa] at hraw
      | ok al =>
        simp only [hfa, Out.ok.injEq, Prod.mk.injEq] at hraw
        obtain ⟨rfl, _⟩ := hraw
        show P al
        have hperm : ((w.visitOrder order).flatMap (·.ids)).Perm w.stored :=
          List.Perm.flatMap_right _ (List.mergeSort_perm _ _)
        refine hp.freeAll _ hi.ainv pa ?_ ?_ hfa
        · intro y hy
          obtain ⟨a, ha, r, hr⟩ := mem_stored (hperm.mem_iff.mp hy)
          exact ⟨_, hi.row_live ha hr⟩
        · exact (hperm.pairwise_iff (fun h => fun e' => h e'.symm)).mpr hi.stored_pairwise
    exact hp.reorder hi0.ainv pal (sortFreeFrom_perm _ _)
  | add id c v => exact step_spres hp.toS hi (by simp [Op.movesOnly]) pa e
  | del id c => exact step_spres hp.toS hi (by simp [Op.movesOnly]) pa e
  | write id c v => exact step_spres hp.toS hi (by simp [Op.movesOnly]) pa e
  | reserve shape => exact step_spres hp.toS hi (by simp [Op.movesOnly]) pa e
  | shrink => exact step_spres hp.toS hi (by simp [Op.movesOnly]) pa e

/-- … and so does every history. -/
theorem run_apres {P : Alloc → Prop} (hp : APres P) (ops : List Op) :
    ∀ {w w' : World}, Inv w → P w.alloc → run w ops = .ok w' → P w'.alloc := by
  induction ops with
  | nil => intro w w' _ pa e; simp [run] at e; subst e; exact pa
  | cons op ops ih =>
    intro w w' hi pa e
    simp only [run] at e
    cases h : step w op with
    | ub x => simp [h] at e
    | ok w1 => simp only [h] at e; exact ih (step_inv hi h) (step_apres hp hi pa h) e

/-! ### the two predicates of C02 -/

theorem apres_dead (x : Ident) : APres (fun a => Dead a x) :=
  ⟨fun _ d e => allocate_dead d e, fun _ d _ e => release_dead_other d e,
   fun _ d hl e => setLoc_dead_other d hl e, fun _ d _ => d⟩

theorem apres_ghost (issued : List Ident) : APres (fun a => Ghost a issued) := by
  refine ⟨?_, fun _ g _ e => release_ghost g e, fun _ g _ e => setLoc_ghost g e, fun _ g _ => g⟩
  intro a a' loc id _ g e
  have := allocate_ghost g e
  intro y hy
  exact this y (by simp [hy])

/-- `insert` obtains its identifier from one `allocate` call on the world's allocator. -/
theorem insert_alloc {w w' : World} {shape : List Nat} {vals : List Val} {nid : Ident} (hi : Inv w)
    (e : w.insert shape vals = .ok (w', nid)) : ∃ loc, w.alloc.allocate loc = .ok (w'.alloc, nid) := by
  unfold World.insert at e
  cases h1 : w.archForEntity (Mask.ofShape w.n shape) with
  | ub x => simp [h1] at e
  | ok p =>
    obtain ⟨w1, hd⟩ := p
    have af := archForEntity_inv hi (by simp [Mask.ofShape]) h1
    simp only [h1] at e
    cases h2 : w1.getArch hd with
    | ub x => simp [h2] at e
    | ok a =>
      simp only [h2] at e
      cases h3 : w1.alloc.allocate ⟨hd, a.ids.length⟩ with
      | ub x => simp [h3] at e
      | ok q =>
        obtain ⟨al, nid'⟩ := q
        simp only [h3] at e
        cases h4 : a.pushRow (World.canonVals w.n shape vals) nid' with
        | ub x => simp [h4] at e
        | ok a' =>
          simp only [h4, Out.ok.injEq, Prod.mk.injEq] at e
          obtain ⟨rfl, rfl⟩ := e
          rw [af.alloc] at h3
          exact ⟨_, h3⟩

/-- Removing a live identifier retires it. -/
theorem remove_makes_dead {w w' : World} {id : Ident} {drops : List Val} (hi : Inv w)
    (hl : (w.alloc.get id).isSome) (e : w.remove id = .ok (w', drops)) : Dead w'.alloc id := by
  cases hg : w.alloc.get id with
  | none => rw [hg] at hl; cases hl
  | some loc =>
    obtain ⟨a, la, hh⟩ := hi.liveAt hg
    have hr : loc.row < a.ids.length := (List.getElem?_eq_some_iff.mp la.row).1
    have hne0 : a.ids.length - 1 < a.ids.length := by omega
    rw [remove_eq hi la (List.getElem?_eq_getElem hne0)] at e
    simp only [Out.ok.injEq, Prod.mk.injEq] at e
    obtain ⟨rfl, _⟩ := e
    have hslot_id : w.alloc.slots[id.index]? = some ⟨id.gen, some ⟨a.handle, loc.row⟩⟩ := la.ok.rows _ id la.row
    have hid_lt : id.index < w.alloc.slots.length := (List.getElem?_eq_some_iff.mp hslot_id).1
    refine ⟨⟨id.gen, none⟩, ?_, Or.inr ⟨rfl, rfl⟩⟩
    show (removeAlloc w.alloc id _ a.handle loc.row a.ids.length).slots[id.index]? = _
    unfold removeAlloc
    simp only
    rw [List.getElem?_set_self (by split <;> simp [hid_lt])]

end Brood
