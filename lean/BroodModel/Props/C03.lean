import BroodModel.Query
namespace Brood
/-- Optional views and identifiers never restrict the result set. -/
theorem C03_optional_filter_true (m : Mask) (c : Nat) :
    (View.oref c).filter m = true ∧ (View.omut c).filter m = true ∧ View.ident.filter m = true := by
  simp [View.filter]
end Brood
#print axioms Brood.C03_optional_filter_true
