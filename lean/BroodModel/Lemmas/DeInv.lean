/-
  Whatever the token stream: if `Serde.deserialize` returns a world, that world satisfies the
  invariant (C11).
-/
import BroodModel.Lemmas.DeShape
import BroodModel.Lemmas.Clone

set_option linter.unusedSimpArgs false
set_option linter.unusedVariables false

namespace Brood
namespace Serde
open Alloc

theorem handles_of_consecutive {l : List Arch} {h0 : Nat}
    (h : ∀ (j : Nat) (a : Arch), l[j]? = some a → a.handle = h0 + j) :
    l.map (·.handle) = (List.range l.length).map (h0 + ·) := by
  apply List.ext_getElem?
  intro j
  rw [List.getElem?_map, List.getElem?_map]
  by_cases hj : j < l.length
  · rw [List.getElem?_eq_getElem hj, List.getElem?_range hj]
    simp [h j _ (List.getElem?_eq_getElem hj)]
  · simp [List.getElem?_eq_none, hj]

theorem nodup_of_consecutive {l : List Arch} {h0 : Nat}
    (h : ∀ (j : Nat) (a : Arch), l[j]? = some a → a.handle = h0 + j) : (l.map (·.handle)).Nodup := by
  rw [handles_of_consecutive h]
  have : ((List.range l.length).map (h0 + ·)).Pairwise (· < ·) :=
    List.pairwise_lt_range.map _ (by intro a b hab; omega)
  exact this.imp (by intro a b hab; omega)

/-- **The world assembled from accepted parts satisfies the invariant.** -/
theorem assemble_inv {n next : Nat} {archs : List Arch} {free : List Ident} {al : Alloc}
    (ha : ArchsOk n next archs) (hp : PartsOk free archs al) (res : List Val) :
    Inv (assemble n next archs al res) := by
  have hnd := nodup_of_consecutive ha.handles
  have hfind : ∀ a ∈ archs, (assemble n next archs al res).findArch a.handle = some a :=
    fun a ham => find_handle_of_mem hnd ham
  refine
    { free_nodup := ?_, free_inactive := ?_, slots := ?_, archs := ?_, masks_nodup := ha.masks,
      handles_nodup := hnd, typeIds := ?_, typeIds_nodup := List.nodup_nil,
      foreign := ?_, len := rfl }
  · show al.free.Nodup
    rw [hp.free_eq]; exact hp.free_nodup
  · intro i hif
    show (al.slots[i]?).map (·.loc) = some none
    rw [show (assemble n next archs al res).alloc.free = al.free from rfl, hp.free_eq] at hif
    obtain ⟨f, hf, rfl⟩ := List.mem_map.mp hif
    rw [hp.free_slot f hf]; rfl
  · intro i hlt
    apply slotOk_iff.mpr
    intro s hs
    rcases hp.cover i s hs with ⟨f, hf, hfi, rfl⟩ | ⟨id, l, hm, hidx, rfl⟩
    · refine ⟨fun _ => ?_, fun l hl => by simp at hl⟩
      show i ∈ al.free
      rw [hp.free_eq, ← hfi]; exact List.mem_map.mpr ⟨f, hf, rfl⟩
    · refine ⟨fun h => by simp at h, ?_⟩
      intro l' hl'
      simp only [Option.some.injEq] at hl'
      subst hl'
      obtain ⟨a, ham, hla, hrow⟩ := mem_rowsOf.mp hm
      refine ⟨a, by rw [hla]; exact hfind a ham, ?_, ?_⟩
      · rw [hrow, ← hidx]
      · show i ∉ al.free
        rw [hp.free_eq, ← hidx]; exact hp.row_not_free id l hm
  · intro a ham
    apply archOk_iff.mpr
    have sh := ha.shape a ham
    obtain ⟨j, hj⟩ := List.getElem?_of_mem ham
    refine
      { mask_len := sh.mask_len, handle_lt := ?_, cols_len := sh.cols_len,
        cols_all_len := sh.cols_all_len, cols_ok := sh.cols_ok, rows := ?_, foreign := ?_ }
    · show a.handle < next + archs.length
      rw [ha.handles j a hj]
      have hjl : j < archs.length := (List.getElem?_eq_some_iff.mp hj).1
      omega
    · intro r id hr
      show al.slots[id.index]? = some ⟨id.gen, some ⟨a.handle, r⟩⟩
      exact hp.row_slot id ⟨a.handle, r⟩ (mem_rowsOf.mpr ⟨a, ham, rfl, hr⟩)
    · show (a.mask, a.handle) ∈ archs.map (fun a => (a.mask, a.handle))
      exact List.mem_map.mpr ⟨a, ham, rfl⟩
  · intro p hp'
    cases hp'
  · intro p hp'
    obtain ⟨a, ham, rfl⟩ := List.mem_map.mp (hp' : p ∈ archs.map (fun a => (a.mask, a.handle)))
    unfold lookupOk
    simp only
    rw [hfind a ham]
    simp

theorem deArchsSeq_spec {k : Kinds} {hr : Bool} {n e next : Nat} {ts ts' : List Tok}
    {archs : List Arch} (h : deArchsSeq k hr n e next ts = .ok (archs, ts')) : ArchsOk n next archs := by
  unfold deArchsSeq at h
  split at h
  · rename_i o t1
    have h0 : ArchsOk n next [] := ⟨by simp, by simp, List.nodup_nil⟩
    have : next = next + ([] : List Arch).length := by simp
    rw [this] at h
    exact deArchs_spec k hr n e next _ h0 h
  · cases h
  · cases h

/-- **C11, structural part**: for every token stream, both encodings, every registry size and
resource count — deserialization returns an error or a world satisfying the invariant. -/
theorem deserialize_inv {k : Kinds} {hr : Bool} {n nres e next : Nat} {toks : List Tok} {w : World}
    (h : deserialize k hr n nres e next toks = .ok w) : Inv w := by
  unfold deserialize at h
  cases h0 : expectTup 3 toks with
  | error err => simp [h0] at h
  | ok r0 =>
    simp only [h0] at h
    cases h1 : elem Tok.tupE (deArchsSeq k hr n e next) r0.2 with
    | error err => simp [h1] at h
    | ok r1 =>
      obtain ⟨archs, t1⟩ := r1
      simp only [h1] at h
      cases h2 : elem Tok.tupE deAllocParts t1 with
      | error err => simp [h2] at h
      | ok r2 =>
        obtain ⟨⟨length, free⟩, t2⟩ := r2
        simp only [h2] at h
        cases h3 : fromParts length free archs with
        | error err => simp [h3] at h
        | ok al =>
          simp only [h3] at h
          cases h4 : elem Tok.tupE (deRes k nres e) t2 with
          | error err => simp [h4] at h
          | ok r4 =>
            obtain ⟨res, t4⟩ := r4
            simp only [h4] at h
            cases h5 : assertEnded false Tok.tupE t4 with
            | error err => simp [h5] at h
            | ok r5 =>
              simp only [h5, Except.ok.injEq] at h
              subst h
              obtain ⟨ta, hta⟩ := elem_ok h1
              exact assemble_inv (deArchsSeq_spec hta) (fromParts_spec h3) res

end Serde
end Brood
