import BroodModel.Inv
namespace Brood
theorem C05_init_inv (n : Nat) (res : List Val) : Inv (World.init n res) := by
  constructor <;> simp [World.init, Alloc.empty]
end Brood
#print axioms Brood.C05_init_inv
