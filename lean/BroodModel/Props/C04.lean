/-
  C04 — Every component value is dropped exactly once.

  Values carry identities (`Val.id`, the ledger identity the harness gives every component), so
  "exactly once" is a statement about multisets: after any history, the values the world owns
  (`World.values`: what dropping the world drops) together with everything dropped so far are a
  permutation of the resources and component values moved in so far.  The per-operation theorems
  say *when* a value is dropped: `remove` drops that entity's row, `Entry::add` on a present
  component drops the old value, `Entry::remove` drops the detached value, `clear` drops every
  stored value, a write drops the overwritten value, and nothing else is dropped.

  `clone` owns copies with identities of their own (`C04_clone_owns_copies`); `clone_from` drops
  exactly what the destination owned, each value once (`C04_clone_from_drops`) and then owns
  copies of the source (C10).  Ownership of deserialized values and what a failing
  deserialization drops are decided by the correspondence check's ledger.
-/
import BroodModel.Lemmas.Ledger
import BroodModel.Lemmas.CloneFromDrops

namespace Brood

/-! ### the canonical row is a permutation of the written values -/

theorem mem_zip_map_ty {vals : List Val} {c : Nat} {v : Val} :
    (c, v) ∈ (vals.map (·.ty)).zip vals ↔ v ∈ vals ∧ c = v.ty := by
  induction vals with
  | nil => simp
  | cons y ys ih =>
    simp only [List.map_cons, List.zip_cons_cons, List.mem_cons, Prod.mk.injEq, ih]
    constructor
    · rintro (⟨h1, h2⟩ | ⟨h1, h2⟩)
      · exact ⟨Or.inl h2, by rw [h1, h2]⟩
      · exact ⟨Or.inr h1, h2⟩
    · rintro ⟨h1 | h1, h2⟩
      · exact Or.inl ⟨by rw [h2, h1], h1⟩
      · exact Or.inr ⟨h1, h2⟩

theorem nodup_of_map_ty {l : List Val} (h : (l.map (·.ty)).Nodup) : l.Nodup := by
  induction l with
  | nil => exact List.nodup_nil
  | cons x xs ih =>
    simp only [List.map_cons, List.nodup_cons] at h ⊢
    exact ⟨fun hm => h.1 (List.mem_map.mpr ⟨x, hm, rfl⟩), ih h.2⟩

theorem canonVals_perm {n : Nat} {shape : List Nat} {vals : List Val}
    (h : World.shapeOk n shape vals = true) : (World.canonVals n shape vals).Perm vals := by
  have htys := canonVals_tys h
  unfold World.shapeOk at h
  simp only [Bool.and_eq_true, beq_iff_eq, decide_eq_true_eq, List.all_eq_true] at h
  obtain ⟨⟨hnd, hall⟩, hty⟩ := h
  have hvn : vals.Nodup := nodup_of_map_ty (by rw [hty]; exact hnd)
  have hcn : (World.canonVals n shape vals).Nodup :=
    nodup_of_map_ty (by rw [htys]; exact comps_nodup _)
  apply (List.perm_ext_iff_of_nodup hcn hvn).mpr
  intro v
  unfold World.canonVals
  simp only [List.mem_filterMap, List.mem_range]
  have hkeys : ((shape.zip vals).map (·.1)).Nodup := by
    rw [List.map_fst_zip (by rw [← hty]; simp)]; exact hnd
  constructor
  · rintro ⟨c, _, hl⟩
    have := (lookup_some_iff' hkeys).mp hl
    rw [← hty] at this
    exact (mem_zip_map_ty.mp this).1
  · intro hv
    refine ⟨v.ty, ?_, ?_⟩
    · exact hall v.ty (by rw [← hty]; exact List.mem_map.mpr ⟨v, hv, rfl⟩)
    · apply (lookup_some_iff' hkeys).mpr
      rw [← hty]
      exact mem_zip_map_ty.mpr ⟨hv, rfl⟩
where
  lookup_some_iff' {l : List (Nat × Val)} (hn : (l.map (·.1)).Nodup) {c : Nat} {v : Val} :
      l.lookup c = some v ↔ (c, v) ∈ l := by
    induction l with
    | nil => simp
    | cons p ps ih =>
      obtain ⟨k, x⟩ := p
      simp only [List.map_cons, List.nodup_cons] at hn
      simp only [List.lookup_cons, List.mem_cons, Prod.mk.injEq]
      by_cases hck : c = k
      · subst hck
        simp only [beq_self_eq_true, Option.some.injEq, true_and]
        constructor
        · intro h; exact Or.inl h.symm
        · rintro (h | h)
          · exact h.symm
          · exact absurd (List.mem_map.mpr ⟨(c, v), h, rfl⟩) hn.1
      · have : (c == k) = false := by simpa using hck
        simp only [this, hck, false_and, false_or]
        exact ih hn.2

/-! ### operations with their drops and the values moved in -/

/-- One step, returning the new world, the values dropped by the step and the values moved into
the world by the step (the caller keeps a value that `Entry::add` / a write did not consume). -/
def stepD (w : World) : Op → Out (World × List Val × List Val)
  | .insert shape vals =>
    match w.insert shape vals with
    | .ok (w', _) => .ok (w', [], vals)
    | .ub e => .ub e
  | .extend shape rows =>
    match w.extend shape rows with
    | .ok (w', _) => .ok (w', [], rows.flatten)
    | .ub e => .ub e
  | .remove id =>
    match w.remove id with
    | .ok (w', d) => .ok (w', d, [])
    | .ub e => .ub e
  | .clear order =>
    match w.clear order with
    | .ok (w', d) => .ok (w', d, [])
    | .ub e => .ub e
  | .add id c v =>
    match w.entryAdd id c v with
    | .ok (w', r) => .ok (w', r.getD [], if r.isSome then [v] else [])
    | .ub e => .ub e
  | .del id c =>
    match w.entryRemove id c with
    | .ok (w', r) => .ok (w', r.getD [], [])
    | .ub e => .ub e
  | .write id c v =>
    match w.write id c v with
    | .ok (w', r) => .ok (w', r.getD [], if r.isSome then [v] else [])
    | .ub e => .ub e
  | .reserve shape =>
    match w.reserve shape with
    | .ok w' => .ok (w', [], [])
    | .ub e => .ub e
  | .shrink => .ok (w.shrinkToFit, [], [])

/-- `stepD` is `step` with bookkeeping. -/
theorem stepD_step {w w' : World} {op : Op} {d i : List Val} (e : stepD w op = .ok (w', d, i)) :
    step w op = .ok w' := by
  cases op <;> simp only [stepD, step] at e ⊢
  all_goals first
    | (split at e <;> simp at e; rename_i h; obtain ⟨rfl, _, _⟩ := e; simp [h, fstOut])
    | (simp at e; obtain ⟨rfl, _, _⟩ := e; rfl)

theorem count_flatten_map_perm (x : Val) {n : Nat} {shape : List Nat} (rows : List (List Val))
    (h : ∀ r ∈ rows, World.shapeOk n shape r = true) :
    ((rows.map (World.canonVals n shape)).flatten).count x = rows.flatten.count x := by
  induction rows with
  | nil => rfl
  | cons r rs ih =>
    simp only [List.map_cons, List.flatten_cons, List.count_append]
    rw [ih (fun y hy => h y (by simp [hy])), (canonVals_perm (h r (by simp))).count_eq]

/-- **Conservation, one step**: owned-after + dropped = owned-before + moved-in, for every value. -/
theorem C04_step (x : Val) {w w' : World} (hi : Inv w) {op : Op} (hwt : op.wt w.n) {d i : List Val}
    (e : stepD w op = .ok (w', d, i)) : w'.cnt x + d.count x = w.cnt x + i.count x := by
  cases op with
  | insert shape vals =>
    simp only [stepD] at e
    cases h : w.insert shape vals with
    | ub y => simp [h] at e
    | ok p =>
      obtain ⟨w1, nid⟩ := p
      simp [h] at e; obtain ⟨rfl, rfl, rfl⟩ := e
      have := insert_cnt x hi h
      rw [(canonVals_perm hwt).count_eq] at this
      simpa using this
  | extend shape rows =>
    simp only [stepD] at e
    cases h : w.extend shape rows with
    | ub y => simp [h] at e
    | ok p =>
      obtain ⟨w1, ids⟩ := p
      simp [h] at e; obtain ⟨rfl, rfl, rfl⟩ := e
      have := extend_cnt x hi h
      rw [count_flatten_map_perm x rows hwt] at this
      simpa using this
  | remove id =>
    simp only [stepD] at e
    cases h : w.remove id with
    | ub y => simp [h] at e
    | ok p =>
      obtain ⟨w1, dr⟩ := p
      simp [h] at e; obtain ⟨rfl, rfl, rfl⟩ := e
      simpa using remove_cnt x hi h
  | clear order =>
    simp only [stepD] at e
    cases h : w.clear order with
    | ub y => simp [h] at e
    | ok p =>
      obtain ⟨w1, dr⟩ := p
      simp [h] at e; obtain ⟨rfl, rfl, rfl⟩ := e
      simpa using clear_cnt x h
  | add id c v =>
    simp only [stepD] at e
    cases h : w.entryAdd id c v with
    | ub y => simp [h] at e
    | ok p =>
      obtain ⟨w1, r⟩ := p
      simp [h] at e; obtain ⟨rfl, rfl, rfl⟩ := e
      have := entryAdd_cnt x hi h
      cases r <;> simpa using this
  | del id c =>
    simp only [stepD] at e
    cases h : w.entryRemove id c with
    | ub y => simp [h] at e
    | ok p =>
      obtain ⟨w1, r⟩ := p
      simp [h] at e; obtain ⟨rfl, rfl, rfl⟩ := e
      simpa using entryRemove_cnt x hi h
  | write id c v =>
    simp only [stepD] at e
    cases h : w.write id c v with
    | ub y => simp [h] at e
    | ok p =>
      obtain ⟨w1, r⟩ := p
      simp [h] at e; obtain ⟨rfl, rfl, rfl⟩ := e
      have := write_cnt x hi h
      cases r <;> simpa using this
  | reserve shape =>
    simp only [stepD] at e
    cases h : w.reserve shape with
    | ub y => simp [h] at e
    | ok w1 =>
      simp [h] at e; obtain ⟨rfl, rfl, rfl⟩ := e
      simpa using reserve_cnt x h
  | shrink =>
    simp only [stepD, Out.ok.injEq, Prod.mk.injEq] at e
    obtain ⟨rfl, rfl, rfl⟩ := e
    simpa using shrink_cnt x hi

/-- A history with its accumulated drops and moved-in values. -/
def runD (w : World) : List Op → Out (World × List Val × List Val)
  | [] => .ok (w, [], [])
  | op :: ops =>
    match stepD w op with
    | .ub e => .ub e
    | .ok (w1, d1, i1) =>
      match runD w1 ops with
      | .ub e => .ub e
      | .ok (w', d, i) => .ok (w', d1 ++ d, i1 ++ i)

theorem runD_law (x : Val) (ops : List Op) :
    ∀ {w w' : World} {d i : List Val}, Inv w → (∀ op ∈ ops, op.wt w.n) →
      runD w ops = .ok (w', d, i) → w'.cnt x + d.count x = w.cnt x + i.count x := by
  induction ops with
  | nil =>
    intro w w' d i _ _ e
    simp [runD] at e; obtain ⟨rfl, rfl, rfl⟩ := e; simp
  | cons op ops ih =>
    intro w w' d i hi hwt e
    simp only [runD] at e
    cases h1 : stepD w op with
    | ub y => simp [h1] at e
    | ok p =>
      obtain ⟨w1, d1, i1⟩ := p
      simp only [h1] at e
      cases h2 : runD w1 ops with
      | ub y => simp [h2] at e
      | ok q =>
        obtain ⟨w2, d2, i2⟩ := q
        simp only [h2, Out.ok.injEq, Prod.mk.injEq] at e
        obtain ⟨rfl, rfl, rfl⟩ := e
        have hs := stepD_step h1
        have c1 := C04_step x hi (hwt op (by simp)) h1
        have c2 := ih (step_inv hi hs) (fun o ho => by rw [step_n hi hs]; exact hwt o (by simp [ho])) h2
        simp only [List.count_append]
        omega

/-- **Conservation over every history**: what the world owns at the end (the values dropping it
would drop) together with everything dropped along the way is a permutation of the resources and
component values moved in.  No value is lost, none is dropped twice, none is dropped while still
owned. -/
theorem C04_conservation (n : Nat) (res : List Val) (ops : List Op) (hwt : ∀ op ∈ ops, op.wt n)
    {w : World} {d i : List Val} (e : runD (World.init n res) ops = .ok (w, d, i)) :
    (w.values ++ d).Perm (res ++ i) := by
  apply List.perm_iff_count.mpr
  intro x
  have := runD_law x ops (inv_init n res) hwt e
  rw [World.cnt_eq, World.cnt_eq] at this
  simp only [List.count_append]
  have h0 : (World.init n res).values = res := by simp [World.values, World.init]
  rw [h0] at this
  omega

/-- If every value moved in has its own identity, then no value is dropped twice, no dropped value
is still owned, and every value moved in is either still owned or has been dropped. -/
theorem C04_exactly_once (n : Nat) (res : List Val) (ops : List Op) (hwt : ∀ op ∈ ops, op.wt n)
    {w : World} {d i : List Val} (e : runD (World.init n res) ops = .ok (w, d, i))
    (hdistinct : (res ++ i).Nodup) :
    d.Nodup ∧ w.values.Nodup ∧ (∀ v ∈ d, v ∉ w.values) ∧ (∀ v ∈ res ++ i, v ∈ w.values ∨ v ∈ d) := by
  have hp := C04_conservation n res ops hwt e
  have hn : (w.values ++ d).Nodup := hp.symm.nodup hdistinct
  rw [List.nodup_append] at hn
  refine ⟨hn.2.1, hn.1, fun v hv hw => hn.2.2 v hw v hv rfl, ?_⟩
  intro v hv
  have := hp.symm.mem_iff.mp hv
  simpa using this

/-! ### when values are dropped -/

/-- `remove` drops exactly the removed entity's values; a dead identifier drops nothing. -/
theorem C04_remove_drops {w w' : World} {id : Ident} {drops : List Val} (hi : Inv w)
    (e : w.remove id = .ok (w', drops)) : drops = (w.entity id).getD [] :=
  (remove_entity hi e).2.2.1

/-- **Replaced by `clone_from`**: the values dropped by `clone_from` are exactly the component
values and resources the destination owned before, each once — whether their table was
overwritten in place or cleared because the source has no table of that shape. -/
theorem C04_clone_from_drops {d s fin : World} {drops : List Val} (hd : Inv d) (hs : Inv s)
    (hn : d.n = s.n) {e : Nat} (h : World.cloneFrom d s e = .ok (fin, drops)) : drops.Perm d.values :=
  cloneFrom_drops hd hs hn h

/-- **Values produced by `clone` are owned independently**: the clone owns one copy per value of
the original (same order), and a copy's ledger identity differs from every identity of epoch 0. -/
theorem C04_clone_owns_copies {w w' : World} (hi : Inv w) {e next : Nat} (h : w.clone e next = .ok w') :
    w'.values = w.values.map (cloneVal e) ∧
    (0 < e → ∀ v ∈ w'.values, ∀ u : Val, u.id < epochBase → v.id ≠ u.id) := by
  refine ⟨clone_values hi h, ?_⟩
  intro he v hv u hu
  rw [clone_values hi h] at hv
  obtain ⟨v0, _, rfl⟩ := List.mem_map.mp hv
  unfold cloneVal epochBase at *
  simp only
  have : e * 1048576 ≥ 1048576 := Nat.le_mul_of_pos_left _ he
  omega

/-- Non-vacuity: a history with drops, evaluated. -/
example :
    (match runD (World.init 3 [⟨9, 90⟩])
      [.insert [1, 0] [⟨1, 11⟩, ⟨0, 10⟩], .add ⟨0, 0⟩ 1 ⟨1, 12⟩, .del ⟨0, 0⟩ 0, .remove ⟨0, 0⟩] with
     | .ok (w, d, i) => (w.values, d, i)
     | .ub _ => ([], [], [])) =
    ([⟨9, 90⟩], [⟨1, 11⟩, ⟨0, 10⟩, ⟨1, 12⟩], [⟨1, 11⟩, ⟨0, 10⟩, ⟨1, 12⟩]) := by decide

end Brood

#print axioms Brood.canonVals_perm
#print axioms Brood.C04_step
#print axioms Brood.C04_conservation
#print axioms Brood.C04_exactly_once
#print axioms Brood.C04_remove_drops
#print axioms Brood.C04_clone_from_drops
#print axioms Brood.C04_clone_owns_copies
