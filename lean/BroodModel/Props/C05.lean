/-
  C05 — No safe call sequence corrupts or misuses memory in the column store.

  The L1 model performs every access the real code performs unchecked (`get_unchecked`,
  `unwrap_unchecked`, raw-parts reconstruction of a column with the shared length, reading a column
  as the component type the bit walk says it has) as a *checked* access: a violated precondition
  is the outcome `Out.ub`.  The theorems say that outcome is unreachable.

  Modelled rather than verified: allocation and release of the buffers themselves (sizes,
  alignments, double free) — those are decided on the real code by the tracking allocator of the
  correspondence check; the model says which *indices, columns, types and lengths* are used.
-/
import BroodModel.Lemmas.NoUB

namespace Brood

/-- **No unchecked access with a violated precondition, in any history.**  Starting from the empty
world, every sequence of public single-world operations whose arguments the type system admits
(`Op.wt`) runs to completion — no out-of-range slot, row or column index, no missing table, no
column read at another component's type, no column whose length differs from the shared length —
and ends in a world satisfying the structural invariant. -/
theorem C05_no_ub (n : Nat) (res : List Val) (ops : List Op) (hwt : ∀ op ∈ ops, op.wt n) :
    ∃ w, run (World.init n res) ops = .ok w ∧ Inv w := by
  obtain ⟨w, h, hi, _⟩ := run_total (inv_init n res) ops hwt
  exact ⟨w, h, hi⟩

/-- The same from any world satisfying the invariant (e.g. a clone or a deserialized world). -/
theorem C05_no_ub_from {w : World} (hi : Inv w) (ops : List Op) (hwt : ∀ op ∈ ops, op.wt w.n) :
    ∀ e, run w ops ≠ .ub e := by
  obtain ⟨w', h, _⟩ := run_total hi ops hwt
  intro e he; rw [h] at he; cases he

/-- **A stored value is never reinterpreted**: in every reachable world, column `k` of a table
holds only values of the `k`-th component of the table's component set, and exactly as many as
the table has rows. -/
theorem C05_columns_typed (n : Nat) (res : List Val) (ops : List Op) {w : World}
    (h : run (World.init n res) ops = .ok w) {a : Arch} (ha : a ∈ w.archs) {k : Nat} {col : List Val}
    {ty : Nat} (hc : a.cols[k]? = some col) (hty : a.mask.comps[k]? = some ty) :
    col.length = a.ids.length ∧ ∀ v ∈ col, v.ty = ty :=
  ((run_inv (inv_init n res) ops h).archOk ha).cols_ok k col ty hc hty

/-- **Every access of a live entity is in bounds**: the location of a live identifier names an
existing table, a row below the shared length, and every column of that table has that row. -/
theorem C05_live_in_bounds (n : Nat) (res : List Val) (ops : List Op) {w : World}
    (h : run (World.init n res) ops = .ok w) {id : Ident} {l : Loc} (hg : w.alloc.get id = some l) :
    ∃ a, w.findArch l.arch = some a ∧ l.row < a.ids.length ∧ a.cols.length = a.mask.count ∧
      ∀ c ∈ a.cols, l.row < c.length := by
  have hi := run_inv (inv_init n res) ops h
  obtain ⟨a, la, hh⟩ := hi.liveAt hg
  have hr : l.row < a.ids.length := (List.getElem?_eq_some_iff.mp la.row).1
  refine ⟨a, by rw [← hh]; exact la.find, hr, la.ok.cols_len, ?_⟩
  intro c hc
  rw [la.ok.cols_all_len c hc]; exact hr

/-- The cell a typed access of component `c` reaches holds a value of type `c`. -/
theorem C05_cell_typed {w : World} (hi : Inv w) {id : Ident} {l : Loc} (hg : w.alloc.get id = some l)
    {a : Arch} (hf : w.findArch l.arch = some a) {c : Nat} (hc : a.mask.has c = true) :
    ∃ col v, a.cols[colIndex a.mask c]? = some col ∧ col[l.row]? = some v ∧ v.ty = c := by
  obtain ⟨a', la, hh⟩ := hi.liveAt hg
  have : a' = a := by
    have h1 := la.find; rw [hh, hf] at h1; cases h1; rfl
  subst this
  exact cell_ok la.ok hc (List.getElem?_eq_some_iff.mp la.row).1

/-- Non-vacuity: an admissible history that creates, reshapes, overwrites, removes and clears. -/
example :
    let ops : List Op :=
      [.insert [1, 0] [⟨1, 11⟩, ⟨0, 10⟩], .extend [2] [[⟨2, 20⟩], [⟨2, 21⟩]],
       .add ⟨0, 0⟩ 2 ⟨2, 22⟩, .del ⟨0, 0⟩ 1, .write ⟨1, 0⟩ 2 ⟨2, 23⟩, .remove ⟨2, 0⟩,
       .insert [0] [⟨0, 12⟩], .shrink, .reserve [1]]
    (∀ op ∈ ops, op.wt 3) ∧ (run (World.init 3 []) ops).isOk = true := by
  refine ⟨?_, by decide⟩
  intro op hop
  simp only [List.mem_cons, List.mem_nil_iff, or_false] at hop
  rcases hop with rfl | rfl | rfl | rfl | rfl | rfl | rfl | rfl | rfl <;> simp [Op.wt, World.shapeOk]

end Brood

#print axioms Brood.C05_no_ub
#print axioms Brood.C05_no_ub_from
#print axioms Brood.C05_columns_typed
#print axioms Brood.C05_live_in_bounds
#print axioms Brood.C05_cell_typed
