import BroodModel.Inv
namespace Brood
theorem C13_inv_init (n : Nat) (res : List Val) : Inv (World.init n res) := by
  constructor <;> simp [World.init, Alloc.empty]
end Brood
#print axioms Brood.C13_inv_init
