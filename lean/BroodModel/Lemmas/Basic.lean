/-
  Lemmas about the list primitives of BroodModel.Basic (`Vec::swap_remove`, …).
-/
import BroodModel.Basic

set_option linter.unusedSimpArgs false
namespace Brood
theorem swapRemove_length {α} (l : List α) (i : Nat) (h : i < l.length) :
    (swapRemove l i).length = l.length - 1 := by
  unfold swapRemove
  cases hl : l.getLast? with
  | none => simp [List.getLast?_eq_none_iff] at hl; subst hl; simp at h
  | some x => simp

theorem swapRemove_getElem? {α} (l : List α) (i j : Nat) (h : i < l.length) :
    (swapRemove l i)[j]? =
      if j + 1 < l.length then (if j = i then l[l.length - 1]? else l[j]?) else none := by
  unfold swapRemove
  cases hl : l.getLast? with
  | none => simp [List.getLast?_eq_none_iff] at hl; subst hl; simp at h
  | some x =>
    have hx : l[l.length - 1]? = some x := by
      rw [List.getLast?_eq_getElem?] at hl; exact hl
    simp only [List.getElem?_dropLast, List.length_set]
    by_cases hj : j + 1 < l.length
    · have : j < l.length - 1 := by omega
      simp only [this, hj, if_true]
      by_cases hji : j = i
      · subst hji; simp [List.getElem?_set, h, hx]
      · simp [List.getElem?_set, hji, Ne.symm hji]
    · have : ¬ j < l.length - 1 := by omega
      simp [this, hj]
theorem mem_swapRemove {α} {l : List α} {i : Nat} {x : α} (h : x ∈ swapRemove l i) : x ∈ l := by
  unfold swapRemove at h
  cases hl : l.getLast? with
  | none => simpa [hl] using h
  | some last =>
    simp only [hl] at h
    have hmem := List.dropLast_subset _ h
    rcases List.mem_or_eq_of_mem_set hmem with h1 | h1
    · exact h1
    · subst h1; exact List.mem_of_getLast? hl

end Brood
